import Mathlib.Tactic.Ring
import Mathlib.Tactic.Linarith
import Mathlib.Tactic.FieldSimp
import Mathlib.Tactic.NormNum
import PbModel.Concat
import PbProofs.Freq

namespace Pb.Concat
open Pb.Crop Pb.Freq

theorem rabs_nonneg (q : Rat) : 0 ≤ rabs q := by
  unfold rabs; split <;> linarith

theorem rabs_zero : rabs 0 = 0 := by simp [rabs]

theorem uclose_self (a : Rat) : uclose a a = true := by
  unfold uclose
  simp only [sub_self, rabs_zero, decide_eq_true_eq]
  exact mul_nonneg (by norm_num) (rabs_nonneg a)

theorem isclose_self (α a : Rat) (hα : 0 ≤ α) : isclose α a a = true := by
  unfold isclose
  simp [rabs_zero, hα]

theorem timeLoop_append (α sr : Rat) :
    ∀ (xs ys : List Piece) (n : Nat) (ref : Option Rat),
      timeLoop α sr (xs ++ ys) n ref =
        match timeLoop α sr xs n ref with
        | .ok (ref', n') => timeLoop α sr ys n' ref'
        | .error e => .error e := by
  intro xs
  induction xs with
  | nil => intro ys n ref; simp [timeLoop]
  | cons p rest ih =>
    intro ys n ref
    simp only [List.cons_append, timeLoop]
    cases p.led.t0 with
    | none => simp only; exact ih ys _ ref
    | some t =>
      cases ref with
      | none => simp only; exact ih ys _ _
      | some r =>
        simp only
        split
        · exact ih ys _ _
        · rfl

/-- consecutive pieces of one signal pass the contiguity loop, and the reference start is the
start of the spanned range whenever some piece kept its start time. -/
theorem timeLoop_pieces (α : Rat) (hα : 0 ≤ α) (cls : Nat) (L : Ledger) (B : Option Band)
    (hr : L.rate ≠ 0) (base : Nat) :
    ∀ (parts : List (Nat × Bool)) (n : Nat) (ref : Option Rat),
      (ref = none ∨ ref = L.t0.map (· + base / L.rate)) →
      timeLoop α L.rate (timePieces cls L B (base + n) parts) n ref =
        .ok (if (parts.any (·.2) && L.t0.isSome) then L.t0.map (· + base / L.rate) else ref,
             n + (parts.map (·.1)).sum) := by
  intro parts
  induction parts with
  | nil => intro n ref _; simp [timePieces, timeLoop]
  | cons hd rest ih =>
    intro n ref href
    obtain ⟨len, keep⟩ := hd
    simp only [timePieces, timeLoop, timePiece, List.map_cons, List.sum_cons, List.any_cons]
    have hoff : base + n + len = base + (n + len) := by omega
    cases hk : keep with
    | false =>
      simp only [Bool.false_eq_true, if_false, Bool.false_or]
      rw [hoff, ih (n + len) ref href]
      congr 2; omega
    | true =>
      cases ht : L.t0 with
      | none =>
        simp only [if_true, Option.map_none]
        rw [hoff, ih (n + len) ref href]
        simp [ht]; omega
      | some t =>
        simp only [if_true, Option.map_some, Bool.true_or, Option.isSome_some, Bool.and_true]
        have e1 : t + ((base + n : Nat) : Rat) / L.rate - (n : Rat) / L.rate = t + (base : Rat) / L.rate := by
          push_cast; field_simp; ring
        rcases href with href | href
        · subst href
          simp only
          rw [hoff, ih (n + len) _ (Or.inr (by rw [ht, e1]; rfl))]
          simp only [ht, Option.isSome_some, Bool.and_true, Option.map_some, e1]
          have : n + len + (List.map (fun x => x.1) rest).sum = n + (len + (List.map (fun x => x.1) rest).sum) := by omega
          rw [this]
          split <;> rfl
        · rw [href, ht]
          simp only [Option.map_some]
          have e2 : t + (base : Rat) / L.rate + (n : Rat) / L.rate = t + ((base + n : Nat) : Rat) / L.rate := by
            push_cast; field_simp; ring
          rw [e2, isclose_self α _ hα]
          simp only [if_true]
          rw [hoff, ih (n + len) _ (Or.inr (by rw [ht]; rfl))]
          simp only [ht, Option.isSome_some, Bool.and_true, Option.map_some]
          have : n + len + (List.map (fun x => x.1) rest).sum = n + (len + (List.map (fun x => x.1) rest).sum) := by omega
          rw [this]
          split <;> rfl

/-- a piece whose start time is off by more than `α` from where the running count puts it is
rejected, whatever follows -/
theorem timeLoop_reject (α sr : Rat) (p : Piece) (rest : List Piece) (n : Nat) (r t : Rat)
    (ht : p.led.t0 = some t) (hgap : α < rabs (r + n / sr - t)) :
    timeLoop α sr (p :: rest) n (some r) = .error .valueError := by
  simp only [timeLoop, ht]
  have : isclose α (r + n / sr) t = false := by
    unfold isclose
    simp only [decide_eq_false_iff_not, not_le]
    exact hgap
  simp [this]

theorem recenter_label (b : Band) (i : Int) :
    ({ cf := (b.label 0 + b.label ((b.n : Int) - 1)) / 2, bw := b.bw, n := b.n, al := "center" } : Band).label i
      = b.label i := by
  unfold Band.label
  simp only [alignVal_center, Option.getD_some]
  push_cast
  ring

theorem timePieces_all (cls : Nat) (L : Ledger) (B : Option Band) (P : Piece → Bool)
    (hP : ∀ off len keep, P (timePiece cls L B off len keep) = true) :
    ∀ (parts : List (Nat × Bool)) (off : Nat), (timePieces cls L B off parts).all P = true := by
  intro parts
  induction parts with
  | nil => intro off; simp [timePieces]
  | cons hd rest ih =>
    intro off
    obtain ⟨len, keep⟩ := hd
    simp only [timePieces, List.all_cons, Bool.and_eq_true]
    exact ⟨hP off len keep, ih _⟩

theorem timePieces_bands (cls : Nat) (L : Ledger) (B : Option Band) :
    ∀ (parts : List (Nat × Bool)) (off : Nat) (b' : Band),
      b' ∈ (timePieces cls L B off parts).filterMap (·.band) → B = some b' := by
  cases B with
  | none =>
    intro parts
    induction parts with
    | nil => intro off b' h; simp [timePieces] at h
    | cons hd rest ih =>
      intro off b' h
      obtain ⟨len, keep⟩ := hd
      simp only [timePieces, List.filterMap_cons, timePiece] at h
      exact ih _ _ h
  | some b =>
    intro parts
    induction parts with
    | nil => intro off b' h; simp [timePieces] at h
    | cons hd rest ih =>
      intro off b' h
      obtain ⟨len, keep⟩ := hd
      simp only [timePieces, List.filterMap_cons, timePiece, List.mem_cons] at h
      rcases h with h | h
      · rw [h]
      · exact ih _ _ h

theorem labelsClose_self (b : Band) (hbw : 0 ≤ b.bw) : labelsClose b b = true := by
  unfold labelsClose
  simp only [beq_self_eq_true, Bool.true_and, List.all_eq_true, decide_eq_true_eq]
  intro i _
  simp only [sub_self, rabs_zero]
  exact mul_nonneg (by norm_num) hbw

/-- labels offset by a whole channel or more are not close -/
theorem labelsClose_shift (a b : Band) (hbw : 0 < a.bw) (hn : 1 ≤ a.n)
    (hd : a.bw ≤ rabs (a.label 0 - b.label 0)) : labelsClose a b = false := by
  unfold labelsClose
  by_cases hnn : a.n = b.n
  · simp only [hnn, beq_self_eq_true, Bool.true_and]
    rw [← hnn]
    apply Bool.eq_false_iff.mpr
    intro hall
    rw [List.all_eq_true] at hall
    have := hall 0 (by simp; omega)
    simp only [decide_eq_true_eq] at this
    have h0 : ((0 : Nat) : Int) = 0 := rfl
    rw [h0] at this
    nlinarith
  · have : (a.n == b.n) = false := by simpa using hnn
    simp [this]

/-- what `concatenate` makes of a band when not joining along frequency: same labels, re-expressed
with `freq_align='center'` -/
def recenter (b : Band) : Band :=
  { cf := (b.label 0 + b.label ((b.n : Int) - 1)) / 2, bw := b.bw, n := b.n, al := "center" }

theorem recenter_label' (b : Band) (i : Int) : (recenter b).label i = b.label i := recenter_label b i

/-- **split ∘ concat along time**: concatenating consecutive pieces of one signal (any cut points,
empty pieces, any subset of pieces without start time) gives the spanned range of the original. -/
theorem concat_time_pieces (α : Rat) (hα : 0 ≤ α) (cls : Nat) (L : Ledger) (B : Option Band)
    (hr : L.rate ≠ 0) (hbw : ∀ b, B = some b → 0 ≤ b.bw) (base : Nat) (parts : List (Nat × Bool))
    (hne : parts ≠ []) :
    concat α .time (timePieces cls L B base parts) =
      .ok { cls := cls,
            led := { t0 := if (parts.any (·.2) && L.t0.isSome) then L.t0.map (· + base / L.rate) else none,
                     rate := L.rate, len := (parts.map (·.1)).sum },
            band := B.map recenter } := by
  obtain ⟨⟨len0, keep0⟩, rest, rfl⟩ : ∃ hd rest, parts = hd :: rest := by
    cases parts with
    | nil => exact absurd rfl hne
    | cons hd rest => exact ⟨hd, rest, rfl⟩
  have hps : timePieces cls L B base ((len0, keep0) :: rest)
      = timePiece cls L B base len0 keep0 :: timePieces cls L B (base + len0) rest := rfl
  have hall1 := timePieces_all cls L B (fun p => p.cls == cls) (by intros; simp [timePiece])
    ((len0, keep0) :: rest) base
  have hall2 := timePieces_all cls L B (fun p => uclose L.rate p.led.rate)
    (by intros; simp [timePiece, uclose_self]) ((len0, keep0) :: rest) base
  have hloop := timeLoop_pieces α hα cls L B hr base ((len0, keep0) :: rest) 0 none (Or.inl rfl)
  simp only [Nat.add_zero, Nat.zero_add] at hloop
  unfold concat
  rw [hps]
  simp only
  rw [← hps]
  have hc : (timePiece cls L B base len0 keep0).cls = cls := rfl
  have hrate : (timePiece cls L B base len0 keep0).led.rate = L.rate := rfl
  have hband : (timePiece cls L B base len0 keep0).band = B := rfl
  simp only [hc, hrate, hall1, hall2, not_true_eq_false, if_false, hloop, hband]
  cases hB : B with
  | none =>
    simp only [reduceCtorEq, if_false]
    rfl
  | some b =>
    simp only
    have hbands : ∀ b' ∈ (timePieces cls L (some b) base ((len0, keep0) :: rest)).filterMap (·.band), b' = b := by
      intro b' hb'
      have := timePieces_bands cls L (some b) _ _ b' hb'
      injection this with this; exact this.symm
    have h1 : ((timePieces cls L (some b) base ((len0, keep0) :: rest)).filterMap (·.band)).all
        (fun b' => uclose b.bw b'.bw) = true := by
      rw [List.all_eq_true]; intro b' hb'; rw [hbands b' hb']; exact uclose_self _
    have h2 : ((timePieces cls L (some b) base ((len0, keep0) :: rest)).filterMap (·.band)).all
        (fun b' => labelsClose b b') = true := by
      rw [List.all_eq_true]; intro b' hb'; rw [hbands b' hb']; exact labelsClose_self _ (hbw b hB)
    simp only [h1, h2, not_true_eq_false, if_false, normAlign_center]
    rfl

/-- the result of concatenating a range is itself the `timePiece` of that range (with the
re-centred band), so concatenation results can be concatenated again: grouping does not matter. -/
theorem concat_result_is_piece (cls : Nat) (L : Ledger) (B : Option Band) (base : Nat)
    (parts : List (Nat × Bool)) :
    ({ cls := cls,
       led := { t0 := if (parts.any (·.2) && L.t0.isSome) then L.t0.map (· + base / L.rate) else none,
                rate := L.rate, len := (parts.map (·.1)).sum },
       band := B.map recenter } : Piece)
      = timePiece cls L (B.map recenter) base (parts.map (·.1)).sum (parts.any (·.2)) := by
  unfold timePiece
  cases L.t0 <;> cases parts.any (·.2) <;> simp

/-! ### frequency axis -/

theorem freqPiece_label (B : Band) (off n : Nat) (j : Int) :
    (freqPiece B off n).label j = B.label (off + j) := by
  unfold freqPiece Band.label
  simp only [alignVal_center, Option.getD_some]
  push_cast
  ring

theorem freqBands_contig (B : Band) :
    ∀ (lens : List Nat) (off : Nat), freqContig B.bw (freqBands B off lens) = true := by
  intro lens
  induction lens with
  | nil => intro off; rfl
  | cons n rest ih =>
    intro off
    cases rest with
    | nil => rfl
    | cons m rest2 =>
      simp only [freqBands, freqContig, Bool.and_eq_true]
      refine ⟨?_, ?_⟩
      · rw [freqPiece_label, freqPiece_label]
        have : B.label (((off + n : Nat) : Int) + 0) - B.label ((off : Int) + (((freqPiece B off n).n : Int) - 1)) = B.bw := by
          have e : (freqPiece B off n).n = n := rfl
          rw [e]
          unfold Band.label; push_cast; ring
        rw [this]; exact uclose_self _
      · have := ih (off + n)
        simpa [freqBands] using this

theorem freqBands_sum (B : Band) :
    ∀ (lens : List Nat) (off : Nat), ((freqBands B off lens).map (·.n)).sum = lens.sum := by
  intro lens
  induction lens with
  | nil => intro off; rfl
  | cons n rest ih => intro off; simp [freqBands, ih, freqPiece]

theorem freqBands_bw (B : Band) :
    ∀ (lens : List Nat) (off : Nat), ∀ b ∈ freqBands B off lens, b.bw = B.bw := by
  intro lens
  induction lens with
  | nil => intro off b h; simp [freqBands] at h
  | cons n rest ih =>
    intro off b h
    simp only [freqBands, List.mem_cons] at h
    rcases h with h | h
    · rw [h]; rfl
    · exact ih _ b h

theorem freqBands_last (B : Band) :
    ∀ (rest : List Nat) (n off : Nat) (d : Band),
      (lastD (freqBands B off (n :: rest)) d).label (((lastD (freqBands B off (n :: rest)) d).n : Int) - 1)
        = B.label (((off + (n :: rest).sum : Nat) : Int) - 1) := by
  intro rest
  induction rest with
  | nil =>
    intro n off d
    simp only [freqBands, lastD, List.getLast?_singleton, Option.getD_some, List.sum_cons, List.sum_nil]
    rw [freqPiece_label]
    have e : (freqPiece B off n).n = n := rfl
    rw [e]; congr 1; push_cast; ring
  | cons m rest2 ih =>
    intro n off d
    have := ih m (off + n) d
    simp only [freqBands, lastD, List.getLast?_cons_cons] at this ⊢
    rw [this]
    congr 1
    simp only [List.sum_cons]; push_cast; ring

theorem sameStart_const (α : Rat) (hα : 0 ≤ α) (t0 : Option Rat) :
    ∀ (ps : List Piece), (∀ p ∈ ps, p.led.t0 = t0) → ∀ ref, (ref = none ∨ ref = t0) →
      sameStartLoop α ps ref = .ok (if ps = [] then ref else t0) := by
  intro ps
  induction ps with
  | nil => intro _ ref _; simp [sameStartLoop]
  | cons p rest ih =>
    intro hall ref href
    have hp := hall p (by simp)
    have hrest : ∀ q ∈ rest, q.led.t0 = t0 := fun q hq => hall q (by simp [hq])
    simp only [sameStartLoop, hp, reduceCtorEq, if_false]
    cases t0 with
    | none =>
      simp only
      rw [ih hrest ref href]
      rcases href with h | h <;> subst h <;> split <;> rfl
    | some t =>
      simp only
      rcases href with h | h
      · subst h
        simp only
        rw [ih hrest (some t) (Or.inr rfl)]
        split <;> rfl
      · subst h
        simp only [isclose_self α t hα, if_true]
        rw [ih hrest (some t) (Or.inr rfl)]
        split <;> rfl

/-- **split ∘ concat along frequency**: concatenating consecutive channel ranges of one signal
gives the band of the spanned range: same labels, `chan_bw`, total channel count. -/
theorem concat_freq_pieces (α : Rat) (hα : 0 ≤ α) (cls : Nat) (L : Ledger) (B : Band) (off : Nat)
    (lens : List Nat) (hne : lens ≠ []) :
    concat α .freq (freqPieces cls L B off lens) =
      .ok { cls := cls, led := L, band := some (freqPiece B off lens.sum) } := by
  obtain ⟨n0, rest, rfl⟩ : ∃ n0 rest, lens = n0 :: rest := by
    cases lens with
    | nil => exact absurd rfl hne
    | cons a b => exact ⟨a, b, rfl⟩
  have hps : freqPieces cls L B off (n0 :: rest)
      = { cls := cls, led := L, band := some (freqPiece B off n0) } ::
        (freqBands B (off + n0) rest).map (fun b => { cls := cls, led := L, band := some b }) := rfl
  have hfm : (freqPieces cls L B off (n0 :: rest)).filterMap (·.band) = freqBands B off (n0 :: rest) := by
    unfold freqPieces
    rw [List.filterMap_map]
    simp
  have hall1 : (freqPieces cls L B off (n0 :: rest)).all (fun p => p.cls == cls) = true := by
    unfold freqPieces; simp
  have hall2 : (freqPieces cls L B off (n0 :: rest)).all (fun p => uclose L.rate p.led.rate) = true := by
    unfold freqPieces; simp [uclose_self]
  have hss := sameStart_const α hα L.t0 (freqPieces cls L B off (n0 :: rest))
    (by unfold freqPieces; simp) none (Or.inl rfl)
  have hne' : freqPieces cls L B off (n0 :: rest) ≠ [] := by rw [hps]; simp
  simp only [hne', if_false] at hss
  have hbw : (freqBands B off (n0 :: rest)).all (fun b => uclose B.bw b.bw) = true := by
    rw [List.all_eq_true]; intro b hb
    rw [freqBands_bw B _ _ b hb]; exact uclose_self _
  have hcontig := freqBands_contig B (n0 :: rest) off
  have hsum := freqBands_sum B (n0 :: rest) off
  have hlast := freqBands_last B rest n0 off (freqPiece B off n0)
  unfold concat
  rw [hps]
  simp only
  rw [← hps]
  simp only [hall1, hall2, not_true_eq_false, if_false, hss, Except.map, hfm, hbw, hsum,
    show (freqPiece B off n0).bw = B.bw from rfl, hcontig, normAlign_center, hlast]
  have hcf : (freqPiece B off n0).label 0 = B.label off := by rw [freqPiece_label]; simp
  rw [hcf]
  rfl

end Pb.Concat
