import Mathlib.Tactic.Ring
import Mathlib.Tactic.Linarith
import Mathlib.Tactic.FieldSimp
import Mathlib.Analysis.Calculus.Deriv.Mul
import Mathlib.Analysis.Calculus.Deriv.Add
import PbModel.Polyco
import PbProofs.Crop

namespace Pb.Polyco

theorem polyEval_scaleAux (s : Rat) : ∀ (cs : List Rat) (f x : Rat),
    polyEval (scaleAux s cs f) x = f * polyEval cs (s * x) := by
  intro cs
  induction cs with
  | nil => intro f x; simp [scaleAux, polyEval]
  | cons c t ih =>
    intro f x
    simp only [scaleAux, polyEval, ih]
    ring

/-- `Polynomial(c, domain=[-60,60]).convert()` evaluated at `x` seconds is the minute-polynomial at `x/60` -/
theorem polyEval_convert60 (cs : List Rat) (x : Rat) : polyEval (convert60 cs) x = polyEval cs (x / 60) := by
  unfold convert60
  rw [polyEval_scaleAux]
  ring_nf

/-- **parse → polynomial = tempo formula**: for every entry (any coefficient count ≥ 2, any signs)
`rphase + poly(dt_s)` equals `RPHASE + 60·DT·F0 + Σ COEFF(i)·DT^(i−1)` at `DT = dt_s/60` minutes. -/
theorem entry_eval (tmid span : Rat) (rInt : Int) (rFrac f0 : Rat) (c0 c1 : Rat) (rest : List Rat) (dt : Rat) :
    ((mkEntry tmid span rInt rFrac f0 (c0 :: c1 :: rest)).rphase : Rat)
      + polyEval (mkEntry tmid span rInt rFrac f0 (c0 :: c1 :: rest)).poly dt
    = tempoFormula rInt rFrac f0 (c0 :: c1 :: rest) (dt / 60) := by
  unfold mkEntry tempoFormula
  simp only [polyEval_convert60, polyEval]
  ring

theorem polyEval_derivAux : ∀ (cs : List Rat) (k : Nat) (x : Rat),
    polyEval (derivAux cs k) x = (k : Rat) * polyEval cs x + x * polyEval (deriv cs) x := by
  intro cs
  induction cs with
  | nil => intro k x; simp [derivAux, deriv, polyEval]
  | cons c t ih =>
    intro k x
    simp only [derivAux, deriv, polyEval]
    rw [ih (k + 1) x, ih 1 x]
    push_cast
    ring

/-- product-rule form of the formal derivative: `(c + x·q)' = q + x·q'` -/
theorem polyEval_deriv_cons (c : Rat) (t : List Rat) (x : Rat) :
    polyEval (deriv (c :: t)) x = polyEval t x + x * polyEval (deriv t) x := by
  show polyEval (derivAux t 1) x = _
  rw [polyEval_derivAux]; simp

/-- the derivative commutes with the minutes→seconds substitution -/
theorem deriv_convert60 (cs : List Rat) (x : Rat) :
    polyEval (deriv (convert60 cs)) x = (1 / 60) * polyEval (deriv cs) (x / 60) := by
  unfold convert60
  suffices h : ∀ (cs : List Rat) (f : Rat),
      polyEval (deriv (scaleAux (1/60) cs f)) x = f * (1/60) * polyEval (deriv cs) (x / 60) by
    rw [h cs 1]; ring
  intro cs
  induction cs with
  | nil => intro f; simp [scaleAux, deriv, polyEval]
  | cons c t ih =>
    intro f
    simp only [scaleAux]
    rw [polyEval_deriv_cons, polyEval_deriv_cons, polyEval_scaleAux, ih]
    ring

/-- real-valued evaluation, for the analytic statement -/
noncomputable def polyEvalR : List Rat → ℝ → ℝ
  | [], _ => 0
  | c :: cs, x => (c : ℝ) + x * polyEvalR cs x

/-- **`f0` is the exact derivative**: the formal derivative used by `Polynomial.deriv` is the
derivative of the evaluation map. -/
theorem hasDerivAt_polyEval : ∀ (cs : List Rat) (x : ℝ), HasDerivAt (polyEvalR cs) (polyEvalR (deriv cs) x) x := by
  intro cs
  induction cs with
  | nil => intro x; simpa [polyEvalR, deriv] using hasDerivAt_const x (0 : ℝ)
  | cons c t ih =>
    intro x
    have hR : ∀ (cs : List Rat) (k : Nat) (y : ℝ),
        polyEvalR (derivAux cs k) y = (k : ℝ) * polyEvalR cs y + y * polyEvalR (deriv cs) y := by
      intro cs
      induction cs with
      | nil => intro k y; simp [derivAux, deriv, polyEvalR]
      | cons c t ih2 =>
        intro k y
        simp only [derivAux, deriv, polyEvalR]
        rw [ih2 (k + 1) y, ih2 1 y]
        push_cast
        ring
    have h1 : HasDerivAt (fun y : ℝ => y * polyEvalR t y) (1 * polyEvalR t x + x * polyEvalR (deriv t) x) x :=
      (hasDerivAt_id x).mul (ih x)
    have h2 := (hasDerivAt_const x (c : ℝ)).add h1
    have e : polyEvalR (deriv (c :: t)) x = 0 + (1 * polyEvalR t x + x * polyEvalR (deriv t) x) := by
      show polyEvalR (derivAux t 1) x = _
      rw [hR]; simp
    rw [e]
    exact h2

theorem polyEval_padd : ∀ (p q : List Rat) (x : Rat), polyEval (padd p q) x = polyEval p x + polyEval q x := by
  intro p
  induction p with
  | nil => intro q x; simp [padd, polyEval]
  | cons a p ih =>
    intro q x
    cases q with
    | nil => simp [padd, polyEval]
    | cons b q => simp only [padd, polyEval, ih]; ring

theorem polyEval_psmul (k : Rat) : ∀ (p : List Rat) (x : Rat), polyEval (psmul k p) x = k * polyEval p x := by
  intro p
  induction p with
  | nil => intro x; simp [psmul, polyEval]
  | cons a p ih =>
    intro x
    have : psmul k (a :: p) = (k * a) :: psmul k p := rfl
    rw [this]
    simp only [polyEval, ih]; ring

/-- Taylor shift: `shiftPoly p d` evaluates as `p(x + d)` -/
theorem polyEval_shiftPoly : ∀ (cs : List Rat) (d x : Rat), polyEval (shiftPoly cs d) x = polyEval cs (x + d) := by
  intro cs
  induction cs with
  | nil => intro d x; simp [shiftPoly, polyEval]
  | cons c t ih =>
    intro d x
    simp only [shiftPoly, polyEval_padd, polyEval_psmul, polyEval, ih]
    ring

/-! ### entry selection -/

theorem searchsortedLeft_spec : ∀ (ends : List Rat) (t : Rat), ends.Pairwise (· ≤ ·) →
    (∀ i, i < searchsortedLeft ends t → ∀ e, ends[i]? = some e → e < t) ∧
    (∀ i e, searchsortedLeft ends t ≤ i → ends[i]? = some e → t ≤ e) := by
  intro ends
  induction ends with
  | nil => intro t _; simp [searchsortedLeft]
  | cons a rest ih =>
    intro t hp
    rw [List.pairwise_cons] at hp
    unfold searchsortedLeft
    by_cases ha : a < t
    · simp only [List.takeWhile_cons, ha, decide_true, if_true, List.length_cons]
      obtain ⟨h1, h2⟩ := ih t hp.2
      constructor
      · intro i hi e he
        cases i with
        | zero => simp at he; rw [← he]; exact ha
        | succ j => simp at he; exact h1 j (by unfold searchsortedLeft; omega) e he
      · intro i e hi he
        cases i with
        | zero => omega
        | succ j => simp at he; exact h2 j e (by unfold searchsortedLeft; omega) he
    · simp only [List.takeWhile_cons, ha, decide_false, Bool.false_eq_true, if_false, List.length_nil]
      constructor
      · intro i hi; omega
      · intro i e _ he
        cases i with
        | zero => simp at he; rw [← he]; exact not_lt.mp ha
        | succ j =>
          simp at he
          have : e ∈ rest := List.mem_of_getElem? he
          exact le_trans (not_lt.mp ha) (hp.1 e this)

/-! ### interval merging: every span is covered by an output interval -/

def Covers (out : List (Rat × Rat)) (x : Rat × Rat) : Prop := ∃ y ∈ out, y.1 ≤ x.1 ∧ x.2 ≤ y.2

theorem mergeLoop_cover (tol : Rat) : ∀ (rest : List (Rat × Rat)) (start stop : Rat) (acc : List (Rat × Rat)),
    rest.Pairwise (fun a b => b.2 ≤ a.2) → (∀ x ∈ rest, x.2 ≤ stop) →
    (∀ y ∈ acc, y ∈ mergeLoop tol rest start stop acc) ∧
    Covers (mergeLoop tol rest start stop acc) (start, stop) ∧
    ∀ x ∈ rest, Covers (mergeLoop tol rest start stop acc) x := by
  intro rest
  induction rest with
  | nil =>
    intro start stop acc _ _
    simp only [mergeLoop]
    refine ⟨fun y hy => by simp [hy], ⟨(start, stop), by simp, le_refl _, le_refl _⟩, fun x hx => by cases hx⟩
  | cons hd tl ih =>
    intro start stop acc hp hle
    obtain ⟨ns, ne⟩ := hd
    rw [List.pairwise_cons] at hp
    have hne : ne ≤ stop := hle (ns, ne) (by simp)
    simp only [mergeLoop]
    split
    · -- merged into the current interval
      obtain ⟨h1, h2, h3⟩ := ih (min start ns) stop acc hp.2 (fun x hx => hle x (by simp [hx]))
      refine ⟨h1, ?_, ?_⟩
      · obtain ⟨y, hy, a, b⟩ := h2
        exact ⟨y, hy, le_trans a (min_le_left _ _), b⟩
      · intro x hx
        rcases List.mem_cons.mp hx with rfl | hx
        · obtain ⟨y, hy, a, b⟩ := h2
          exact ⟨y, hy, le_trans a (min_le_right _ _), le_trans hne b⟩
        · exact h3 x hx
    · -- current interval finished
      obtain ⟨h1, h2, h3⟩ := ih ns ne ((start, stop) :: acc) hp.2 (fun x hx => hp.1 x hx)
      refine ⟨fun y hy => h1 y (by simp [hy]), ⟨(start, stop), h1 _ (by simp), le_refl _, le_refl _⟩, ?_⟩
      intro x hx
      rcases List.mem_cons.mp hx with rfl | hx
      · exact h2
      · exact h3 x hx

theorem mem_insertByEnd (x y : Rat × Rat) : ∀ l : List (Rat × Rat), y ∈ insertByEnd x l ↔ y = x ∨ y ∈ l := by
  intro l
  induction l with
  | nil => simp [insertByEnd]
  | cons a t ih =>
    simp only [insertByEnd]
    split
    · simp
    · simp only [List.mem_cons, ih]; tauto

theorem mem_sortByEnd (y : Rat × Rat) : ∀ l : List (Rat × Rat), y ∈ sortByEnd l ↔ y ∈ l := by
  intro l
  induction l with
  | nil => simp [sortByEnd]
  | cons a t ih => simp only [sortByEnd, mem_insertByEnd, ih, List.mem_cons]

theorem sorted_insertByEnd (x : Rat × Rat) : ∀ l : List (Rat × Rat), l.Pairwise (fun a b => a.2 ≤ b.2) →
    (insertByEnd x l).Pairwise (fun a b => a.2 ≤ b.2) := by
  intro l
  induction l with
  | nil => intro _; simp [insertByEnd]
  | cons a t ih =>
    intro hp
    rw [List.pairwise_cons] at hp
    simp only [insertByEnd]
    split
    · rename_i hlt
      rw [List.pairwise_cons]
      refine ⟨fun b hb => ?_, List.pairwise_cons.mpr hp⟩
      rcases List.mem_cons.mp hb with rfl | hb
      · exact le_of_lt hlt
      · exact le_trans (le_of_lt hlt) (hp.1 b hb)
    · rename_i hnlt
      rw [List.pairwise_cons]
      refine ⟨fun b hb => ?_, ih hp.2⟩
      rcases (mem_insertByEnd x b t).mp hb with rfl | hb
      · exact not_lt.mp hnlt
      · exact hp.1 b hb

theorem sorted_sortByEnd : ∀ l : List (Rat × Rat), (sortByEnd l).Pairwise (fun a b => a.2 ≤ b.2) := by
  intro l
  induction l with
  | nil => simp [sortByEnd]
  | cons a t ih => exact sorted_insertByEnd a _ ih

/-- **interval merging covers every span**: each entry's validity span lies inside one of the
returned intervals (so no time inside a span is ever rejected as "outside predictor range"). -/
theorem intervals_cover (tol : Rat) (es : List Entry) (e : Entry) (he : e ∈ es) :
    Covers (intervals tol es) (e.tmid - e.span / 2, e.tmid + e.span / 2) := by
  unfold intervals
  set spans := es.map (fun e => (e.tmid - e.span / 2, e.tmid + e.span / 2)) with hspans
  have hmem : (e.tmid - e.span / 2, e.tmid + e.span / 2) ∈ (sortByEnd spans).reverse := by
    rw [List.mem_reverse, mem_sortByEnd, hspans]
    exact List.mem_map.mpr ⟨e, he, rfl⟩
  have hsorted : (sortByEnd spans).reverse.Pairwise (fun a b => b.2 ≤ a.2) := by
    rw [List.pairwise_reverse]; exact sorted_sortByEnd spans
  cases hrev : (sortByEnd spans).reverse with
  | nil => rw [hrev] at hmem; cases hmem
  | cons hd tl =>
    obtain ⟨s0, e0⟩ := hd
    rw [hrev] at hmem hsorted
    rw [List.pairwise_cons] at hsorted
    obtain ⟨_, h2, h3⟩ := mergeLoop_cover tol tl s0 e0 [] hsorted.2 (fun x hx => hsorted.1 x hx)
    simp only [hrev]
    rcases List.mem_cons.mp hmem with h | h
    · rw [h]; exact h2
    · exact h3 _ h

/-! ### interval merging is tight: nothing but spans and sub-tolerance gaps, pieces separated -/

/-- `iv` starts at a span start, ends at a span end, and every point of it lies in a span or in a gap
of at most `tol` just before a span -/
def Tight (tol : Rat) (S : List (Rat × Rat)) (iv : Rat × Rat) : Prop :=
  (∃ x ∈ S, iv.1 = x.1) ∧ (∃ x ∈ S, iv.2 = x.2) ∧
  ∀ t, iv.1 ≤ t → t ≤ iv.2 → ∃ x ∈ S, x.1 - tol ≤ t ∧ t ≤ x.2

theorem mergeLoop_tight (tol : Rat) (htol : 0 ≤ tol) (S : List (Rat × Rat)) (hS : ∀ x ∈ S, x.1 ≤ x.2) :
    ∀ (rest : List (Rat × Rat)) (start stop : Rat) (acc : List (Rat × Rat)),
    rest.Pairwise (fun a b => b.2 ≤ a.2) → (∀ x ∈ rest, x.2 ≤ stop) → (∀ x ∈ rest, x ∈ S) →
    Tight tol S (start, stop) → (∀ y ∈ acc, Tight tol S y) →
    (∀ y ∈ acc, stop + tol < y.1) → acc.Pairwise (fun a b => a.2 + tol < b.1) →
    (∀ y ∈ mergeLoop tol rest start stop acc, Tight tol S y) ∧
    (mergeLoop tol rest start stop acc).Pairwise (fun a b => a.2 + tol < b.1) := by
  intro rest
  induction rest with
  | nil =>
    intro start stop acc _ _ _ hcur hacc hsep hpw
    simp only [mergeLoop]
    refine ⟨?_, List.pairwise_cons.mpr ⟨fun y hy => hsep y hy, hpw⟩⟩
    intro y hy
    rcases List.mem_cons.mp hy with rfl | hy
    · exact hcur
    · exact hacc y hy
  | cons hd tl ih =>
    intro start stop acc hp hle hmem hcur hacc hsep hpw
    obtain ⟨ns, ne⟩ := hd
    rw [List.pairwise_cons] at hp
    have hne : ne ≤ stop := hle (ns, ne) (by simp)
    have hinS : (ns, ne) ∈ S := hmem (ns, ne) (by simp)
    have hnsne : ns ≤ ne := hS _ hinS
    simp only [mergeLoop]
    split
    · -- merged
      rename_i hc
      have hgap : start - tol ≤ ne := by
        rcases hc with h | h
        · linarith
        · rw [Pb.Crop.rabs_le] at h; linarith [h.2]
      apply ih (min start ns) stop acc hp.2 (fun x hx => hle x (by simp [hx])) (fun x hx => hmem x (by simp [hx]))
        ?_ hacc hsep hpw
      obtain ⟨⟨xs, hxs, hxs1⟩, hend, hpts⟩ := hcur
      refine ⟨?_, hend, ?_⟩
      · by_cases hmin : start ≤ ns
        · exact ⟨xs, hxs, by simp only; rw [min_eq_left hmin]; exact hxs1⟩
        · exact ⟨(ns, ne), hinS, by simp only; rw [min_eq_right (le_of_lt (not_le.mp hmin))]⟩
      · intro t ht1 ht2
        simp only at ht1 ht2
        by_cases hts : start ≤ t
        · exact hpts t hts ht2
        · have hts' : t < start := not_le.mp hts
          have hns : ns ≤ t := by
            rcases min_choice start ns with h | h
            · rw [h] at ht1; linarith
            · rw [h] at ht1; exact ht1
          by_cases htne : t ≤ ne
          · exact ⟨(ns, ne), hinS, by simp only; linarith, htne⟩
          · -- in the gap (ne, start): within tol before the span that starts at `start`
            refine ⟨xs, hxs, ?_, ?_⟩
            · simp only at hxs1; rw [← hxs1]; linarith [not_le.mp htne]
            · have := hS xs hxs
              simp only at hxs1; rw [← hxs1] at this; linarith
    · -- current interval finished
      rename_i hc
      have hsep' : ne + tol < start := by
        have h1 : ¬ start ≤ ne := fun h => hc (Or.inl h)
        have h2 : ¬ rabs (start - ne) ≤ tol := fun h => hc (Or.inr h)
        rw [Pb.Crop.rabs_le] at h2
        by_contra hcon
        apply h2
        constructor <;> linarith [not_le.mp h1, not_lt.mp hcon]
      apply ih ns ne ((start, stop) :: acc) hp.2 (fun x hx => hp.1 x hx) (fun x hx => hmem x (by simp [hx]))
      · exact ⟨⟨(ns, ne), hinS, rfl⟩, ⟨(ns, ne), hinS, rfl⟩,
          fun t h1 h2 => ⟨(ns, ne), hinS, by simp only at h1 ⊢; linarith, h2⟩⟩
      · intro y hy
        rcases List.mem_cons.mp hy with rfl | hy
        · exact hcur
        · exact hacc y hy
      · intro y hy
        rcases List.mem_cons.mp hy with rfl | hy
        · exact hsep'
        · have := hsep y hy; linarith
      · exact List.pairwise_cons.mpr ⟨fun y hy => hsep y hy, hpw⟩

/-- **the validity intervals are exactly the spans merged where they touch or overlap**: every
returned interval runs from a span start to a span end, contains only points of spans and of gaps of
at most `tol` between them, and different intervals are separated by more than `tol`. -/
theorem intervals_tight (tol : Rat) (htol : 0 ≤ tol) (es : List Entry) (hspan : ∀ e ∈ es, 0 ≤ e.span) :
    (∀ iv ∈ intervals tol es,
      Tight tol (es.map fun e => (e.tmid - e.span / 2, e.tmid + e.span / 2)) iv) ∧
    (intervals tol es).Pairwise (fun a b => a.2 + tol < b.1) := by
  unfold intervals
  set spans := es.map (fun e => (e.tmid - e.span / 2, e.tmid + e.span / 2)) with hspans
  have hS : ∀ x ∈ spans, x.1 ≤ x.2 := by
    intro x hx
    rw [hspans] at hx
    obtain ⟨e, he, rfl⟩ := List.mem_map.mp hx
    have := hspan e he
    simp only; linarith
  have hsorted : (sortByEnd spans).reverse.Pairwise (fun a b => b.2 ≤ a.2) := by
    rw [List.pairwise_reverse]; exact sorted_sortByEnd spans
  have hmemS : ∀ x ∈ (sortByEnd spans).reverse, x ∈ spans := by
    intro x hx; rw [List.mem_reverse, mem_sortByEnd] at hx; exact hx
  cases hrev : (sortByEnd spans).reverse with
  | nil =>
    simp only [hrev]
    refine ⟨?_, List.Pairwise.nil⟩
    intro iv hiv
    simp at hiv
  | cons hd tl =>
    obtain ⟨s0, e0⟩ := hd
    rw [hrev] at hsorted hmemS
    rw [List.pairwise_cons] at hsorted
    have h0 : (s0, e0) ∈ spans := hmemS _ (by simp)
    simp only [hrev]
    exact mergeLoop_tight tol htol spans hS tl s0 e0 [] hsorted.2 (fun x hx => hsorted.1 x hx)
      (fun x hx => hmemS x (by simp [hx]))
      ⟨⟨(s0, e0), h0, rfl⟩, ⟨(s0, e0), h0, rfl⟩, fun t h1 h2 => ⟨(s0, e0), h0, by simp only at h1 ⊢; linarith, h2⟩⟩
      (fun y hy => by cases hy) (fun y hy => by cases hy) List.Pairwise.nil

end Pb.Polyco
