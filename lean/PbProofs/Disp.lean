import Mathlib.Tactic.Ring
import Mathlib.Tactic.Linarith
import Mathlib.Tactic.FieldSimp
import Mathlib.Tactic.NormNum
import Mathlib.Tactic.Positivity
import Mathlib.Algebra.Order.Field.Basic
import PbModel.Disp
import PbProofs.Crop

namespace Pb.Disp
open Pb.Crop

/-- translator-fed: the constant is 1/2.41e-4 s·MHz²·cm³/pc, i.e. 10¹⁸/241 s·Hz²·cm³/pc -/
theorem K_value :
    Gen.Disp.constUnits = [("s", 1), ("MHz", 2), ("cm", 3), ("pc", -1)] ∧
    Gen.Disp.constLiteral = 241 / 1000000 ∧ Gen.Disp.constLiteralExp = -1 ∧
    Gen.Disp.extractOk = true ∧ K = 1000000000000000000 / 241 := by
  refine ⟨rfl, rfl, rfl, rfl, ?_⟩
  unfold K
  have h1 : Gen.Disp.constLiteralExp = -1 := rfl
  have h2 : (Gen.Disp.constUnits.lookup "MHz").getD 0 = 2 := rfl
  have h3 : Gen.Disp.constLiteral = 241 / 1000000 := rfl
  simp only [h1, h2, h3, if_true]
  have : Int.toNat 2 = 2 := rfl
  rw [this]
  norm_num

theorem K_pos : 0 < K := by rw [K_value.2.2.2.2]; norm_num

theorem timeDelay_antisym (DM f r : Rat) : timeDelay DM f r = -timeDelay DM r f := by
  unfold timeDelay; ring

theorem timeDelay_additive (DM f1 f2 f3 : Rat) :
    timeDelay DM f1 f2 + timeDelay DM f2 f3 = timeDelay DM f1 f3 := by
  unfold timeDelay; ring

theorem timeDelay_self (DM f : Rat) : timeDelay DM f f = 0 := by
  unfold timeDelay; ring

/-- lower frequencies arrive later (for DM ≥ 0): the delay is antitone in `f > 0` -/
theorem timeDelay_antitone (DM f1 f2 r : Rat) (hDM : 0 ≤ DM) (h1 : 0 < f1) (h12 : f1 ≤ f2) :
    timeDelay DM f2 r ≤ timeDelay DM f1 r := by
  unfold timeDelay
  have hK := K_pos
  have hsq : f1 ^ 2 ≤ f2 ^ 2 := by nlinarith
  have hp1 : 0 < f1 ^ 2 := by positivity
  have hinv : 1 / f2 ^ 2 ≤ 1 / f1 ^ 2 := one_div_le_one_div_of_le hp1 hsq
  have : 0 ≤ K * DM := mul_nonneg hK.le hDM
  nlinarith

theorem timeDelay_monotone_negDM (DM f1 f2 r : Rat) (hDM : DM ≤ 0) (h1 : 0 < f1) (h12 : f1 ≤ f2) :
    timeDelay DM f1 r ≤ timeDelay DM f2 r := by
  have := timeDelay_antitone (-DM) f1 f2 r (by linarith) h1 h12
  unfold timeDelay at *
  nlinarith

/-! ### round half to even -/

theorem floor_bounds (q : Rat) : ((q.floor : Int) : Rat) ≤ q ∧ q < (q.floor : Int) + 1 := by
  refine ⟨Rat.floor_le q, ?_⟩
  have := Rat.lt_floor_add_one q
  push_cast at this
  exact this

theorem roundHalfEven_near (q : Rat) : rabs ((roundHalfEven q : Rat) - q) ≤ 1 / 2 := by
  obtain ⟨h1, h2⟩ := floor_bounds q
  rw [rabs_le]
  unfold roundHalfEven
  simp only
  split
  · constructor <;> linarith
  · split
    · push_cast; constructor <;> linarith
    · have : q - (q.floor : Int) = 1 / 2 := by
        rename_i ha hb
        linarith [not_lt.mp ha, not_lt.mp hb]
      split
      · constructor <;> linarith
      · push_cast; constructor <;> linarith

theorem roundHalfEven_ge_floor (q : Rat) : q.floor ≤ roundHalfEven q ∧ roundHalfEven q ≤ q.floor + 1 := by
  unfold roundHalfEven
  simp only
  split
  · omega
  · split
    · omega
    · split <;> omega

theorem roundHalfEven_mono (a b : Rat) (h : a ≤ b) : roundHalfEven a ≤ roundHalfEven b := by
  have hf : a.floor ≤ b.floor := Rat.floor_monotone h
  obtain ⟨a1, a2⟩ := roundHalfEven_ge_floor a
  obtain ⟨b1, b2⟩ := roundHalfEven_ge_floor b
  by_cases hlt : a.floor < b.floor
  · omega
  · have he : a.floor = b.floor := by omega
    unfold roundHalfEven
    simp only [he]
    have hr : a - (b.floor : Int) ≤ b - (b.floor : Int) := by linarith
    by_cases c1 : a - (b.floor : Int) < 1 / 2
    · simp only [c1, if_true]
      split
      · exact le_refl _
      · split
        · omega
        · split <;> omega
    · simp only [c1, if_false]
      by_cases c2 : 1 / 2 < a - (b.floor : Int)
      · have c3 : ¬ (b - (b.floor : Int) < 1 / 2) := by linarith
        have c4 : 1 / 2 < b - (b.floor : Int) := by linarith
        have c2' : (2 : Rat)⁻¹ < a - (b.floor : Int) := by simpa using c2
        have c3' : ¬ (b - (b.floor : Int) < (2 : Rat)⁻¹) := by simpa using c3
        have c4' : (2 : Rat)⁻¹ < b - (b.floor : Int) := by simpa using c4
        simp [c2', c3', c4']
      · simp only [c2, if_false]
        have c3 : ¬ (b - (b.floor : Int) < 1 / 2) := by linarith [not_lt.mp c1]
        simp only [c3, if_false]
        by_cases c4 : 1 / 2 < b - (b.floor : Int)
        · simp only [c4, if_true]; split <;> omega
        · simp only [c4, if_false]; exact le_refl _

/-! ### incoherent dedispersion -/

theorem le_listMax : ∀ (l : List Int) (x : Int), x ∈ l → x ≤ listMax l := by
  intro l
  induction l with
  | nil => intro x h; cases h
  | cons a rest ih =>
    intro x hx
    cases rest with
    | nil => simp at hx; simp [listMax, hx]
    | cons b r2 =>
      simp only [listMax]
      rcases List.mem_cons.mp hx with h | h
      · rw [h]; exact le_max_left _ _
      · exact le_trans (ih x h) (le_max_right _ _)

/-- **incoherent realignment**: for the computed `(cropBefore, shifted, N)`, provided every rounded
delay lies between the end channels' (monotone law), every output sample `(k, i)`, `k < N`, reads
the in-range input sample `k + shifted_i`, with `shifted_i = round(delay_i) + cropBefore`, and its
absolute time is `T_out(k) + round(delay_i)/rate`. -/
theorem incoh_spec (L : Ledger) (delays : List Rat) (o : IncohOut) (hr : L.rate ≠ 0)
    (h : incoh L delays = .ok o)
    (hmono : ∀ d ∈ delays.map roundHalfEven,
      min ((delays.map roundHalfEven).head?.getD 0) ((delays.map roundHalfEven).getLast?.getD 0) ≤ d) :
    0 ≤ o.cropBefore ∧ o.led.len = o.count ∧ o.led.rate = L.rate ∧
    o.shifted = (delays.map roundHalfEven).map (· + o.cropBefore) ∧
    (∀ j ∈ o.shifted, ∀ k : Nat, k < o.count → 0 ≤ j + k ∧ j + k < L.len) ∧
    o.led.t0 = L.t0.map (· + o.cropBefore / L.rate) ∧
    (∀ (d : Int) (k : Nat), o.led.timeAt k = (L.timeAt ((d + o.cropBefore + k : Int) : Rat)).map (· - d / L.rate)) := by
  unfold incoh at h
  cases hds : delays.map roundHalfEven with
  | nil => simp [hds] at h
  | cons d0 rest =>
    simp only [hds] at h hmono
    injection h with h
    subst h
    simp only [List.head?_cons, Option.getD_some] at hmono
    set dl := ((d0 :: rest).getLast?).getD d0 with hdl
    have hdl' : ((d0 :: rest).getLast?).getD 0 = dl := by
      rw [hdl]; simp [List.getLast?_cons]
    rw [hdl'] at hmono
    set cb := -(min 0 (min d0 dl)) with hcb
    have hcb0 : 0 ≤ cb := by omega
    refine ⟨hcb0, rfl, rfl, rfl, ?_, ?_, ?_⟩
    · intro j hj k hk
      simp only [List.mem_map] at hj
      obtain ⟨d, hd, rfl⟩ := hj
      have h1 := hmono d hd
      have h2 := le_listMax ((d0 :: rest).map (· + cb)) (d + cb) (by
        simp only [List.mem_map]; exact ⟨d, hd, rfl⟩)
      simp only at hk
      constructor
      · omega
      · omega
    · simp only
      split
      · rfl
      · rename_i hc
        have : cb = 0 := by
          by_contra hne; exact hc hne
        cases L.t0 with
        | none => rfl
        | some t => simp [this]
    · intro d k
      unfold Ledger.timeAt
      simp only
      have key : ∀ t : Rat, t + (cb : Rat) / L.rate + (k : Rat) / L.rate
          = t + (((d + cb + k : Int) : Rat)) / L.rate - (d : Rat) / L.rate := by
        intro t; push_cast; field_simp; ring
      split
      · cases L.t0 with
        | none => rfl
        | some t => simp only [Option.map_some]; rw [key t]
      · rename_i hc
        have hz : cb = 0 := by
          by_contra hne; exact hc hne
        cases L.t0 with
        | none => rfl
        | some t =>
          simp only [Option.map_some]
          have := key t
          rw [hz] at this ⊢
          simp only [Int.cast_zero, zero_div, add_zero] at this
          rw [this]
          simp

end Pb.Disp
