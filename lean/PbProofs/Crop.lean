import Mathlib.Tactic.Ring
import Mathlib.Tactic.Linarith
import Mathlib.Tactic.FieldSimp
import Mathlib.Tactic.Push
import Mathlib.Data.Rat.Floor
import PbModel.Crop

/-! Lemmas about the time-axis model (`PbModel/Crop.lean`). -/

namespace Pb.Crop

theorem adj_bounds (n : Nat) (v : Option Int) (d : Int) (hd0 : 0 ≤ d) (hdn : d ≤ n) :
    0 ≤ adj n v d ∧ adj n v d ≤ n := by
  unfold adj
  cases v with
  | none => exact ⟨hd0, hdn⟩
  | some s => simp only; split <;> split <;> omega

theorem sliceLen_src (a b step k : Int) (hs : 0 < step) (hk0 : 0 ≤ k)
    (hk : k < sliceLen a b step) : a + k * step < b := by
  unfold sliceLen at hk
  split at hk
  · have h1 : k ≤ (b - a - 1) / step := by omega
    have h2 : (b - a - 1) / step * step ≤ b - a - 1 := Int.ediv_mul_le _ (by omega)
    have h3 : k * step ≤ (b - a - 1) / step * step :=
      Int.mul_le_mul_of_nonneg_right h1 (by omega)
    omega
  · simp at hk; omega

/-- `sliceLen` counts exactly the members of `range(a, b, step)`. -/
theorem sliceLen_complete (a b step j : Int) (hs : 0 < step) (haj : a ≤ j) (hjb : j < b)
    (hmod : (j - a) % step = 0) : ∃ k : Nat, (k : Int) < sliceLen a b step ∧ j = a + k * step := by
  have hab : a < b := by omega
  refine ⟨((j - a) / step).toNat, ?_, ?_⟩
  · unfold sliceLen
    simp only [hab, if_true]
    have h0 : 0 ≤ (j - a) / step := Int.ediv_nonneg (by omega) (by omega)
    have hle : (j - a) / step ≤ (b - a - 1) / step := Int.ediv_le_ediv hs (by omega)
    have h1 : 0 ≤ (b - a - 1) / step + 1 := by omega
    rw [Int.toNat_of_nonneg h0, Int.toNat_of_nonneg h1]
    omega
  · have h0 : 0 ≤ (j - a) / step := Int.ediv_nonneg (by omega) (by omega)
    rw [Int.toNat_of_nonneg h0]
    have h2 : (j - a) / step * step = j - a := Int.ediv_mul_cancel_of_emod_eq_zero hmod
    omega

/-- the selection computed for a slice with positive (or omitted) step -/
theorem timeSlice_ok (n : Nat) (s : PySlice) (hpos : 0 < s.step.getD 1) :
    timeSlice n s = .ok { first := (adj n s.start 0).toNat, stride := (s.step.getD 1).toNat,
                          count := sliceLen (adj n s.start 0) (adj n s.stop n) (s.step.getD 1) } := by
  unfold timeSlice
  have h1 : ¬ (s.step.getD 1 = 0) := by omega
  have h2 : ¬ (s.step.getD 1 < 0) := by omega
  simp only [h1, h2, if_false]

theorem timeSlice_step_pos (n : Nat) (s : PySlice) (σ : Sel) (h : timeSlice n s = .ok σ) :
    0 < s.step.getD 1 := by
  unfold timeSlice at h
  by_cases h1 : s.step.getD 1 = 0
  · simp [h1] at h
  · by_cases h2 : s.step.getD 1 < 0
    · simp [h1, h2] at h
    · omega

theorem timeSlice_in_range (n : Nat) (s : PySlice) (σ : Sel) (h : timeSlice n s = .ok σ) :
    1 ≤ σ.stride ∧ σ.off = 0 ∧ σ.first ≤ n ∧ ∀ k : Nat, k < σ.count → σ.first + k * σ.stride < n := by
  have hstep := timeSlice_step_pos n s σ h
  rw [timeSlice_ok n s hstep] at h
  injection h with h
  subst h
  have ha := adj_bounds n s.start 0 (le_refl _) (by omega)
  have hb := adj_bounds n s.stop n (by omega) (le_refl _)
  refine ⟨by simp; omega, rfl, by simp; omega, fun k hk => ?_⟩
  simp only at hk ⊢
  have := sliceLen_src (adj n s.start 0) (adj n s.stop n) (s.step.getD 1) k hstep (by omega)
    (by exact_mod_cast hk)
  have h1 : ((adj n s.start 0).toNat : Int) = adj n s.start 0 := Int.toNat_of_nonneg ha.1
  have h2 : (((s.step.getD 1).toNat : Nat) : Int) = s.step.getD 1 := Int.toNat_of_nonneg (by omega)
  have : ((adj n s.start 0).toNat + k * (s.step.getD 1).toNat : Nat) < n := by
    zify
    rw [h1, h2]; omega
  exact this

theorem adj_some_nonneg (n : Nat) (a d : Int) (ha : 0 ≤ a) : adj n (some a) d = min a n := by
  unfold adj
  simp only
  split
  · omega
  · split <;> omega

theorem sliceLen_one (a b : Int) : sliceLen a b 1 = (b - a).toNat := by
  unfold sliceLen
  split
  · simp [Int.ediv_one]
  · omega

/-- `z[a:b]` with non-negative bounds keeps exactly the positions `a ≤ j < min b n`. -/
theorem range_interval (n : Nat) (a b : Int) (ha : 0 ≤ a) (hb : 0 ≤ b) :
    range n a b = .ok { first := (min a n).toNat, stride := 1,
                        count := ((min b n) - (min a n)).toNat } := by
  unfold range
  rw [timeSlice_ok n _ (by simp)]
  simp only [Option.getD_none, adj_some_nonneg n a 0 ha, adj_some_nonneg n b n hb, sliceLen_one]
  rfl

theorem select_none (L : Ledger) (σ : Sel) (h : L.t0 = none) : (L.select σ).t0 = none := by
  simp [Ledger.select, h]

theorem select_some (L : Ledger) (σ : Sel) (h : (L.select σ).t0 ≠ none) : L.t0 ≠ none := by
  intro hn; exact h (select_none L σ hn)

/-- sample `k` of the selected signal carries the time of input position `σ.pos k` -/
theorem select_timeAt (L : Ledger) (σ : Sel) (hr : L.rate ≠ 0) (hs : 1 ≤ σ.stride) (k : Rat) :
    (L.select σ).timeAt k = L.timeAt (σ.first + σ.off + k * σ.stride) := by
  unfold Ledger.timeAt Ledger.select
  cases L.t0 with
  | none => rfl
  | some t =>
    simp only [Option.map_some]
    congr 1
    have hs' : (σ.stride : Rat) ≠ 0 := by
      have : (1 : Rat) ≤ σ.stride := by exact_mod_cast hs
      linarith
    split
    · field_simp; ring
    · have : σ.stride = 1 := by omega
      rw [this]; field_simp; ring

theorem select_rate (L : Ledger) (σ : Sel) (hs : 1 ≤ σ.stride) :
    (L.select σ).rate = L.rate / σ.stride := by
  unfold Ledger.select
  simp only
  split
  · rfl
  · have : σ.stride = 1 := by omega
    rw [this]; simp

theorem select_comp (L : Ledger) (σ₁ σ₂ : Sel) (hr : L.rate ≠ 0) (h1 : 1 ≤ σ₁.stride)
    (h2 : 1 ≤ σ₂.stride) : (L.select σ₁).select σ₂ = L.select (σ₁.comp σ₂) := by
  have e1 := select_rate L σ₁ h1
  have hs1 : (σ₁.stride : Rat) ≠ 0 := by
    have : (1 : Rat) ≤ σ₁.stride := by exact_mod_cast h1
    linarith
  have hs2 : (σ₂.stride : Rat) ≠ 0 := by
    have : (1 : Rat) ≤ σ₂.stride := by exact_mod_cast h2
    linarith
  have hc : 1 ≤ (σ₁.comp σ₂).stride := by
    simp only [Sel.comp]; exact Nat.mul_le_mul h1 h2
  have e3 := select_rate L (σ₁.comp σ₂) hc
  have e2 := select_rate (L.select σ₁) σ₂ h2
  have hrate : ((L.select σ₁).select σ₂).rate = (L.select (σ₁.comp σ₂)).rate := by
    rw [e2, e1, e3]; simp only [Sel.comp]; push_cast; field_simp
  have ht : ((L.select σ₁).select σ₂).t0 = (L.select (σ₁.comp σ₂)).t0 := by
    show Option.map _ (L.select σ₁).t0 = _
    rw [e1]
    simp only [Ledger.select, Sel.comp]
    cases L.t0 with
    | none => rfl
    | some t =>
      simp only [Option.map_some]
      congr 1
      push_cast
      field_simp
      ring
  have hl : ((L.select σ₁).select σ₂).len = (L.select (σ₁.comp σ₂)).len := rfl
  cases hA : (L.select σ₁).select σ₂
  cases hB : L.select (σ₁.comp σ₂)
  simp only [hA, hB] at hrate ht hl
  simp [hrate, ht, hl]

theorem select_id (L : Ledger) : L.select (Sel.id L.len) = L := by
  cases L with
  | mk t0 rate len =>
    simp [Ledger.select, Sel.id]

theorem comp_pos (σ₁ σ₂ : Sel) (k : Nat) : (σ₁.comp σ₂).pos k = σ₁.pos 0 + (σ₂.pos k) * σ₁.stride := by
  simp only [Sel.pos, Sel.comp]; push_cast; ring

end Pb.Crop

namespace Pb.Crop

theorem range_in_range (n : Nat) (a b : Int) (σ : Sel) (h : range n a b = .ok σ) :
    1 ≤ σ.stride ∧ σ.off = 0 ∧ σ.first ≤ n ∧ ∀ k : Nat, k < σ.count → σ.first + k * σ.stride < n :=
  timeSlice_in_range n _ σ h

theorem range_stride (n : Nat) (a b : Int) (σ : Sel) (h : range n a b = .ok σ) : σ.stride = 1 := by
  unfold range at h
  rw [timeSlice_ok n _ (by simp)] at h
  injection h with h; subst h; rfl

/-- operations that select a subset of the input's own samples -/
def CropOp.isIndexOp : CropOp → Bool
  | .incohCrop _ => false
  | _ => true

theorem idSel_in_range (n : Nat) :
    1 ≤ (Sel.id n).stride ∧ (Sel.id n).first ≤ n ∧
      ∀ k : Nat, k < (Sel.id n).count → (Sel.id n).first + k * (Sel.id n).stride < n := by
  simp [Sel.id]

/-- every index operation selects positions inside the input, with stride ≥ 1 -/
theorem opSel_in_range (n : Nat) (op : CropOp) (σ : Sel) (hop : op.isIndexOp = true)
    (h : opSel n op = .ok σ) :
    1 ≤ σ.stride ∧ ∀ k : Nat, k < σ.count → σ.first + k * σ.stride < n := by
  cases op with
  | slice s => have := timeSlice_in_range n s σ h; exact ⟨this.1, this.2.2.2⟩
  | fastLen => have := range_in_range n _ _ σ h; exact ⟨this.1, this.2.2.2⟩
  | shiftCrop shifts =>
    simp only [opSel] at h
    split at h
    · injection h with h; subst h; simp
    · have := range_in_range n _ _ σ h; exact ⟨this.1, this.2.2.2⟩
  | cohCrop dT dB => have := range_in_range n _ _ σ h; exact ⟨this.1, this.2.2.2⟩
  | incohCrop d => simp [CropOp.isIndexOp] at hop
  | snippet t cnt =>
    simp only [opSel] at h
    split at h
    · cases h
    · split at h
      · cases h
      · split at h
        · -- fractional start
          split at h
          · cases h
          · rename_i s1 hs1
            split at h
            · cases h
            · rename_i s2 hs2
              injection h with h; subst h
              have r2 := range_in_range _ _ _ s2 hs2
              have hs2s := range_stride _ _ _ s2 hs2
              have hc : s1.count ≤ n := by
                split at hs1
                · injection hs1 with hs1; subst hs1; simp
                · have r1 := range_in_range n _ _ s1 hs1
                  have hs1s := range_stride _ _ _ s1 hs1
                  by_cases h0 : s1.count = 0
                  · omega
                  · have := r1.2.2.2 (s1.count - 1) (by omega)
                    rw [hs1s] at this; omega
              refine ⟨le_refl _, fun k hk => ?_⟩
              have := r2.2.2.2 k hk
              rw [hs2s] at this
              simp only; omega
        · have := range_in_range n _ _ σ h; exact ⟨this.1, this.2.2.2⟩

theorem opSel_stride (n : Nat) (op : CropOp) (σ : Sel) (h : opSel n op = .ok σ) : 1 ≤ σ.stride := by
  by_cases hop : op.isIndexOp = true
  · exact (opSel_in_range n op σ hop h).1
  · cases op with
    | incohCrop d =>
      simp only [opSel] at h
      split at h
      · cases h
      · injection h with h; subst h; simp
    | _ => simp [CropOp.isIndexOp] at hop

theorem apply_eq (L : Ledger) (op : CropOp) (L' : Ledger) (σ : Sel) (h : apply L op = .ok (L', σ)) :
    opSel L.len op = .ok σ ∧ L' = L.select σ := by
  unfold apply at h
  split at h
  · cases h
  · rename_i σ' hσ
    injection h with h
    injection h with h1 h2
    subst h2; exact ⟨hσ, h1.symm⟩

/-- **pipeline ledger theorem**: after any list of crop operations the ledger is the
selection of the *original* ledger by the composite selection. -/
theorem pipeline_ledger (L0 : Ledger) (hr : L0.rate ≠ 0) :
    ∀ (ops : List CropOp) (L : Ledger) (σ : Sel) (i : Nat) (L' : Ledger) (σ' : Sel),
      L = L0.select σ → 1 ≤ σ.stride → pipeline L σ ops i = .ok (L', σ') →
      L' = L0.select σ' ∧ 1 ≤ σ'.stride := by
  intro ops
  induction ops with
  | nil =>
    intro L σ i L' σ' hL hs h
    simp only [pipeline] at h
    injection h with h; injection h with h1 h2
    subst h1; subst h2; exact ⟨hL, hs⟩
  | cons op rest ih =>
    intro L σ i L' σ' hL hs h
    simp only [pipeline] at h
    split at h
    · cases h
    · rename_i L1 σ1 hap
      obtain ⟨h1, h2⟩ := apply_eq L op L1 σ1 hap
      have hs1 := opSel_stride _ op σ1 h1
      apply ih L1 (σ.comp σ1) (i+1) L' σ' ?_ ?_ h
      · rw [h2, hL]; exact select_comp L0 σ σ1 hr hs hs1
      · simp only [Sel.comp]; exact Nat.mul_le_mul hs hs1

/-- composite selection of a pipeline of index operations stays inside the original input -/
theorem pipeline_in_range (n0 : Nat) :
    ∀ (ops : List CropOp) (L : Ledger) (σ : Sel) (i : Nat) (L' : Ledger) (σ' : Sel),
      (∀ op ∈ ops, op.isIndexOp = true) →
      L.len = σ.count → (∀ k : Nat, k < σ.count → σ.first + k * σ.stride < n0) →
      pipeline L σ ops i = .ok (L', σ') →
      L'.len = σ'.count ∧ ∀ k : Nat, k < σ'.count → σ'.first + k * σ'.stride < n0 := by
  intro ops
  induction ops with
  | nil =>
    intro L σ i L' σ' _ hl hin h
    simp only [pipeline] at h
    injection h with h; injection h with h1 h2
    subst h1; subst h2; exact ⟨hl, hin⟩
  | cons op rest ih =>
    intro L σ i L' σ' hops hl hin h
    simp only [pipeline] at h
    split at h
    · cases h
    · rename_i L1 σ1 hap
      obtain ⟨h1, h2⟩ := apply_eq L op L1 σ1 hap
      have hr1 := opSel_in_range _ op σ1 (hops op (by simp)) h1
      apply ih L1 (σ.comp σ1) (i+1) L' σ' (fun o ho => hops o (by simp [ho])) ?_ ?_ h
      · rw [h2]; rfl
      · intro k hk
        simp only [Sel.comp] at hk ⊢
        have := hr1.2 k hk
        rw [hl] at this
        have h3 := hin _ this
        have e : σ.first + σ1.first * σ.stride + k * (σ.stride * σ1.stride)
            = σ.first + (σ1.first + k * σ1.stride) * σ.stride := by ring
        rw [e]; exact h3

theorem pipeline_none :
    ∀ (ops : List CropOp) (L : Ledger) (σ : Sel) (i : Nat) (L' : Ledger) (σ' : Sel),
      L.t0 = none → pipeline L σ ops i = .ok (L', σ') → L'.t0 = none := by
  intro ops
  induction ops with
  | nil =>
    intro L σ i L' σ' hn h
    simp only [pipeline] at h
    injection h with h; injection h with h1 h2
    subst h1; exact hn
  | cons op rest ih =>
    intro L σ i L' σ' hn h
    simp only [pipeline] at h
    split at h
    · cases h
    · rename_i L1 σ1 hap
      obtain ⟨_, h2⟩ := apply_eq L op L1 σ1 hap
      exact ih L1 _ _ L' σ' (by rw [h2]; exact select_none L σ1 hn) h

/-! ### `contains` -/

theorem rabs_le (q a : Rat) : rabs q ≤ a ↔ -a ≤ q ∧ q ≤ a := by
  unfold rabs
  by_cases h : q < 0
  · simp only [h, if_true]
    constructor
    · intro h1; constructor <;> linarith
    · intro h1; linarith [h1.1]
  · simp only [h, if_false]
    have h' : 0 ≤ q := not_lt.mp h
    constructor
    · intro h1; constructor <;> linarith
    · intro h1; exact h1.2

theorem contains_sound (α : Rat) (L : Ledger) (t : Rat) (h : contains α L t = true) :
    ∃ t0, L.t0 = some t0 ∧ t0 ≤ t ∧ t < t0 + L.len / L.rate := by
  unfold contains at h
  cases ht : L.t0 with
  | none => simp [ht] at h
  | some t0 =>
    simp only [ht, Bool.and_eq_true, decide_eq_true_eq] at h
    exact ⟨t0, rfl, h.1.2, h.2⟩

theorem contains_complete (α : Rat) (L : Ledger) (t t0 : Rat) (h0 : L.t0 = some t0)
    (h1 : t0 ≤ t) (h2 : t < t0 + L.len / L.rate) (hα : α < t0 + L.len / L.rate - t) :
    contains α L t = true := by
  unfold contains
  simp only [h0, Bool.and_eq_true, decide_eq_true_eq, Bool.or_eq_true, Bool.not_eq_true',
    isclose, decide_eq_false_iff_not]
  refine ⟨⟨Or.inl ?_, h1⟩, h2⟩
  rw [rabs_le]
  intro h
  linarith [h.1]

theorem contains_no_start (α : Rat) (L : Ledger) (t : Rat) (h : L.t0 = none) :
    contains α L t = false := by
  simp [contains, h]

theorem contains_empty (α : Rat) (L : Ledger) (t : Rat) (h : L.len = 0) :
    contains α L t = false := by
  unfold contains
  cases ht : L.t0 with
  | none => rfl
  | some t0 =>
    simp only [h]
    by_cases h1 : t0 ≤ t
    · have : ¬ (t < t0 + ((0 : Nat) : Rat) / L.rate) := by simp; exact h1
      simp
    · simp [h1]

/-- accumulated stamp error: if each of `k` operations perturbs the start by at most `ε`,
the total perturbation is at most `k·ε` -/
theorem error_accum (ε : Rat) : ∀ (δ : List Rat), (∀ d ∈ δ, rabs d ≤ ε) → rabs δ.sum ≤ δ.length * ε := by
  intro δ
  induction δ with
  | nil => intro _; simp [rabs]
  | cons d rest ih =>
    intro h
    have h1 := (rabs_le d ε).1 (h d (by simp))
    have h2 := (rabs_le _ _).1 (ih (fun x hx => h x (by simp [hx])))
    rw [rabs_le]
    simp only [List.sum_cons, List.length_cons]
    push_cast
    constructor <;> linarith [h1.1, h1.2, h2.1, h2.2]

theorem shiftBounds_sign (l : List Rat) : 0 ≤ (shiftBounds l).1 ∧ (shiftBounds l).2 ≤ 0 := by
  induction l with
  | nil => simp [shiftBounds]
  | cons a rest ih =>
    simp only [shiftBounds]
    split <;> simp only <;> omega

end Pb.Crop
