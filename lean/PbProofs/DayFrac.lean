import Mathlib.Algebra.Order.Floor.Ring
import Mathlib.Data.Rat.Floor
import Mathlib.Algebra.Order.Field.Rat
import Mathlib.Tactic.Linarith
import Mathlib.Tactic.Ring
import Mathlib.Tactic.NormNum
import Mathlib.Tactic.Positivity
import Mathlib.Algebra.Order.AbsoluteValue.Basic
import PbModel.DayFrac

/-! `day_frac` (add/subtract/construct path) under the standard model of floating point. -/

namespace Pb.DayFracProof

/-- "standard model" of binary64 round-to-nearest, as hypotheses on a rounding function. -/
structure FPModel where
  rn : ℚ → ℚ
  F : ℚ → Prop
  rn_F : ∀ x, F (rn x)
  rn_err : ∀ x, |rn x - x| ≤ (1 / 2^53) * |x|
  int_F : ∀ n : ℤ, |(n:ℚ)| ≤ 2^53 → F n
  rn_id : ∀ x, F x → rn x = x
  neg_F : ∀ x, F x → F (-x)

namespace FPModel
variable (M : FPModel)

def ops : Pb.DayFrac.Ops ℚ := Pb.DayFrac.ratOps M.rn

def add (a b : ℚ) : ℚ := M.rn (a + b)
def sub (a b : ℚ) : ℚ := M.rn (a - b)

/-- astropy two_sum over the rounding `M.rn` — the generic transliteration instantiated -/
def twoSum (a b : ℚ) : ℚ × ℚ := Pb.DayFrac.twoSum M.ops a b

/-- EFT contract of the external two_sum -/
def TwoSumExact : Prop := ∀ a b, M.F a → M.F b → (M.twoSum a b).1 + (M.twoSum a b).2 = a + b

def fl (x : ℚ) : ℚ := (⌊x⌋ : ℤ)

theorem fl_eq (x : ℚ) : ((x.floor : ℤ) : ℚ) = fl x := by
  unfold fl; rw [Rat.floor_def, Rat.floor_def']

/-- `day_frac(v1, v2)` (no factor/divisor): the generic model at the rounding `M.rn` -/
def dayFrac (v1 v2 : ℚ) : ℚ × ℚ := Pb.DayFrac.dayFrac M.ops v1 v2 none none

lemma twoSum_fst (a b : ℚ) : (M.twoSum a b).1 = M.rn (a + b) := rfl

lemma rn_close (x B : ℚ) (h : |x| ≤ B) : |M.rn x - x| ≤ B / 2^53 := by
  have := M.rn_err x
  have h2 : (1 / 2^53 : ℚ) * |x| ≤ (1/2^53) * B := by
    apply mul_le_mul_of_nonneg_left h; positivity
  calc |M.rn x - x| ≤ (1 / 2^53) * |x| := this
    _ ≤ (1/2^53) * B := h2
    _ = B / 2^53 := by ring


/-- u = 2^-53 -/
abbrev u : ℚ := 1 / 2^53

lemma rn_bounds (x B : ℚ) (h : |x| ≤ B) : x - B * u ≤ M.rn x ∧ M.rn x ≤ x + B * u := by
  have h1 := M.rn_close x B h
  rw [abs_le] at h1
  constructor <;> (unfold u; linarith [h1.1, h1.2])

theorem dayFrac_spec (hE : M.TwoSumExact) (v1 v2 : ℚ) (h1 : M.F v1) (h2 : M.F v2)
    (hV : |v1 + v2| ≤ 2^52) :
    (∃ n : ℤ, (M.dayFrac v1 v2).1 = n) ∧
    |(M.dayFrac v1 v2).1 + (M.dayFrac v1 v2).2 - (v1 + v2)| ≤ 1 / 2^52 ∧
    |(M.dayFrac v1 v2).2| ≤ 1/2 + 1 / 2^49 := by
  -- name the intermediate values of the transliterated algorithm
  set V := v1 + v2 with hVd
  set s := (M.twoSum v1 v2).1 with hs
  set e := (M.twoSum v1 v2).2 with he
  set d0 : ℚ := fl (M.add s (1/2)) with hd0
  set x0 := (M.twoSum s (-d0)).1 with hx0
  set f0 := (M.twoSum s (-d0)).2 with hf0
  set in1 := M.add x0 e with hin1
  set fr1 := M.add f0 in1 with hfr1
  set ex : ℚ := fl (M.add fr1 (1/2)) with hex
  set day := M.add d0 ex with hday
  set x := (M.twoSum s (-day)).1 with hx
  set f := (M.twoSum s (-day)).2 with hf
  set in2 := M.add x e with hin2
  set frac := M.add f in2 with hfrac
  have hres : M.dayFrac v1 v2 = (day, frac) := rfl
  rw [hres]
  simp only
  have hu : (2:ℚ)^52 * u = 1/2 := by norm_num [u]
  have hu0 : (0:ℚ) < u := by norm_num [u]
  have hVb := abs_le.1 hV
  -- step 1: s, e
  have hsV : s = M.rn V := rfl
  have hse : s + e = V := hE v1 v2 h1 h2
  obtain ⟨s_lo, s_hi⟩ := M.rn_bounds V (2^52) hV
  rw [← hsV, hu] at s_lo s_hi
  have hsF : M.F s := by rw [hsV]; exact M.rn_F _
  -- step 2: d0
  have hsh : |s + 1/2| ≤ 2^52 + 1 := by rw [abs_le]; constructor <;> linarith [hVb.1, hVb.2]
  obtain ⟨w_lo, w_hi⟩ := M.rn_bounds (s + 1/2) (2^52+1) hsh
  have hw : M.add s (1/2) = M.rn (s + 1/2) := rfl
  have hu1 : ((2:ℚ)^52 + 1) * u = 1/2 + u := by norm_num [u]
  rw [hu1] at w_lo w_hi
  have hd0_le : d0 ≤ M.rn (s + 1/2) := by rw [hd0, hw]; exact Int.floor_le _
  have hd0_gt : M.rn (s + 1/2) < d0 + 1 := by rw [hd0, hw]; exact Int.lt_floor_add_one _
  have hd0_int : ∃ n : ℤ, d0 = n := ⟨⌊M.add s (1/2)⌋, rfl⟩
  have hd0_b : |d0| ≤ 2^53 := by
    rw [abs_le]; constructor <;> norm_num [u] at * <;> linarith
  obtain ⟨n0, hn0⟩ := hd0_int
  have hd0F : M.F (-d0) := by
    apply M.neg_F; rw [hn0]; apply M.int_F; rw [← hn0]; exact hd0_b
  -- step 3: twoSum(s, -d0)
  have hxf0 : x0 + f0 = s + -d0 := hE s (-d0) hsF hd0F
  have hx0r : x0 = M.rn (s + -d0) := rfl
  have hsd : |s + -d0| ≤ 2 := by
    rw [abs_le]; constructor <;> norm_num [u] at * <;> linarith
  obtain ⟨x0_lo, x0_hi⟩ := M.rn_bounds (s + -d0) 2 hsd
  rw [← hx0r] at x0_lo x0_hi
  have hsd' := abs_le.1 hsd
  -- in1 = rn (x0 + e)
  have hx0e : |x0 + e| ≤ 3 := by
    rw [abs_le]; constructor <;> norm_num [u] at * <;> linarith
  obtain ⟨i1_lo, i1_hi⟩ := M.rn_bounds (x0 + e) 3 hx0e
  have hin1r : in1 = M.rn (x0 + e) := rfl
  rw [← hin1r] at i1_lo i1_hi
  -- fr1 = rn (f0 + in1)
  have hfi : |f0 + in1| ≤ 3 := by
    rw [abs_le]; constructor <;> norm_num [u] at * <;> linarith
  obtain ⟨f1_lo, f1_hi⟩ := M.rn_bounds (f0 + in1) 3 hfi
  have hfr1r : fr1 = M.rn (f0 + in1) := rfl
  rw [← hfr1r] at f1_lo f1_hi
  -- step 4: excess
  have hf12 : |fr1 + 1/2| ≤ 4 := by
    rw [abs_le]; constructor <;> norm_num [u] at * <;> linarith
  obtain ⟨w1_lo, w1_hi⟩ := M.rn_bounds (fr1 + 1/2) 4 hf12
  have hw1 : M.add fr1 (1/2) = M.rn (fr1 + 1/2) := rfl
  have hex_le : ex ≤ M.rn (fr1 + 1/2) := by rw [hex, hw1]; exact Int.floor_le _
  have hex_gt : M.rn (fr1 + 1/2) < ex + 1 := by rw [hex, hw1]; exact Int.lt_floor_add_one _
  obtain ⟨nex, hnex⟩ : ∃ n : ℤ, ex = n := ⟨⌊M.add fr1 (1/2)⌋, rfl⟩
  -- day = d0 + ex exactly
  have hdsum : |((n0 + nex : ℤ) : ℚ)| ≤ 2^53 := by
    push_cast; rw [← hn0, ← hnex, abs_le]
    constructor <;> norm_num [u] at * <;> linarith
  have hdayF : M.F ((n0 + nex : ℤ) : ℚ) := M.int_F _ hdsum
  have hday_eq : day = d0 + ex := by
    rw [hday]; unfold FPModel.add
    have : d0 + ex = ((n0 + nex : ℤ) : ℚ) := by push_cast; rw [hn0, hnex]
    rw [this]; exact M.rn_id _ hdayF
  have hndayF : M.F (-day) := by
    apply M.neg_F; rw [hday_eq]
    have : d0 + ex = ((n0 + nex : ℤ) : ℚ) := by push_cast; rw [hn0, hnex]
    rw [this]; exact hdayF
  -- step 5: second twoSum
  have hxf : x + f = s + -day := hE s (-day) hsF hndayF
  have hxr : x = M.rn (s + -day) := rfl
  have hsd2 : |s + -day| ≤ 2 := by
    rw [abs_le, hday_eq]; constructor <;> norm_num [u] at * <;> linarith
  obtain ⟨x_lo, x_hi⟩ := M.rn_bounds (s + -day) 2 hsd2
  rw [← hxr] at x_lo x_hi
  have hxe : |x + e| ≤ 1 := by
    rw [abs_le]; rw [hday_eq] at *; constructor <;> norm_num [u] at * <;> linarith
  obtain ⟨i2_lo, i2_hi⟩ := M.rn_bounds (x + e) 1 hxe
  have hin2r : in2 = M.rn (x + e) := rfl
  rw [← hin2r] at i2_lo i2_hi
  have hfi2 : |f + in2| ≤ 1 := by
    rw [abs_le]; rw [hday_eq] at *; constructor <;> norm_num [u] at * <;> linarith
  obtain ⟨fr_lo, fr_hi⟩ := M.rn_bounds (f + in2) 1 hfi2
  have hfracr : frac = M.rn (f + in2) := rfl
  rw [← hfracr] at fr_lo fr_hi
  refine ⟨⟨n0 + nex, by rw [hday_eq, hn0, hnex]; push_cast; ring⟩, ?_, ?_⟩
  · rw [abs_le, hday_eq] at *; constructor <;> norm_num [u] at * <;> linarith
  · rw [abs_le, hday_eq] at *; constructor <;> norm_num [u] at * <;> linarith

end FPModel


/-- non-vacuity: exact arithmetic is a model and satisfies the EFT contract -/
def exactModel : FPModel where
  rn := id
  F := fun _ => True
  rn_F := fun _ => trivial
  rn_err := fun x => by simp
  int_F := fun _ _ => trivial
  rn_id := fun _ _ => rfl
  neg_F := fun _ _ => trivial

example : exactModel.TwoSumExact := by
  intro a b _ _
  simp [FPModel.twoSum, FPModel.ops, Pb.DayFrac.twoSum, Pb.DayFrac.ratOps, exactModel]

end Pb.DayFracProof
