import PbProofs.DayFrac

/-! Error analysis of `day_frac` with a `factor` (Phase × number) and with a `divisor`
(Phase / number) under the standard model `FPModel`, continuing `PbProofs/DayFrac.lean`.

The shared renormalisation tail is analysed once (`normalise_spec`); the multiply and divide
front ends are then shown to hand it a pair `(s, e)` with `s + e` within a few `u = 2^-53` of the
exact product / quotient. -/

namespace Pb.DayFracProof
namespace FPModel
variable (M : FPModel)

/-- astropy two_product over the rounding `M.rn` -/
def twoProduct (a b : ℚ) : ℚ × ℚ := Pb.DayFrac.twoProduct M.ops a b

/-- EFT contract of the external two_product (Dekker/Veltkamp; holds barring over/underflow) -/
def TwoProductExact : Prop :=
  ∀ a b, M.F a → M.F b → (M.twoProduct a b).1 + (M.twoProduct a b).2 = a * b

lemma twoProduct_fst (a b : ℚ) : (M.twoProduct a b).1 = M.rn (a * b) := rfl

lemma rn_abs_err (x : ℚ) : |M.rn x - x| ≤ u * |x| := by
  have := M.rn_err x
  simpa [u] using this

/-- the renormalisation tail on an arbitrary pair: representable `s`, small `e` -/
theorem normalise_spec (hE : M.TwoSumExact) (s e : ℚ) (hsF : M.F s) (hV : |s + e| ≤ 2^52) (he : |e| ≤ 1/2) :
    (∃ n : ℤ, (Pb.DayFrac.normalise M.ops s e).1 = n) ∧
    |(Pb.DayFrac.normalise M.ops s e).1 + (Pb.DayFrac.normalise M.ops s e).2 - (s + e)| ≤ 1 / 2^52 ∧
    |(Pb.DayFrac.normalise M.ops s e).2| ≤ 1/2 + 1 / 2^49 := by
  set V := s + e with hVd
  set d0 : ℚ := fl (M.add s (1/2)) with hd0
  set x0 := (M.twoSum s (-d0)).1 with hx0
  set f0 := (M.twoSum s (-d0)).2 with hf0
  set in1 := M.add x0 e with hin1
  set fr1 := M.add f0 in1 with hfr1
  set ex : ℚ := fl (M.add fr1 (1/2)) with hex
  set day := M.add d0 ex with hday
  set x := (M.twoSum s (-day)).1 with hx
  set f := (M.twoSum s (-day)).2 with hf
  set in2 := M.add x e with hin2
  set frac := M.add f in2 with hfrac
  have hres : Pb.DayFrac.normalise M.ops s e = (day, frac) := rfl
  rw [hres]
  simp only
  have hu : (2:ℚ)^52 * u = 1/2 := by norm_num [u]
  have hu0 : (0:ℚ) < u := by norm_num [u]
  have hVb := abs_le.1 hV
  have heb := abs_le.1 he
  have hse : s + e = V := rfl
  have s_lo : V - 1/2 ≤ s := by linarith [heb.2]
  have s_hi : s ≤ V + 1/2 := by linarith [heb.1]
  -- step 2: d0
  have hsh : |s + 1/2| ≤ 2^52 + 1 := by rw [abs_le]; constructor <;> linarith [hVb.1, hVb.2]
  obtain ⟨w_lo, w_hi⟩ := M.rn_bounds (s + 1/2) (2^52+1) hsh
  have hw : M.add s (1/2) = M.rn (s + 1/2) := rfl
  have hu1 : ((2:ℚ)^52 + 1) * u = 1/2 + u := by norm_num [u]
  rw [hu1] at w_lo w_hi
  have hd0_le : d0 ≤ M.rn (s + 1/2) := by rw [hd0, hw]; exact Int.floor_le _
  have hd0_gt : M.rn (s + 1/2) < d0 + 1 := by rw [hd0, hw]; exact Int.lt_floor_add_one _
  have hd0_int : ∃ n : ℤ, d0 = n := ⟨⌊M.add s (1/2)⌋, rfl⟩
  have hd0_b : |d0| ≤ 2^53 := by
    rw [abs_le]; constructor <;> norm_num [u] at * <;> linarith
  obtain ⟨n0, hn0⟩ := hd0_int
  have hd0F : M.F (-d0) := by
    apply M.neg_F; rw [hn0]; apply M.int_F; rw [← hn0]; exact hd0_b
  -- step 3: twoSum(s, -d0)
  have hxf0 : x0 + f0 = s + -d0 := hE s (-d0) hsF hd0F
  have hx0r : x0 = M.rn (s + -d0) := rfl
  have hsd : |s + -d0| ≤ 2 := by
    rw [abs_le]; constructor <;> norm_num [u] at * <;> linarith
  obtain ⟨x0_lo, x0_hi⟩ := M.rn_bounds (s + -d0) 2 hsd
  rw [← hx0r] at x0_lo x0_hi
  have hsd' := abs_le.1 hsd
  have hx0e : |x0 + e| ≤ 3 := by
    rw [abs_le]; constructor <;> norm_num [u] at * <;> linarith
  obtain ⟨i1_lo, i1_hi⟩ := M.rn_bounds (x0 + e) 3 hx0e
  have hin1r : in1 = M.rn (x0 + e) := rfl
  rw [← hin1r] at i1_lo i1_hi
  have hfi : |f0 + in1| ≤ 3 := by
    rw [abs_le]; constructor <;> norm_num [u] at * <;> linarith
  obtain ⟨f1_lo, f1_hi⟩ := M.rn_bounds (f0 + in1) 3 hfi
  have hfr1r : fr1 = M.rn (f0 + in1) := rfl
  rw [← hfr1r] at f1_lo f1_hi
  -- step 4: excess
  have hf12 : |fr1 + 1/2| ≤ 4 := by
    rw [abs_le]; constructor <;> norm_num [u] at * <;> linarith
  obtain ⟨w1_lo, w1_hi⟩ := M.rn_bounds (fr1 + 1/2) 4 hf12
  have hw1 : M.add fr1 (1/2) = M.rn (fr1 + 1/2) := rfl
  have hex_le : ex ≤ M.rn (fr1 + 1/2) := by rw [hex, hw1]; exact Int.floor_le _
  have hex_gt : M.rn (fr1 + 1/2) < ex + 1 := by rw [hex, hw1]; exact Int.lt_floor_add_one _
  obtain ⟨nex, hnex⟩ : ∃ n : ℤ, ex = n := ⟨⌊M.add fr1 (1/2)⌋, rfl⟩
  have hdsum : |((n0 + nex : ℤ) : ℚ)| ≤ 2^53 := by
    push_cast; rw [← hn0, ← hnex, abs_le]
    constructor <;> norm_num [u] at * <;> linarith
  have hdayF : M.F ((n0 + nex : ℤ) : ℚ) := M.int_F _ hdsum
  have hday_eq : day = d0 + ex := by
    rw [hday]; unfold FPModel.add
    have : d0 + ex = ((n0 + nex : ℤ) : ℚ) := by push_cast; rw [hn0, hnex]
    rw [this]; exact M.rn_id _ hdayF
  have hndayF : M.F (-day) := by
    apply M.neg_F; rw [hday_eq]
    have : d0 + ex = ((n0 + nex : ℤ) : ℚ) := by push_cast; rw [hn0, hnex]
    rw [this]; exact hdayF
  -- step 5: second twoSum
  have hxf : x + f = s + -day := hE s (-day) hsF hndayF
  have hxr : x = M.rn (s + -day) := rfl
  have hsd2 : |s + -day| ≤ 2 := by
    rw [abs_le, hday_eq]; constructor <;> norm_num [u] at * <;> linarith
  obtain ⟨x_lo, x_hi⟩ := M.rn_bounds (s + -day) 2 hsd2
  rw [← hxr] at x_lo x_hi
  have hxe : |x + e| ≤ 1 := by
    rw [abs_le]; rw [hday_eq] at *; constructor <;> norm_num [u] at * <;> linarith
  obtain ⟨i2_lo, i2_hi⟩ := M.rn_bounds (x + e) 1 hxe
  have hin2r : in2 = M.rn (x + e) := rfl
  rw [← hin2r] at i2_lo i2_hi
  have hfi2 : |f + in2| ≤ 1 := by
    rw [abs_le]; rw [hday_eq] at *; constructor <;> norm_num [u] at * <;> linarith
  obtain ⟨fr_lo, fr_hi⟩ := M.rn_bounds (f + in2) 1 hfi2
  have hfracr : frac = M.rn (f + in2) := rfl
  rw [← hfracr] at fr_lo fr_hi
  refine ⟨⟨n0 + nex, by rw [hday_eq, hn0, hnex]; push_cast; ring⟩, ?_, ?_⟩
  · rw [abs_le, hday_eq] at *; constructor <;> norm_num [u] at * <;> linarith
  · rw [abs_le, hday_eq] at *; constructor <;> norm_num [u] at * <;> linarith

/-- the front end of `day_frac(v1, v2, factor=f)`: the pair handed to the renormalisation -/
def mulPair (v1 v2 f : ℚ) : ℚ × ℚ :=
  let p := M.twoSum v1 v2
  let q := M.twoProduct p.1 f
  let carry := M.add q.2 (M.rn (p.2 * f))
  M.twoSum q.1 carry

lemma dayFrac_mul_eq (v1 v2 f : ℚ) :
    Pb.DayFrac.dayFrac M.ops v1 v2 (some f) none =
      Pb.DayFrac.normalise M.ops (M.mulPair v1 v2 f).1 (M.mulPair v1 v2 f).2 := rfl

/-- the multiply front end is within `2u` of the exact product and meets the hypotheses of the tail -/
theorem mulPair_spec (hE : M.TwoSumExact) (hP : M.TwoProductExact) (v1 v2 f : ℚ)
    (h1 : M.F v1) (h2 : M.F v2) (hf : M.F f) (hV : |(v1 + v2) * f| ≤ 2^52 - 2) :
    M.F (M.mulPair v1 v2 f).1 ∧
    |(M.mulPair v1 v2 f).1 + (M.mulPair v1 v2 f).2 - (v1 + v2) * f| ≤ 2 * u ∧
    |(M.mulPair v1 v2 f).1 + (M.mulPair v1 v2 f).2| ≤ 2^52 ∧
    |(M.mulPair v1 v2 f).2| ≤ 1/2 := by
  set V := v1 + v2 with hVd
  set P := V * f with hPd
  set s0 := (M.twoSum v1 v2).1 with hs0
  set e0 := (M.twoSum v1 v2).2 with he0
  set x := (M.twoProduct s0 f).1 with hx
  set y := (M.twoProduct s0 f).2 with hy
  set r := M.rn (e0 * f) with hr
  set carry := M.add y r with hcarry
  set s := (M.twoSum x carry).1 with hs
  set e := (M.twoSum x carry).2 with he
  have hpair : M.mulPair v1 v2 f = (s, e) := rfl
  rw [hpair]
  simp only
  have hu0 : (0:ℚ) < u := by norm_num [u]
  have hu52 : (2:ℚ)^52 * u = 1/2 := by norm_num [u]
  -- step 1: s0 + e0 = V, |e0| ≤ u |V|
  have hse0 : s0 + e0 = V := hE v1 v2 h1 h2
  have hs0r : s0 = M.rn V := rfl
  have hs0F : M.F s0 := by rw [hs0r]; exact M.rn_F _
  have he0b : |e0| ≤ u * |V| := by
    have := M.rn_abs_err V
    rw [← hs0r] at this
    have h : e0 = -(s0 - V) := by linarith
    rw [h, abs_neg]; exact this
  -- |e0 f| ≤ u |P|
  have he0f : |e0 * f| ≤ u * |P| := by
    rw [abs_mul, hPd, abs_mul]
    calc |e0| * |f| ≤ (u * |V|) * |f| := mul_le_mul_of_nonneg_right he0b (abs_nonneg f)
      _ = u * (|V| * |f|) := by ring
  have hPabs : |P| ≤ 2^52 - 2 := hV
  have hPnn : 0 ≤ |P| := abs_nonneg P
  have he0f' : |e0 * f| ≤ 1/2 := by
    calc |e0 * f| ≤ u * |P| := he0f
      _ ≤ u * (2^52 - 2) := mul_le_mul_of_nonneg_left hPabs hu0.le
      _ ≤ 1/2 := by norm_num [u]
  -- s0 f = P - e0 f
  have hs0f : s0 * f = P - e0 * f := by rw [hPd, ← hse0]; ring
  have hs0fb : |s0 * f| ≤ 2^52 - 1 := by
    rw [hs0f]
    calc |P - e0 * f| ≤ |P| + |e0 * f| := abs_sub _ _
      _ ≤ (2^52 - 2) + 1/2 := add_le_add hPabs he0f'
      _ ≤ 2^52 - 1 := by norm_num
  -- step 2: x + y = s0 f, |y| ≤ 1/2
  have hxy : x + y = s0 * f := hP s0 f hs0F hf
  have hxr : x = M.rn (s0 * f) := rfl
  have hxF : M.F x := by rw [hxr]; exact M.rn_F _
  have hyb : |y| ≤ 1/2 := by
    have := M.rn_abs_err (s0 * f)
    rw [← hxr] at this
    have h : y = -(x - s0 * f) := by linarith
    rw [h, abs_neg]
    calc |x - s0 * f| ≤ u * |s0 * f| := this
      _ ≤ u * (2^52 - 1) := mul_le_mul_of_nonneg_left hs0fb hu0.le
      _ ≤ 1/2 := by norm_num [u]
  -- step 3: r, carry
  have hrb : |r - e0 * f| ≤ u * (1/2) := by
    calc |r - e0 * f| ≤ u * |e0 * f| := M.rn_abs_err _
      _ ≤ u * (1/2) := mul_le_mul_of_nonneg_left he0f' hu0.le
  have hrabs : |r| ≤ 1 := by
    have h1 := abs_le.1 hrb
    have h2 := abs_le.1 he0f'
    rw [abs_le]; constructor <;> norm_num [u] at * <;> linarith
  have hyr : |y + r| ≤ 3/2 := by
    have h1 := abs_le.1 hyb
    have h2 := abs_le.1 hrabs
    rw [abs_le]; constructor <;> linarith
  have hyr' : |y + r| ≤ 1 + u := by
    have h1 := abs_le.1 hyb
    have h2 := abs_le.1 hrb
    have h3 := abs_le.1 he0f'
    rw [abs_le]; constructor <;> norm_num [u] at * <;> linarith
  have hcr : carry = M.rn (y + r) := rfl
  have hcF : M.F carry := by rw [hcr]; exact M.rn_F _
  have hcb : |carry - (y + r)| ≤ u * (1 + u) := by
    calc |carry - (y + r)| ≤ u * |y + r| := by rw [hcr]; exact M.rn_abs_err _
      _ ≤ u * (1 + u) := mul_le_mul_of_nonneg_left hyr' hu0.le
  -- step 4: s + e = x + carry
  have hsum : s + e = x + carry := hE x carry hxF hcF
  have hsr : s = M.rn (x + carry) := rfl
  have hsF : M.F s := by rw [hsr]; exact M.rn_F _
  -- total deviation from P
  have hdev : x + carry - P = (carry - (y + r)) + (r - e0 * f) := by
    have : P = x + y + e0 * f := by rw [hxy, hs0f]; ring
    rw [this]; ring
  have hdevb : |x + carry - P| ≤ 2 * u := by
    rw [hdev]
    calc |(carry - (y + r)) + (r - e0 * f)| ≤ |carry - (y + r)| + |r - e0 * f| := abs_add_le _ _
      _ ≤ u * (1 + u) + u * (1/2) := add_le_add hcb hrb
      _ ≤ 2 * u := by norm_num [u]
  have hxc : |x + carry| ≤ 2^52 - 1 := by
    have h1 := abs_le.1 hdevb
    have h2 := abs_le.1 hPabs
    rw [abs_le]; constructor <;> norm_num [u] at * <;> linarith
  have heb : |e| ≤ 1/2 := by
    have := M.rn_abs_err (x + carry)
    rw [← hsr] at this
    have h : e = -(s - (x + carry)) := by linarith
    rw [h, abs_neg]
    calc |s - (x + carry)| ≤ u * |x + carry| := this
      _ ≤ u * (2^52 - 1) := mul_le_mul_of_nonneg_left hxc hu0.le
      _ ≤ 1/2 := by norm_num [u]
  refine ⟨hsF, ?_, ?_, heb⟩
  · rw [hsum]; exact hdevb
  · rw [hsum]
    calc |x + carry| ≤ 2^52 - 1 := hxc
      _ ≤ 2^52 := by norm_num

/-- **Phase × number**: `day_frac(v1, v2, factor=f)` returns an integer count, `count + frac` within
`2^-51` of the exact product `(v1+v2)·f`, and a normalised fraction. -/
theorem dayFrac_mul_spec (hE : M.TwoSumExact) (hP : M.TwoProductExact) (v1 v2 f : ℚ)
    (h1 : M.F v1) (h2 : M.F v2) (hf : M.F f) (hV : |(v1 + v2) * f| ≤ 2^52 - 2) :
    (∃ n : ℤ, (Pb.DayFrac.dayFrac M.ops v1 v2 (some f) none).1 = n) ∧
    |(Pb.DayFrac.dayFrac M.ops v1 v2 (some f) none).1 + (Pb.DayFrac.dayFrac M.ops v1 v2 (some f) none).2
      - (v1 + v2) * f| ≤ 1 / 2^51 ∧
    |(Pb.DayFrac.dayFrac M.ops v1 v2 (some f) none).2| ≤ 1/2 + 1 / 2^49 := by
  obtain ⟨hsF, hdev, hb, he⟩ := M.mulPair_spec hE hP v1 v2 f h1 h2 hf hV
  obtain ⟨hint, herr, hfr⟩ := M.normalise_spec hE _ _ hsF hb he
  rw [M.dayFrac_mul_eq]
  refine ⟨hint, ?_, hfr⟩
  set D := (Pb.DayFrac.normalise M.ops (M.mulPair v1 v2 f).1 (M.mulPair v1 v2 f).2) with hD
  have h1' := abs_le.1 herr
  have h2' := abs_le.1 hdev
  rw [abs_le]
  constructor <;> norm_num [u] at * <;> linarith

/-! ### division -/

lemma scaled_err (x d : ℚ) : |M.rn x / d - x / d| ≤ u * |x / d| := by
  rw [← sub_div, abs_div, abs_div]
  have h := M.rn_abs_err x
  have hd : 0 ≤ |d| := abs_nonneg d
  calc |M.rn x - x| / |d| ≤ (u * |x|) / |d| := div_le_div_of_nonneg_right h hd
    _ = u * (|x| / |d|) := by ring

lemma scaled_bounds (x d B : ℚ) (h : |x / d| ≤ B) :
    |M.rn x / d - x / d| ≤ u * B ∧ |M.rn x / d| ≤ (1 + u) * B := by
  have hu0 : (0:ℚ) < u := by norm_num [u]
  have h1 : |M.rn x / d - x / d| ≤ u * B :=
    le_trans (M.scaled_err x d) (mul_le_mul_of_nonneg_left h hu0.le)
  refine ⟨h1, ?_⟩
  have : M.rn x / d = (M.rn x / d - x / d) + x / d := by ring
  rw [this]
  calc |(M.rn x / d - x / d) + x / d| ≤ |M.rn x / d - x / d| + |x / d| := abs_add_le _ _
    _ ≤ u * B + B := add_le_add h1 h
    _ = (1 + u) * B := by ring

/-- the front end of `day_frac(v1, v2, divisor=d)` -/
def divPair (v1 v2 d : ℚ) : ℚ × ℚ :=
  let p := M.twoSum v1 v2
  let q1 := M.rn (p.1 / d)
  let pp := M.twoProduct q1 d
  let dd := M.twoSum p.1 (-pp.1)
  let d2 := M.add dd.2 p.2
  let d2 := M.sub d2 pp.2
  let q2 := M.rn (M.add dd.1 d2 / d)
  M.twoSum q1 q2

lemma dayFrac_div_eq (v1 v2 d : ℚ) :
    Pb.DayFrac.dayFrac M.ops v1 v2 none (some d) =
      Pb.DayFrac.normalise M.ops (M.divPair v1 v2 d).1 (M.divPair v1 v2 d).2 := rfl

lemma sb (x d k w : ℚ) (h : |x / d| ≤ k * w) :
    |M.rn x / d - x / d| ≤ k * (u * w) ∧ |M.rn x / d| ≤ k * w + k * (u * w) := by
  obtain ⟨a, b⟩ := M.scaled_bounds x d (k * w) h
  exact ⟨by linarith [a, (by ring : u * (k * w) = k * (u * w))],
         by linarith [b, (by ring : (1 + u) * (k * w) = k * w + k * (u * w))]⟩

/-- the divide front end is within `6u` of the exact quotient and meets the hypotheses of the tail -/
theorem divPair_spec (hE : M.TwoSumExact) (hP : M.TwoProductExact) (v1 v2 d : ℚ)
    (h1 : M.F v1) (h2 : M.F v2) (hdF : M.F d) (hd : d ≠ 0) (hV : |(v1 + v2) / d| ≤ 2^52 - 2) :
    M.F (M.divPair v1 v2 d).1 ∧
    |(M.divPair v1 v2 d).1 + (M.divPair v1 v2 d).2 - (v1 + v2) / d| ≤ 6 * u ∧
    |(M.divPair v1 v2 d).1 + (M.divPair v1 v2 d).2| ≤ 2^52 ∧
    |(M.divPair v1 v2 d).2| ≤ 1/2 := by
  set V := v1 + v2 with hVd
  set Q := V / d with hQd
  set s0 := (M.twoSum v1 v2).1 with hs0
  set e0 := (M.twoSum v1 v2).2 with he0
  set q1 := M.rn (s0 / d) with hq1
  set p1 := (M.twoProduct q1 d).1 with hp1
  set p2 := (M.twoProduct q1 d).2 with hp2
  set d1 := (M.twoSum s0 (-p1)).1 with hd1
  set d2 := (M.twoSum s0 (-p1)).2 with hd2
  set a := M.add d2 e0 with ha
  set b := M.sub a p2 with hb
  set c := M.add d1 b with hc
  set q2 := M.rn (c / d) with hq2
  set s := (M.twoSum q1 q2).1 with hs
  set e := (M.twoSum q1 q2).2 with he
  have hpair : M.divPair v1 v2 d = (s, e) := rfl
  rw [hpair]
  simp only
  have hu0 : (0:ℚ) < u := by norm_num [u]
  have hus : u ≤ 1 / 1000 := by norm_num [u]
  have hqnn : 0 ≤ |Q| := abs_nonneg Q
  have hqb : |Q| ≤ 2^52 - 2 := hV
  -- w = u·|Q| ≤ 1/2 is the scale of every first-order quantity (after dividing by d)
  have hw0 : 0 ≤ u * |Q| := mul_nonneg hu0.le hqnn
  have hwb : u * |Q| ≤ 1 / 2 := by
    calc u * |Q| ≤ u * (2^52 - 2) := mul_le_mul_of_nonneg_left hqb hu0.le
      _ ≤ 1 / 2 := by norm_num [u]
  have huw1 : u * (u * |Q|) ≤ (u * |Q|) / 1000 := by
    have := mul_le_mul_of_nonneg_right hus hw0
    linarith
  have huw2 : u * (u * |Q|) ≤ u / 2 := by
    have := mul_le_mul_of_nonneg_left hwb hu0.le
    linarith
  -- exact relations
  have hse0 : s0 + e0 = V := hE v1 v2 h1 h2
  have hs0r : s0 = M.rn V := rfl
  have hs0F : M.F s0 := by rw [hs0r]; exact M.rn_F _
  have hq1F : M.F q1 := M.rn_F _
  have hp12 : p1 + p2 = q1 * d := hP q1 d hq1F hdF
  have hp1r : p1 = M.rn (q1 * d) := rfl
  have hp1F : M.F (-p1) := by apply M.neg_F; rw [hp1r]; exact M.rn_F _
  have hd12 : d1 + d2 = s0 + -p1 := hE s0 (-p1) hs0F hp1F
  have hd1r : d1 = M.rn (s0 + -p1) := rfl
  have hQt : s0 / d = Q - e0 / d := by rw [hQd, ← hse0]; ring
  -- (E0) |e0/d| ≤ w
  have hE0 : |e0 / d| ≤ u * |Q| := by
    have h := M.scaled_err V d
    rw [← hs0r] at h
    have : e0 / d = -(s0 / d - V / d) := by rw [← hse0]; ring
    rw [this, abs_neg]; exact h
  have htb : |s0 / d| ≤ |Q| + u * |Q| := by
    rw [hQt]
    exact le_trans (abs_sub _ _) (add_le_add le_rfl hE0)
  -- (E1) q1 = rn (s0/d)
  have hE1 : |q1 - s0 / d| ≤ (1001 / 1000) * (u * |Q|) := by
    have h := M.rn_abs_err (s0 / d)
    have h2 := mul_le_mul_of_nonneg_left htb hu0.le
    have : u * (|Q| + u * |Q|) = u * |Q| + u * (u * |Q|) := by ring
    calc |q1 - s0 / d| ≤ u * |s0 / d| := h
      _ ≤ u * |Q| + u * (u * |Q|) := by linarith
      _ ≤ (1001 / 1000) * (u * |Q|) := by linarith
  have hq1b : |q1| ≤ |Q| + (2001 / 1000) * (u * |Q|) := by
    have : q1 = (q1 - s0 / d) + s0 / d := by ring
    rw [this]
    calc |(q1 - s0 / d) + s0 / d| ≤ |q1 - s0 / d| + |s0 / d| := abs_add_le _ _
      _ ≤ (1001 / 1000) * (u * |Q|) + (|Q| + u * |Q|) := add_le_add hE1 htb
      _ = |Q| + (2001 / 1000) * (u * |Q|) := by ring
  -- (E2) p1 = rn (q1 d)
  have hqd : q1 * d / d = q1 := by field_simp
  have hp2s : p2 / d = -(p1 / d - q1) := by
    have h : p2 = q1 * d - p1 := by linarith
    rw [h, sub_div, hqd]; ring
  have hp2b : |p2 / d| ≤ (1003 / 1000) * (u * |Q|) := by
    rw [hp2s, abs_neg]
    have h := M.scaled_err (q1 * d) d
    rw [← hp1r, hqd] at h
    have h2 := mul_le_mul_of_nonneg_left hq1b hu0.le
    have : u * (|Q| + (2001 / 1000) * (u * |Q|)) = u * |Q| + (2001 / 1000) * (u * (u * |Q|)) := by ring
    calc |p1 / d - q1| ≤ u * |q1| := h
      _ ≤ u * |Q| + (2001 / 1000) * (u * (u * |Q|)) := by linarith
      _ ≤ (1003 / 1000) * (u * |Q|) := by linarith
  -- g = (s0 - p1)/d
  have hg : (s0 + -p1) / d = -(q1 - s0 / d) + p2 / d := by
    rw [hp2s]; ring
  have hgb : |(s0 + -p1) / d| ≤ (2004 / 1000) * (u * |Q|) := by
    rw [hg]
    calc |-(q1 - s0 / d) + p2 / d| ≤ |-(q1 - s0 / d)| + |p2 / d| := abs_add_le _ _
      _ ≤ (1001 / 1000) * (u * |Q|) + (1003 / 1000) * (u * |Q|) := by rw [abs_neg]; exact add_le_add hE1 hp2b
      _ = (2004 / 1000) * (u * |Q|) := by ring
  -- (E3) d1 = rn (s0 - p1)
  obtain ⟨hE3a, hE3b⟩ := M.sb (s0 + -p1) d _ _ hgb
  rw [← hd1r] at hE3a hE3b
  have hd2s : d2 / d = -(d1 / d - (s0 + -p1) / d) := by
    have h : d2 = s0 + -p1 - d1 := by linarith
    rw [h]; ring
  have hd2b : |d2 / d| ≤ (2004 / 1000) * (u * (u * |Q|)) := by rw [hd2s, abs_neg]; exact hE3a
  -- (E4) a = rn (d2 + e0)
  have hAb : |(d2 + e0) / d| ≤ (1003 / 1000) * (u * |Q|) := by
    rw [add_div]
    calc |d2 / d + e0 / d| ≤ |d2 / d| + |e0 / d| := abs_add_le _ _
      _ ≤ (2004 / 1000) * (u * (u * |Q|)) + u * |Q| := add_le_add hd2b hE0
      _ ≤ (1003 / 1000) * (u * |Q|) := by linarith
  obtain ⟨hE4a, hE4b⟩ := M.sb (d2 + e0) d _ _ hAb
  have har : a = M.rn (d2 + e0) := rfl
  rw [← har] at hE4a hE4b
  -- (E5) b = rn (a - p2)
  have hBb : |(a - p2) / d| ≤ (2008 / 1000) * (u * |Q|) := by
    rw [sub_div]
    calc |a / d - p2 / d| ≤ |a / d| + |p2 / d| := abs_sub _ _
      _ ≤ ((1003 / 1000) * (u * |Q|) + (1003 / 1000) * (u * (u * |Q|))) + (1003 / 1000) * (u * |Q|) :=
          add_le_add hE4b hp2b
      _ ≤ (2008 / 1000) * (u * |Q|) := by linarith
  obtain ⟨hE5a, hE5b⟩ := M.sb (a - p2) d _ _ hBb
  have hbr : b = M.rn (a - p2) := rfl
  rw [← hbr] at hE5a hE5b
  -- (E6) c = rn (d1 + b)
  have hCb : |(d1 + b) / d| ≤ (4020 / 1000) * (u * |Q|) := by
    rw [add_div]
    calc |d1 / d + b / d| ≤ |d1 / d| + |b / d| := abs_add_le _ _
      _ ≤ ((2004 / 1000) * (u * |Q|) + (2004 / 1000) * (u * (u * |Q|)))
          + ((2008 / 1000) * (u * |Q|) + (2008 / 1000) * (u * (u * |Q|))) := add_le_add hE3b hE5b
      _ ≤ (4020 / 1000) * (u * |Q|) := by linarith
  obtain ⟨hE6a, _⟩ := M.sb (d1 + b) d _ _ hCb
  have hcr : c = M.rn (d1 + b) := rfl
  rw [← hcr] at hE6a
  -- residual R' = Q - q1
  have hR : Q - q1 = d1 / d + d2 / d - p2 / d + e0 / d := by
    have h1' : d1 / d + d2 / d = (s0 + -p1) / d := by rw [← add_div, hd12]
    rw [h1', hg, hQt]; ring
  have hRb : |Q - q1| ≤ (2001 / 1000) * (u * |Q|) := by
    have : Q - q1 = -(q1 - s0 / d) + e0 / d := by rw [hQt]; ring
    rw [this]
    calc |-(q1 - s0 / d) + e0 / d| ≤ |-(q1 - s0 / d)| + |e0 / d| := abs_add_le _ _
      _ ≤ (1001 / 1000) * (u * |Q|) + u * |Q| := by rw [abs_neg]; exact add_le_add hE1 hE0
      _ = (2001 / 1000) * (u * |Q|) := by ring
  have hcR : c / d - (Q - q1) = (c / d - (d1 + b) / d) + (b / d - (a - p2) / d) + (a / d - (d2 + e0) / d) := by
    rw [hR]; ring
  have hcRb : |c / d - (Q - q1)| ≤ (7031 / 1000) * (u * (u * |Q|)) := by
    rw [hcR]
    calc _ ≤ |c / d - (d1 + b) / d + (b / d - (a - p2) / d)| + |a / d - (d2 + e0) / d| := abs_add_le _ _
      _ ≤ (|c / d - (d1 + b) / d| + |b / d - (a - p2) / d|) + |a / d - (d2 + e0) / d| :=
          add_le_add (abs_add_le _ _) le_rfl
      _ ≤ ((4020 / 1000) * (u * (u * |Q|)) + (2008 / 1000) * (u * (u * |Q|))) + (1003 / 1000) * (u * (u * |Q|)) :=
          add_le_add (add_le_add hE6a hE5a) hE4a
      _ = (7031 / 1000) * (u * (u * |Q|)) := by ring
  have hcb : |c / d| ≤ 2 := by
    have : c / d = (Q - q1) + (c / d - (Q - q1)) := by ring
    rw [this]
    calc |(Q - q1) + (c / d - (Q - q1))| ≤ |Q - q1| + |c / d - (Q - q1)| := abs_add_le _ _
      _ ≤ (2001 / 1000) * (u * |Q|) + (7031 / 1000) * (u * (u * |Q|)) := add_le_add hRb hcRb
      _ ≤ 2 := by linarith
  -- (E7) q2 = rn (c/d)
  have hE7 : |q2 - c / d| ≤ 2 * u := by
    calc |q2 - c / d| ≤ u * |c / d| := M.rn_abs_err _
      _ ≤ u * 2 := mul_le_mul_of_nonneg_left hcb hu0.le
      _ = 2 * u := by ring
  have htot : q1 + q2 - Q = (q2 - c / d) + (c / d - (Q - q1)) := by ring
  have htotb : |q1 + q2 - Q| ≤ 6 * u := by
    rw [htot]
    calc |(q2 - c / d) + (c / d - (Q - q1))| ≤ |q2 - c / d| + |c / d - (Q - q1)| := abs_add_le _ _
      _ ≤ 2 * u + (7031 / 1000) * (u * (u * |Q|)) := add_le_add hE7 hcRb
      _ ≤ 6 * u := by linarith
  -- final pair
  have hq2F : M.F q2 := M.rn_F _
  have hsum : s + e = q1 + q2 := hE q1 q2 hq1F hq2F
  have hsr : s = M.rn (q1 + q2) := rfl
  have hsF : M.F s := by rw [hsr]; exact M.rn_F _
  have hsb : |q1 + q2| ≤ 2^52 - 1 := by
    have h1' := abs_le.1 htotb
    have h2' := abs_le.1 hqb
    have h6 : 6 * u ≤ 1 := by norm_num [u]
    rw [abs_le]; constructor <;> linarith
  have heb : |e| ≤ 1/2 := by
    have := M.rn_abs_err (q1 + q2)
    rw [← hsr] at this
    have h : e = -(s - (q1 + q2)) := by linarith
    rw [h, abs_neg]
    calc |s - (q1 + q2)| ≤ u * |q1 + q2| := this
      _ ≤ u * (2^52 - 1) := mul_le_mul_of_nonneg_left hsb hu0.le
      _ ≤ 1/2 := by norm_num [u]
  refine ⟨hsF, ?_, ?_, heb⟩
  · rw [hsum]; exact htotb
  · rw [hsum]
    calc |q1 + q2| ≤ 2^52 - 1 := hsb
      _ ≤ 2^52 := by norm_num

/-- **Phase / number**: `day_frac(v1, v2, divisor=d)` returns an integer count, `count + frac` within
`2^-50` of the exact quotient `(v1+v2)/d`, and a normalised fraction. -/
theorem dayFrac_div_spec (hE : M.TwoSumExact) (hP : M.TwoProductExact) (v1 v2 d : ℚ)
    (h1 : M.F v1) (h2 : M.F v2) (hdF : M.F d) (hd : d ≠ 0) (hV : |(v1 + v2) / d| ≤ 2^52 - 2) :
    (∃ n : ℤ, (Pb.DayFrac.dayFrac M.ops v1 v2 none (some d)).1 = n) ∧
    |(Pb.DayFrac.dayFrac M.ops v1 v2 none (some d)).1 + (Pb.DayFrac.dayFrac M.ops v1 v2 none (some d)).2
      - (v1 + v2) / d| ≤ 1 / 2^50 ∧
    |(Pb.DayFrac.dayFrac M.ops v1 v2 none (some d)).2| ≤ 1/2 + 1 / 2^49 := by
  obtain ⟨hsF, hdev, hb, he⟩ := M.divPair_spec hE hP v1 v2 d h1 h2 hdF hd hV
  obtain ⟨hint, herr, hfr⟩ := M.normalise_spec hE _ _ hsF hb he
  rw [M.dayFrac_div_eq]
  refine ⟨hint, ?_, hfr⟩
  have h1' := abs_le.1 herr
  have h2' := abs_le.1 hdev
  rw [abs_le]
  constructor <;> norm_num [u] at * <;> linarith

end FPModel
end Pb.DayFracProof
