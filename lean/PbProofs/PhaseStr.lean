import Mathlib.Tactic.Ring
import Mathlib.Tactic.Linarith
import Mathlib.Tactic.FieldSimp
import Mathlib.Tactic.NormNum
import Mathlib.Tactic.Positivity
import Mathlib.Data.Rat.Floor
import PbModel.PhaseStr
import PbProofs.DayFrac

namespace Pb.PhaseStr
open Pb.DayFrac

theorem dv_append (a b : List Nat) : dv (a ++ b) = dv a * 10 ^ b.length + dv b := by
  induction a with
  | nil => simp [dv]
  | cons d rest ih =>
    simp only [List.cons_append, dv, List.length_append, ih]
    rw [pow_add]; ring

theorem dv_zeros (k : Nat) : dv (zeros k) = 0 := by
  induction k with
  | zero => rfl
  | succ k ih => simp [zeros, List.replicate_succ, dv] at ih ⊢; exact ih

theorem zeros_length (k : Nat) : (zeros k).length = k := by simp [zeros]

theorem dv_take_drop (l : List Nat) (k : Nat) :
    dv l = dv (l.take k) * 10 ^ (l.drop k).length + dv (l.drop k) := by
  have := dv_append (l.take k) (l.drop k)
  rw [List.take_append_drop] at this
  exact this

theorem pow10_nat (k : Nat) : pow10 (k : Int) = ((10 ^ k : Nat) : Rat) := by
  unfold pow10; simp

theorem pow10_neg (k : Nat) (hk : 0 < k) : pow10 (-(k : Int)) = 1 / ((10 ^ k : Nat) : Rat) := by
  unfold pow10
  have h : ¬ (-(k : Int) ≥ 0) := by omega
  rw [if_neg h]
  have : (-(-(k : Int))).toNat = k := by omega
  rw [this]

/-- **moving digits across the decimal point multiplies by `10^e`** — the exponent handling of
`_parse_string` loses nothing, for every digit string and every exponent. -/
theorem shift_value (ip fp : List Nat) (e : Int) :
    fixVal (shift ip fp e).1 (shift ip fp e).2 = fixVal ip fp * pow10 e := by
  unfold shift
  by_cases hneg : e < 0
  · simp only [hneg, if_true]
    obtain ⟨k, hk, rfl⟩ : ∃ k : Nat, 0 < k ∧ e = -(k : Int) := ⟨(-e).toNat, by omega, by omega⟩
    have hkk : (-(-(k : Int))).toNat = k := by omega
    rw [hkk, pow10_neg k hk]
    set ip1 := zeros (k - ip.length) ++ ip with hip1
    have hlen : ip1.length = (k - ip.length) + ip.length := by simp [hip1, zeros_length]
    have hge : k ≤ ip1.length := by omega
    have hdv1 : dv ip1 = dv ip := by
      rw [hip1, dv_append, dv_zeros]; simp
    have hsplit := dv_take_drop ip1 (ip1.length - k)
    have hdl : (ip1.drop (ip1.length - k)).length = k := by simp; omega
    rw [hdl] at hsplit
    unfold fixVal
    simp only [List.length_append, hdl]
    rw [dv_append]
    have h10 : ((10 ^ (k + fp.length) : Nat) : Rat) = ((10 ^ k : Nat) : Rat) * ((10 ^ fp.length : Nat) : Rat) := by
      push_cast; rw [pow_add]
    rw [h10]
    have hk0 : ((10 ^ k : Nat) : Rat) ≠ 0 := by positivity
    have hf0 : ((10 ^ fp.length : Nat) : Rat) ≠ 0 := by positivity
    have hcast : (dv ip : Rat) = (dv (ip1.take (ip1.length - k)) : Rat) * ((10 ^ k : Nat) : Rat)
        + (dv (ip1.drop (ip1.length - k)) : Rat) := by
      rw [← hdv1, hsplit]; push_cast; ring
    rw [hcast]
    push_cast
    field_simp
    ring
  · simp only [hneg, if_false]
    by_cases hpos : 0 < e
    · simp only [hpos, if_true]
      obtain ⟨k, hk, rfl⟩ : ∃ k : Nat, 0 < k ∧ e = (k : Int) := ⟨e.toNat, by omega, by omega⟩
      have hkk : ((k : Int)).toNat = k := by omega
      rw [hkk, pow10_nat]
      set fp1 := fp ++ zeros (k - fp.length) with hfp1
      have hlen : fp1.length = fp.length + (k - fp.length) := by simp [hfp1, zeros_length]
      have hge : k ≤ fp1.length := by omega
      have hdv1 : dv fp1 = dv fp * 10 ^ (k - fp.length) := by
        rw [hfp1, dv_append, dv_zeros, zeros_length]; simp
      have hsplit := dv_take_drop fp1 k
      have htl : (fp1.take k).length = k := by simp; omega
      have hdl : (fp1.drop k).length = fp1.length - k := by simp
      unfold fixVal
      rw [dv_append, htl, hdl]
      have hk0 : ((10 ^ k : Nat) : Rat) ≠ 0 := by positivity
      have hf0 : ((10 ^ fp.length : Nat) : Rat) ≠ 0 := by positivity
      have hd0 : ((10 ^ (fp1.length - k) : Nat) : Rat) ≠ 0 := by positivity
      -- dv fp · 10^(k-|fp|) = dv(take)·10^(|fp1|-k) + dv(drop)
      have hmain : (dv fp : Rat) * ((10 ^ (k - fp.length) : Nat) : Rat)
          = (dv (fp1.take k) : Rat) * ((10 ^ (fp1.length - k) : Nat) : Rat) + (dv (fp1.drop k) : Rat) := by
        have := hsplit
        rw [hdv1, hdl] at this
        exact_mod_cast this
      have hexp : ((10 ^ fp.length : Nat) : Rat) * ((10 ^ (fp1.length - k) : Nat) : Rat)
          = ((10 ^ (k - fp.length) : Nat) : Rat) * ((10 ^ (fp1.length - k) : Nat) : Rat) * ((10 ^ fp.length : Nat) : Rat)
            / ((10 ^ (k - fp.length) : Nat) : Rat) := by
        have : ((10 ^ (k - fp.length) : Nat) : Rat) ≠ 0 := by positivity
        field_simp
      have hrel : ((10 ^ k : Nat) : Rat) * ((10 ^ (fp1.length - k) : Nat) : Rat)
          = ((10 ^ fp.length : Nat) : Rat) * ((10 ^ (k - fp.length) : Nat) : Rat) := by
        have : k + (fp1.length - k) = fp.length + (k - fp.length) := by omega
        have h2 := congrArg (fun n : Nat => ((10 ^ n : Nat) : Rat)) this
        simp only [pow_add] at h2
        push_cast at h2 ⊢
        exact h2
      push_cast at hmain hrel ⊢
      field_simp
      have e1 : (dv fp : Rat) * 10 ^ k * 10 ^ (fp1.length - k)
          = ((dv fp : Rat) * 10 ^ (k - fp.length)) * 10 ^ fp.length := by
        calc (dv fp : Rat) * 10 ^ k * 10 ^ (fp1.length - k)
            = (dv fp : Rat) * (10 ^ k * 10 ^ (fp1.length - k)) := by ring
          _ = (dv fp : Rat) * (10 ^ fp.length * 10 ^ (k - fp.length)) := by rw [hrel]
          _ = _ := by ring
      rw [hmain] at e1
      linarith [e1]
    · simp only [hpos, if_false]
      have : e = 0 := by omega
      subst this
      simp [pow10]

/-- the parts handed to `float()` add up to the decimal value of the string; the count part is a
whole number and the fraction part lies in `[0, 1)`. -/
theorem parts_value (l : Lexed) (hd : ∀ d ∈ l.ip ++ l.fp, d ≤ 9) :
    l.parts.1 + l.parts.2 = l.value := by
  unfold Lexed.parts Lexed.value
  have := shift_value l.ip l.fp l.exp
  unfold fixVal at this ⊢
  exact this

theorem dv_lt (l : List Nat) (hd : ∀ d ∈ l, d ≤ 9) : dv l < 10 ^ l.length := by
  induction l with
  | nil => simp [dv]
  | cons d rest ih =>
    have h1 := hd d (by simp)
    have h2 := ih (fun x hx => hd x (by simp [hx]))
    simp only [dv, List.length_cons, pow_succ]
    nlinarith

/-- the fraction part handed to `float()` lies in `[0, 1)` and the count part is a whole number -/
theorem parts_range (l : Lexed) (hd : ∀ d ∈ l.ip ++ l.fp, d ≤ 9) :
    0 ≤ l.parts.2 ∧ l.parts.2 < 1 ∧ ∃ n : Nat, l.parts.1 = n := by
  unfold Lexed.parts
  simp only
  set sh := shift l.ip l.fp l.exp with hsh
  have hdig : ∀ d ∈ sh.2, d ≤ 9 := by
    intro d hdm
    rw [hsh] at hdm
    unfold shift at hdm
    split at hdm
    · simp only [List.mem_append] at hdm
      rcases hdm with h | h
      · have := List.mem_of_mem_drop h
        simp only [List.mem_append, zeros, List.mem_replicate] at this
        rcases this with ⟨_, h0⟩ | h2
        · omega
        · exact hd d (by simp [h2])
      · exact hd d (by simp [h])
    · split at hdm
      · have := List.mem_of_mem_drop hdm
        simp only [List.mem_append, zeros, List.mem_replicate] at this
        rcases this with h2 | ⟨_, h0⟩
        · exact hd d (by simp [h2])
        · omega
      · exact hd d (by simp [hdm])
  have hlt := dv_lt sh.2 hdig
  have hpos : (0 : Rat) < ((10 ^ sh.2.length : Nat) : Rat) := by positivity
  refine ⟨by positivity, ?_, ⟨dv sh.1, rfl⟩⟩
  rw [div_lt_one hpos]
  exact_mod_cast hlt

/-! ### fixed-precision rendering -/

theorem roundHalfEvenNat_near (q : Rat) (hq : 0 ≤ q) :
    |((roundHalfEvenNat q : Nat) : Rat) - q| ≤ 1 / 2 := by
  have h1 : ((q.floor : Int) : Rat) ≤ q := Rat.floor_le q
  have h2 : q < ((q.floor : Int) : Rat) + 1 := by
    have := Rat.lt_floor_add_one q; push_cast at this; exact this
  have hf0 : 0 ≤ q.floor := Rat.le_floor_iff.mpr (by simpa using hq)
  have hcast : ((q.floor.toNat : Nat) : Rat) = ((q.floor : Int) : Rat) := by
    have := Int.toNat_of_nonneg hf0
    exact_mod_cast congrArg (fun z : Int => (z : Rat)) this
  unfold roundHalfEvenNat
  simp only
  rw [abs_le]
  split
  · rename_i h; rw [hcast] at h ⊢; constructor <;> linarith
  · split
    · rename_i _ h; rw [hcast] at h; push_cast; rw [hcast]; constructor <;> linarith
    · rename_i ha hb
      rw [hcast] at ha hb
      have : q - ((q.floor : Int) : Rat) = 1 / 2 := by linarith [not_lt.mp ha, not_lt.mp hb]
      split
      · rw [hcast]; constructor <;> linarith
      · push_cast; rw [hcast]; constructor <;> linarith

/-- **fixed-point digits**: what `to_string(precision=p)` prints for a non-negative value
`count + frac`, `0 ≤ frac < 1`, is within half a unit of the last digit shown of the exact value —
the exact value rounded to the digits shown — for every `p` (0 and 1 included). -/
theorem fmtFixed_nearest (count : Nat) (frac : Rat) (p : Nat) (h0 : 0 ≤ frac) :
    |printedValue (fmtFixed count frac p) p - ((count : Rat) + frac)| ≤ 1 / (2 * ((10 ^ p : Nat) : Rat)) := by
  have hP : (0 : Rat) < ((10 ^ p : Nat) : Rat) := by positivity
  have hnear := roundHalfEvenNat_near (frac * ((10 ^ p : Nat) : Rat)) (mul_nonneg h0 hP.le)
  set r := roundHalfEvenNat (frac * ((10 ^ p : Nat) : Rat)) with hr
  have key : printedValue (fmtFixed count frac p) p = (count : Rat) + (r : Rat) / ((10 ^ p : Nat) : Rat) := by
    unfold fmtFixed printedValue
    simp only [← hr]
    split
    · rename_i hge
      have : ((r - 10 ^ p : Nat) : Rat) = (r : Rat) - ((10 ^ p : Nat) : Rat) := by
        rw [Nat.cast_sub hge]
      simp only [this]
      push_cast
      field_simp
      ring
    · rfl
  rw [key]
  have : (count : Rat) + (r : Rat) / ((10 ^ p : Nat) : Rat) - ((count : Rat) + frac)
      = ((r : Rat) - frac * ((10 ^ p : Nat) : Rat)) / ((10 ^ p : Nat) : Rat) := by
    field_simp; ring
  rw [this, abs_div, abs_of_pos hP, div_le_iff₀ hP]
  calc |(r : Rat) - frac * ((10 ^ p : Nat) : Rat)| ≤ 1 / 2 := hnear
    _ = 1 / (2 * ((10 ^ p : Nat) : Rat)) * ((10 ^ p : Nat) : Rat) := by field_simp

/-! ### ordering under the standard model -/

open Pb.DayFracProof in
/-- sign of a rounded value = sign of the value (standard model: relative error < 1) -/
theorem rn_sign (M : FPModel) (x : ℚ) : (0 < x → 0 < M.rn x) ∧ (x < 0 → M.rn x < 0) ∧ (x = 0 → M.rn x = 0) := by
  have h := M.rn_err x
  rw [abs_le] at h
  have hu : (1 / 2 ^ 53 : ℚ) < 1 := by norm_num
  refine ⟨fun hx => ?_, fun hx => ?_, fun hx => ?_⟩
  · rw [abs_of_pos hx] at h; nlinarith [h.1]
  · rw [abs_of_neg hx] at h; nlinarith [h.2]
  · subst hx
    simp only [abs_zero, mul_zero, sub_zero, neg_zero] at h
    exact le_antisymm h.2 h.1

open Pb.DayFracProof in
/-- **comparisons are exact for normalised phases**: with integral counts whose difference is
representable, and fractions in `[−1/2, 1/2 − 2^-53]` (what `day_frac` produces), the sign of the
computed `(int₁−int₂) + (frac₁−frac₂)` equals the sign of the exact difference of the two
phases — also when they differ by less than one ulp of the count. -/
theorem cmpDiff_exact (M : FPModel) (n1 n2 : ℤ) (f1 f2 : ℚ)
    (hn : |((n1 - n2 : ℤ) : ℚ)| ≤ 2 ^ 53)
    (hf1 : -(1/2) ≤ f1 ∧ f1 ≤ 1/2 - 1/2^53) (hf2 : -(1/2) ≤ f2 ∧ f2 ≤ 1/2 - 1/2^53) :
    let D := ((n1 : ℚ) + f1) - ((n2 : ℚ) + f2)
    let d := cmpDiff M.rn n1 f1 n2 f2
    (0 < D ↔ 0 < d) ∧ (D < 0 ↔ d < 0) ∧ (D = 0 ↔ d = 0) := by
  intro D d
  -- the integer difference is exact
  have hint : M.rn ((n1 : ℚ) - n2) = ((n1 - n2 : ℤ) : ℚ) := by
    have : (n1 : ℚ) - n2 = ((n1 - n2 : ℤ) : ℚ) := by push_cast; ring
    rw [this]; exact M.rn_id _ (M.int_F _ hn)
  set x := f1 - f2 with hx
  set δ := M.rn x with hδ
  have hxb : |x| ≤ 1 - 1/2^53 := by rw [abs_le]; constructor <;> linarith [hf1.1, hf1.2, hf2.1, hf2.2]
  have hδerr := M.rn_err x
  have hδb : |δ - x| ≤ 1/2^53 * (1 - 1/2^53) := by
    calc |δ - x| ≤ 1/2^53 * |x| := hδerr
      _ ≤ 1/2^53 * (1 - 1/2^53) := by apply mul_le_mul_of_nonneg_left hxb; norm_num
  rw [abs_le] at hδb hxb
  have hd : d = M.rn (((n1 - n2 : ℤ) : ℚ) + δ) := by
    show cmpDiff M.rn n1 f1 n2 f2 = _
    unfold cmpDiff; rw [hint]
  have hD : D = ((n1 - n2 : ℤ) : ℚ) + x := by
    show ((n1 : ℚ) + f1) - ((n2 : ℚ) + f2) = _
    push_cast; ring
  set k := n1 - n2 with hk
  have hs := rn_sign M ((k : ℚ) + δ)
  -- sign of k + δ equals sign of k + x
  have hsign : (0 < (k : ℚ) + x ↔ 0 < (k : ℚ) + δ) ∧ ((k : ℚ) + x < 0 ↔ (k : ℚ) + δ < 0) ∧
      ((k : ℚ) + x = 0 ↔ (k : ℚ) + δ = 0) := by
    rcases lt_trichotomy k 0 with hk0 | hk0 | hk0
    · have : (k : ℚ) ≤ -1 := by exact_mod_cast (show k ≤ -1 by omega)
      have e1 : (k : ℚ) + x < 0 := by linarith [hxb.2]
      have e2 : (k : ℚ) + δ < 0 := by nlinarith [hδb.2, hxb.2]
      exact ⟨⟨fun h => by linarith, fun h => by linarith⟩, ⟨fun _ => e2, fun _ => e1⟩,
        ⟨fun h => by linarith, fun h => by linarith⟩⟩
    · have hk' : (k : ℚ) = 0 := by exact_mod_cast hk0
      rw [hk']; simp only [zero_add]
      have hsx := rn_sign M x
      refine ⟨⟨hsx.1, fun h => ?_⟩, ⟨hsx.2.1, fun h => ?_⟩, ⟨hsx.2.2, fun h => ?_⟩⟩
      · by_contra hc
        rcases lt_or_eq_of_le (not_lt.mp hc) with h1 | h1
        · have := hsx.2.1 h1; linarith
        · have := hsx.2.2 h1; linarith
      · by_contra hc
        rcases lt_or_eq_of_le (not_lt.mp hc) with h1 | h1
        · have := hsx.1 h1; linarith
        · have := hsx.2.2 h1.symm; linarith
      · by_contra hc
        rcases lt_or_gt_of_ne hc with h1 | h1
        · have := hsx.2.1 h1; linarith
        · have := hsx.1 h1; linarith
    · have : (1 : ℚ) ≤ k := by exact_mod_cast (show 1 ≤ k by omega)
      have e1 : 0 < (k : ℚ) + x := by linarith [hxb.1]
      have e2 : 0 < (k : ℚ) + δ := by nlinarith [hδb.1, hxb.1]
      exact ⟨⟨fun _ => e2, fun _ => e1⟩, ⟨fun h => by linarith, fun h => by linarith⟩,
        ⟨fun h => by linarith, fun h => by linarith⟩⟩
  rw [hD, hd]
  refine ⟨⟨fun h => hs.1 (hsign.1.1 h), fun h => ?_⟩, ⟨fun h => hs.2.1 (hsign.2.1.1 h), fun h => ?_⟩,
    ⟨fun h => hs.2.2 (hsign.2.2.1 h), fun h => ?_⟩⟩
  · apply hsign.1.2
    by_contra hc
    rcases lt_or_eq_of_le (not_lt.mp hc) with h1 | h1
    · have := hs.2.1 h1; linarith
    · have := hs.2.2 h1; linarith
  · apply hsign.2.1.2
    by_contra hc
    rcases lt_or_eq_of_le (not_lt.mp hc) with h1 | h1
    · have := hs.1 h1; linarith
    · have := hs.2.2 h1.symm; linarith
  · apply hsign.2.2.2
    by_contra hc
    rcases lt_or_gt_of_ne hc with h1 | h1
    · have := hs.2.1 h1; linarith
    · have := hs.1 h1; linarith

end Pb.PhaseStr
