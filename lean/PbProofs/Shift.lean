import Mathlib.Tactic.Ring
import Mathlib.Tactic.Linarith
import Mathlib.Tactic.Push
import PbModel.Shift
import PbProofs.Crop

namespace Pb.Shift
open Pb.Crop

theorem lt_ceil_iff (a : Rat) (n : Int) : n < Crop.ceil a ↔ (n : Rat) < a := by
  unfold Crop.ceil
  rw [Rat.ceil_eq_neg_floor_neg]
  constructor
  · intro h
    have h1 : (-a).floor < -n := by omega
    have := Rat.floor_lt_iff.mp h1
    push_cast at this
    linarith
  · intro h
    have : (-a).floor < -n := Rat.floor_lt_iff.mpr (by push_cast; linarith)
    omega

theorem floor_le_iff (a : Rat) (m : Int) : Crop.floor a ≤ m ↔ a < (m : Rat) + 1 := by
  unfold Crop.floor
  constructor
  · intro h
    have : a.floor < m + 1 := by omega
    have := Rat.floor_lt_iff.mp this
    push_cast at this
    exact this
  · intro h
    have : a.floor < m + 1 := Rat.floor_lt_iff.mpr (by push_cast; exact h)
    omega

theorem zeroed_neg (N : Nat) (a : Rat) (n : Nat) (hn : n < N) (ha : a < 0) :
    zeroed N a n = true ↔ (N : Rat) - 1 < (n : Rat) - a := by
  unfold zeroed zeroInterval
  rw [if_pos ha]
  simp only [Bool.and_eq_true, decide_eq_true_eq]
  have hfl : Crop.floor a < 0 := by
    have := (floor_le_iff a (-1)).mpr (by push_cast; linarith)
    omega
  have hadj : adj (N : Int) (some (Crop.floor a)) 0
      = if Crop.floor a + N < 0 then 0 else Crop.floor a + N := by
    unfold adj; simp [hfl]
  rw [hadj]
  constructor
  · intro ⟨h1, _⟩
    have hle : Crop.floor a ≤ (n : Int) - N := by
      split at h1 <;> omega
    have := (floor_le_iff a _).mp hle
    push_cast at this
    linarith
  · intro h
    have hle : Crop.floor a ≤ (n : Int) - N := (floor_le_iff a _).mpr (by push_cast; linarith)
    refine ⟨?_, hn⟩
    split <;> omega

theorem zeroed_nonneg (N : Nat) (a : Rat) (n : Nat) (hn : n < N) (ha : 0 ≤ a) :
    zeroed N a n = true ↔ (n : Rat) - a < 0 := by
  unfold zeroed zeroInterval
  rw [if_neg (not_lt.mpr ha)]
  simp only [Bool.and_eq_true, decide_eq_true_eq]
  have hc0 : 0 ≤ Crop.ceil a := by
    by_contra hc
    have : ¬ ((-1 : Int) < Crop.ceil a) := by omega
    rw [lt_ceil_iff] at this
    push_cast at this
    linarith
  rw [adj_some_nonneg N _ N hc0]
  constructor
  · intro ⟨_, h2⟩
    have : (n : Int) < Crop.ceil a := by omega
    have := (lt_ceil_iff a n).mp this
    push_cast at this
    linarith
  · intro h
    have : (n : Int) < Crop.ceil a := (lt_ceil_iff a n).mpr (by push_cast; linarith)
    refine ⟨Nat.zero_le _, ?_⟩
    omega

/-- **zero-fill rule**: position `n < N` is zeroed for shift `a` exactly when the sample that
would be moved there, `n − a`, lies outside `[0, N−1]` on the side the shift comes from. -/
theorem zeroed_iff (N : Nat) (a : Rat) (n : Nat) (hn : n < N) :
    zeroed N a n = true ↔ (a < 0 ∧ (N : Rat) - 1 < (n : Rat) - a) ∨ (0 ≤ a ∧ (n : Rat) - a < 0) := by
  by_cases ha : a < 0
  · rw [zeroed_neg N a n hn ha]
    constructor
    · intro h; exact Or.inl ⟨ha, h⟩
    · intro h
      rcases h with ⟨_, h⟩ | ⟨h, _⟩
      · exact h
      · linarith
  · have ha' : 0 ≤ a := not_lt.mp ha
    rw [zeroed_nonneg N a n hn ha']
    constructor
    · intro h; exact Or.inr ⟨ha', h⟩
    · intro h
      rcases h with ⟨h, _⟩ | ⟨_, h⟩
      · linarith
      · exact h

/-- a shift of `|a| ≥ N` zero-fills everything -/
theorem zeroed_all (N : Nat) (a : Rat) (n : Nat) (hn : n < N) (ha : (N : Rat) ≤ a ∨ a ≤ -(N : Rat)) :
    zeroed N a n = true := by
  rw [zeroed_iff N a n hn]
  have hn' : (n : Rat) + 1 ≤ N := by exact_mod_cast hn
  have h0 : (0 : Rat) ≤ n := by exact_mod_cast Nat.zero_le n
  rcases ha with h | h
  · right; constructor <;> linarith
  · left; constructor <;> linarith

/-- **crop = complement of the zero-fill**: with `(start, stop)` the bounds accumulated by the
loop, position `n < N` survives `x[start : N+stop]` exactly when it is zero-filled for NO element. -/
theorem crop_iff_not_zeroed (N : Nat) (n : Nat) (hn : n < N) :
    ∀ (shifts : List Rat),
      ((shiftBounds shifts).1 ≤ (n : Int) ∧ (n : Int) < (N : Int) + (shiftBounds shifts).2) ↔
      ∀ a ∈ shifts, zeroed N a n = false := by
  intro shifts
  induction shifts with
  | nil => simp [shiftBounds]; omega
  | cons a rest ih =>
    have hz := zeroed_iff N a n hn
    simp only [shiftBounds, List.mem_cons, forall_eq_or_imp]
    by_cases ha : a < 0
    · simp only [ha, if_true]
      have hkey : zeroed N a n = false ↔ (n : Int) < (N : Int) + Crop.floor a := by
        constructor
        · intro hf
          by_contra hc
          have hle : Crop.floor a ≤ (n : Int) - N := by omega
          have := (floor_le_iff a _).mp hle
          push_cast at this
          have : zeroed N a n = true := hz.mpr (Or.inl ⟨ha, by linarith⟩)
          rw [this] at hf; cases hf
        · intro hlt
          cases hzz : zeroed N a n with
          | false => rfl
          | true =>
            exfalso
            rcases hz.mp hzz with ⟨_, h⟩ | ⟨h, _⟩
            · have hle : Crop.floor a ≤ (n : Int) - N := (floor_le_iff a _).mpr (by push_cast; linarith)
              omega
            · linarith
      rw [hkey, ← ih]
      constructor
      · intro ⟨h1, h2⟩
        exact ⟨by omega, h1, by omega⟩
      · intro ⟨h1, h2, h3⟩
        exact ⟨h2, by omega⟩
    · simp only [ha, if_false]
      have ha' : 0 ≤ a := not_lt.mp ha
      have hkey : zeroed N a n = false ↔ Crop.ceil a ≤ (n : Int) := by
        constructor
        · intro hf
          by_contra hc
          have : (n : Int) < Crop.ceil a := by omega
          have := (lt_ceil_iff a n).mp this
          push_cast at this
          have : zeroed N a n = true := hz.mpr (Or.inr ⟨ha', by linarith⟩)
          rw [this] at hf; cases hf
        · intro hle
          cases hzz : zeroed N a n with
          | false => rfl
          | true =>
            exfalso
            rcases hz.mp hzz with ⟨h, _⟩ | ⟨_, h⟩
            · linarith
            · have : (n : Int) < Crop.ceil a := (lt_ceil_iff a n).mpr (by push_cast; linarith)
              omega
      rw [hkey, ← ih]
      constructor
      · intro ⟨h1, h2⟩
        exact ⟨by omega, by omega, h2⟩
      · intro ⟨h1, h2, h3⟩
        exact ⟨by omega, h3⟩

end Pb.Shift
