import Mathlib.Tactic.Ring
import Mathlib.Tactic.Linarith
import Mathlib.Algebra.Order.Ring.Nat
import Mathlib.Algebra.Ring.Parity
import PbModel.FastLen

/-! Correctness of the `next_fast_len` model: least 7-smooth number ≥ N (all N ≥ 1). -/

namespace Pb.FastLen

def Covered (N f c d g : Nat) : Prop :=
  ∀ c' d', (d' < d ∨ (d' = d ∧ c < c')) → N ≤ f * 2^c' * 3^d' → g ≤ f * 2^c' * 3^d'

lemma odd_iff_c0 (f c d : Nat) (hf : f % 2 = 1) : (f * 2^c * 3^d) % 2 = 1 ↔ c = 0 := by
  have h3 : (3^d) % 2 = 1 := by
    induction d with
    | zero => rfl
    | succ n ih => rw [pow_succ, Nat.mul_mod, ih]
  constructor
  · intro h
    by_contra hc
    obtain ⟨k, rfl⟩ : ∃ k, c = k + 1 := ⟨c - 1, by omega⟩
    have : f * 2^(k+1) * 3^d = 2 * (f * 2^k * 3^d) := by ring
    omega
  · rintro rfl
    simp [Nat.mul_mod, hf, h3]

lemma mono_c (f d : Nat) {c c' : Nat} (h : c ≤ c') : f * 2^c * 3^d ≤ f * 2^c' * 3^d := by
  have : 2^c ≤ 2^c' := Nat.pow_le_pow_right (by norm_num) h
  exact Nat.mul_le_mul_right _ (Nat.mul_le_mul_left _ this)

lemma mono_d (f c : Nat) {d d' : Nat} (h : d ≤ d') : f * 2^c * 3^d ≤ f * 2^c * 3^d' := by
  have : 3^d ≤ 3^d' := Nat.pow_le_pow_right (by norm_num) h
  exact Nat.mul_le_mul_left _ this

theorem innerNext_min (N f : Nat) (hf : f % 2 = 1) :
    ∀ fuel c d g, N < 2 * (f * 2^c * 3^d) → Covered N f c d g →
      (c * (N + 1) + (N - f*2^c*3^d) < fuel) →
      ((innerNext N fuel (f * 2^c * 3^d) g).1 = true → ∃ c' d', N = f*2^c'*3^d') ∧
      ((innerNext N fuel (f * 2^c * 3^d) g).1 = false →
        ∀ c' d', N ≤ f * 2^c' * 3^d' → (innerNext N fuel (f * 2^c * 3^d) g).2 ≤ f * 2^c' * 3^d') := by
  intro fuel
  induction fuel with
  | zero => intro c d g _ _ h; omega
  | succ fuel ih =>
    intro c d g h2 hcov hfuel
    set x := f * 2^c * 3^d with hx
    unfold innerNext
    by_cases h1 : x < N
    · simp only [h1, if_true]
      have hx3 : x * 3 = f * 2^c * 3^(d+1) := by rw [hx]; ring
      rw [hx3]
      apply ih c (d+1) g
      · rw [← hx3]; omega
      · intro c' d' hcd hN
        rcases hcd with hd | ⟨hd, hc⟩
        · by_cases hdd : d' < d
          · exact hcov c' d' (Or.inl hdd) hN
          · have hde : d' = d := by omega
            subst hde
            by_cases hcc : c < c'
            · exact hcov c' d' (Or.inr ⟨rfl, hcc⟩) hN
            · have := mono_c f d' (show c' ≤ c by omega)
              omega
        · subst hd
          -- level d+1, c' > c : f 2^c' 3^d ≥ 2x > N covered, and 3× bigger
          have h5 : 2 * x ≤ f * 2^c' * 3^d := by
            have := mono_c f d (show c+1 ≤ c' by omega)
            have e : f * 2^(c+1) * 3^d = 2 * x := by rw [hx]; ring
            omega
          have h6 := hcov c' d (Or.inr ⟨rfl, hc⟩) (by omega)
          have := mono_d f c' (show d ≤ d+1 by omega)
          omega
      · rw [← hx3]; omega
    · simp only [h1, if_false]
      by_cases h3 : N < x
      · simp only [h3, if_true]
        by_cases hodd : x % 2 = 1
        · simp only [hodd, if_true]
          refine ⟨by simp, fun _ c' d' hN => ?_⟩
          have hc0 : c = 0 := (odd_iff_c0 f c d hf).1 hodd
          subst hc0
          have hg' : (if x < g then x else g) ≤ x ∧ (if x < g then x else g) ≤ g := by split <;> omega
          by_cases hdd : d' < d
          · have := hcov c' d' (Or.inl hdd) hN; omega
          · by_cases hc' : c' = 0
            · subst hc'
              have := mono_d f 0 (show d ≤ d' by omega); omega
            · by_cases hde : d' = d
              · subst hde
                have := hcov c' d' (Or.inr ⟨rfl, by omega⟩) hN; omega
              · have a1 := mono_d f 0 (show d ≤ d' by omega)
                have a2 := mono_c f d' (show 0 ≤ c' by omega)
                omega
        · simp only [hodd, if_false]
          have hc0 : c ≠ 0 := fun h => hodd ((odd_iff_c0 f c d hf).2 h)
          obtain ⟨k, rfl⟩ : ∃ k, c = k + 1 := ⟨c - 1, by omega⟩
          have hx2 : x / 2 = f * 2^k * 3^d := by
            have : x = 2 * (f * 2^k * 3^d) := by rw [hx]; ring
            omega
          rw [hx2]
          have hxe : x = 2 * (f * 2^k * 3^d) := by rw [hx]; ring
          apply ih k d
          · omega
          · intro c' d' hcd hN
            have hg' : (if x < g then x else g) ≤ x ∧ (if x < g then x else g) ≤ g := by split <;> omega
            rcases hcd with hd | ⟨hd, hc⟩
            · have := hcov c' d' (Or.inl hd) hN; omega
            · subst hd
              by_cases hck : c' = k+1
              · subst hck; omega
              · have := hcov c' d' (Or.inr ⟨rfl, by omega⟩) hN; omega
          · have : (k+1) * (N+1) = k*(N+1) + (N+1) := by ring
            omega
      · simp only [h3, if_false]
        refine ⟨fun _ => ⟨c, d, by omega⟩, by simp⟩

/-- the guess only decreases, and if it changed it is a family member above N -/
theorem innerNext_guess (N f : Nat) (hf : f % 2 = 1) :
    ∀ fuel c d g,
      (innerNext N fuel (f * 2^c * 3^d) g).2 ≤ g ∧
      ((innerNext N fuel (f * 2^c * 3^d) g).2 = g ∨
        (N < (innerNext N fuel (f * 2^c * 3^d) g).2 ∧
          ∃ c' d', (innerNext N fuel (f * 2^c * 3^d) g).2 = f * 2^c' * 3^d')) := by
  intro fuel
  induction fuel with
  | zero => intro c d g; simp [innerNext]
  | succ fuel ih =>
    intro c d g
    set x := f * 2^c * 3^d with hx
    unfold innerNext
    by_cases h1 : x < N
    · simp only [h1, if_true]
      have hx3 : x * 3 = f * 2^c * 3^(d+1) := by rw [hx]; ring
      rw [hx3]; exact ih c (d+1) g
    · simp only [h1, if_false]
      by_cases h3 : N < x
      · simp only [h3, if_true]
        have hg' : (if x < g then x else g) ≤ g := by split <;> omega
        have hg'' : (if x < g then x else g) = g ∨ (if x < g then x else g) = x := by
          split <;> simp
        by_cases hodd : x % 2 = 1
        · simp only [hodd, if_true]
          refine ⟨hg', ?_⟩
          rcases hg'' with h | h
          · exact Or.inl h
          · exact Or.inr ⟨by rw [h]; exact h3, c, d, by rw [h]⟩
        · simp only [hodd, if_false]
          have hc0 : c ≠ 0 := fun h => hodd ((odd_iff_c0 f c d hf).2 h)
          obtain ⟨k, rfl⟩ : ∃ k, c = k + 1 := ⟨c - 1, by omega⟩
          have hx2 : x / 2 = f * 2^k * 3^d := by
            have : x = 2 * (f * 2^k * 3^d) := by rw [hx]; ring
            omega
          rw [hx2]
          obtain ⟨i1, i2⟩ := ih k d (if x < g then x else g)
          refine ⟨le_trans i1 hg', ?_⟩
          rcases i2 with h | h
          · rcases hg'' with h' | h'
            · exact Or.inl (h.trans h')
            · exact Or.inr ⟨by rw [h, h']; exact h3, k+1, d, by rw [h, h']⟩
          · exact Or.inr h
      · simp [h3]

/-- `doubleUp` returns f·2^c, the first doubling at or above N (given enough fuel) -/
theorem doubleUp_spec (N f : Nat) :
    ∀ fuel c, ∃ c', c ≤ c' ∧ doubleUp N fuel (f * 2^c) = f * 2^c' ∧
      (c' = c ∨ f * 2^(c'-1) < N) ∧ (N ≤ f * 2^(c+fuel) → N ≤ f * 2^c') := by
  intro fuel
  induction fuel with
  | zero => intro c; exact ⟨c, le_refl _, rfl, Or.inl rfl, by simp⟩
  | succ fuel ih =>
    intro c
    unfold doubleUp
    by_cases h : f * 2^c < N
    · simp only [h, if_true]
      have e : f * 2^c * 2 = f * 2^(c+1) := by ring
      rw [e]
      obtain ⟨c', h1, h2, h3, h4⟩ := ih (c+1)
      refine ⟨c', by omega, h2, ?_, ?_⟩
      · rcases h3 with h3 | h3
        · right; subst h3; simpa using h
        · right; exact h3
      · intro hN; apply h4; rwa [show c + 1 + fuel = c + (fuel + 1) by omega]
    · simp only [h, if_false]
      exact ⟨c, le_refl _, rfl, Or.inl rfl, fun _ => by omega⟩

def GuessOK (N g : Nat) : Prop := g = 2*N ∨ (N < g ∧ Smooth7 g)

lemma odd75 (a b : Nat) : (7^a * 5^b) % 2 = 1 := by
  have h7 : (7^a) % 2 = 1 := by
    induction a with
    | zero => rfl
    | succ n ih => rw [pow_succ, Nat.mul_mod, ih]
  have h5 : (5^b) % 2 = 1 := by
    induction b with
    | zero => rfl
    | succ n ih => rw [pow_succ, Nat.mul_mod, ih]
  rw [Nat.mul_mod, h7, h5]

lemma pos75 (a b : Nat) : 0 < 7^a * 5^b := by positivity

lemma fuel_ok (N c0 : Nat) (h : c0 < 2*N) : c0 * (N+1) + 0 < fuelFor N := by
  unfold fuelFor
  have : c0 * (N+1) ≤ (2*N) * (N+1) := Nat.mul_le_mul_right _ (by omega)
  nlinarith

/-- one pass of the 2-3 zig-zag for a fixed odd part f -/
theorem pass_spec (N F a b g : Nat) (hN : 10 < N) (hF : fuelFor N ≤ F)
    (hfg : 7^a * 5^b < g) (hg2 : g ≤ 2*N) (hgok : GuessOK N g) :
    let r := innerNext N F (doubleUp N F (7^a * 5^b)) g
    (r.1 = true → Smooth7 N) ∧
    (r.1 = false → r.2 ≤ g ∧ GuessOK N r.2 ∧ ∀ c d, N ≤ cand a b c d → r.2 ≤ cand a b c d) := by
  intro r
  set f := 7^a * 5^b with hf
  have hodd := odd75 a b
  have hpos := pos75 a b
  have hFN : N < F := by unfold fuelFor at hF; nlinarith
  obtain ⟨c0, _, hx0, hprev, hge⟩ := doubleUp_spec N f F 0
  simp only [pow_zero, mul_one, Nat.zero_add] at hx0 hge
  have hNx : N ≤ f * 2^c0 := by
    apply hge
    have h1 : F < 2^F := Nat.lt_two_pow_self
    calc N ≤ 2^F := by omega
      _ = 1 * 2^F := by ring
      _ ≤ f * 2^F := Nat.mul_le_mul_right _ hpos
  have hx2N : f * 2^c0 < 2*N := by
    rcases hprev with h | h
    · subst h; simp; omega
    · have hc : c0 ≠ 0 := by
        intro h0; subst h0; simp at h; omega
      obtain ⟨k, rfl⟩ : ∃ k, c0 = k + 1 := ⟨c0 - 1, by omega⟩
      simp at h
      have : f * 2^(k+1) = 2 * (f * 2^k) := by ring
      omega
  have hc0 : c0 < 2*N := by
    have h1 : c0 < 2^c0 := Nat.lt_two_pow_self
    have h2 : 2^c0 ≤ f * 2^c0 := by
      calc 2^c0 = 1 * 2^c0 := by ring
        _ ≤ f * 2^c0 := Nat.mul_le_mul_right _ hpos
    omega
  have hx : doubleUp N F f = f * 2^c0 * 3^0 := by rw [hx0]; ring
  have hcov : Covered N f c0 0 g := by
    intro c' d' hcd _
    rcases hcd with h | ⟨h, hc⟩
    · omega
    · subst h
      have := mono_c f 0 (show c0 + 1 ≤ c' by omega)
      have e : f * 2^(c0+1) * 3^0 = 2 * (f * 2^c0) := by ring
      omega
  have hfuel : c0 * (N + 1) + (N - f * 2^c0 * 3^0) < F := by
    have : N - f * 2^c0 * 3^0 = 0 := by simp; omega
    rw [this]; exact lt_of_lt_of_le (fuel_ok N c0 hc0) hF
  have hmin := innerNext_min N f hodd F c0 0 g (by simp; omega) hcov hfuel
  have hgs := innerNext_guess N f hodd F c0 0 g
  rw [← hx] at hmin hgs
  refine ⟨fun h => ?_, fun h => ?_⟩
  · obtain ⟨c', d', e⟩ := hmin.1 h
    exact ⟨a, b, c', d', by rw [e, hf]; rfl⟩
  · refine ⟨hgs.1, ?_, fun c d hc => ?_⟩
    · rcases hgs.2 with e | ⟨e1, c', d', e2⟩
      · show GuessOK N r.2
        have : r.2 = g := e
        rw [this]; exact hgok
      · exact Or.inr ⟨e1, a, b, c', d', by rw [e2, hf]; rfl⟩
    · exact hmin.2 h c d hc


lemma cand_ge_5 (a b c d : Nat) : 7^a * 5^b ≤ cand a b c d := by
  unfold cand
  have h2 : 0 < 2^c := by positivity
  have h3 : 0 < 3^d := by positivity
  calc 7^a * 5^b = 7^a * 5^b * 1 * 1 := by ring
    _ ≤ 7^a * 5^b * 2^c * 3^d := by
        apply Nat.mul_le_mul (Nat.mul_le_mul (le_refl _) h2) h3

lemma pow5_mono (a : Nat) {b b' : Nat} (h : b ≤ b') : 7^a * 5^b ≤ 7^a * 5^b' :=
  Nat.mul_le_mul_left _ (Nat.pow_le_pow_right (by norm_num) h)

lemma pow7_mono {a a' : Nat} (h : a ≤ a') : 7^a ≤ 7^a' := Nat.pow_le_pow_right (by norm_num) h

lemma lt_pow5 (a b : Nat) : b < 7^a * 5^b := by
  have h1 : b < 5^b := Nat.lt_pow_self (by norm_num)
  have h2 : 0 < 7^a := by positivity
  calc b < 5^b := h1
    _ = 1 * 5^b := by ring
    _ ≤ 7^a * 5^b := Nat.mul_le_mul_right _ h2

lemma lt_pow7 (a : Nat) : a < 7^a := Nat.lt_pow_self (by norm_num)

theorem loop5_spec (N F a : Nat) (hN : 10 < N) (hF : fuelFor N ≤ F) :
    ∀ fuel b g, g ≤ 2*N → GuessOK N g →
      (∀ b', b' < b → ∀ c d, N ≤ cand a b' c d → g ≤ cand a b' c d) →
      2*N < fuel + b →
      ((loop5 N F fuel (7^a * 5^b) g).1 = true → Smooth7 N) ∧
      ((loop5 N F fuel (7^a * 5^b) g).1 = false →
        (loop5 N F fuel (7^a * 5^b) g).2 ≤ g ∧ GuessOK N (loop5 N F fuel (7^a * 5^b) g).2 ∧
        ∀ b' c d, N ≤ cand a b' c d → (loop5 N F fuel (7^a * 5^b) g).2 ≤ cand a b' c d) := by
  intro fuel
  induction fuel with
  | zero =>
    intro b g hg2 hgok hcov hfu
    simp only [loop5]
    refine ⟨by simp, fun _ => ⟨le_refl _, hgok, fun b' c d hc => ?_⟩⟩
    by_cases hb : b' < b
    · exact hcov b' hb c d hc
    · have h1 := cand_ge_5 a b' c d
      have h2 := pow5_mono a (show b ≤ b' by omega)
      have h3 := lt_pow5 a b
      omega
  | succ fuel ih =>
    intro b g hg2 hgok hcov hfu
    unfold loop5
    by_cases hlt : 7^a * 5^b < g
    · simp only [hlt, if_true]
      obtain ⟨p1, p2⟩ := pass_spec N F a b g hN hF hlt hg2 hgok
      by_cases hhit : (innerNext N F (doubleUp N F (7^a * 5^b)) g).1 = true
      · simp only [hhit, if_true]
        exact ⟨fun _ => p1 hhit, by simp⟩
      · have hhit' : (innerNext N F (doubleUp N F (7^a * 5^b)) g).1 = false := by
          simpa using hhit
        simp only [hhit', Bool.false_eq_true, if_false]
        obtain ⟨q1, q2, q3⟩ := p2 hhit'
        have e : 7^a * 5^b * 5 = 7^a * 5^(b+1) := by ring
        rw [e]
        have hcov' : ∀ b', b' < b+1 → ∀ c d, N ≤ cand a b' c d →
            (innerNext N F (doubleUp N F (7^a * 5^b)) g).2 ≤ cand a b' c d := by
          intro b' hb' c d hc
          by_cases hb : b' < b
          · exact le_trans q1 (hcov b' hb c d hc)
          · have : b' = b := by omega
            subst this; exact q3 c d hc
        obtain ⟨r1, r2⟩ := ih (b+1) _ (le_trans q1 hg2) q2 hcov' (by omega)
        refine ⟨r1, fun h => ?_⟩
        obtain ⟨s1, s2, s3⟩ := r2 h
        exact ⟨le_trans s1 q1, s2, s3⟩
    · simp only [hlt, if_false]
      refine ⟨by simp, fun _ => ⟨le_refl _, hgok, fun b' c d hc => ?_⟩⟩
      by_cases hb : b' < b
      · exact hcov b' hb c d hc
      · have h1 := cand_ge_5 a b' c d
        have h2 := pow5_mono a (show b ≤ b' by omega)
        omega


lemma cand_ge_7 (a b c d : Nat) : 7^a ≤ cand a b c d := by
  have h1 := cand_ge_5 a b c d
  have h5 : 0 < 5^b := by positivity
  have : 7^a ≤ 7^a * 5^b := by
    calc 7^a = 7^a * 1 := by ring
      _ ≤ 7^a * 5^b := Nat.mul_le_mul_left _ h5
  omega

theorem loop7_spec (N F : Nat) (hN : 10 < N) (hF : fuelFor N ≤ F) :
    ∀ fuel a g, g ≤ 2*N → GuessOK N g →
      (∀ a', a' < a → ∀ b c d, N ≤ cand a' b c d → g ≤ cand a' b c d) →
      2*N < fuel + a →
      ((loop7 N F fuel (7^a) g).1 = true → Smooth7 N) ∧
      ((loop7 N F fuel (7^a) g).1 = false →
        (loop7 N F fuel (7^a) g).2 ≤ g ∧ GuessOK N (loop7 N F fuel (7^a) g).2 ∧
        ∀ a' b c d, N ≤ cand a' b c d → (loop7 N F fuel (7^a) g).2 ≤ cand a' b c d) := by
  intro fuel
  induction fuel with
  | zero =>
    intro a g hg2 hgok hcov hfu
    simp only [loop7]
    refine ⟨by simp, fun _ => ⟨le_refl _, hgok, fun a' b c d hc => ?_⟩⟩
    by_cases ha : a' < a
    · exact hcov a' ha b c d hc
    · have h1 := cand_ge_7 a' b c d
      have h2 := pow7_mono (show a ≤ a' by omega)
      have h3 := lt_pow7 a
      omega
  | succ fuel ih =>
    intro a g hg2 hgok hcov hfu
    unfold loop7
    by_cases hlt : 7^a < g
    · simp only [hlt, if_true]
      have hF2 : 2*N < F + 0 := by unfold fuelFor at hF; nlinarith
      have h5 := loop5_spec N F a hN hF F 0 g hg2 hgok (by intro b' hb'; omega) hF2
      simp only [pow_zero, mul_one] at h5
      obtain ⟨p1, p2⟩ := h5
      by_cases hhit : (loop5 N F F (7^a) g).1 = true
      · simp only [hhit, if_true]
        exact ⟨fun _ => p1 hhit, by simp⟩
      · have hhit' : (loop5 N F F (7^a) g).1 = false := by simpa using hhit
        simp only [hhit', Bool.false_eq_true, if_false]
        obtain ⟨q1, q2, q3⟩ := p2 hhit'
        have e : 7^a * 7 = 7^(a+1) := by ring
        rw [e]
        have hcov' : ∀ a', a' < a+1 → ∀ b c d, N ≤ cand a' b c d →
            (loop5 N F F (7^a) g).2 ≤ cand a' b c d := by
          intro a' ha' b c d hc
          by_cases ha : a' < a
          · exact le_trans q1 (hcov a' ha b c d hc)
          · have : a' = a := by omega
            subst this; exact q3 b c d hc
        obtain ⟨r1, r2⟩ := ih (a+1) _ (le_trans q1 hg2) q2 hcov' (by omega)
        refine ⟨r1, fun h => ?_⟩
        obtain ⟨s1, s2, s3⟩ := r2 h
        exact ⟨le_trans s1 q1, s2, s3⟩
    · simp only [hlt, if_false]
      refine ⟨by simp, fun _ => ⟨le_refl _, hgok, fun a' b c d hc => ?_⟩⟩
      by_cases ha : a' < a
      · exact hcov a' ha b c d hc
      · have h1 := cand_ge_7 a' b c d
        have h2 := pow7_mono (show a ≤ a' by omega)
        omega

/-- a power of two in [N, 2N) -/
lemma pow2_between (N : Nat) (hN : 0 < N) : ∃ k, N ≤ 2^k ∧ 2^k < 2*N := by
  induction N using Nat.strong_induction_on with
  | _ N ih =>
    by_cases h1 : N = 1
    · exact ⟨0, by omega, by omega⟩
    · obtain ⟨k, hk1, hk2⟩ := ih ((N+1)/2) (by omega) (by omega)
      by_cases hp : 2^k * 2 < 2*N
      · exact ⟨k+1, by rw [pow_succ]; omega, by rw [pow_succ]; exact hp⟩
      · -- then 2^k*2 ≥ 2N, i.e. 2^k ≥ N, and 2^k < 2*((N+1)/2) ≤ N+1, so 2^k = N
        exact ⟨k, by omega, by omega⟩

/-- **C18 (next)**: `nextFast N` is the least 7-smooth number ≥ N, for every N ≥ 1. -/
theorem nextFast_spec (N : Nat) (hN : 0 < N) :
    Smooth7 (nextFast N) ∧ N ≤ nextFast N ∧
    ∀ m, Smooth7 m → N ≤ m → nextFast N ≤ m := by
  unfold nextFast
  by_cases hs : N ≤ 10
  · simp only [hs, if_true]
    refine ⟨?_, le_refl _, fun m _ h => h⟩
    have : N = 1 ∨ N = 2 ∨ N = 3 ∨ N = 4 ∨ N = 5 ∨ N = 6 ∨ N = 7 ∨ N = 8 ∨ N = 9 ∨ N = 10 := by omega
    rcases this with h|h|h|h|h|h|h|h|h|h <;> subst h
    · exact ⟨0,0,0,0, by decide⟩
    · exact ⟨0,0,1,0, by decide⟩
    · exact ⟨0,0,0,1, by decide⟩
    · exact ⟨0,0,2,0, by decide⟩
    · exact ⟨0,1,0,0, by decide⟩
    · exact ⟨0,0,1,1, by decide⟩
    · exact ⟨1,0,0,0, by decide⟩
    · exact ⟨0,0,3,0, by decide⟩
    · exact ⟨0,0,0,2, by decide⟩
    · exact ⟨0,1,1,0, by decide⟩
  · simp only [hs, if_false]
    have hN10 : 10 < N := by omega
    have hF2 : 2*N < fuelFor N + 0 := by unfold fuelFor; nlinarith
    have h7 := loop7_spec N (fuelFor N) hN10 (le_refl _) (fuelFor N) 0 (2*N) (le_refl _)
      (Or.inl rfl) (by intro a' ha'; omega) hF2
    simp only [pow_zero] at h7
    obtain ⟨p1, p2⟩ := h7
    by_cases hhit : (loop7 N (fuelFor N) (fuelFor N) 1 (2*N)).1 = true
    · simp only [hhit, if_true]
      exact ⟨p1 hhit, le_refl _, fun m _ h => h⟩
    · have hhit' : (loop7 N (fuelFor N) (fuelFor N) 1 (2*N)).1 = false := by simpa using hhit
      simp only [hhit', Bool.false_eq_true, if_false]
      obtain ⟨q1, q2, q3⟩ := p2 hhit'
      obtain ⟨k, hk1, hk2⟩ := pow2_between N hN
      have hk : (loop7 N (fuelFor N) (fuelFor N) 1 (2*N)).2 ≤ 2^k := by
        have := q3 0 0 k 0 (by simp [cand]; exact hk1)
        simpa [cand] using this
      rcases q2 with e | ⟨e1, e2⟩
      · omega
      · refine ⟨e2, le_of_lt e1, fun m hm hNm => ?_⟩
        obtain ⟨a, b, c, d, rfl⟩ := hm
        exact q3 a b c d hNm


end Pb.FastLen
