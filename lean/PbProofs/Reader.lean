import Mathlib.Tactic.Ring
import Mathlib.Tactic.Linarith
import Mathlib.Tactic.Common
import Mathlib.Logic.Function.Iterate
import PbModel.Reader
import PbProofs.Disp

namespace Pb.Reader
open Pb.Disp

/-! ### list helpers -/

theorem length_flatMap_const {α β} (l : List α) (f : α → List β) (k : Nat)
    (h : ∀ x ∈ l, (f x).length = k) : (l.flatMap f).length = l.length * k := by
  induction l with
  | nil => simp
  | cons a l ih =>
    rw [List.flatMap_cons, List.length_append, h a (List.mem_cons_self ..),
      ih (fun x hx => h x (List.mem_cons_of_mem _ hx)), List.length_cons]
    ring

theorem getElem?_flatMap_range_const {β} (f : Nat → List β) (k : Nat) (h : ∀ i, (f i).length = k) :
    ∀ (n i j : Nat), i < n → j < k → ((List.range n).flatMap f)[i * k + j]? = (f i)[j]? := by
  intro n
  induction n with
  | zero => intro i j hi; omega
  | succ n ih =>
    intro i j hi hj
    have hlen : ((List.range n).flatMap f).length = n * k := by
      rw [length_flatMap_const _ f k (fun x _ => h x), List.length_range]
    rw [List.range_succ, List.flatMap_append]
    by_cases hin : i < n
    · have hlt : i * k + j < n * k := by
        have : (i + 1) * k ≤ n * k := Nat.mul_le_mul_right k hin
        rw [Nat.add_mul, Nat.one_mul] at this
        omega
      rw [List.getElem?_append_left (by rw [hlen]; exact hlt)]
      exact ih i j hin hj
    · have hi' : i = n := by omega
      subst hi'
      rw [List.getElem?_append_right (by rw [hlen]; omega), hlen]
      simp

/-! ### bounds -/

theorem readCheck_ok (len : Nat) (o k : Int) (ho : 0 ≤ o) (hk : 0 ≤ k) (h : o + k ≤ len) :
    readCheck len (.int o) (.int k) = .ok (o.toNat, k.toNat) := by
  unfold readCheck
  simp only [not_lt.mpr ho, not_lt.mpr hk, not_lt.mpr h, if_false]

theorem readCheck_err (len : Nat) (o k : Int) :
    (o < 0 → readCheck len (.int o) (.int k) = .error .valueError) ∧
    (0 ≤ o → k < 0 → readCheck len (.int o) (.int k) = .error .valueError) ∧
    (0 ≤ o → 0 ≤ k → (len : Int) < o + k → readCheck len (.int o) (.int k) = .error .outOfBounds) := by
  refine ⟨?_, ?_, ?_⟩
  · intro h; unfold readCheck; simp only [h, if_true]
  · intro ho h; unfold readCheck; simp only [not_lt.mpr ho, h, if_true, if_false]
  · intro ho hk h; unfold readCheck
    simp only [not_lt.mpr ho, not_lt.mpr hk, if_false]
    rw [if_pos h]

theorem readCheck_ok_inv (len : Nat) (offset n : Arg) (o k : Nat)
    (h : readCheck len offset n = .ok (o, k)) :
    offset = .int o ∧ n = .int k ∧ o + k ≤ len := by
  unfold readCheck at h
  cases offset with
  | other => simp at h
  | int ov =>
    simp only at h
    by_cases ho : ov < 0
    · simp [ho] at h
    · simp only [ho, if_false] at h
      cases n with
      | other => simp at h
      | int kv =>
        simp only at h
        by_cases hk : kv < 0
        · simp [hk] at h
        · simp only [hk, if_false] at h
          by_cases hb : ov + kv > (len : Int)
          · simp [hb] at h
          · simp only [hb, if_false, Except.ok.injEq, Prod.mk.injEq] at h
            obtain ⟨h1, h2⟩ := h
            have e1 : ov = (o : Int) := by omega
            have e2 : kv = (k : Int) := by omega
            subst e1; subst e2
            refine ⟨rfl, rfl, ?_⟩
            omega

theorem window_in_file (d : Desc) (o k : Nat) (h : o + k ≤ d.len) :
    (window d o k).1 + (window d o k).2 ≤ d.fileLen := by
  unfold window Desc.len at *
  split
  · rename_i hm
    rw [if_pos hm] at h
    simp only
    omega
  · rename_i hm
    rw [if_neg hm] at h
    simpa using h

/-! ### data layout -/

theorem frame_length {α} (C : Conj α) (d : Desc) (F : Nat → Nat → Nat → α) (o t : Nat) :
    (frame C d F o t).length = (outSample d).1 * (outSample d).2 := by
  unfold frame
  rw [length_flatMap_const _ _ (outSample d).2 (fun x _ => by simp), List.length_range]

theorem readVals_length {α} (C : Conj α) (d : Desc) (F : Nat → Nat → Nat → α) (o n : Nat) :
    (readVals C d F o n).length = n * ((outSample d).1 * (outSample d).2) := by
  unfold readVals
  rw [length_flatMap_const _ _ _ (fun t _ => frame_length C d F o t), List.length_range]

theorem frame_shift {α} (C : Conj α) (d : Desc) (F : Nat → Nat → Nat → α) (o n t : Nat) :
    frame C d F o (n + t) = frame C d F (o + n) t := by
  unfold frame outAt src
  cases d.kind <;> simp only [Nat.add_assoc]

theorem readVals_adjacent {α} (C : Conj α) (d : Desc) (F : Nat → Nat → Nat → α) (o n m : Nat) :
    readVals C d F o n ++ readVals C d F (o + n) m = readVals C d F o (n + m) := by
  unfold readVals
  rw [List.range_add, List.flatMap_append, List.flatMap_map]
  congr 1
  apply List.flatMap_congr
  intro t _
  exact (frame_shift C d F o n t).symm

theorem frame_getElem? {α} (C : Conj α) (d : Desc) (F : Nat → Nat → Nat → α) (o t x y : Nat)
    (hx : x < (outSample d).1) (hy : y < (outSample d).2) :
    (frame C d F o t)[x * (outSample d).2 + y]? = some (outAt C d F o t x y) := by
  unfold frame
  rw [getElem?_flatMap_range_const _ (outSample d).2 (fun i => by simp) _ x y hx hy]
  simp [hy]

theorem readVals_getElem? {α} (C : Conj α) (d : Desc) (F : Nat → Nat → Nat → α) (o n t x y : Nat)
    (ht : t < n) (hx : x < (outSample d).1) (hy : y < (outSample d).2) :
    (readVals C d F o n)[(t * (outSample d).1 + x) * (outSample d).2 + y]? = some (outAt C d F o t x y) := by
  have hidx : (t * (outSample d).1 + x) * (outSample d).2 + y
      = t * ((outSample d).1 * (outSample d).2) + (x * (outSample d).2 + y) := by ring
  have hlt : x * (outSample d).2 + y < (outSample d).1 * (outSample d).2 := by
    have : (x + 1) * (outSample d).2 ≤ (outSample d).1 * (outSample d).2 := Nat.mul_le_mul_right _ hx
    rw [Nat.add_mul, Nat.one_mul] at this
    omega
  unfold readVals
  rw [hidx, getElem?_flatMap_range_const _ _ (fun i => frame_length C d F o i) n t _ ht hlt]
  exact frame_getElem? C d F o t x y hx hy

/-! ### times -/

theorem roundHalfEven_int_add (k : Int) (e : Rat) (h1 : -(1 / 2) < e) (h2 : e < 1 / 2) :
    roundHalfEven ((k : Rat) + e) = k := by
  by_cases he : 0 ≤ e
  · have hf : ((k : Rat) + e).floor = k := by
      apply le_antisymm
      · have : ((k : Rat) + e).floor < k + 1 := by
          rw [Rat.floor_lt_iff]; push_cast; linarith
        omega
      · rw [Rat.le_floor_iff]; linarith
    unfold roundHalfEven
    simp only [hf]
    rw [if_pos (by linarith)]
  · have he' : e < 0 := not_le.mp he
    have hf : ((k : Rat) + e).floor = k - 1 := by
      apply le_antisymm
      · have : ((k : Rat) + e).floor < k := by
          rw [Rat.floor_lt_iff]; linarith
        omega
      · rw [Rat.le_floor_iff]; push_cast; linarith
    unfold roundHalfEven
    simp only [hf]
    rw [if_neg (by push_cast; linarith), if_pos (by push_cast; linarith)]
    omega

theorem offsetAt_timeAt (len : Nat) (rate : Rat) (hr : 0 < rate) (k : Int) (h0 : 0 ≤ k) (hl : k ≤ len)
    (e : Rat) (he1 : -(1 / 2) < e * rate) (he2 : e * rate < 1 / 2) :
    offsetAt len rate (timeAt rate k + e) = .ok k := by
  unfold offsetAt timeAt
  have hne : rate ≠ 0 := ne_of_gt hr
  have : ((k : Rat) / rate + e) * rate = (k : Rat) + e * rate := by
    field_simp
  simp only [this, roundHalfEven_int_add k (e * rate) he1 he2]
  rw [if_neg (by omega)]

theorem offsetAt_out (len : Nat) (rate t : Rat)
    (h : roundHalfEven (t * rate) < 0 ∨ (len : Int) < roundHalfEven (t * rate)) :
    offsetAt len rate t = .error .outOfBounds := by
  unfold offsetAt
  simp only
  rw [if_pos (by omega)]

/-! ### interleavings -/

theorem stepT_done {α} (F1 : Nat → α) (r : Req) (s : TState α) (h : 4 ≤ s.pc) : stepT F1 r s = s := by
  unfold stepT
  split <;> first | omega | rfl

theorem iterate_stepT {α} (F1 : Nat → α) (r : Req) :
    ∀ n, 3 ≤ n → ((stepT F1 r)^[n] ({} : TState α)).out = solo F1 r ∧ 3 ≤ ((stepT F1 r)^[n] ({} : TState α)).pc := by
  intro n hn
  obtain ⟨m, rfl⟩ : ∃ m, n = m + 3 := ⟨n - 3, by omega⟩
  induction m with
  | zero =>
    simp only [Nat.zero_add, Function.iterate_succ, Function.iterate_zero, Function.comp, id]
    simp [stepT, solo]
  | succ m ih =>
    have ih' := ih (by omega)
    rw [show m + 1 + 3 = (m + 3) + 1 by omega, Function.iterate_succ_apply']
    obtain ⟨h1, h2⟩ := ih'
    set s := (stepT F1 r)^[m + 3] ({} : TState α) with hs
    unfold stepT
    split
    · omega
    · omega
    · omega
    · exact ⟨h1, by simp⟩
    · exact ⟨h1, h2⟩

/-- the state of thread `i` after any schedule is its own step function iterated as many times as
`i` was scheduled: other threads' steps do not touch it -/
theorem runSched_thread {α} (F1 : Nat → α) (reqs : List Req) :
    ∀ (sched : List Nat) (st : List (TState α)), st.length = reqs.length →
      ∀ i (r : Req) (s : TState α), reqs[i]? = some r → st[i]? = some s →
        (runSched F1 reqs sched st)[i]? = some ((stepT F1 r)^[sched.count i] s) := by
  intro sched
  induction sched with
  | nil => intro st _ i r s _ hs; simpa [runSched] using hs
  | cons j rest ih =>
    intro st hlen i r s hr hs
    unfold runSched
    cases hrj : reqs[j]? with
    | none =>
      have hji : j ≠ i := by intro h; subst h; rw [hr] at hrj; cases hrj
      simp only
      rw [List.count_cons, if_neg (by simpa using hji), Nat.add_zero]
      exact ih st hlen i r s hr hs
    | some rj =>
      cases hsj : st[j]? with
      | none =>
        have hji : j ≠ i := by intro h; subst h; rw [hs] at hsj; cases hsj
        simp only
        rw [List.count_cons, if_neg (by simpa using hji), Nat.add_zero]
        exact ih st hlen i r s hr hs
      | some sj =>
        simp only
        by_cases hji : j = i
        · subst hji
          rw [hr] at hrj; cases hrj
          rw [hs] at hsj; cases hsj
          have hj : j < st.length := by
            rcases List.getElem?_eq_some_iff.1 hs with ⟨h, _⟩; exact h
          rw [List.count_cons_self, Function.iterate_succ_apply]
          apply ih _ (by simpa using hlen) j r _ hr
          simp [List.getElem?_set, hj]
        · rw [List.count_cons, if_neg (by simpa using hji), Nat.add_zero]
          apply ih _ (by simpa using hlen) i r s hr
          rw [List.getElem?_set_ne hji]
          exact hs

end Pb.Reader
