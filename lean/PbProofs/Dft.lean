import Mathlib.Analysis.Fourier.ZMod

/-! Discrete Fourier transform identities on `ZMod N` used by C03, C04, C12, C19, C20. -/

namespace Pb.Dft
open ZMod
open scoped ZMod

variable {N : ℕ} [NeZero N]

/-- time-shift theorem: delaying by `s` multiplies bin `k` by `e^{-2πi s k / N}` -/
theorem dft_shift (x : ZMod N → ℂ) (s k : ZMod N) :
    𝓕 (fun n => x (n - s)) k = stdAddChar (-(s * k)) * 𝓕 x k := by
  simp only [dft_apply, smul_eq_mul]
  rw [Finset.mul_sum]
  refine Fintype.sum_equiv (Equiv.subRight s) _ _ (fun n => ?_)
  simp only [Equiv.subRight_apply]
  rw [← mul_assoc, ← AddChar.map_add_eq_mul]
  congr 2
  ring

/-- modulation theorem: multiplying by `e^{2πi b n / N}` moves bin `k − b` to bin `k` -/
theorem dft_modulate (x : ZMod N → ℂ) (b k : ZMod N) :
    𝓕 (fun n => stdAddChar (b * n) * x n) k = 𝓕 x (k - b) := by
  simp only [dft_apply, smul_eq_mul]
  refine Finset.sum_congr rfl (fun n _ => ?_)
  rw [← mul_assoc, ← AddChar.map_add_eq_mul]
  congr 2
  ring

/-- `ifft(ramp · fft(x))` is the circular delay of `x` -/
theorem shift_via_dft (x : ZMod N → ℂ) (s : ZMod N) :
    𝓕⁻ (fun k => stdAddChar (-(s * k)) * 𝓕 x k) = fun n => x (n - s) := by
  have h : (fun k => stdAddChar (-(s * k)) * 𝓕 x k) = 𝓕 (fun n => x (n - s)) := by
    funext k; rw [dft_shift]
  rw [h]
  exact ZMod.dft.symm_apply_apply _

/-- `ifft(fft(x))` = `x` -/
theorem dft_inv (x : ZMod N → ℂ) : 𝓕⁻ (𝓕 x) = x := ZMod.dft.symm_apply_apply x

theorem inv_dft (X : ZMod N → ℂ) : 𝓕 (𝓕⁻ X) = X := ZMod.dft.apply_symm_apply X

/-- the DFT of the pure tone at bin `m`, `n ↦ e^{2πi m n/N}`, is `N` at bin `m` and `0` elsewhere -/
theorem dft_tone (m k : ZMod N) :
    𝓕 (fun n => (stdAddChar (m * n) : ℂ)) k = if k = m then (N : ℂ) else 0 := by
  have h := dft_modulate (fun _ => (1 : ℂ)) m k
  simp only [mul_one] at h
  rw [h, dft_apply]
  simp only [smul_eq_mul, mul_one]
  have hsum : ∑ j : ZMod N, (stdAddChar (-(j * (k - m))) : ℂ)
      = ∑ j : ZMod N, (stdAddChar.compAddMonoidHom (AddMonoidHom.mulLeft (-(k - m))) j : ℂ) := by
    refine Finset.sum_congr rfl (fun j _ => ?_)
    simp [AddChar.compAddMonoidHom_apply]
    congr 1; ring
  by_cases hkm : k = m
  · subst hkm
    simp [ZMod.card]
  · rw [if_neg hkm, hsum]
    apply AddChar.sum_eq_zero_of_ne_one
    intro hone
    have h1 := DFunLike.congr_fun hone 1
    simp only [AddChar.compAddMonoidHom_apply, AddMonoidHom.coe_mulLeft, mul_one, AddChar.one_apply] at h1
    have h2 := ((ZMod.isPrimitive_stdAddChar N).zmod_char_eq_one_iff N (-(k - m))).mp h1
    apply hkm
    have : m - k = 0 := by simpa using h2
    exact (sub_eq_zero.mp this).symm

end Pb.Dft
