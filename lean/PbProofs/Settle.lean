import Mathlib.Tactic.Ring
import Mathlib.Tactic.Linarith
import Mathlib.Tactic.FieldSimp
import Mathlib.Algebra.Order.Floor.Ring
import Mathlib.Data.Rat.Floor
import Mathlib.Algebra.Order.Field.Rat
import PbModel.DayFrac

namespace Pb.DayFrac

/-- **floor division settles exactly**: if the estimate is within one of `⌊A/B⌋`, the settle step
returns exactly `⌊A/B⌋` and the remainder `A − ⌊A/B⌋·B`, which lies in `[0, B)` for `B > 0` and in
`(B, 0]` for `B < 0`. -/
theorem settle_spec (A B : Rat) (hB : B ≠ 0) (fd : Int) (h : |fd - ⌊A / B⌋| ≤ 1) :
    (settle A B fd).1 = ⌊A / B⌋ ∧ (settle A B fd).2 = A - ⌊A / B⌋ * B ∧
    (0 < B → 0 ≤ (settle A B fd).2 ∧ (settle A B fd).2 < B) ∧
    (B < 0 → B < (settle A B fd).2 ∧ (settle A B fd).2 ≤ 0) := by
  set q := ⌊A / B⌋ with hq
  have hq1 : (q : Rat) ≤ A / B := Int.floor_le _
  have hq2 : A / B < q + 1 := Int.lt_floor_add_one _
  have hcases : fd = q - 1 ∨ fd = q ∨ fd = q + 1 := by
    have := abs_le.1 h
    omega
  -- remainder at the true quotient
  have key : ∀ z : Int, A - (z : Rat) * B = (A / B - z) * B := by
    intro z; field_simp
  rcases lt_or_gt_of_ne hB with hneg | hpos
  · -- B < 0
    have hnp : ¬ (0 < B) := not_lt.mpr hneg.le
    have r_q : B < A - (q : Rat) * B ∧ A - (q : Rat) * B ≤ 0 := by
      rw [key]
      constructor
      · have : (A / B - q) * B > 1 * B := mul_lt_mul_of_neg_right (by linarith) hneg
        linarith
      · exact mul_nonpos_of_nonneg_of_nonpos (by linarith) hneg.le
    have fin : (settle A B fd).1 = q := by
      unfold settle
      simp only [hnp, if_false]
      rcases hcases with rfl | rfl | rfl
      · -- fd = q - 1: r = rq + B ≤ B → over
        have hr : A - ((q - 1 : Int) : Rat) * B = (A - (q : Rat) * B) + B := by push_cast; ring
        have h1 : decide (A - ((q - 1 : Int) : Rat) * B ≤ B) = true := by
          rw [decide_eq_true_eq, hr]; linarith [r_q.2]
        have h2 : decide (0 < A - ((q - 1 : Int) : Rat) * B) = false := by
          rw [decide_eq_false_iff_not, hr]; linarith [r_q.2]
        rw [h1, h2]; simp [hB]
      · have h1 : decide (A - (q : Rat) * B ≤ B) = false := by
          rw [decide_eq_false_iff_not]; linarith [r_q.1]
        have h2 : decide (0 < A - (q : Rat) * B) = false := by
          rw [decide_eq_false_iff_not]; linarith [r_q.2]
        rw [h1, h2]; simp
      · have hr : A - ((q + 1 : Int) : Rat) * B = (A - (q : Rat) * B) - B := by push_cast; ring
        have h1 : decide (A - ((q + 1 : Int) : Rat) * B ≤ B) = false := by
          rw [decide_eq_false_iff_not, hr]; linarith [r_q.1]
        have h2 : decide (0 < A - ((q + 1 : Int) : Rat) * B) = true := by
          rw [decide_eq_true_eq, hr]; linarith [r_q.1]
        rw [h1, h2]; simp
    have fin2 : (settle A B fd).2 = A - (q : Rat) * B := by
      have : (settle A B fd).2 = A - ((settle A B fd).1 : Rat) * B := rfl
      rw [this, fin]
    refine ⟨fin, fin2, fun hp => absurd hp hnp, fun _ => ?_⟩
    rw [fin2]; exact r_q
  · -- B > 0
    have r_q : 0 ≤ A - (q : Rat) * B ∧ A - (q : Rat) * B < B := by
      rw [key]
      constructor
      · exact mul_nonneg (by linarith) hpos.le
      · have : (A / B - q) * B < 1 * B := mul_lt_mul_of_pos_right (by linarith) hpos
        linarith
    have fin : (settle A B fd).1 = q := by
      unfold settle
      simp only [hpos, if_true]
      rcases hcases with rfl | rfl | rfl
      · have hr : A - ((q - 1 : Int) : Rat) * B = (A - (q : Rat) * B) + B := by push_cast; ring
        have h1 : decide (B ≤ A - ((q - 1 : Int) : Rat) * B) = true := by
          rw [decide_eq_true_eq, hr]; linarith [r_q.1]
        have h2 : decide (A - ((q - 1 : Int) : Rat) * B < 0) = false := by
          rw [decide_eq_false_iff_not, hr]; linarith [r_q.1]
        rw [h1, h2]; simp [hB]
      · have h1 : decide (B ≤ A - (q : Rat) * B) = false := by
          rw [decide_eq_false_iff_not]; linarith [r_q.2]
        have h2 : decide (A - (q : Rat) * B < 0) = false := by
          rw [decide_eq_false_iff_not]; linarith [r_q.1]
        rw [h1, h2]; simp
      · have hr : A - ((q + 1 : Int) : Rat) * B = (A - (q : Rat) * B) - B := by push_cast; ring
        have h1 : decide (B ≤ A - ((q + 1 : Int) : Rat) * B) = false := by
          rw [decide_eq_false_iff_not, hr]; linarith [r_q.2]
        have h2 : decide (A - ((q + 1 : Int) : Rat) * B < 0) = true := by
          rw [decide_eq_true_eq, hr]; linarith [r_q.2]
        rw [h1, h2]; simp
    have fin2 : (settle A B fd).2 = A - (q : Rat) * B := by
      have : (settle A B fd).2 = A - ((settle A B fd).1 : Rat) * B := rfl
      rw [this, fin]
    refine ⟨fin, fin2, fun _ => ?_, fun hn => absurd hpos (not_lt.mpr hn.le)⟩
    rw [fin2]; exact r_q

end Pb.DayFrac
