import Mathlib.Tactic.Ring
import Mathlib.Tactic.Linarith
import Mathlib.Tactic.FieldSimp
import Mathlib.Tactic.NormNum
import PbModel.Freq
import PbProofs.Crop

namespace Pb.Freq
open Pb.Crop

/-- the generated table is the documented one (translator-fed obligation) -/
theorem align_table_eq :
    Gen.Align.alignTable = [("bottom", 0), ("center", (1 : Rat) / 2), ("top", 1)] ∧
    Gen.Align.alignAllowed = ["bottom", "center", "top"] ∧
    Gen.Align.oddAlign = some "center" ∧ Gen.Align.extractOk = true := by
  refine ⟨?_, ?_, ?_, ?_⟩ <;> rfl

def WF (B : Band) : Prop := B.al = "bottom" ∨ B.al = "center" ∨ B.al = "top"

theorem alignVal_bottom : alignVal? "bottom" = some 0 := by
  unfold alignVal?; rw [align_table_eq.1]; rfl
theorem alignVal_center : alignVal? "center" = some (1 / 2) := by
  unfold alignVal?; rw [align_table_eq.1]; rfl
theorem alignVal_top : alignVal? "top" = some 1 := by
  unfold alignVal?; rw [align_table_eq.1]; rfl

theorem alignVal_range (B : Band) (h : WF B) :
    0 ≤ (alignVal? B.al).getD 0 ∧ (alignVal? B.al).getD 0 ≤ 1 := by
  rcases h with h | h | h <;> rw [h]
  · rw [alignVal_bottom]; norm_num
  · rw [alignVal_center]; norm_num
  · rw [alignVal_top]; norm_num

theorem label_succ (B : Band) (i : Int) : B.label (i + 1) - B.label i = B.bw := by
  unfold Band.label; push_cast; ring

theorem label_add (B : Band) (i k : Int) : B.label (i + k) = B.label i + B.bw * k := by
  unfold Band.label; push_cast; ring

theorem label_in_band (B : Band) (h : WF B) (hbw : 0 < B.bw) (i : Int) (h0 : 0 ≤ i) (hn : i < B.n) :
    B.minFreq ≤ B.label i ∧ B.label i ≤ B.maxFreq := by
  obtain ⟨a0, a1⟩ := alignVal_range B h
  unfold Band.label Band.minFreq Band.maxFreq
  have hi0 : (0 : Rat) ≤ i := by exact_mod_cast h0
  have hin : (i : Rat) + 1 ≤ B.n := by exact_mod_cast hn
  constructor
  · have : 0 ≤ B.bw * ((i : Rat) + (alignVal? B.al).getD 0) := mul_nonneg hbw.le (by linarith)
    linarith
  · have : 0 ≤ B.bw * ((B.n : Rat) - i - (alignVal? B.al).getD 0) := mul_nonneg hbw.le (by linarith)
    linarith

theorem band_width (B : Band) : B.maxFreq - B.minFreq = B.bandwidth := by
  unfold Band.maxFreq Band.minFreq Band.bandwidth; ring

theorem normAlign_center (n : Nat) : normAlign n "center" = .ok "center" := by
  unfold normAlign
  rw [align_table_eq.2.1, align_table_eq.2.2.1]
  have : ["bottom", "center", "top"].contains "center" = true := by decide
  simp only [this, if_true]
  split <;> rfl

theorem normAlign_odd (n : Nat) (al : String) (hodd : n % 2 = 1) (a : String)
    (h : normAlign n al = .ok a) : a = "center" := by
  unfold normAlign at h
  rw [align_table_eq.2.2.1] at h
  split at h
  · simp at h; exact h.symm
  · cases h

theorem normAlign_wf (n : Nat) (al a : String) (h : normAlign n al = .ok a) :
    a = "bottom" ∨ a = "center" ∨ a = "top" := by
  unfold normAlign at h
  rw [align_table_eq.2.1, align_table_eq.2.2.1] at h
  split at h
  · rename_i hc
    simp at hc
    split at h
    · simp at h; right; left; exact h.symm
    · simp at h; subst h; exact hc
  · cases h

theorem normAlign_reject (n : Nat) (al : String)
    (h : ¬ (al = "bottom" ∨ al = "center" ∨ al = "top")) : normAlign n al = .error .valueError := by
  unfold normAlign
  rw [align_table_eq.2.1]
  rcases not_or.mp h with ⟨h1, h23⟩
  rcases not_or.mp h23 with ⟨h2, h3⟩
  simp [h1, h2, h3]

theorem freqSlice_spec (B : Band) (s : PySlice) (B' : Band) (a : Nat)
    (h : freqSlice B s = .ok (B', a)) :
    WF B' ∧ B'.bw = B.bw ∧ 1 ≤ B'.n ∧ a + B'.n ≤ B.n ∧ s.step.getD 1 = 1 ∧
    (a : Int) = adj B.n s.start 0 ∧ ((a + B'.n : Nat) : Int) = adj B.n s.stop B.n ∧
    ∀ j : Int, B'.label j = B.label (a + j) := by
  unfold freqSlice at h
  simp only at h
  split at h
  · cases h
  · split at h
    · cases h
    · rename_i hstep0 hstep1
      split at h
      · cases h
      · rename_i hab
        rw [normAlign_center] at h
        simp only at h
        injection h with h
        injection h with h1 h2
        have ha := adj_bounds B.n s.start 0 (le_refl _) (by omega)
        have hb := adj_bounds B.n s.stop B.n (by omega) (le_refl _)
        have hab' : adj B.n s.start 0 < adj B.n s.stop B.n := by
          by_contra hc; exact hab hc
        subst h1; subst h2
        have hn : (((adj (↑B.n) s.stop ↑B.n - adj (↑B.n) s.start 0).toNat : Nat) : Int)
            = adj (↑B.n) s.stop ↑B.n - adj (↑B.n) s.start 0 := Int.toNat_of_nonneg (by omega)
        have hna : (((adj (↑B.n) s.start 0).toNat : Nat) : Int) = adj (↑B.n) s.start 0 :=
          Int.toNat_of_nonneg ha.1
        have hs1 : s.step.getD 1 = 1 := by
          by_contra hc; exact hstep1 hc
        refine ⟨Or.inr (Or.inl rfl), rfl, ?_, ?_, hs1, hna, ?_, fun j => ?_⟩
        · show 1 ≤ (adj (↑B.n) s.stop ↑B.n - adj (↑B.n) s.start 0).toNat
          omega
        · show (adj (↑B.n) s.start 0).toNat + (adj (↑B.n) s.stop ↑B.n - adj (↑B.n) s.start 0).toNat ≤ B.n
          omega
        · show (((adj (↑B.n) s.start 0).toNat + (adj (↑B.n) s.stop ↑B.n - adj (↑B.n) s.start 0).toNat : Nat) : Int) = _
          omega
        · unfold Band.label
          simp only [alignVal_center, Option.getD_some]
          have hnr : (((adj (↑B.n) s.stop ↑B.n - adj (↑B.n) s.start 0).toNat : Nat) : Rat)
              = ((adj (↑B.n) s.stop ↑B.n : Int) : Rat) - ((adj (↑B.n) s.start 0 : Int) : Rat) := by
            rw [← Int.cast_natCast, hn]; push_cast; ring
          have hnar : (((adj (↑B.n) s.start 0).toNat : Nat) : Rat)
              = ((adj (↑B.n) s.start 0 : Int) : Rat) := by
            rw [← Int.cast_natCast, hna]
          rw [hnr]
          push_cast
          rw [hnar]
          ring

theorem freqPipeline_spec (B0 : Band) :
    ∀ (ops : List PySlice) (B : Band) (off i : Nat) (B' : Band) (off' : Nat),
      (∀ j : Int, B.label j = B0.label (off + j)) → off + B.n ≤ B0.n → B.bw = B0.bw →
      freqPipeline B off ops i = .ok (B', off') →
      (∀ j : Int, B'.label j = B0.label (off' + j)) ∧ off' + B'.n ≤ B0.n ∧ B'.bw = B0.bw ∧
      (ops ≠ [] → WF B' ∧ 1 ≤ B'.n) := by
  intro ops
  induction ops with
  | nil =>
    intro B off i B' off' hl hn hb h
    simp only [freqPipeline] at h
    injection h with h; injection h with h1 h2
    subst h1; subst h2
    exact ⟨hl, hn, hb, fun h => absurd rfl h⟩
  | cons s rest ih =>
    intro B off i B' off' hl hn hb h
    simp only [freqPipeline] at h
    split at h
    · cases h
    · rename_i B1 a hs
      obtain ⟨w, e1, e2, e3, _, _, _, e4⟩ := freqSlice_spec B s B1 a hs
      have := ih B1 (off + a) (i + 1) B' off' (fun j => by rw [e4 j, hl]; push_cast; ring_nf)
        (by omega) (by rw [e1, hb]) h
      refine ⟨this.1, this.2.1, this.2.2.1, fun _ => ?_⟩
      by_cases hr : rest = []
      · subst hr
        simp only [freqPipeline] at h
        injection h with h; injection h with h1 h2
        subst h1; exact ⟨w, e2⟩
      · exact this.2.2.2 hr

end Pb.Freq
