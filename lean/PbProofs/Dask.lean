import Mathlib.Tactic.Common
import PbModel.Dask

namespace Pb.Dask

/-- a memo table is consistent when every stored value is `f` applied to the stored values of
its dependencies (which are all present) -/
def Consistent {α} [Inhabited α] (g : Graph α) (m : Memo α) : Prop :=
  ∀ i v, m i = some v →
    (∀ d ∈ g.deps i, (m d).isSome) ∧ v = g.f i ((g.deps i).map fun d => (m d).getD default)

theorem consistent_empty {α} [Inhabited α] (g : Graph α) : Consistent g Memo.empty := by
  intro i v h; simp [Memo.empty] at h

/-- acyclic numbering: dependencies have smaller indices -/
def Topo {α} (g : Graph α) : Prop := ∀ i, ∀ d ∈ g.deps i, d < i

theorem consistent_exec {α} [Inhabited α] (g : Graph α) (hT : Topo g) (m : Memo α) (i : Nat)
    (h : Consistent g m) : Consistent g (exec g m i) := by
  unfold exec
  by_cases he : enabled g m i = true
  · rw [if_pos he]
    have hen : ∀ d ∈ g.deps i, (m d).isSome := by
      unfold enabled at he
      rw [List.all_eq_true] at he
      exact he
    -- values of dependencies are unchanged by the update (deps have smaller indices, ≠ i)
    have hdep : ∀ j, ∀ d ∈ g.deps j, d ≠ j := fun j d hd => Nat.ne_of_lt (hT j d hd)
    intro j v hj
    unfold Memo.set at hj
    by_cases hji : j = i
    · subst hji
      simp only [if_true, Option.some.injEq] at hj
      refine ⟨?_, ?_⟩
      · intro d hd
        unfold Memo.set
        rw [if_neg (hdep j d hd)]
        exact hen d hd
      · rw [← hj]
        congr 1
        apply List.map_congr_left
        intro d hd
        unfold Memo.set
        rw [if_neg (hdep j d hd)]
    · rw [if_neg hji] at hj
      obtain ⟨h1, h2⟩ := h j v hj
      refine ⟨?_, ?_⟩
      · intro d hd
        unfold Memo.set
        by_cases hdi : d = i
        · rw [if_pos hdi]; rfl
        · rw [if_neg hdi]; exact h1 d hd
      · rw [h2]
        congr 1
        apply List.map_congr_left
        intro d hd
        unfold Memo.set
        by_cases hdi : d = i
        · -- d = i is already stored in m (consistency of j) with the value exec recomputes
          subst hdi
          rw [if_pos rfl]
          have hs := h1 d hd
          obtain ⟨w, hw⟩ := Option.isSome_iff_exists.1 hs
          obtain ⟨_, hw2⟩ := h d w hw
          rw [hw]
          simp only [Option.getD_some]
          exact hw2
        · rw [if_neg hdi]
  · rw [if_neg he]; exact h

theorem consistent_run {α} [Inhabited α] (g : Graph α) (hT : Topo g) (sched : List Nat) :
    ∀ m, Consistent g m → Consistent g (run g sched m) := by
  induction sched with
  | nil => intro m h; exact h
  | cons i rest ih =>
    intro m h
    unfold run
    rw [List.foldl_cons]
    exact ih _ (consistent_exec g hT m i h)

/-- in a consistent table the stored value of a task is its single-threaded meaning -/
theorem consistent_denote {α} [Inhabited α] (g : Graph α) (hT : Topo g) (m : Memo α) (h : Consistent g m) :
    ∀ i v, m i = some v → ∀ fuel, i < fuel → v = denote g fuel i := by
  intro i
  induction i using Nat.strongRecOn with
  | ind i ih =>
    intro v hv fuel hf
    obtain ⟨h1, h2⟩ := h i v hv
    obtain ⟨k, rfl⟩ : ∃ k, fuel = k + 1 := ⟨fuel - 1, by omega⟩
    rw [h2]
    unfold denote
    congr 1
    apply List.map_congr_left
    intro d hd
    obtain ⟨w, hw⟩ := Option.isSome_iff_exists.1 (h1 d hd)
    rw [hw]
    simp only [Option.getD_some]
    exact ih d (hT i d hd) w hw k (by have := hT i d hd; omega)

/-- progress: a schedule that lists the tasks `0 … n-1` in order computes all of them -/
theorem run_range_complete {α} [Inhabited α] (g : Graph α) (hT : Topo g) :
    ∀ n, ∀ i, i < n → ((run g (List.range n) Memo.empty) i).isSome := by
  intro n
  induction n with
  | zero => intro i hi; omega
  | succ n ih =>
    intro i hi
    rw [List.range_succ]
    unfold run at *
    rw [List.foldl_append, List.foldl_cons, List.foldl_nil]
    set m := List.foldl (exec g) Memo.empty (List.range n) with hm
    have hen : enabled g m n = true := by
      unfold enabled
      rw [List.all_eq_true]
      intro d hd
      exact ih d (hT n d hd)
    unfold exec
    rw [if_pos hen]
    unfold Memo.set
    by_cases hin : i = n
    · rw [if_pos hin]; rfl
    · rw [if_neg hin]; exact ih i (by omega)

end Pb.Dask
