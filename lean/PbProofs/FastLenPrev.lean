import PbProofs.FastLen

/-! Correctness of the `prev_fast_len` model: largest 7-smooth number ≤ N (all N ≥ 1).
Dual of `PbProofs/FastLen.lean`. -/

namespace Pb.FastLen

def CoveredP (N f c d g : Nat) : Prop :=
  ∀ c' d', (d' < d ∨ (d' = d ∧ c < c')) → f * 2^c' * 3^d' ≤ N → f * 2^c' * 3^d' ≤ g

theorem innerPrev_max (N f : Nat) (hf : f % 2 = 1) :
    ∀ fuel c d g, N < 2 * (f * 2^c * 3^d) → CoveredP N f c d g →
      (c * (N + 1) + (N - f*2^c*3^d) < fuel) →
      ((innerPrev N fuel (f * 2^c * 3^d) g).1 = true → ∃ c' d', N = f*2^c'*3^d') ∧
      ((innerPrev N fuel (f * 2^c * 3^d) g).1 = false →
        ∀ c' d', f * 2^c' * 3^d' ≤ N →
          f * 2^c' * 3^d' ≤ (innerPrev N fuel (f * 2^c * 3^d) g).2) := by
  intro fuel
  induction fuel with
  | zero => intro c d g _ _ h; omega
  | succ fuel ih =>
    intro c d g h2 hcov hfuel
    set x := f * 2^c * 3^d with hx
    unfold innerPrev
    by_cases h1 : x < N
    · simp only [h1, if_true]
      have hx3 : x * 3 = f * 2^c * 3^(d+1) := by rw [hx]; ring
      rw [hx3]
      have hg' : g ≤ (if g < x then x else g) ∧ x ≤ (if g < x then x else g) := by
        split <;> omega
      apply ih c (d+1) _
      · rw [← hx3]; omega
      · intro c' d' hcd hle
        rcases hcd with hd | ⟨hd, hc⟩
        · by_cases hdd : d' < d
          · have := hcov c' d' (Or.inl hdd) hle; omega
          · have hde : d' = d := by omega
            subst hde
            by_cases hcc : c < c'
            · have := hcov c' d' (Or.inr ⟨rfl, hcc⟩) hle; omega
            · have := mono_c f d' (show c' ≤ c by omega)
              omega
        · subst hd
          -- f 2^c' 3^(d+1) ≥ f 2^(c+1) 3^(d+1) = 6x > N
          have h5 := mono_c f (d+1) (show c+1 ≤ c' by omega)
          have e : f * 2^(c+1) * 3^(d+1) = 6 * x := by rw [hx]; ring
          omega
      · rw [← hx3]; omega
    · simp only [h1, if_false]
      by_cases h3 : N < x
      · simp only [h3, if_true]
        by_cases hodd : x % 2 = 1
        · simp only [hodd, if_true]
          refine ⟨by simp, fun _ c' d' hle => ?_⟩
          have hc0 : c = 0 := (odd_iff_c0 f c d hf).1 hodd
          subst hc0
          by_cases hdd : d' < d
          · exact hcov c' d' (Or.inl hdd) hle
          · by_cases hc' : c' = 0
            · subst hc'
              have := mono_d f 0 (show d ≤ d' by omega); omega
            · by_cases hde : d' = d
              · subst hde
                exact hcov c' d' (Or.inr ⟨rfl, by omega⟩) hle
              · have a1 := mono_d f 0 (show d ≤ d' by omega)
                have a2 := mono_c f d' (show 0 ≤ c' by omega)
                omega
        · simp only [hodd, if_false]
          have hc0 : c ≠ 0 := fun h => hodd ((odd_iff_c0 f c d hf).2 h)
          obtain ⟨k, rfl⟩ : ∃ k, c = k + 1 := ⟨c - 1, by omega⟩
          have hxe : x = 2 * (f * 2^k * 3^d) := by rw [hx]; ring
          have hx2 : x / 2 = f * 2^k * 3^d := by omega
          rw [hx2]
          apply ih k d
          · omega
          · intro c' d' hcd hle
            rcases hcd with hd | ⟨hd, hc⟩
            · exact hcov c' d' (Or.inl hd) hle
            · subst hd
              by_cases hck : c' = k+1
              · subst hck; omega
              · exact hcov c' d' (Or.inr ⟨rfl, by omega⟩) hle
          · have : (k+1) * (N+1) = k*(N+1) + (N+1) := by ring
            omega
      · simp only [h3, if_false]
        refine ⟨fun _ => ⟨c, d, by omega⟩, by simp⟩

/-- the guess only increases, and if it changed it is a family member below N -/
theorem innerPrev_guess (N f : Nat) (hf : f % 2 = 1) :
    ∀ fuel c d g,
      g ≤ (innerPrev N fuel (f * 2^c * 3^d) g).2 ∧
      ((innerPrev N fuel (f * 2^c * 3^d) g).2 = g ∨
        ((innerPrev N fuel (f * 2^c * 3^d) g).2 < N ∧
          ∃ c' d', (innerPrev N fuel (f * 2^c * 3^d) g).2 = f * 2^c' * 3^d')) := by
  intro fuel
  induction fuel with
  | zero => intro c d g; simp [innerPrev]
  | succ fuel ih =>
    intro c d g
    set x := f * 2^c * 3^d with hx
    unfold innerPrev
    by_cases h1 : x < N
    · simp only [h1, if_true]
      have hx3 : x * 3 = f * 2^c * 3^(d+1) := by rw [hx]; ring
      rw [hx3]
      have hg' : g ≤ (if g < x then x else g) := by split <;> omega
      have hg'' : (if g < x then x else g) = g ∨ (if g < x then x else g) = x := by
        split <;> simp
      obtain ⟨i1, i2⟩ := ih c (d+1) (if g < x then x else g)
      refine ⟨le_trans hg' i1, ?_⟩
      rcases i2 with h | h
      · rcases hg'' with h' | h'
        · exact Or.inl (h.trans h')
        · exact Or.inr ⟨by rw [h, h']; exact h1, c, d, by rw [h, h']⟩
      · exact Or.inr h
    · simp only [h1, if_false]
      by_cases h3 : N < x
      · simp only [h3, if_true]
        by_cases hodd : x % 2 = 1
        · simp only [hodd, if_true]
          exact ⟨le_refl _, Or.inl trivial⟩
        · simp only [hodd, if_false]
          have hc0 : c ≠ 0 := fun h => hodd ((odd_iff_c0 f c d hf).2 h)
          obtain ⟨k, rfl⟩ : ∃ k, c = k + 1 := ⟨c - 1, by omega⟩
          have hxe : x = 2 * (f * 2^k * 3^d) := by rw [hx]; ring
          have hx2 : x / 2 = f * 2^k * 3^d := by omega
          rw [hx2]
          exact ih k d g
      · simp [h3]

/-- `doubleOver` returns f·2^c', the first doubling above N (given enough fuel) -/
theorem doubleOver_spec (N f : Nat) :
    ∀ fuel c, ∃ c', c ≤ c' ∧ doubleOver N fuel (f * 2^c) = f * 2^c' ∧
      (c' = c ∨ f * 2^(c'-1) ≤ N) ∧ (N < f * 2^(c+fuel) → N < f * 2^c') := by
  intro fuel
  induction fuel with
  | zero => intro c; exact ⟨c, le_refl _, rfl, Or.inl rfl, by simp⟩
  | succ fuel ih =>
    intro c
    unfold doubleOver
    by_cases h : f * 2^c ≤ N
    · simp only [h, if_true]
      have e : f * 2^c * 2 = f * 2^(c+1) := by ring
      rw [e]
      obtain ⟨c', h1, h2, h3, h4⟩ := ih (c+1)
      refine ⟨c', by omega, h2, ?_, ?_⟩
      · rcases h3 with h3 | h3
        · right; subst h3; simpa using h
        · right; exact h3
      · intro hN; apply h4; rwa [show c + 1 + fuel = c + (fuel + 1) by omega]
    · simp only [h, if_false]
      exact ⟨c, le_refl _, rfl, Or.inl rfl, fun _ => by omega⟩

def GuessP (N g : Nat) : Prop := g ≤ N ∧ Smooth7 g

lemma fuel_okP (N c0 : Nat) (h : c0 < N) : c0 * (N+1) + N < fuelFor N := by
  unfold fuelFor
  have : c0 * (N+1) ≤ N * (N+1) := Nat.mul_le_mul_right _ (by omega)
  nlinarith

/-- one pass of the 2-3 zig-zag of `prev_fast_len` for a fixed odd part f ≤ N -/
theorem ppass_spec (N F a b g : Nat) (hN : 10 < N) (hF : fuelFor N ≤ F)
    (hfN : 7^a * 5^b ≤ N) (hgok : GuessP N g) :
    let r := innerPrev N F (doubleOver N F (7^a * 5^b) / 2) g
    (r.1 = true → Smooth7 N) ∧
    (r.1 = false → g ≤ r.2 ∧ GuessP N r.2 ∧ ∀ c d, cand a b c d ≤ N → cand a b c d ≤ r.2) := by
  intro r
  set f := 7^a * 5^b with hf
  have hodd := odd75 a b
  have hpos := pos75 a b
  have hFN : N < F := by unfold fuelFor at hF; nlinarith
  obtain ⟨c1, _, hx0, hprev, hgt⟩ := doubleOver_spec N f F 0
  simp only [pow_zero, mul_one, Nat.zero_add] at hx0 hgt
  have hNx : N < f * 2^c1 := by
    apply hgt
    have h1 : F < 2^F := Nat.lt_two_pow_self
    calc N < 2^F := by omega
      _ = 1 * 2^F := by ring
      _ ≤ f * 2^F := Nat.mul_le_mul_right _ hpos
  have hc1 : c1 ≠ 0 := by
    intro h0; subst h0; simp at hNx; omega
  obtain ⟨c0, rfl⟩ : ∃ k, c1 = k + 1 := ⟨c1 - 1, by omega⟩
  have hle : f * 2^c0 ≤ N := by
    rcases hprev with h | h
    · omega
    · simpa using h
  have hdbl : f * 2^(c0+1) = 2 * (f * 2^c0) := by ring
  have hhalf : doubleOver N F f / 2 = f * 2^c0 * 3^0 := by
    rw [hx0, hdbl]; simp
  have hc0 : c0 < N := by
    have h1 : c0 < 2^c0 := Nat.lt_two_pow_self
    have h2 : 2^c0 ≤ f * 2^c0 := by
      calc 2^c0 = 1 * 2^c0 := by ring
        _ ≤ f * 2^c0 := Nat.mul_le_mul_right _ hpos
    omega
  have hcov : CoveredP N f c0 0 g := by
    intro c' d' hcd hle'
    rcases hcd with h | ⟨h, hc⟩
    · omega
    · subst h
      have := mono_c f 0 (show c0 + 1 ≤ c' by omega)
      have e : f * 2^(c0+1) * 3^0 = f * 2^(c0+1) := by ring
      omega
  have hfuel : c0 * (N + 1) + (N - f * 2^c0 * 3^0) < F := by
    have : N - f * 2^c0 * 3^0 ≤ N := Nat.sub_le _ _
    have := fuel_okP N c0 hc0
    omega
  have hmax := innerPrev_max N f hodd F c0 0 g (by simp; omega) hcov hfuel
  have hgs := innerPrev_guess N f hodd F c0 0 g
  rw [← hhalf] at hmax hgs
  refine ⟨fun h => ?_, fun h => ?_⟩
  · obtain ⟨c', d', e⟩ := hmax.1 h
    exact ⟨a, b, c', d', by rw [e, hf]; rfl⟩
  · refine ⟨hgs.1, ?_, fun c d hc => ?_⟩
    · rcases hgs.2 with e | ⟨e1, c', d', e2⟩
      · show GuessP N r.2
        have : r.2 = g := e
        rw [this]; exact hgok
      · exact ⟨le_of_lt e1, a, b, c', d', by rw [e2, hf]; rfl⟩
    · exact hmax.2 h c d hc

theorem ploop5_spec (N F a : Nat) (hN : 10 < N) (hF : fuelFor N ≤ F) :
    ∀ fuel b g, GuessP N g →
      (∀ b', b' < b → ∀ c d, cand a b' c d ≤ N → cand a b' c d ≤ g) →
      N < fuel + b →
      ((ploop5 N F fuel (7^a * 5^b) g).1 = true → Smooth7 N) ∧
      ((ploop5 N F fuel (7^a * 5^b) g).1 = false →
        g ≤ (ploop5 N F fuel (7^a * 5^b) g).2 ∧ GuessP N (ploop5 N F fuel (7^a * 5^b) g).2 ∧
        ∀ b' c d, cand a b' c d ≤ N → cand a b' c d ≤ (ploop5 N F fuel (7^a * 5^b) g).2) := by
  intro fuel
  induction fuel with
  | zero =>
    intro b g hgok hcov hfu
    simp only [ploop5]
    refine ⟨by simp, fun _ => ⟨le_refl _, hgok, fun b' c d hc => ?_⟩⟩
    by_cases hb : b' < b
    · exact hcov b' hb c d hc
    · have h1 := cand_ge_5 a b' c d
      have h2 := pow5_mono a (show b ≤ b' by omega)
      have h3 := lt_pow5 a b
      omega
  | succ fuel ih =>
    intro b g hgok hcov hfu
    unfold ploop5
    by_cases hle : 7^a * 5^b ≤ N
    · simp only [hle, if_true]
      obtain ⟨p1, p2⟩ := ppass_spec N F a b g hN hF hle hgok
      by_cases hhit : (innerPrev N F (doubleOver N F (7^a * 5^b) / 2) g).1 = true
      · simp only [hhit, if_true]
        exact ⟨fun _ => p1 hhit, by simp⟩
      · have hhit' : (innerPrev N F (doubleOver N F (7^a * 5^b) / 2) g).1 = false := by
          simpa using hhit
        simp only [hhit', Bool.false_eq_true, if_false]
        obtain ⟨q1, q2, q3⟩ := p2 hhit'
        have e : 7^a * 5^b * 5 = 7^a * 5^(b+1) := by ring
        rw [e]
        have hcov' : ∀ b', b' < b+1 → ∀ c d, cand a b' c d ≤ N →
            cand a b' c d ≤ (innerPrev N F (doubleOver N F (7^a * 5^b) / 2) g).2 := by
          intro b' hb' c d hc
          by_cases hb : b' < b
          · exact le_trans (hcov b' hb c d hc) q1
          · have : b' = b := by omega
            subst this; exact q3 c d hc
        obtain ⟨r1, r2⟩ := ih (b+1) _ q2 hcov' (by omega)
        refine ⟨r1, fun h => ?_⟩
        obtain ⟨s1, s2, s3⟩ := r2 h
        exact ⟨le_trans q1 s1, s2, s3⟩
    · simp only [hle, if_false]
      refine ⟨by simp, fun _ => ⟨le_refl _, hgok, fun b' c d hc => ?_⟩⟩
      by_cases hb : b' < b
      · exact hcov b' hb c d hc
      · have h1 := cand_ge_5 a b' c d
        have h2 := pow5_mono a (show b ≤ b' by omega)
        omega

theorem ploop7_spec (N F : Nat) (hN : 10 < N) (hF : fuelFor N ≤ F) :
    ∀ fuel a g, GuessP N g →
      (∀ a', a' < a → ∀ b c d, cand a' b c d ≤ N → cand a' b c d ≤ g) →
      N < fuel + a →
      ((ploop7 N F fuel (7^a) g).1 = true → Smooth7 N) ∧
      ((ploop7 N F fuel (7^a) g).1 = false →
        g ≤ (ploop7 N F fuel (7^a) g).2 ∧ GuessP N (ploop7 N F fuel (7^a) g).2 ∧
        ∀ a' b c d, cand a' b c d ≤ N → cand a' b c d ≤ (ploop7 N F fuel (7^a) g).2) := by
  intro fuel
  induction fuel with
  | zero =>
    intro a g hgok hcov hfu
    simp only [ploop7]
    refine ⟨by simp, fun _ => ⟨le_refl _, hgok, fun a' b c d hc => ?_⟩⟩
    by_cases ha : a' < a
    · exact hcov a' ha b c d hc
    · have h1 := cand_ge_7 a' b c d
      have h2 := pow7_mono (show a ≤ a' by omega)
      have h3 := lt_pow7 a
      omega
  | succ fuel ih =>
    intro a g hgok hcov hfu
    unfold ploop7
    by_cases hle : 7^a ≤ N
    · simp only [hle, if_true]
      have hF2 : N < F + 0 := by unfold fuelFor at hF; nlinarith
      have h5 := ploop5_spec N F a hN hF F 0 g hgok (by intro b' hb'; omega) hF2
      simp only [pow_zero, mul_one] at h5
      obtain ⟨p1, p2⟩ := h5
      by_cases hhit : (ploop5 N F F (7^a) g).1 = true
      · simp only [hhit, if_true]
        exact ⟨fun _ => p1 hhit, by simp⟩
      · have hhit' : (ploop5 N F F (7^a) g).1 = false := by simpa using hhit
        simp only [hhit', Bool.false_eq_true, if_false]
        obtain ⟨q1, q2, q3⟩ := p2 hhit'
        have e : 7^a * 7 = 7^(a+1) := by ring
        rw [e]
        have hcov' : ∀ a', a' < a+1 → ∀ b c d, cand a' b c d ≤ N →
            cand a' b c d ≤ (ploop5 N F F (7^a) g).2 := by
          intro a' ha' b c d hc
          by_cases ha : a' < a
          · exact le_trans (hcov a' ha b c d hc) q1
          · have : a' = a := by omega
            subst this; exact q3 b c d hc
        obtain ⟨r1, r2⟩ := ih (a+1) _ q2 hcov' (by omega)
        refine ⟨r1, fun h => ?_⟩
        obtain ⟨s1, s2, s3⟩ := r2 h
        exact ⟨le_trans q1 s1, s2, s3⟩
    · simp only [hle, if_false]
      refine ⟨by simp, fun _ => ⟨le_refl _, hgok, fun a' b c d hc => ?_⟩⟩
      by_cases ha : a' < a
      · exact hcov a' ha b c d hc
      · have h1 := cand_ge_7 a' b c d
        have h2 := pow7_mono (show a ≤ a' by omega)
        omega

theorem smooth_small (N : Nat) (h0 : 0 < N) (hs : N ≤ 10) : Smooth7 N := by
  have : N = 1 ∨ N = 2 ∨ N = 3 ∨ N = 4 ∨ N = 5 ∨ N = 6 ∨ N = 7 ∨ N = 8 ∨ N = 9 ∨ N = 10 := by omega
  rcases this with h|h|h|h|h|h|h|h|h|h <;> subst h
  · exact ⟨0,0,0,0, by decide⟩
  · exact ⟨0,0,1,0, by decide⟩
  · exact ⟨0,0,0,1, by decide⟩
  · exact ⟨0,0,2,0, by decide⟩
  · exact ⟨0,1,0,0, by decide⟩
  · exact ⟨0,0,1,1, by decide⟩
  · exact ⟨1,0,0,0, by decide⟩
  · exact ⟨0,0,3,0, by decide⟩
  · exact ⟨0,0,0,2, by decide⟩
  · exact ⟨0,1,1,0, by decide⟩

/-- **C18 (prev)**: `prevFast N` is the largest 7-smooth number ≤ N, for every N ≥ 1. -/
theorem prevFast_spec (N : Nat) (hN : 0 < N) :
    Smooth7 (prevFast N) ∧ prevFast N ≤ N ∧
    ∀ m, Smooth7 m → m ≤ N → m ≤ prevFast N := by
  unfold prevFast
  by_cases hs : N ≤ 10
  · simp only [hs, if_true]
    exact ⟨smooth_small N hN hs, le_refl _, fun m _ h => h⟩
  · simp only [hs, if_false]
    have hN10 : 10 < N := by omega
    have hF2 : N < fuelFor N + 0 := by unfold fuelFor; nlinarith
    have hg1 : GuessP N 1 := ⟨by omega, 0, 0, 0, 0, by decide⟩
    have h7 := ploop7_spec N (fuelFor N) hN10 (le_refl _) (fuelFor N) 0 1 hg1
      (by intro a' ha'; omega) hF2
    simp only [pow_zero] at h7
    obtain ⟨p1, p2⟩ := h7
    by_cases hhit : (ploop7 N (fuelFor N) (fuelFor N) 1 1).1 = true
    · simp only [hhit, if_true]
      exact ⟨p1 hhit, le_refl _, fun m _ h => h⟩
    · have hhit' : (ploop7 N (fuelFor N) (fuelFor N) 1 1).1 = false := by simpa using hhit
      simp only [hhit', Bool.false_eq_true, if_false]
      obtain ⟨_, q2, q3⟩ := p2 hhit'
      refine ⟨q2.2, q2.1, fun m hm hmN => ?_⟩
      obtain ⟨a, b, c, d, rfl⟩ := hm
      exact q3 a b c d hmN

theorem prevFast_le (N : Nat) : prevFast N ≤ N := by
  by_cases h : N = 0
  · subst h; decide
  · exact (prevFast_spec N (by omega)).2.1

end Pb.FastLen
