import PbModel.Effect

/-! Concrete semantics of the effect IR and soundness of the alias analysis (core Lean only). -/

namespace Pb.Effect

/-- concrete environment: which buffer each variable points to; buffers `< B` pre-exist -/
abbrev Env := Var → Nat
def Env.set (ρ : Env) (x : Var) (b : Nat) : Env := fun y => if y = x then b else ρ y

/-- nondeterministic big-step semantics collecting the ids of written buffers -/
inductive Exec (B : Nat) : Env → Prog → Env → List Nat → Prop
  | skip (ρ) : Exec B ρ .skip ρ []
  | assignFresh (ρ x id) : B ≤ id → Exec B ρ (.assign x .fresh) (ρ.set x id) []
  | assignViewNil (ρ x id) : B ≤ id → Exec B ρ (.assign x (.viewOf [])) (ρ.set x id) []
  | assignView (ρ x ys y) : y ∈ ys → Exec B ρ (.assign x (.viewOf ys)) (ρ.set x (ρ y)) []
  | assignViewFresh (ρ x ys id) : B ≤ id → Exec B ρ (.assign x (.viewOf ys)) (ρ.set x id) []
  | write (ρ x) : Exec B ρ (.write x) ρ [ρ x]
  | seq {ρ ρ₁ ρ₂ p q ws₁ ws₂} : Exec B ρ p ρ₁ ws₁ → Exec B ρ₁ q ρ₂ ws₂ → Exec B ρ (.seq p q) ρ₂ (ws₁ ++ ws₂)
  | choiceL {ρ ρ' p q ws} : Exec B ρ p ρ' ws → Exec B ρ (.choice p q) ρ' ws
  | choiceR {ρ ρ' p q ws} : Exec B ρ q ρ' ws → Exec B ρ (.choice p q) ρ' ws
  | loopDone (ρ p) : Exec B ρ (.loop p) ρ []
  | loopStep {ρ ρ₁ ρ₂ p ws₁ ws₂} : Exec B ρ p ρ₁ ws₁ → Exec B ρ₁ (.loop p) ρ₂ ws₂ →
      Exec B ρ (.loop p) ρ₂ (ws₁ ++ ws₂)

/-- ρ is described by σ (below n): every variable pointing to an old buffer is tainted -/
def Sat (B n : Nat) (ρ : Env) (σ : AState) : Prop := ∀ x, x < n → ρ x < B → σ x = true

theorem leN_spec {n : Nat} {τ σ : AState} (h : AState.leN n τ σ = true) :
    ∀ x, x < n → τ x = true → σ x = true := by
  intro x hx ht
  unfold AState.leN at h
  rw [List.all_eq_true] at h
  have := h x (List.mem_range.2 hx)
  simp [ht] at this
  exact this

theorem Sat.mono {B n ρ τ σ} (h : Sat B n ρ τ) (hle : ∀ x, x < n → τ x = true → σ x = true) :
    Sat B n ρ σ := fun x hx hb => hle x hx (h x hx hb)

theorem Sat.join_left {B n ρ} {σ τ : AState} (h : Sat B n ρ σ) : Sat B n ρ (AState.join σ τ) :=
  fun x hx hb => by simp [AState.join, h x hx hb]
theorem Sat.join_right {B n ρ} {σ τ : AState} (h : Sat B n ρ τ) : Sat B n ρ (AState.join σ τ) :=
  fun x hx hb => by simp [AState.join, h x hx hb]

/-- the analysis of a loop, when it says "safe", returns a post-fixpoint above the entry state -/
theorem anaLoop_spec (B n : Nat) (f : AState → Bool × AState) :
    ∀ k σ σ', anaLoop n f k σ = (true, σ') →
      (∀ ρ, Sat B n ρ σ → Sat B n ρ σ') ∧ (f σ').1 = true ∧ AState.leN n (f σ').2 σ' = true := by
  intro k
  induction k with
  | zero => intro σ σ' h; simp [anaLoop] at h
  | succ k ih =>
    intro σ σ' h
    unfold anaLoop at h
    by_cases hle : AState.leN n (f σ).2 σ = true
    · simp only [hle, if_true] at h
      have h1 : (f σ).1 = true := by have := congrArg Prod.fst h; simpa using this
      have h2 : σ = σ' := by have := congrArg Prod.snd h; simpa using this
      subst h2
      exact ⟨fun ρ hs => hs, h1, hle⟩
    · simp only [hle] at h
      obtain ⟨a, b, c⟩ := ih _ _ h
      exact ⟨fun ρ hs => a ρ (Sat.join_left hs), b, c⟩

/-- **Soundness**: a program the analysis accepts never writes a pre-existing buffer. -/
theorem ana_sound (B n : Nat) :
    ∀ p, p.wf n → ∀ σ σ', ana n σ p = (true, σ') →
      ∀ ρ ρ' ws, Sat B n ρ σ → Exec B ρ p ρ' ws → (∀ w ∈ ws, B ≤ w) ∧ Sat B n ρ' σ' := by
  intro p
  induction p with
  | skip =>
    intro _ σ σ' h ρ ρ' ws hs he
    cases he
    simp [ana] at h
    subst h
    exact ⟨by simp, hs⟩
  | assign x r =>
    intro hwf σ σ' h ρ ρ' ws hs he
    simp only [ana, Prod.mk.injEq, true_and] at h
    subst h
    have hfresh : ∀ id, B ≤ id → Sat B n (Env.set ρ x id) (AState.set σ x (rhsTaint σ r)) := by
      intro id hid y hy hb
      unfold Env.set at hb; unfold AState.set
      by_cases hyx : y = x
      · simp only [hyx, if_true] at hb; omega
      · simp only [hyx, if_false] at hb ⊢; exact hs y hy hb
    cases he with
    | assignFresh _ _ id hid => exact ⟨by simp, hfresh id hid⟩
    | assignViewNil _ _ id hid => exact ⟨by simp, hfresh id hid⟩
    | assignViewFresh _ _ ys id hid => exact ⟨by simp, hfresh id hid⟩
    | assignView _ _ ys y hy =>
      refine ⟨by simp, ?_⟩
      intro z hz hb
      unfold Env.set at hb; unfold AState.set
      by_cases hzx : z = x
      · simp only [hzx, if_true] at hb ⊢
        simp only [rhsTaint, List.any_eq_true]
        exact ⟨y, hy, hs y (hwf.2 y hy) hb⟩
      · simp only [hzx, if_false] at hb ⊢; exact hs z hz hb
  | write x =>
    intro hwf σ σ' h ρ ρ' ws hs he
    cases he
    simp only [ana, Prod.mk.injEq] at h
    obtain ⟨h1, h2⟩ := h
    subst h2
    refine ⟨?_, hs⟩
    intro w hw
    simp at hw; subst hw
    rcases Nat.lt_or_ge (ρ x) B with hlt | hge
    · have := hs x hwf hlt
      simp [this] at h1
    · exact hge
  | seq p q ihp ihq =>
    intro hwf σ σ' h ρ ρ' ws hs he
    cases he with
    | seq e1 e2 =>
      simp only [ana, Prod.mk.injEq, Bool.and_eq_true] at h
      obtain ⟨⟨h1, h2⟩, h3⟩ := h
      obtain ⟨a1, a2⟩ := ihp hwf.1 σ _ (Prod.ext h1 rfl) _ _ _ hs e1
      obtain ⟨b1, b2⟩ := ihq hwf.2 _ _ (Prod.ext h2 rfl) _ _ _ a2 e2
      refine ⟨?_, h3 ▸ b2⟩
      intro w hw
      rcases List.mem_append.1 hw with h | h
      · exact a1 w h
      · exact b1 w h
  | choice p q ihp ihq =>
    intro hwf σ σ' h ρ ρ' ws hs he
    simp only [ana, Prod.mk.injEq, Bool.and_eq_true] at h
    obtain ⟨⟨h1, h2⟩, h3⟩ := h
    subst h3
    cases he with
    | choiceL e =>
      obtain ⟨a1, a2⟩ := ihp hwf.1 σ _ (Prod.ext h1 rfl) _ _ _ hs e
      exact ⟨a1, Sat.join_left a2⟩
    | choiceR e =>
      obtain ⟨a1, a2⟩ := ihq hwf.2 σ _ (Prod.ext h2 rfl) _ _ _ hs e
      exact ⟨a1, Sat.join_right a2⟩
  | loop p ih =>
    intro hwf σ σ' h ρ ρ' ws hs he
    simp only [ana] at h
    obtain ⟨up, hsafe, hfix⟩ := anaLoop_spec B n (fun τ => ana n τ p) _ _ _ h
    have hs' := up ρ hs
    -- invariant: Sat ρ σ' is preserved by every iteration
    have key : ∀ ρ ρ' ws (q : Prog), Exec B ρ q ρ' ws → q = .loop p → Sat B n ρ σ' →
        (∀ w ∈ ws, B ≤ w) ∧ Sat B n ρ' σ' := by
      intro ρ ρ' ws q he
      induction he with
      | loopDone ρ p' => intro _ hs; exact ⟨by simp, hs⟩
      | loopStep e1 e2 _ ih2 =>
        intro hq hs
        cases hq
        obtain ⟨a1, a2⟩ := ih hwf σ' _ (Prod.ext hsafe rfl) _ _ _ hs e1
        have a3 := Sat.mono a2 (leN_spec hfix)
        obtain ⟨b1, b2⟩ := ih2 rfl a3
        refine ⟨?_, b2⟩
        intro w hw
        rcases List.mem_append.1 hw with h | h
        · exact a1 w h
        · exact b1 w h
      | _ => intro hq; cases hq
    exact key ρ ρ' ws _ he rfl hs'


theorem Rhs.wf_of_wfb {n : Nat} {r : Rhs} (h : r.wfb n = true) : r.wf n := by
  cases r with
  | fresh => trivial
  | viewOf ys =>
    intro y hy
    simp only [Rhs.wfb, List.all_eq_true, decide_eq_true_eq] at h
    exact h y hy

theorem Prog.wf_of_wfb {n : Nat} : ∀ {p : Prog}, p.wfb n = true → p.wf n := by
  intro p
  induction p with
  | skip => intro _; trivial
  | assign x r =>
    intro h
    simp only [Prog.wfb, Bool.and_eq_true, decide_eq_true_eq] at h
    exact ⟨h.1, Rhs.wf_of_wfb h.2⟩
  | write x =>
    intro h
    simp only [Prog.wfb, decide_eq_true_eq] at h
    exact h
  | seq p q ihp ihq =>
    intro h
    simp only [Prog.wfb, Bool.and_eq_true] at h
    exact ⟨ihp h.1, ihq h.2⟩
  | choice p q ihp ihq =>
    intro h
    simp only [Prog.wfb, Bool.and_eq_true] at h
    exact ⟨ihp h.1, ihq h.2⟩
  | loop p ih => intro h; exact ih (by simpa [Prog.wfb] using h)

/-- an environment in which exactly the tainted variables may point below the watermark satisfies
the entry state -/
theorem sat_entry (B n : Nat) (tainted : List Var) (ρ : Env)
    (h : ∀ x, x < n → ρ x < B → x ∈ tainted) : Sat B n ρ (entry tainted) := by
  intro x hx hb
  simp [entry, h x hx hb]

/-- **accepted entries never write a pre-existing buffer** -/
theorem safe_sound (e : Entry) (hs : e.safe = true) (B : Nat) (ρ ρ' : Env) (ws : List Nat)
    (hρ : ∀ x, x < e.nvars → ρ x < B → x ∈ e.tainted) (he : Exec B ρ e.prog ρ' ws) :
    ∀ w ∈ ws, B ≤ w := by
  simp only [Entry.safe, Bool.and_eq_true] at hs
  have := ana_sound B e.nvars e.prog (Prog.wf_of_wfb hs.1) (entry e.tainted)
    (ana e.nvars (entry e.tainted) e.prog).2 (Prod.ext hs.2 rfl) ρ ρ' ws
    (sat_entry B e.nvars e.tainted ρ hρ) he
  exact this.1

end Pb.Effect
