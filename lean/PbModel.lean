import PbModel.Proto
import PbModel.Basic
import PbModel.FastLen
import PbModel.Crop
import PbModel.Drv.C18
import PbModel.Drv.C01
