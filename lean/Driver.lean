import PbModel

/-! Line-protocol driver: one request per line on stdin, exactly one line out per request.
Run as `lake env lean --run Driver.lean < requests > replies`. -/

def dispatch (toks : List String) : String :=
  match toks with
  | "c13" :: rest => Pb.Drv.C13.handle rest
  | "c14" :: rest => Pb.Drv.C14.handle rest
  | "c15" :: rest => Pb.Drv.C15.handle rest
  | "c16" :: rest => Pb.Drv.C16.handle rest
  | "c17" :: rest => Pb.Drv.C17.handle rest
  | "c18" :: rest => Pb.Drv.C18.handle rest
  | "c19" :: rest => Pb.Drv.C19.handle rest
  | "c20" :: rest => Pb.Drv.C20.handle rest
  | "c01" :: rest => Pb.Drv.C01.handle rest
  | "c02" :: rest => Pb.Drv.C02.handle rest
  | "c03" :: rest => Pb.Drv.C03.handle rest
  | "c05" :: rest => Pb.Drv.C05.handle rest
  | "c06" :: rest => Pb.Drv.C06.handle rest
  | "c07" :: rest => Pb.Drv.C07.handle rest
  | "c08" :: rest => Pb.Drv.C08.handle rest
  | "c09" :: rest => Pb.Drv.C09.handle rest
  | "c11" :: rest => Pb.Drv.C11.handle rest
  | "c10" :: rest => Pb.Drv.C10.handle rest
  | "c12" :: rest => Pb.Drv.C12.handle rest
  | _ => "bad-prop"

partial def loop (h : IO.FS.Stream) (out : IO.FS.Stream) : IO Unit := do
  let line ← h.getLine
  if line.isEmpty then return ()
  let toks := (line.trimAscii.toString.splitOn " ").filter (· ≠ "")
  out.putStrLn (dispatch toks)
  loop h out

def main : IO Unit := do
  let i ← IO.getStdin
  let o ← IO.getStdout
  loop i o
