import PbProps.C01
import PbProps.C02
import PbProps.C06
import PbProps.C10
import PbProps.C12
import PbProps.C16
import PbProps.C17
import PbProps.C18
