import PbProps.C01
import PbProps.C18
