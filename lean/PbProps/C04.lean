import PbProofs.Dft
import PbProofs.Shift
import PbModel.Gen.Shift

/-! # C04 — freq_shift moves the spectrum by the given amount, zeroing what leaves the band

The mixing step is multiplication by `exp(2πi·df·t)`; on `ZMod N` (whole-bin shifts) that is the
modulation theorem.  The zeroing loop runs on the `fftshift`ed spectrum with the same per-element
logic as `time_shift` (`PbModel/Shift.lean`), applied to `b = df·N/sample_rate` bins. -/

namespace Pb.C04
open ZMod Pb.Crop Pb.Shift
open scoped ZMod

variable {N : ℕ} [NeZero N]

/-- **modulation theorem**: mixing with `exp(2πi·b·n/N)` moves the content of bin `k − b` to bin
`k` — exactly a circular move for whole-bin shifts, every `N ≥ 1`, every `x`. -/
theorem C04_modulation (x : ZMod N → ℂ) (b k : ZMod N) :
    𝓕 (fun n => stdAddChar (b * n) * x n) k = 𝓕 x (k - b) := Pb.Dft.dft_modulate x b k

/-- a tone at bin `m` becomes a tone at bin `m + b` -/
theorem C04_tone (m b n : ZMod N) :
    stdAddChar (b * n) * (stdAddChar (m * n) : ℂ) = stdAddChar ((m + b) * n) := by
  rw [← AddChar.map_add_eq_mul]
  congr 1
  ring

/-- NumPy `fftshift` along an axis of length `n`: output index `j` holds input index
`(j + n − ⌊n/2⌋) mod n`, whose signed frequency bin is `j − ⌊n/2⌋`: the shifted spectrum is in
ascending bin order, so "the first `⌈b⌉` indices" are the lowest bins — exactly the bins content
moved up by `b` would wrap into (and symmetrically for `b < 0`). -/
def fftshiftSrc (n j : Nat) : Nat := (j + n - n / 2) % n
def signedBin (n i : Nat) : Int := if i < (n + 1) / 2 then (i : Int) else (i : Int) - n

theorem C04_fftshift_index (n j : Nat) (hj : j < n) :
    signedBin n (fftshiftSrc n j) = (j : Int) - ((n / 2 : Nat) : Int) := by
  unfold signedBin fftshiftSrc
  by_cases h : j < n / 2
  · have e : (j + n - n / 2) % n = j + n - n / 2 := Nat.mod_eq_of_lt (by omega)
    rw [e]
    have : ¬ (j + n - n / 2 < (n + 1) / 2) := by omega
    rw [if_neg this]
    omega
  · have e : (j + n - n / 2) % n = j - n / 2 := by
      have : j + n - n / 2 = (j - n / 2) + n := by omega
      rw [this, Nat.add_mod_right, Nat.mod_eq_of_lt (by omega)]
    rw [e]
    have : j - n / 2 < (n + 1) / 2 := by omega
    rw [if_pos this]
    omega

/-- **zeroed bins**: index `j` of the shifted spectrum is zeroed for a shift of `b` bins exactly
when the content that would land there, bin index `j − b`, lies outside the band `[0, N−1]`
(fractional `b`, `|b| ≥ N`, either sign) -/
theorem C04_zero_bins (Nn : Nat) (b : Rat) (j : Nat) (hj : j < Nn) :
    zeroed Nn b j = true ↔ (b < 0 ∧ (Nn : Rat) - 1 < (j : Rat) - b) ∨ (0 ≤ b ∧ (j : Rat) - b < 0) :=
  zeroed_iff Nn b j hj

/-- **a shift of a full bandwidth or more gives an all-zero signal** (every bin of that element) -/
theorem C04_full_band (Nn : Nat) (b : Rat) (j : Nat) (hj : j < Nn)
    (hb : (Nn : Rat) ≤ b ∨ b ≤ -(Nn : Rat)) : zeroed Nn b j = true := zeroed_all Nn b j hj hb

/-- every element of the sample shape is zeroed with ITS broadcast shift (scalar, per-channel,
per-polarisation, length-1 axes) -/
theorem C04_every_element (Nn : Nat) (sampleShape shiftShape : List Nat) (vals : List Rat) :
    zeroFill Nn sampleShape shiftShape vals =
      (multiIndices sampleShape).map (fun e =>
        (e, (zeroInterval Nn (bcastGet (padShape sampleShape.length shiftShape) vals e)).1,
            (zeroInterval Nn (bcastGet (padShape sampleShape.length shiftShape) vals e)).2)) := rfl

/-- the inverse transform of the zeroed spectrum is what is returned: `ifft ∘ fft = id` -/
theorem C04_roundtrip (X : ZMod N → ℂ) : 𝓕 (𝓕⁻ X) = X := Pb.Dft.inv_dft X

example : zeroFill 8 [2] [1] [-3/2] = [([0], 6, 8), ([1], 6, 8)] := by decide +kernel

/-- Tie to the source: the body of `freq_shift`'s zero-fill loop, translated symbolically on every run
(`Gen/Shift.lean`), is the model's: for an element shift `a` the region `[⌊a⌋:]` is emptied when `a < 0` and
`[:⌈a⌉]` otherwise; the phase
factor is `exp(+2πi · …)` of the listed factors. -/
theorem C04_source_loop :
    (∀ (N : Nat) (a : Rat), zeroInterval N a =
      if (Gen.Shift.fsRegion a).1 = true then ((adj N (some (Gen.Shift.fsRegion a).2) 0).toNat, N)
      else (0, (adj N (some (Gen.Shift.fsRegion a).2) N).toNat)) ∧
    Gen.Shift.fsPhaseSign = 1 ∧ Gen.Shift.fsPhaseFactors = ["ft", "n[ix]"] := by
  refine ⟨?_, by decide, by decide⟩
  · intro N a
    by_cases h : a < 0
    · have h' : ¬ (0 ≤ a) := not_le.mpr h
      simp [zeroInterval, Gen.Shift.fsRegion, Crop.floor, Crop.ceil, h, h']
    · have h' : 0 ≤ a := not_lt.mp h
      simp [zeroInterval, Gen.Shift.fsRegion, Crop.floor, Crop.ceil, h, h']

end Pb.C04
