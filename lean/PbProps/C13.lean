import Mathlib.Data.Complex.Basic
import Mathlib.Tactic.Ring
import Mathlib.Tactic.Linarith
import Mathlib.Tactic.FieldSimp
import Mathlib.Tactic.LinearCombination
import Mathlib.Tactic.Positivity
import PbModel.Pol
import PbModel.Gen.Pol

/-! # C13 — Polarisation conversions are unitary, invertible and Stokes-consistent

Executable model on Gaussian rationals: `PbModel/Pol.lean` (basis changes without the common
`1/√2`).  The normalised statements are proved over ℂ for any `c` with `c·c = 2` (so for `√2`). -/

namespace Pb.C13
open Pb.Pol Pb.Pol.CRat

/-! ### exact model (what the correspondence run executes) -/

/-- un-normalised unitarity: `|X−iY|² + |X+iY|² = 2(|X|²+|Y|²)` — with the `1/√2` this is
preservation of total power per sample -/
theorem C13_unitary_model (X Y : CRat) :
    normSq (toCircU X Y).1 + normSq (toCircU X Y).2 = 2 * (normSq X + normSq Y) ∧
    normSq (toLinU X Y).1 + normSq (toLinU X Y).2 = 2 * (normSq X + normSq Y) := by
  simp only [toCircU, toLinU, normSq, sub, add, mulI]
  constructor <;> ring

/-- un-normalised inverses: both round trips give `2·identity` (the two `1/√2` factors make it
the identity) -/
theorem C13_inverse_model (A B : CRat) :
    toLinU (toCircU A B).1 (toCircU A B).2 = (smul 2 A, smul 2 B) ∧
    toCircU (toLinU A B).1 (toLinU A B).2 = (smul 2 A, smul 2 B) := by
  simp only [toCircU, toLinU, sub, add, mulI, smul]
  constructor <;> (refine Prod.ext ?_ ?_ <;> simp only [CRat.mk.injEq] <;> constructor <;> ring)

/-- **basis independence**: Stokes parameters computed from the circular components of a linear
signal equal those computed from the linear components (all four), up to the factor 2 of the
missing normalisation. -/
theorem C13_basis_independent_model (X Y : CRat) :
    stokesCirc (toCircU X Y).1 (toCircU X Y).2 =
      (2 * (stokesLin X Y).1, 2 * (stokesLin X Y).2.1, 2 * (stokesLin X Y).2.2.1, 2 * (stokesLin X Y).2.2.2) := by
  simp only [stokesCirc, stokesLin, toCircU, normSq, sub, add, mulI, mul, conj]
  refine Prod.ext ?_ (Prod.ext ?_ (Prod.ext ?_ ?_)) <;> simp only <;> ring

/-- Stokes definitions, `I² = Q²+U²+V²`, `I ≥ 0`, and `I` = summed intensity (both bases) -/
theorem C13_stokes_model (A B : CRat) :
    (stokesLin A B).1 = intensity A + intensity B ∧ (stokesCirc A B).1 = intensity A + intensity B ∧
    (stokesLin A B).1 ^ 2 = (stokesLin A B).2.1 ^ 2 + (stokesLin A B).2.2.1 ^ 2 + (stokesLin A B).2.2.2 ^ 2 ∧
    (stokesCirc A B).1 ^ 2 = (stokesCirc A B).2.1 ^ 2 + (stokesCirc A B).2.2.1 ^ 2 + (stokesCirc A B).2.2.2 ^ 2 ∧
    0 ≤ (stokesLin A B).1 ∧ 0 ≤ (stokesCirc A B).1 := by
  simp only [stokesLin, stokesCirc, intensity, normSq, mul, conj]
  refine ⟨?_, ?_, ?_, ?_, ?_, ?_⟩
  · trivial
  · trivial
  · ring
  · ring
  · nlinarith [mul_self_nonneg A.re, mul_self_nonneg A.im, mul_self_nonneg B.re, mul_self_nonneg B.im]
  · nlinarith [mul_self_nonneg A.re, mul_self_nonneg A.im, mul_self_nonneg B.re, mul_self_nonneg B.im]

/-- component access by name returns that component (`I,Q,U,V ↦ 0,1,2,3` from the source) -/
theorem C13_component_index (s : Rat × Rat × Rat × Rat) :
    stokesGet s "I" = some s.1 ∧ stokesGet s "Q" = some s.2.1 ∧ stokesGet s "U" = some s.2.2.1 ∧
    stokesGet s "V" = some s.2.2.2 ∧ stokesGet s "X" = none := by
  refine ⟨rfl, rfl, rfl, rfl, rfl⟩

/-! ### normalised statements over ℂ -/

open Complex

noncomputable def toCirc (c X Y : ℂ) : ℂ × ℂ := ((X - I * Y) / c, (X + I * Y) / c)
noncomputable def toLin (c L R : ℂ) : ℂ × ℂ := ((L + R) / c, (I * (L - R)) / c)

/-- `to_linear ∘ to_circular = id` and `to_circular ∘ to_linear = id` for `c = √2` -/
theorem C13_inverse (c : ℂ) (hc : c * c = 2) (A B : ℂ) :
    toLin c (toCirc c A B).1 (toCirc c A B).2 = (A, B) ∧
    toCirc c (toLin c A B).1 (toLin c A B).2 = (A, B) := by
  have hn : c ≠ 0 := by rintro rfl; norm_num at hc
  unfold toLin toCirc
  constructor
  · refine Prod.ext ?_ ?_ <;> simp only <;> field_simp
    · linear_combination (-A) * hc
    · linear_combination (-B) * hc + (-2*B) * I_sq
  · refine Prod.ext ?_ ?_ <;> simp only <;> field_simp
    · linear_combination (-A) * hc + (B - A) * I_sq
    · linear_combination (-B) * hc + (A - B) * I_sq

/-- **unitarity**: total power per sample is preserved, `|L|²+|R|² = |X|²+|Y|²`, for real `c = √2` -/
theorem C13_unitary (r : ℝ) (hr : r * r = 2) (X Y : ℂ) :
    normSq (toCirc r X Y).1 + normSq (toCirc r X Y).2 = normSq X + normSq Y ∧
    normSq (toLin r X Y).1 + normSq (toLin r X Y).2 = normSq X + normSq Y := by
  have hr0 : r ≠ 0 := by rintro rfl; norm_num at hr
  have hn : normSq (r : ℂ) = 2 := by rw [normSq_ofReal]; exact hr
  unfold toCirc toLin
  simp only [normSq_div, hn]
  simp only [normSq_apply, sub_re, sub_im, add_re, add_im, mul_re, mul_im, I_re, I_im]
  constructor <;> ring

def stokesLinC (X Y : ℂ) : ℝ × ℝ × ℝ × ℝ :=
  (normSq X + normSq Y, normSq X - normSq Y, 2 * ((starRingEnd ℂ X) * Y).re, 2 * ((starRingEnd ℂ X) * Y).im)
def stokesCircC (L R : ℂ) : ℝ × ℝ × ℝ × ℝ :=
  (normSq L + normSq R, 2 * ((starRingEnd ℂ L) * R).re, 2 * ((starRingEnd ℂ L) * R).im, normSq L - normSq R)

/-- Stokes parameters are identical whichever basis they are computed from -/
theorem C13_basis_independent (r : ℝ) (hr : r * r = 2) (X Y : ℂ) :
    stokesCircC (toCirc r X Y).1 (toCirc r X Y).2 = stokesLinC X Y := by
  have hr0 : (r : ℂ) ≠ 0 := by
    intro h; have : r = 0 := by exact_mod_cast h
    rw [this] at hr; norm_num at hr
  have hrc : (r : ℂ) * (r : ℂ) = 2 := by exact_mod_cast hr
  have h1 : ∀ z : ℂ, normSq (z / (r : ℂ)) = normSq z / 2 := by
    intro z; rw [normSq_div, normSq_ofReal, hr]
  have h2 : ∀ z w : ℂ, (starRingEnd ℂ (z / (r : ℂ))) * (w / (r : ℂ)) = (starRingEnd ℂ z * w) / 2 := by
    intro z w
    rw [map_div₀, conj_ofReal, div_mul_div_comm, hrc]
  unfold stokesCircC stokesLinC toCirc
  simp only [h1, h2]
  refine Prod.ext ?_ (Prod.ext ?_ (Prod.ext ?_ ?_)) <;>
    simp only [normSq_apply, div_ofNat_re, div_ofNat_im, sub_re, sub_im, add_re, add_im, mul_re,
      mul_im, I_re, I_im, conj_re, conj_im] <;> ring

theorem C13_polarised (X Y : ℂ) :
    (stokesLinC X Y).1 ^ 2 = (stokesLinC X Y).2.1 ^ 2 + (stokesLinC X Y).2.2.1 ^ 2 + (stokesLinC X Y).2.2.2 ^ 2 ∧
    0 ≤ (stokesLinC X Y).1 := by
  constructor
  · simp only [stokesLinC, normSq_apply, mul_re, mul_im, conj_re, conj_im]; ring
  · simp only [stokesLinC]; exact add_nonneg (normSq_nonneg _) (normSq_nonneg _)

example : stokesLin ⟨1, 2⟩ ⟨-1, 3⟩ = (15, -5, 10, 10) := by decide +kernel

/-! ### tie to the source: the formulas the translator evaluates symbolically from the method bodies

`PbModel/Gen/Pol.lean` is regenerated on every run from `DualPolarizationSignal.to_linear`, `to_circular`,
`to_stokes` and `BasebandSignal.to_intensity`.  The theorem states that those source formulas are, as
functions, the hand model all theorems above are about (so a change of a sign, a swapped component, a
dropped conjugate or factor in the source stops this theorem from checking, while an algebraically
equal rewrite does not), that both basis changes divide by `√2`, convert from the right basis, keep the
data otherwise and label the result, and that `to_stokes` has exactly the two branches. -/
set_option linter.unusedSimpArgs false in
set_option linter.unreachableTactic false in
set_option linter.unusedTactic false in
theorem C13_source_formulas :
    (∀ a b, Gen.Pol.toLinU a b = toLinU a b) ∧ (∀ a b, Gen.Pol.toCircU a b = toCircU a b) ∧
    (∀ a b, Gen.Pol.stokesLin a b = stokesLin a b) ∧ (∀ a b, Gen.Pol.stokesCirc a b = stokesCirc a b) ∧
    (∀ a, Gen.Pol.intensity a = intensity a) ∧
    Gen.Pol.toLinDivSqrt2 = true ∧ Gen.Pol.toCircDivSqrt2 = true ∧
    Gen.Pol.toLinFrom = "circular" ∧ Gen.Pol.toLinLabel = "linear" ∧
    Gen.Pol.toCircFrom = "linear" ∧ Gen.Pol.toCircLabel = "circular" ∧
    Gen.Pol.toLinOtherwiseKeepsData = true ∧ Gen.Pol.toCircOtherwiseKeepsData = true ∧
    Gen.Pol.toLinViaLike = true ∧ Gen.Pol.toCircViaLike = true ∧
    Gen.Pol.stokesResultClass = "FullStokesSignal" ∧ Gen.Pol.intensityResultClass = "IntensitySignal" := by
  refine ⟨?_, ?_, ?_, ?_, ?_, rfl, rfl, rfl, rfl, rfl, rfl, rfl, rfl, rfl, rfl, rfl, rfl⟩
  all_goals first
    | (rintro ⟨ar, ai⟩ ⟨br, bi⟩
       simp only [Gen.Pol.toLinU, toLinU, Gen.Pol.toCircU, toCircU, Gen.Pol.stokesLin, stokesLin, Gen.Pol.stokesCirc,
         stokesCirc, CRat.normSq, add, sub, mulI, smul, mul, conj, Prod.mk.injEq, CRat.mk.injEq]
       try ((repeat' constructor) <;> ring))
    | (rintro ⟨ar, ai⟩
       simp only [Gen.Pol.intensity, intensity, CRat.normSq]
       try ring)

end Pb.C13
