import PbProofs.Disp

/-! # C06 — Dispersion delays obey the f⁻² law; incoherent dedispersion realigns by them

Model: `PbModel/Disp.lean` (`timeDelay`, `sampleDelay`, `roundHalfEven`, `incoh`), constant from
the translator (`PbModel/Gen/Disp.lean`). -/

namespace Pb.C06
open Pb.Crop Pb.Disp

/-- the law, with the constant read from the source: `time_delay(f, r) = K·DM·(f⁻² − r⁻²)`,
`K = 1/2.41e-4 s·MHz²·cm³/pc` -/
theorem C06_law (DM f r rate : Rat) :
    timeDelay DM f r = (1000000000000000000 / 241) * DM * (1 / f ^ 2 - 1 / r ^ 2) ∧
    sampleDelay DM f r rate = timeDelay DM f r * rate := by
  refine ⟨?_, rfl⟩
  unfold timeDelay; rw [K_value.2.2.2.2]

theorem C06_antisym (DM f r : Rat) : timeDelay DM f r = -timeDelay DM r f := timeDelay_antisym DM f r

theorem C06_additive (DM f1 f2 f3 : Rat) :
    timeDelay DM f1 f2 + timeDelay DM f2 f3 = timeDelay DM f1 f3 := timeDelay_additive DM f1 f2 f3

/-- monotone in frequency for positive frequencies (either sign of DM): the end channels bound all -/
theorem C06_monotone (DM f1 f2 r : Rat) (h1 : 0 < f1) (h12 : f1 ≤ f2) :
    (0 ≤ DM → timeDelay DM f2 r ≤ timeDelay DM f1 r) ∧ (DM ≤ 0 → timeDelay DM f1 r ≤ timeDelay DM f2 r) :=
  ⟨fun h => timeDelay_antitone DM f1 f2 r h h1 h12, fun h => timeDelay_monotone_negDM DM f1 f2 r h h1 h12⟩

/-- `np.round`: nearest integer, ties to even, monotone -/
theorem C06_round (q : Rat) :
    rabs ((roundHalfEven q : Rat) - q) ≤ 1 / 2 ∧ (∀ p, q ≤ p → roundHalfEven q ≤ roundHalfEven p) ∧
    roundHalfEven (5 / 2) = 2 ∧ roundHalfEven (7 / 2) = 4 ∧ roundHalfEven (-5 / 2) = -2 :=
  ⟨roundHalfEven_near q, fun p h => roundHalfEven_mono q p h, by decide +kernel, by decide +kernel,
   by decide +kernel⟩

theorem pairwise_head_le : ∀ (l : List Rat) (a : Rat), (a :: l).Pairwise (· ≤ ·) →
    ∀ x ∈ (a :: l), a ≤ x ∧ x ≤ ((a :: l).getLast?).getD a := by
  intro l
  induction l with
  | nil => intro a _ x hx; simp at hx; subst hx; simp
  | cons b rest ih =>
    intro a hp x hx
    rw [List.pairwise_cons] at hp
    have hb := ih b hp.2
    have hab : a ≤ b := hp.1 b (by simp)
    have hlast : ((a :: b :: rest).getLast?).getD a = ((b :: rest).getLast?).getD b := by
      rw [List.getLast?_cons_cons]
      cases hgl : (b :: rest).getLast? with
      | none => simp at hgl
      | some v => rfl
    rw [hlast]
    rcases List.mem_cons.mp hx with h | h
    · subst h
      exact ⟨le_refl _, le_trans hab (hb b (by simp)).2⟩
    · exact ⟨hp.1 x h, (hb x h).2⟩

/-- for ascending positive channel labels and DM of either sign, every rounded per-channel delay
lies between those of the first and last channel — the hypothesis `incoh_spec` needs. -/
theorem C06_ends_bound (DM r rate : Rat) (hrate : 0 ≤ rate) (labels : List Rat)
    (hpos : ∀ f ∈ labels, 0 < f) (hasc : labels.Pairwise (· ≤ ·)) (hDM : 0 ≤ DM ∨ DM ≤ 0) :
    let ds := (labels.map (fun f => sampleDelay DM f r rate)).map roundHalfEven
    ∀ d ∈ ds, min (ds.head?.getD 0) (ds.getLast?.getD 0) ≤ d := by
  intro ds d hd
  cases labels with
  | nil => simp [ds] at hd
  | cons a rest =>
    simp only [ds, List.map_cons, List.map_map, List.mem_cons, List.mem_map] at hd
    have hds : ds = roundHalfEven (sampleDelay DM a r rate) ::
        rest.map (roundHalfEven ∘ fun f => sampleDelay DM f r rate) := by
      simp [ds, List.map_map]
    obtain ⟨x, hx, hdx⟩ : ∃ x ∈ (a :: rest), d = roundHalfEven (sampleDelay DM x r rate) := by
      rcases hd with h | ⟨x, hx, h⟩
      · exact ⟨a, by simp, h⟩
      · exact ⟨x, by simp [hx], h.symm⟩
    have hb := pairwise_head_le rest a hasc x hx
    set lst := ((a :: rest).getLast?).getD a with hlst
    have hlst_mem : lst ∈ (a :: rest) := by
      rw [hlst]
      cases hgl : (a :: rest).getLast? with
      | none => simp
      | some v => simp only [Option.getD_some]; exact List.mem_of_getLast? hgl
    have hhead : ds.head?.getD 0 = roundHalfEven (sampleDelay DM a r rate) := by rw [hds]; rfl
    have hlast : ds.getLast?.getD 0 = roundHalfEven (sampleDelay DM lst r rate) := by
      have : ds = (a :: rest).map (roundHalfEven ∘ fun f => sampleDelay DM f r rate) := by
        simp [ds, List.map_map]
      rw [this, List.getLast?_map]
      rw [hlst]
      cases hgl : (a :: rest).getLast? with
      | none => simp at hgl
      | some v => simp
    rw [hhead, hlast, hdx]
    have ha := hpos a (by simp)
    have hxpos := hpos x hx
    rcases hDM with h | h
    · -- antitone: delay(last) ≤ delay(x)
      have := timeDelay_antitone DM x lst r h hxpos hb.2
      have : sampleDelay DM lst r rate ≤ sampleDelay DM x r rate := by
        unfold sampleDelay; exact mul_le_mul_of_nonneg_right this hrate
      exact le_trans (min_le_right _ _) (roundHalfEven_mono _ _ this)
    · have := timeDelay_monotone_negDM DM a x r h ha hb.1
      have : sampleDelay DM a r rate ≤ sampleDelay DM x r rate := by
        unfold sampleDelay; exact mul_le_mul_of_nonneg_right this hrate
      exact le_trans (min_le_left _ _) (roundHalfEven_mono _ _ this)

/-- **incoherent dedispersion** (see `incoh_spec`): output `(k, i)` reads input `k + shifted_i`
(always in range, never wrapped), `shifted_i = round(delay_i) + crop_before`, the new start is
`start + crop_before/rate`, and the output sample at time `T` in channel `i` is the input sample at
`T + round(delay_i)/rate`. -/
theorem C06_incoh (L : Ledger) (delays : List Rat) (o : IncohOut) (hr : L.rate ≠ 0)
    (h : incoh L delays = .ok o)
    (hmono : ∀ d ∈ delays.map roundHalfEven,
      min ((delays.map roundHalfEven).head?.getD 0) ((delays.map roundHalfEven).getLast?.getD 0) ≤ d) :
    0 ≤ o.cropBefore ∧ o.led.len = o.count ∧ o.led.rate = L.rate ∧
    o.shifted = (delays.map roundHalfEven).map (· + o.cropBefore) ∧
    (∀ j ∈ o.shifted, ∀ k : Nat, k < o.count → 0 ≤ j + k ∧ j + k < L.len) ∧
    o.led.t0 = L.t0.map (· + o.cropBefore / L.rate) ∧
    (∀ (d : Int) (k : Nat), o.led.timeAt k = (L.timeAt ((d + o.cropBefore + k : Int) : Rat)).map (· - d / L.rate)) :=
  incoh_spec L delays o hr h hmono

/-- with no valid sample (`len < max shifted delay`) the result is empty, not an error -/
theorem C06_incoh_empty (L : Ledger) (delays : List Rat) (o : IncohOut) (h : incoh L delays = .ok o)
    (hbig : (L.len : Int) ≤ listMax o.shifted) : o.count = 0 := by
  unfold incoh at h
  cases hds : delays.map roundHalfEven with
  | nil => simp [hds] at h
  | cons d0 rest =>
    simp only [hds] at h
    injection h with h
    subst h
    simp only at hbig ⊢
    omega

example : (incoh ⟨some 0, 1, 10⟩ [5/2, 1, -3/2]).toOption.map (fun o => (o.cropBefore, o.shifted, o.count))
    = some (2, [4, 3, 0], 6) := by decide +kernel

set_option linter.unusedTactic false in
set_option linter.unreachableTactic false in
set_option linter.unnecessarySeqFocus false in
/-- Tie to the source: the expression `DispersionMeasure.time_delay` assigns to `delay` (translated
symbolically into `Gen.Disp.delayFormula` on every run) is the model's delay law for non-zero frequencies. -/
theorem C06_source_formula :
    ∀ DM f r : Rat, f ≠ 0 → r ≠ 0 → Gen.Disp.delayFormula (K * DM) f r = timeDelay DM f r := by
  intro DM f r hf hr
  simp only [Gen.Disp.delayFormula, timeDelay] <;>
    first | rfl | ring1 | (field_simp; done) | (field_simp; ring1)

end Pb.C06
