import PbProofs.Dask
import PbModel.Gen.Dask

/-! # C09 — Dask-backed signals give identical results, lazily, for any chunks or scheduler

Model: `PbModel/Dask.lean`.  The theorems are about an abstract dataflow model: they state *why*
chunk layout and scheduler cannot matter for column-wise pure operations (the purity itself is
C14's subject).  Dask's own graph construction, rechunking and schedulers are runtime behaviour,
validated by the differential harness (chunk layouts × schedulers × task counters). -/

namespace Pb.C09
open Pb.Dask

/-- **container logic**: a transform's result is Dask-backed iff some signal input is; `compute`
always yields NumPy, `persist` keeps the backing, `to_dask_array` and `rechunk` always yield
Dask, `read` follows `use_dask`; and the four container methods change nothing but the backing. -/
theorem C09_container {μ} (s : Sig μ) (ins : List Backing) :
    (result .transform ins = .dask ↔ Backing.dask ∈ ins) ∧
    (applyMethod .compute s).backing = .numpy ∧
    (applyMethod .persist s).backing = s.backing ∧
    (applyMethod .toDask s).backing = .dask ∧
    (applyMethod .rechunk s).backing = .dask ∧
    (∀ d, result (.read d) ins = if d then .dask else .numpy) ∧
    (∀ op, (applyMethod op s).metaK = s.metaK) := by
  refine ⟨?_, rfl, ?_, rfl, rfl, fun d => rfl, fun op => rfl⟩
  · unfold result
    by_cases h : ins.contains Backing.dask = true
    · simp only [h, if_true, true_iff]
      simpa using h
    · simp only [h]
      constructor
      · intro h'; cases h'
      · intro h'; exact absurd (by simpa using h') h
  · unfold applyMethod result
    cases hb : s.backing <;> simp

/-- **chunk independence** of column-wise operations: for *every* partition of the columns into
blocks (any number, any sizes, empty blocks included), applying the per-column function block by
block and reassembling equals applying it to the whole array. -/
theorem C09_blockwise {α β} (g : α → β) (blocks : List (List α)) :
    (blocks.map (List.map g)).flatten = (blocks.flatten).map g := by
  rw [List.map_flatten]

/-- the same for a two-level (e.g. channel × polarisation) block grid -/
theorem C09_blockwise_grid {α β} (g : α → β) (grid : List (List (List α))) :
    ((grid.map (fun row => (row.map (List.map g)).flatten)).flatten) = (grid.flatten.flatten).map g := by
  rw [List.map_flatten, List.map_flatten, List.flatten_flatten, List.map_map]
  rfl

/-- **scheduler independence**: for a graph of pure tasks numbered topologically, *every* sequence
of task completions — any interleaving, any number of workers, repeated or premature attempts
included — stores, for each task it computes, the single-threaded value; hence any two schedules
agree wherever both have a value, and the in-order schedule computes every task. -/
theorem C09_schedule_confluence {α} [Inhabited α] (g : Graph α) (hT : Topo g) (s1 s2 : List Nat) :
    (∀ i v, run g s1 Memo.empty i = some v → v = denote g (i + 1) i) ∧
    (∀ i v1 v2, run g s1 Memo.empty i = some v1 → run g s2 Memo.empty i = some v2 → v1 = v2) ∧
    (∀ n i, i < n → (run g (List.range n) Memo.empty i).isSome) := by
  have c1 := consistent_run g hT s1 _ (consistent_empty g)
  have c2 := consistent_run g hT s2 _ (consistent_empty g)
  refine ⟨fun i v h => consistent_denote g hT _ c1 i v h (i + 1) (Nat.lt_succ_self i), ?_, run_range_complete g hT⟩
  intro i v1 v2 h1 h2
  rw [consistent_denote g hT _ c1 i v1 h1 (i + 1) (Nat.lt_succ_self i),
      consistent_denote g hT _ c2 i v2 h2 (i + 1) (Nat.lt_succ_self i)]

/-- **translator tie** (regenerated from the sources on every run): the only calls that materialise
a Dask array are `Signal.compute` and `Signal.persist` — no transform, reader or utility computes
its input while building a result; every `dask.delayed` task is declared pure; the Dask index
arrays broadcast along time are single-chunk (`chunks=(-1,)`); graphs are built only through
`map_blocks`, `from_delayed`, `fft_wrap` and `asanyarray`; and no site passes an explicit task or
array name, so Dask derives every task name from all of the task's arguments (no collisions between
results that differ in any argument). -/
theorem C09_source_sites :
    Gen.Dask.extractOk = true ∧
    Gen.Dask.materialising = ["core.py:Signal.compute:compute", "core.py:Signal.persist:persist"] ∧
    (∀ s ∈ Gen.Dask.delayedPure, s.endsWith ":True" = true) ∧ Gen.Dask.delayedPure.length = 2 ∧
    (∀ s ∈ Gen.Dask.indexChunks, s.endsWith ":(-1,)" = true) ∧ Gen.Dask.indexChunks.length = 2 ∧
    Gen.Dask.constructors = ["core.py:Signal.rechunk:asanyarray", "core.py:Signal.to_dask_array:asanyarray",
      "fft.py:_:fft_wrap", "readers/_base.py:BaseReader._read_data:from_delayed",
      "transforms/dedispersion.py:DispersionMeasure.chirp_function:from_delayed",
      "transforms/transforms.py:wrapper:map_blocks"] ∧
    Gen.Dask.explicitNames = [] := by
  refine ⟨by decide, by decide, ?_, by decide, ?_, by decide, by decide, by decide⟩
  · intro s hs
    simp only [Gen.Dask.delayedPure, List.mem_cons, List.not_mem_nil, or_false] at hs
    rcases hs with rfl | rfl <;> decide +kernel
  · intro s hs
    simp only [Gen.Dask.indexChunks, List.mem_cons, List.not_mem_nil, or_false] at hs
    rcases hs with rfl | rfl <;> decide +kernel

/-! Non-vacuity: a diamond graph (0 → 1, 0 → 2, {1,2} → 3) run under two different schedules. -/
def diamond : Graph Int where
  deps := fun i => match i with | 1 => [0] | 2 => [0] | 3 => [1, 2] | _ => []
  f := fun i xs => match i with | 0 => 5 | 1 => xs.sum * 2 | 2 => xs.sum + 1 | _ => xs.sum

example : Topo diamond := by
  intro i d hd
  unfold diamond at hd
  match i, hd with
  | 1, hd => simp at hd; omega
  | 2, hd => simp at hd; omega
  | 3, hd => simp at hd; omega
example : run diamond [0, 1, 2, 3] Memo.empty 3 = some 16 := by decide
example : run diamond [3, 2, 0, 2, 0, 1, 3, 3] Memo.empty 3 = some 16 := by decide
example : result .transform [.numpy, .dask] = .dask ∧ result .transform [.numpy] = .numpy := by decide
example : ([[1, 2], [], [3]].map (List.map (· + 1))).flatten = ([1, 2, 3] : List Nat).map (· + 1) := by decide

end Pb.C09
