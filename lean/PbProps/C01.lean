import PbProofs.Crop
import PbModel.Gen.Time

/-! # C01 — Retained samples keep their absolute timestamps under every crop or slice

Model: `PbModel/Crop.lean`.  `Ledger` = (start time or none, sample rate, length) in exact
rationals; `Sel` = which input positions the output samples occupy; `opSel`/`apply` transliterate
`Signal._time_slice`/`__getitem__` and the bound arithmetic of `fast_len`, `time_shift(crop=True)`,
`snippet`, `coherent_dedispersion`, `incoherent_dedispersion`; `pipeline` composes them. -/

namespace Pb.C01
open Pb.Crop

/-- **slice**: for every slice accepted by `z[sl]` (any bounds — missing, negative, out of range —
and step > 0): the result's sample `k` sits at input index `first + k·step < len`, carries that
input sample's time, the rate is divided by the step, and stop = start + len'/rate'. -/
theorem C01_slice (L : Ledger) (s : PySlice) (σ : Sel) (hr : L.rate ≠ 0)
    (h : timeSlice L.len s = .ok σ) :
    σ.stride = (s.step.getD 1).toNat ∧ 1 ≤ σ.stride ∧
    (∀ k : Nat, k < σ.count → σ.first + k * σ.stride < L.len) ∧
    (∀ k : Nat, (L.select σ).timeAt k = L.timeAt ((σ.first + k * σ.stride : Nat) : Rat)) ∧
    (L.select σ).rate = L.rate / σ.stride ∧
    (L.select σ).stopTime = (L.select σ).timeAt σ.count := by
  have hr' := timeSlice_in_range L.len s σ h
  have hstep := timeSlice_step_pos L.len s σ h
  refine ⟨?_, hr'.1, hr'.2.2.2, fun k => ?_, select_rate L σ hr'.1, rfl⟩
  · rw [timeSlice_ok _ _ hstep] at h; injection h with h; subst h; rfl
  · rw [select_timeAt L σ hr hr'.1, hr'.2.1]; push_cast; ring_nf

/-- the selected indices are exactly Python's `range(start, stop, step)` after clamping:
no index that the slice denotes is dropped. -/
theorem C01_slice_complete (n : Nat) (s : PySlice) (hpos : 0 < s.step.getD 1) (j : Int)
    (h1 : adj n s.start 0 ≤ j) (h2 : j < adj n s.stop n)
    (h3 : (j - adj n s.start 0) % (s.step.getD 1) = 0) :
    ∃ σ, timeSlice n s = .ok σ ∧ ∃ k : Nat, k < σ.count ∧ j = σ.first + k * σ.stride := by
  refine ⟨_, timeSlice_ok n s hpos, ?_⟩
  obtain ⟨k, hk, hj⟩ := sliceLen_complete _ _ _ j hpos h1 h2 h3
  have ha := adj_bounds n s.start 0 (le_refl _) (by omega)
  refine ⟨k, by exact_mod_cast hk, ?_⟩
  simp only
  rw [Int.toNat_of_nonneg ha.1, Int.toNat_of_nonneg (by omega)]
  exact hj

/-- step 0 is a `ValueError`, a negative step an `AssertionError`; nothing is returned. -/
theorem C01_slice_rejects (n : Nat) (s : PySlice) :
    (s.step = some 0 → timeSlice n s = .error .valueError) ∧
    (∀ v, s.step = some v → v < 0 → timeSlice n s = .error .assertionError) := by
  constructor
  · intro h; simp [timeSlice, h]
  · intro v h hv
    have : v ≠ 0 := by omega
    simp [timeSlice, h, this, hv]

/-- **pipeline**: after *any* finite list of crop operations, output sample `k` carries the
time of position `σ.pos k` of the ORIGINAL input, where `σ` is the composite selection. -/
theorem C01_pipeline (L0 : Ledger) (hr : L0.rate ≠ 0) (ops : List CropOp) (L' : Ledger) (σ' : Sel)
    (h : pipeline L0 (Sel.id L0.len) ops 0 = .ok (L', σ')) :
    L' = L0.select σ' ∧ 1 ≤ σ'.stride ∧
    (∀ k : Nat, L'.timeAt k = L0.timeAt (σ'.pos k)) ∧
    L'.rate = L0.rate / σ'.stride ∧
    L'.stopTime = L'.timeAt L'.len := by
  have hp := pipeline_ledger L0 hr ops L0 (Sel.id L0.len) 0 L' σ' (select_id L0).symm
    (by simp [Sel.id]) h
  refine ⟨hp.1, hp.2, fun k => ?_, ?_, rfl⟩
  · rw [hp.1, select_timeAt L0 σ' hr hp.2]; rfl
  · rw [hp.1]; exact select_rate L0 σ' hp.2

/-- for pipelines of index operations (everything except incoherent dedispersion, whose
channels are realigned individually — C06), every retained sample is a sample of the original
input: `first + k·stride < len₀`. -/
theorem C01_pipeline_in_range (L0 : Ledger) (ops : List CropOp) (L' : Ledger) (σ' : Sel)
    (hops : ∀ op ∈ ops, op.isIndexOp = true)
    (h : pipeline L0 (Sel.id L0.len) ops 0 = .ok (L', σ')) :
    L'.len = σ'.count ∧ ∀ k : Nat, k < σ'.count → σ'.first + k * σ'.stride < L0.len :=
  pipeline_in_range L0.len ops L0 (Sel.id L0.len) 0 L' σ' hops rfl (by simp [Sel.id]) h

/-- a signal without a start time never acquires one -/
theorem C01_no_start (L0 : Ledger) (ops : List CropOp) (L' : Ledger) (σ' : Sel)
    (h0 : L0.t0 = none) (h : pipeline L0 (Sel.id L0.len) ops 0 = .ok (L', σ')) : L'.t0 = none :=
  pipeline_none ops L0 _ 0 L' σ' h0 h

/-- `z[a:b]` with `0 ≤ a`, `0 ≤ b` (what `time_shift(crop=True)`, `snippet` and
`coherent_dedispersion` evaluate after clamping the upper bound at 0) keeps exactly the
interval `[a, b) ∩ [0, n)` — no wrap-around. -/
theorem C01_crop_interval (n : Nat) (a b : Int) (ha : 0 ≤ a) (hb : 0 ≤ b) :
    range n a b = .ok { first := (min a n).toNat, stride := 1,
                        count := ((min b n) - (min a n)).toNat } :=
  range_interval n a b ha hb

/-- `time_shift(crop=True)` keeps `[start, len+stop)` (empty when `len+stop ≤ start`). -/
theorem C01_shift_crop (n : Nat) (shifts : List Rat) (h : allCloseZero shifts = false) :
    opSel n (.shiftCrop shifts) =
      .ok { first := (min (max (shiftBounds shifts).1 0) n).toNat, stride := 1,
            count := ((min (max ((n:Int) + (shiftBounds shifts).2) 0) n)
                      - (min (max (shiftBounds shifts).1 0) n)).toNat } := by
  have hb : 0 ≤ (shiftBounds shifts).1 := (shiftBounds_sign shifts).1
  simp only [opSel, h, Bool.false_eq_true, if_false]
  rw [range_interval n _ _ hb (by omega)]
  simp [max_eq_left hb]

theorem C01_contains_sound (α : Rat) (L : Ledger) (t : Rat) (h : contains α L t = true) :
    ∃ t0, L.t0 = some t0 ∧ t0 ≤ t ∧ t < t0 + L.len / L.rate := contains_sound α L t h

theorem C01_contains_complete (α : Rat) (L : Ledger) (t t0 : Rat) (h0 : L.t0 = some t0)
    (h1 : t0 ≤ t) (h2 : t < t0 + L.len / L.rate) (hα : α < t0 + L.len / L.rate - t) :
    contains α L t = true := contains_complete α L t t0 h0 h1 h2 hα

theorem C01_contains_no_start (α : Rat) (L : Ledger) (t : Rat) (h : L.t0 = none) :
    contains α L t = false := contains_no_start α L t h

theorem C01_contains_empty (α : Rat) (L : Ledger) (t : Rat) (h : L.len = 0) :
    contains α L t = false := contains_empty α L t h

theorem C01_error_accum (ε : Rat) (δ : List Rat) (h : ∀ d ∈ δ, rabs d ≤ ε) :
    rabs δ.sum ≤ δ.length * ε := error_accum ε δ h

-- non-vacuity: a concrete pipeline  z[3:20:2] ; fast_len ; z[-4:]  on a 25-sample signal
example :
    (pipeline { t0 := some 100, rate := 1000, len := 25 } (Sel.id 25)
      [.slice ⟨some 3, some 20, some 2⟩, .fastLen, .slice ⟨some (-4), none, none⟩] 0).toOption.map
      (fun r => (r.2.first, r.2.stride, r.2.count)) = some (13, 2, 4) := by decide

set_option linter.unusedTactic false in
set_option linter.unreachableTactic false in
set_option linter.unnecessarySeqFocus false in
/-- Tie to the source: the stamp arithmetic of `Signal._time_slice`, `dt`, `time_length`, `stop_time` and of
`snippet`, translated symbolically on every run (`Gen/Time.lean`), is the ledger arithmetic the theorems above
are about: the new start is `start + first/rate` (only with a start time), the rate is divided by the step
exactly when the step exceeds one, `stop = start + len/rate`, and `snippet`'s re-stamped start followed by
the integer slice puts output sample 0 at position `t`.  Algebraically equal rewrites keep the theorem. -/
theorem C01_source_formulas :
    (∀ (L : Ledger) (σ : Sel),
      (L.select σ).t0 = L.t0.map (fun t => Gen.Time.startFormula t (σ.first + σ.off) L.rate) ∧
      (L.select σ).rate = if Gen.Time.rateGuard σ.stride = true then Gen.Time.rateFormula L.rate σ.stride else L.rate) ∧
    (∀ L : Ledger, L.stopTime = L.t0.map (fun t => Gen.Time.stopFormula t (Gen.Time.lengthFormula L.len L.rate))) ∧
    (∀ rate : Rat, Gen.Time.dtFormula rate = 1 / rate) ∧
    (∀ t0 i t rate : Rat,
      Gen.Time.startFormula (Gen.Time.snippetStart t0 (Gen.Time.snippetShift i t) (Gen.Time.dtFormula rate)) i rate
        = t0 + (i + -(i - t)) / rate) ∧
    Gen.Time.startGuard = "self.start_time is not None" ∧ Gen.Time.stopNoneWithoutStart = true := by
  refine ⟨?_, ?_, ?_, ?_, by decide, by decide⟩
  · intro L σ
    constructor
    · simp only [Ledger.select]
      refine congrArg (fun f => Option.map f L.t0) (funext fun t => ?_)
      simp only [Gen.Time.startFormula] <;> first | rfl | ring1
    · have hg : Gen.Time.rateGuard (σ.stride : Rat) = decide (σ.stride > 1) := by
        simp only [Gen.Time.rateGuard]
        by_cases h : σ.stride > 1
        · have : ((σ.stride : Nat) : Rat) > 1 := by exact_mod_cast h
          simp [h, this]
        · have : ¬ ((σ.stride : Nat) : Rat) > 1 := by
            intro h'; exact h (by exact_mod_cast h')
          simp [h, this]
      simp only [Ledger.select, hg, decide_eq_true_eq]
      split
      · simp only [Gen.Time.rateFormula] <;> first | rfl | ring1
      · rfl
  · intro L
    simp only [Ledger.stopTime, Ledger.timeAt]
    refine congrArg (fun f => Option.map f L.t0) (funext fun t => ?_)
    simp only [Gen.Time.stopFormula, Gen.Time.lengthFormula] <;> first | rfl | ring1
  · intro rate
    simp only [Gen.Time.dtFormula] <;> first | rfl | ring1
  · intro t0 i t rate
    simp only [Gen.Time.startFormula, Gen.Time.snippetStart, Gen.Time.snippetShift, Gen.Time.dtFormula] <;>
      first | rfl | ring1 | (by_cases hr : rate = 0 <;> [simp [hr]; (field_simp; ring1)])

end Pb.C01
