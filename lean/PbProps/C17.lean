import Mathlib.Tactic.Common
import PbModel.Ufunc

/-! # C17 — Elementwise NumPy operations on signals equal the same operations on their data

Model: `PbModel/Ufunc.lean`.  Values are NumPy's (the model is about who wraps what). -/

namespace Pb.C17
open Pb.Crop Pb.Contract Pb.Ufunc

/-- translator-fed: the guard of `Signal.__array_ufunc__` refuses every method but `__call__`, and
`matmul`; results are re-wrapped with `type(self).like(self, a)` unless an `out` object was given -/
theorem C17_guard_table :
    Gen.Ufunc.acceptedMethod = "__call__" ∧ Gen.Ufunc.refusedUfuncs = ["matmul"] ∧
    Gen.Ufunc.wrapExpr = "type(self).like(self, a) if b is None else b" ∧ Gen.Ufunc.extractOk = true := by
  refine ⟨rfl, rfl, rfl, rfl⟩

theorem refuse_iff (c : Call) :
    (c.method ≠ Gen.Ufunc.acceptedMethod ∨ Gen.Ufunc.refusedUfuncs.contains c.ufunc = true) ↔
    (c.method ≠ "__call__" ∨ c.ufunc = "matmul") := by
  rw [C17_guard_table.1, C17_guard_table.2.1]
  simp

theorem call_results (c : Call) (rs : List Res) (h : call c = .results rs) :
    ∃ i cls, dispatch c = some (i, cls) ∧ ¬ (c.method ≠ "__call__" ∨ c.ufunc = "matmul") ∧
      (wrappedList i cls c).all (·.2) = true ∧ rs = (wrappedList i cls c).map (·.1) := by
  unfold call at h
  cases hd : dispatch c with
  | none => simp [hd] at h
  | some p =>
    obtain ⟨i, cls⟩ := p
    simp only [hd] at h
    unfold arrayUfunc at h
    by_cases h1' : c.method ≠ Gen.Ufunc.acceptedMethod ∨ Gen.Ufunc.refusedUfuncs.contains c.ufunc = true
    · rw [if_pos h1'] at h; cases h
    · have h1 : ¬ (c.method ≠ "__call__" ∨ c.ufunc = "matmul") := fun hh => h1' ((refuse_iff c).2 hh)
      by_cases h2 : (wrappedList i cls c).all (·.2) = true
      · rw [if_neg h1', if_pos h2] at h
        injection h with h
        exact ⟨i, cls, rfl, h1, h2, h.symm⟩
      · rw [if_neg h1', if_neg h2] at h
        cases h

/-- **refusals**: reductions, accumulations, `reduceat`, `outer`, `at` and `matmul` are refused
(`NotImplemented` from every signal operand ⇒ NumPy raises TypeError) -/
theorem C17_refusals (c : Call) (h : c.method ≠ "__call__" ∨ c.ufunc = "matmul") :
    call c = .notImplemented := by
  unfold call
  split
  · rfl
  · unfold arrayUfunc
    rw [if_pos ((refuse_iff c).2 h)]

theorem effOuts_length (c : Call) (hout : c.outs = [] ∨ c.outs.length = c.nout) :
    (effOuts c).length = c.nout := by
  unfold effOuts
  rcases hout with h | h
  · simp [h]
  · split
    · rename_i he
      have : c.outs = [] := by simpa using he
      simp [this] at h ⊢
    · exact h

/-- **nout**: an accepted call returns exactly one result per ufunc output -/
theorem C17_nout (c : Call) (rs : List Res) (hout : c.outs = [] ∨ c.outs.length = c.nout)
    (hok : c.resDtypeOk.length = c.nout) (h : call c = .results rs) : rs.length = c.nout := by
  obtain ⟨i, cls, _, _, _, hrs⟩ := call_results c rs h
  subst hrs
  simp [wrappedList, effOuts_length c hout, hok]

/-- **out identity**: wherever an `out` object was given, the result at that position IS that
object (so `z += 1` returns `z` itself); elsewhere the result is a new signal of the dispatched
operand's class carrying that operand's metadata. -/
theorem C17_out_identity (c : Call) (rs : List Res) (h : call c = .results rs) (k : Nat) (r : Res)
    (hk : rs[k]? = some r) :
    ∃ i cls, dispatch c = some (i, cls) ∧
      (∀ g, (effOuts c)[k]? = some (some g) → r = .given g) ∧
      ((effOuts c)[k]? = some none → r = .wrapped i cls) := by
  obtain ⟨i, cls, hd, _, _, hrs⟩ := call_results c rs h
  refine ⟨i, cls, hd, ?_, ?_⟩
  all_goals
    subst hrs
    simp only [wrappedList, List.map_map, List.getElem?_map, Option.map_eq_some_iff] at hk
    obtain ⟨⟨o, ok⟩, ho, hr⟩ := hk
    rw [List.getElem?_zip_eq_some] at ho
  · intro g hg
    rw [ho.1] at hg
    injection hg with hg
    subst hg
    simpa [wrapOne] using hr.symm
  · intro hg
    rw [ho.1] at hg
    injection hg with hg
    subst hg
    simpa [wrapOne] using hr.symm

/-- when `out` is not given every position is `None`, so every result is newly wrapped -/
theorem C17_no_out_all_wrapped (c : Call) (hno : c.outs = []) (k : Nat) (hk : k < c.nout) :
    (effOuts c)[k]? = some none := by
  unfold effOuts
  simp [hno, hk]

/-- **wrap class**: when all signal operands have the same class, the dispatched operand is the
FIRST signal operand (inputs before outputs), so results carry its class and metadata. -/
theorem C17_wrap_first (c : Call) (i : Nat) (cls : String) (rest : List (Nat × String))
    (hargs : sigArgs c = (i, cls) :: rest) (hsame : ∀ a ∈ rest, a.2 = cls) :
    dispatch c = some (i, cls) := by
  unfold dispatch
  simp only [hargs]
  rw [List.find?_cons_of_pos]
  simp only [List.all_cons, Bool.and_eq_true, List.all_eq_true, decide_eq_true_eq, ne_eq, not_and,
    not_true_eq_false, false_implies, true_and]
  intro b hb hne
  exact absurd (hsame b hb) hne

/-- **result contract**: with no `out`, a result is produced iff the wrapping class admits every
output dtype; otherwise ValueError (ties to C16) and nothing is returned. -/
theorem C17_result_contract (c : Call) (i : Nat) (cls : String) (hd : dispatch c = some (i, cls))
    (hm : c.method = "__call__") (hu : c.ufunc ≠ "matmul") (hno : c.outs = [])
    (hlen : c.resDtypeOk.length = c.nout) :
    (c.resDtypeOk.all id = true → ∃ rs, call c = .results rs) ∧
    (c.resDtypeOk.all id = false → call c = .raises .valueError) := by
  have h1 : ¬ (c.method ≠ "__call__" ∨ c.ufunc = "matmul") := by
    intro h; rcases h with h | h
    · exact h hm
    · exact hu h
  have key : (wrappedList i cls c).all (·.2) = c.resDtypeOk.all id := by
    unfold wrappedList effOuts
    simp only [hno, List.isEmpty_nil, if_true]
    rw [← hlen]
    generalize c.resDtypeOk = l
    induction l with
    | nil => rfl
    | cons a t ih =>
      simp only [List.length_cons, List.replicate_succ, List.zip_cons_cons, List.map_cons, List.all_cons, wrapOne, id]
      rw [ih]
  unfold call
  rw [hd]
  simp only
  unfold arrayUfunc
  have h1' : ¬ (c.method ≠ Gen.Ufunc.acceptedMethod ∨ Gen.Ufunc.refusedUfuncs.contains c.ufunc = true) :=
    fun h => h1 ((refuse_iff c).1 h)
  constructor
  · intro hall
    rw [if_neg h1', if_pos (by rw [key]; exact hall)]
    exact ⟨_, rfl⟩
  · intro hall
    rw [if_neg h1', if_neg (by rw [key, hall]; simp)]

/-- **array conversion** yields the data, in the requested dtype when one is given -/
theorem C17_asarray (dataDtype : String) (dt : Option String) :
    asArray dataDtype dt = .ok (dt.getD dataDtype) := rfl

example : call ⟨"add", "__call__", 1, [.sig 0 "RadioSignal", .sig 1 "IntensitySignal"], [], [true]⟩
    = .results [.wrapped 1 "IntensitySignal"] := by rfl

end Pb.C17
