import PbProofs.Polyco
import PbModel.Gen.Polyco

/-! # C08 — Polyco prediction equals the tempo formula on every entry's span

Model: `PbModel/Polyco.lean` over exact rationals (entries, evaluation, derivatives, re-centring,
`searchsorted` entry selection, interval merging, range errors). -/

namespace Pb.C08
open Pb.Crop Pb.Polyco

/-- **parse → evaluate = tempo formula** (all coefficient counts ≥ 2, signed coefficients) -/
theorem C08_parse_eval (tmid span : Rat) (rInt : Int) (rFrac f0 : Rat) (c0 c1 : Rat) (rest : List Rat) (dt : Rat) :
    ((mkEntry tmid span rInt rFrac f0 (c0 :: c1 :: rest)).rphase : Rat)
      + polyEval (mkEntry tmid span rInt rFrac f0 (c0 :: c1 :: rest)).poly dt
    = (rInt : Rat) + rFrac + 60 * (dt / 60) * f0 + polyEval (c0 :: c1 :: rest) (dt / 60) :=
  entry_eval tmid span rInt rFrac f0 c0 c1 rest dt

/-- **frequency and its derivatives are exact derivatives** of the prediction polynomial: the
formal derivative is the analytic one, and it commutes with the minutes→seconds substitution
(`FREQ = F0 + (1/60)(COEFF(2) + 2·DT·COEFF(3) + …)`). -/
theorem C08_deriv (cs : List Rat) :
    (∀ x : ℝ, HasDerivAt (polyEvalR cs) (polyEvalR (deriv cs) x) x) ∧
    (∀ x : Rat, polyEval (deriv (convert60 cs)) x = (1 / 60) * polyEval (deriv cs) (x / 60)) :=
  ⟨hasDerivAt_polyEval cs, deriv_convert60 cs⟩

/-- **phasepol**: the re-centred polynomial plus the returned reference phase reproduces the
prediction around `t0`: `(rphase + a) + (p(· + dt) − a)(x) = rphase + p(dt + x)` for every `x`. -/
theorem C08_phasepol (rphase a : Int) (poly : List Rat) (dt x : Rat) :
    ((rphase + a : Int) : Rat) + (polyEval (shiftPoly poly dt) x - (a : Rat)) = (rphase : Rat) + polyEval poly (x + dt) := by
  rw [polyEval_shiftPoly]; push_cast; ring

/-- **entry selection**: with span ends sorted ascending, `searchsorted(span_ends, t)` returns the
first entry whose end is `≥ t`; every earlier entry ends before `t`. With equal spans sorted by
`tmid`, this is an entry whose span contains `t` whenever any span does. -/
theorem C08_index_contains (es : List Entry)
    (hsorted : (es.map fun e => e.tmid + e.span / 2).Pairwise (· ≤ ·))
    (hstarts : (es.map fun e => e.tmid - e.span / 2).Pairwise (· ≤ ·))
    (t : Rat) (j : Nat) (ej : Entry) (hj : es[j]? = some ej)
    (hin : ej.tmid - ej.span / 2 ≤ t ∧ t ≤ ej.tmid + ej.span / 2) :
    ∃ ei, es[searchsortedLeft (es.map fun e => e.tmid + e.span / 2) t]? = some ei ∧
      ei.tmid - ei.span / 2 ≤ t ∧ t ≤ ei.tmid + ei.span / 2 := by
  set ends := es.map (fun e => e.tmid + e.span / 2) with hends
  set i := searchsortedLeft ends t with hi
  obtain ⟨h1, h2⟩ := searchsortedLeft_spec ends t hsorted
  have hjend : ends[j]? = some (ej.tmid + ej.span / 2) := by
    rw [hends, List.getElem?_map, hj]; rfl
  have hij : i ≤ j := by
    by_contra hc
    have := h1 j (by omega) _ hjend
    linarith [hin.2]
  have hjlen : j < es.length := by
    rcases Nat.lt_or_ge j es.length with h | h
    · exact h
    · rw [List.getElem?_eq_none_iff.mpr h] at hj; cases hj
  have hilen : i < es.length := by omega
  obtain ⟨ei, hei⟩ : ∃ ei, es[i]? = some ei := ⟨es[i], List.getElem?_eq_getElem hilen⟩
  refine ⟨ei, hei, ?_, ?_⟩
  · -- start_i ≤ start_j ≤ t
    have hsi : (es.map fun e => e.tmid - e.span / 2)[i]? = some (ei.tmid - ei.span / 2) := by
      rw [List.getElem?_map, hei]; rfl
    have hsj : (es.map fun e => e.tmid - e.span / 2)[j]? = some (ej.tmid - ej.span / 2) := by
      rw [List.getElem?_map, hj]; rfl
    rcases Nat.lt_or_ge i j with hlt | hge
    · have := List.pairwise_iff_getElem.mp hstarts i j (by simpa using hilen) (by simpa using hjlen) hlt
      have e1 := List.getElem?_eq_some_iff.mp hsi
      have e2 := List.getElem?_eq_some_iff.mp hsj
      obtain ⟨_, e1⟩ := e1
      obtain ⟨_, e2⟩ := e2
      rw [e1, e2] at this
      linarith [hin.1]
    · have : i = j := by omega
      subst this
      rw [hj] at hei; injection hei with hei; subst hei
      exact hin.1
  · have hiend : ends[i]? = some (ei.tmid + ei.span / 2) := by
      rw [hends, List.getElem?_map, hei]; rfl
    exact h2 i _ (le_refl _) hiend

/-- `np.searchsorted(span_ends, t, side="right")`: the number of ends `≤ t` (what the source does *not* use) -/
def searchsortedRight (ends : List Rat) (t : Rat) : Nat := (ends.takeWhile (· ≤ t)).length

/-- **the side matters** (sharpness of `C08_index_contains`): selecting with `side="right"` is wrong exactly on the closing
edge of an entry that is followed by a gap — for the two-entry table below (spans [0,2] and [10,12]) the instant `t = 2`
lies in the first span, the left search selects the first entry, the right search selects the second, whose span does not
contain `t`.  Together with `C08_source_literals` (`side = "left"`, regenerated from the source) this is what pins the
selection rule. -/
theorem C08_right_search_fails :
    let e0 : Entry := { tmid := 1, span := 2, rphase := 0, poly := [] }
    let e1 : Entry := { tmid := 11, span := 2, rphase := 0, poly := [] }
    let es := [e0, e1]
    let ends := es.map fun e => e.tmid + e.span / 2
    (e0.tmid - e0.span / 2 ≤ 2 ∧ (2 : Rat) ≤ e0.tmid + e0.span / 2) ∧
    searchsortedLeft ends 2 = 0 ∧ searchsortedRight ends 2 = 1 ∧
    ¬ (e1.tmid - e1.span / 2 ≤ (2 : Rat)) := by
  simp only [searchsortedLeft, searchsortedRight, List.map]
  norm_num [List.takeWhile]

/-- **validity intervals cover every span** (the merge loop never drops part of a span) -/
theorem C08_intervals_cover (tol : Rat) (es : List Entry) (e : Entry) (he : e ∈ es) :
    ∃ y ∈ intervals tol es, y.1 ≤ e.tmid - e.span / 2 ∧ e.tmid + e.span / 2 ≤ y.2 :=
  intervals_cover tol es e he

/-- **range errors**: a time outside every validity interval raises ValueError in `__call__` and
in `f0` (and hence in `phasepol`/`time_at`, which go through the same check). -/
theorem C08_range_errors (tol : Rat) (es : List Entry) (t : Rat) (n : Nat)
    (hout : inIntervals (intervals tol es) t = false) :
    predict tol es t = .error .valueError ∧ freqDeriv tol es t n = .error .valueError := by
  unfold predict freqDeriv
  simp [hout]

-- two touching 60-minute spans merge into one interval; a gap of an hour keeps them apart
example : intervals (1/1000) [⟨1800, 3600, 0, []⟩, ⟨5400, 3600, 0, []⟩] = [(0, 7200)] ∧
    intervals (1/1000) [⟨1800, 3600, 0, []⟩, ⟨9000, 3600, 0, []⟩] = [(0, 3600), (7200, 10800)] := by
  decide +kernel

/-- **the validity intervals are exactly the spans merged where they touch or overlap** (1 ms =
`tol`): every returned interval runs from the start of a span to the end of a span, contains only
points of spans and of gaps of at most `tol` between them, and distinct intervals are separated by
more than `tol`; together with `C08_intervals_cover` (every span lies inside one of them) this
characterises the result. -/
theorem C08_intervals_exact (tol : Rat) (htol : 0 ≤ tol) (es : List Entry) (hspan : ∀ e ∈ es, 0 ≤ e.span) :
    (∀ iv ∈ intervals tol es,
      (∃ e ∈ es, iv.1 = e.tmid - e.span / 2) ∧ (∃ e ∈ es, iv.2 = e.tmid + e.span / 2) ∧
      ∀ t, iv.1 ≤ t → t ≤ iv.2 → ∃ e ∈ es, e.tmid - e.span / 2 - tol ≤ t ∧ t ≤ e.tmid + e.span / 2) ∧
    (intervals tol es).Pairwise (fun a b => a.2 + tol < b.1) := by
  obtain ⟨h1, h2⟩ := intervals_tight tol htol es hspan
  refine ⟨?_, h2⟩
  intro iv hiv
  obtain ⟨⟨x, hx, hx1⟩, ⟨y, hy, hy2⟩, hp⟩ := h1 iv hiv
  obtain ⟨ex, hex, rfl⟩ := List.mem_map.mp hx
  obtain ⟨ey, hey, rfl⟩ := List.mem_map.mp hy
  refine ⟨⟨ex, hex, hx1⟩, ⟨ey, hey, hy2⟩, ?_⟩
  intro t ht1 ht2
  obtain ⟨z, hz, hz1, hz2⟩ := hp t ht1 ht2
  obtain ⟨ez, hez, rfl⟩ := List.mem_map.mp hz
  exact ⟨ez, hez, hz1, hz2⟩

/-- **translator tie**: the literals of `predictor.py` (regenerated from the source on every run) are
the constants the model uses — polynomial domain `[-60, 60]` minutes (so `convert()` substitutes
`x / 60`), `F0 · 60`, three coefficients per line, 1 ms merge tolerance, `deriv(n + 1)` in both
branches of `f0`, left `searchsorted` on the span ends, and `not np.all(check)` as the range test. -/
theorem C08_source_literals :
    Gen.Polyco.extractOk = true ∧
    Gen.Polyco.domLo + Gen.Polyco.domHi = 0 ∧ (2 : Rat) / ((Gen.Polyco.domHi - Gen.Polyco.domLo : Int) : Rat) = 1 / 60 ∧
    Gen.Polyco.f0Factor = 60 ∧ Gen.Polyco.perLine = 3 ∧
    Gen.Polyco.tolNum = 1 ∧ Gen.Polyco.tolUnit = "u.ms" ∧
    Gen.Polyco.derivOffsets = [1, 1] ∧
    Gen.Polyco.side = "left" ∧ Gen.Polyco.sortedOn = "span_ends.mjd" ∧ Gen.Polyco.rangeAll = true := by
  refine ⟨by decide, by decide, ?_, by decide, by decide, by decide, by decide, by decide, by decide, by decide, by decide⟩
  norm_num [Gen.Polyco.domHi, Gen.Polyco.domLo]

end Pb.C08
