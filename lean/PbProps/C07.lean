import Mathlib.Analysis.SpecialFunctions.Complex.Circle
import PbProofs.DayFrac
import PbProofs.DayFracMul
import PbProofs.Settle
import PbModel.Pol

/-! # C07 — Phase arithmetic keeps two-double precision for every operand kind

Kernel: `PbModel/DayFrac.lean` — ONE transliteration of `day_frac`/`two_sum`/`two_product`/`split`,
executed at `Float` (bit-compared with NumPy on every run) and at `Rat` with `rn53`
(cross-checked against `Float`), and analysed here at `Rat` with an arbitrary rounding `rn`
satisfying the standard model of binary64 (`FPModel`). -/

namespace Pb.C07
open Pb.DayFrac Pb.DayFracProof

/-- **construction / add / subtract / negate** (the `day_frac(v1, v2)` path): for representable
`v1, v2` with `|v1+v2| ≤ 2^52`, under the standard model and the error-free contract of astropy's
`two_sum`: the count is an integer, `count + frac` is within `2^-52` of the exact sum, and the
fraction is normalised to `|frac| ≤ 1/2 + 2^-49`. -/
theorem C07_dayfrac_add (M : FPModel) (hE : M.TwoSumExact) (v1 v2 : ℚ) (h1 : M.F v1) (h2 : M.F v2)
    (hV : |v1 + v2| ≤ 2^52) :
    (∃ n : ℤ, (Pb.DayFrac.dayFrac (ratOps M.rn) v1 v2 none none).1 = n) ∧
    |(Pb.DayFrac.dayFrac (ratOps M.rn) v1 v2 none none).1 + (Pb.DayFrac.dayFrac (ratOps M.rn) v1 v2 none none).2
      - (v1 + v2)| ≤ 1 / 2^52 ∧
    |(Pb.DayFrac.dayFrac (ratOps M.rn) v1 v2 none none).2| ≤ 1/2 + 1 / 2^49 :=
  M.dayFrac_spec hE v1 v2 h1 h2 hV

/-- the hypotheses are satisfiable (exact arithmetic is a model with an exact `two_sum`), and in
that model the algorithm is exactly "round to nearest integer, keep the remainder":
`count + frac = v1 + v2` and `−1/2 ≤ frac < 1/2`. -/
theorem C07_exact_refines (v1 v2 : ℚ) :
    exactModel.TwoSumExact ∧
    (Pb.DayFrac.dayFrac (ratOps id) v1 v2 none none).1 + (Pb.DayFrac.dayFrac (ratOps id) v1 v2 none none).2 = v1 + v2 ∧
    -(1/2) ≤ (Pb.DayFrac.dayFrac (ratOps id) v1 v2 none none).2 ∧
    (Pb.DayFrac.dayFrac (ratOps id) v1 v2 none none).2 < 1/2 := by
  refine ⟨?_, ?_⟩
  · intro a b _ _
    simp [FPModel.twoSum, FPModel.ops, Pb.DayFrac.twoSum, Pb.DayFrac.ratOps, exactModel]
  · have hts : ∀ a b : ℚ, Pb.DayFrac.twoSum (ratOps id) a b = (a + b, 0) := by
      intro a b; simp [Pb.DayFrac.twoSum, ratOps]
    have hfl : ∀ x : ℚ, ((x.floor : ℤ) : ℚ) ≤ x ∧ x < ((x.floor : ℤ) : ℚ) + 1 := by
      intro x
      refine ⟨Rat.floor_le x, ?_⟩
      have := Rat.lt_floor_add_one x
      push_cast at this; exact this
    simp only [Pb.DayFrac.dayFrac, normalise, hts]
    simp only [ratOps, id, add_zero, zero_add]
    set s := v1 + v2 with hs
    set d0 : ℚ := (((s + 1/2).floor : ℤ) : ℚ) with hd0
    obtain ⟨a1, a2⟩ := hfl (s + 1/2)
    rw [← hd0] at a1 a2
    have hex : ((((s + -d0) + 1/2).floor : ℤ) : ℚ) = 0 := by
      have h1 : (0 : ℤ) ≤ ((s + -d0) + 1/2).floor := Rat.le_floor_iff.mpr (by push_cast; linarith)
      have h2 : ((s + -d0) + 1/2).floor < 1 := Rat.floor_lt_iff.mpr (by push_cast; linarith)
      have : ((s + -d0) + 1/2).floor = 0 := by omega
      rw [this]; simp
    rw [hex]
    simp only [add_zero]
    refine ⟨by ring, by linarith, by linarith⟩

/-- **multiplication by a number** (the `day_frac(v1, v2, factor=f)` path behind `Phase * x`): for
representable operands with `|(v1+v2)·f| ≤ 2^52 − 2`, under the standard model and the error-free
contracts of `two_sum` and `two_product`, the count is an integer, `count + frac` is within `2^-51`
of the exact product, and the fraction is normalised. -/
theorem C07_dayfrac_mul (M : FPModel) (hE : M.TwoSumExact) (hP : M.TwoProductExact) (v1 v2 f : ℚ)
    (h1 : M.F v1) (h2 : M.F v2) (hf : M.F f) (hV : |(v1 + v2) * f| ≤ 2^52 - 2) :
    (∃ n : ℤ, (Pb.DayFrac.dayFrac (ratOps M.rn) v1 v2 (some f) none).1 = n) ∧
    |(Pb.DayFrac.dayFrac (ratOps M.rn) v1 v2 (some f) none).1 + (Pb.DayFrac.dayFrac (ratOps M.rn) v1 v2 (some f) none).2
      - (v1 + v2) * f| ≤ 1 / 2^51 ∧
    |(Pb.DayFrac.dayFrac (ratOps M.rn) v1 v2 (some f) none).2| ≤ 1/2 + 1 / 2^49 :=
  M.dayFrac_mul_spec hE hP v1 v2 f h1 h2 hf hV

/-- **division by a number** (the `day_frac(v1, v2, divisor=d)` path behind `Phase / x`): for
representable operands, `d ≠ 0` and `|(v1+v2)/d| ≤ 2^52 − 2`, the count is an integer,
`count + frac` is within `2^-50` of the exact quotient, and the fraction is normalised.
(The harness validates the property's tighter `2^-52` on every case; the proved constant is the
worst case of a term-by-term rounding analysis.) -/
theorem C07_dayfrac_div (M : FPModel) (hE : M.TwoSumExact) (hP : M.TwoProductExact) (v1 v2 d : ℚ)
    (h1 : M.F v1) (h2 : M.F v2) (hdF : M.F d) (hd : d ≠ 0) (hV : |(v1 + v2) / d| ≤ 2^52 - 2) :
    (∃ n : ℤ, (Pb.DayFrac.dayFrac (ratOps M.rn) v1 v2 none (some d)).1 = n) ∧
    |(Pb.DayFrac.dayFrac (ratOps M.rn) v1 v2 none (some d)).1 + (Pb.DayFrac.dayFrac (ratOps M.rn) v1 v2 none (some d)).2
      - (v1 + v2) / d| ≤ 1 / 2^50 ∧
    |(Pb.DayFrac.dayFrac (ratOps M.rn) v1 v2 none (some d)).2| ≤ 1/2 + 1 / 2^49 :=
  M.dayFrac_div_spec hE hP v1 v2 d h1 h2 hdF hd hV

/-- the product contract is satisfiable too: exact arithmetic has an exact `two_product` -/
theorem C07_exact_two_product : exactModel.TwoProductExact := by
  intro a b _ _
  simp [FPModel.twoProduct, FPModel.ops, Pb.DayFrac.twoProduct, Pb.DayFrac.split, Pb.DayFrac.ratOps, exactModel]

/-- **floor division / remainder / divmod** (exact-rational view of the last step of the
`floor_divide` branch): whatever the rounded estimates produced, as long as the quotient estimate is
within one of `⌊A/B⌋`, comparing the exact remainder with zero and with the divisor and moving the
quotient by one yields exactly `⌊A/B⌋` and the remainder in `[0, B)` (`(B, 0]` for `B < 0`). -/
theorem C07_floordiv_settle (A B : ℚ) (hB : B ≠ 0) (fd : ℤ) (h : |fd - ⌊A / B⌋| ≤ 1) :
    (settle A B fd).1 = ⌊A / B⌋ ∧ (settle A B fd).2 = A - ⌊A / B⌋ * B ∧
    (0 < B → 0 ≤ (settle A B fd).2 ∧ (settle A B fd).2 < B) ∧
    (B < 0 → B < (settle A B fd).2 ∧ (settle A B fd).2 ≤ 0) :=
  settle_spec A B hB fd h

example : settle (10 : ℚ) 3 4 = (3, 1) ∧ settle (10 : ℚ) 3 2 = (3, 1) ∧ settle (-10 : ℚ) 3 (-3) = (-4, 2) ∧
    settle (10 : ℚ) (-3) (-3) = (-4, -2) := by decide +kernel

/-! ### real / imaginary axes -/

open Pb.Pol in
/-- an axis value as a Gaussian rational -/
def toC (a : AxisVal) : Pb.Pol.CRat := if a.imag then ⟨0, a.val⟩ else ⟨a.val, 0⟩

open Pb.Pol in
/-- **multiplication** of a purely real/imaginary phase by a purely real/imaginary factor is the
complex product, for all four combinations — in particular `i·i = −1`. -/
theorem C07_axis_mul (p f : AxisVal) : toC (mulAxis p f) = CRat.mul (toC p) (toC f) := by
  obtain ⟨pi, pv⟩ := p
  obtain ⟨fi, fv⟩ := f
  cases pi <;> cases fi <;> simp [toC, mulAxis, CRat.mul]

open Pb.Pol in
/-- **division**: `(p / d) · d = p` on the axes (`x/(i·d) = −i·x/d`, `(i·x)/(i·d) = x/d`) -/
theorem C07_axis_div (p d : AxisVal) (hd : d.val ≠ 0) : CRat.mul (toC (divAxis p d)) (toC d) = toC p := by
  obtain ⟨pi, pv⟩ := p
  obtain ⟨di, dv⟩ := d
  simp only at hd
  cases pi <;> cases di <;> simp [toC, divAxis, CRat.mul] <;> field_simp

/-- **trigonometric functions and `exp(i·phase)` depend only on the fractional part**:
a whole number of cycles changes nothing. -/
theorem C07_trig_frac_only (n : ℤ) (f : ℝ) :
    Complex.exp (2 * Real.pi * Complex.I * ((n : ℂ) + (f : ℂ))) = Complex.exp (2 * Real.pi * Complex.I * (f : ℂ)) := by
  rw [mul_add, Complex.exp_add]
  have : Complex.exp (2 * Real.pi * Complex.I * (n : ℂ)) = 1 := by
    have := Complex.exp_int_mul_two_pi_mul_I n
    rw [← this]; congr 1; ring
  rw [this, one_mul]

-- the executable instances agree on a concrete, non-trivial input (kernel reduction of `Float`)
example : (Pb.DayFrac.dayFrac (ratOps rn53) 123456789 (7/10) none none).1 = 123456790 := by decide +kernel

end Pb.C07
