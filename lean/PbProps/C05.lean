import Mathlib.Analysis.Calculus.Deriv.Inv
import Mathlib.Analysis.Calculus.Deriv.Pow
import Mathlib.Analysis.Calculus.Deriv.Mul
import Mathlib.Analysis.Calculus.Deriv.Add
import Mathlib.Analysis.SpecialFunctions.Complex.Circle
import PbProofs.Dft
import PbProofs.Disp
import PbProofs.Shift

/-! # C05 — Coherent dedispersion applies the cold-plasma chirp and crops to valid times

Rational model: `PbModel/Disp.lean` (`K` from the translator, `phaseTurns`, `timeDelay`,
`cohBounds`).  Analytic statements over ℝ/ℂ and `ZMod N` below mirror those definitions. -/

namespace Pb.C05
open Pb.Crop Pb.Disp Pb.Shift

/-- translator-fed: `dispersion_constant = 1/2.41e-4 s·MHz²·cm³/pc` -/
theorem C05_constant :
    Gen.Disp.constUnits = [("s", 1), ("MHz", 2), ("cm", 3), ("pc", -1)] ∧
    Gen.Disp.constLiteral = 241 / 1000000 ∧ Gen.Disp.constLiteralExp = -1 ∧
    Gen.Disp.extractOk = true ∧ K = 1000000000000000000 / 241 := K_value

/-- the transfer-function phase (cycles) of the model is the documented law -/
theorem C05_phase_law (DM r f : Rat) :
    phaseTurns DM r f = (1000000000000000000 / 241) * DM * f * (1 / r - 1 / f) ^ 2 := by
  unfold phaseTurns; rw [K_value.2.2.2.2]

/-- the phase is odd in DM: dedispersing by `−DM` uses the conjugate transfer function -/
theorem C05_phase_neg (DM r f : Rat) : phaseTurns (-DM) r f = -phaseTurns DM r f := by
  unfold phaseTurns; ring

/-! ### unit modulus and inverse (over ℂ) -/

/-- `exp(−2πi·φ)` for a phase of `φ` cycles -/
noncomputable def H (φ : ℝ) : ℂ := Complex.exp (((-(2 * Real.pi * φ) : ℝ) : ℂ) * Complex.I)

theorem C05_unit_modulus (φ : ℝ) : ‖H φ‖ = 1 := by
  unfold H; exact Complex.norm_exp_ofReal_mul_I _

theorem C05_inverse_pointwise (φ : ℝ) : H φ * H (-φ) = 1 := by
  unfold H
  rw [← Complex.exp_add]
  have : ((-(2 * Real.pi * φ) : ℝ) : ℂ) * Complex.I + ((-(2 * Real.pi * -φ) : ℝ) : ℂ) * Complex.I = 0 := by
    push_cast; ring
  rw [this, Complex.exp_zero]

open ZMod in
open scoped ZMod in
/-- `DM` followed by `−DM`: filtering with `H` and then with any pointwise inverse `H'` restores
every input exactly (`𝓕⁻ ∘ 𝓕 = id`), for every length `N ≥ 1`. -/
theorem C05_inverse {N : ℕ} [NeZero N] (x Hf Hb : ZMod N → ℂ) (hinv : ∀ k, Hb k * Hf k = 1) :
    𝓕⁻ (fun k => Hb k * 𝓕 (𝓕⁻ (fun k => Hf k * 𝓕 x k)) k) = x := by
  have h1 : 𝓕 (𝓕⁻ (fun k => Hf k * 𝓕 x k)) = fun k => Hf k * 𝓕 x k := Pb.Dft.inv_dft _
  rw [h1]
  have h2 : (fun k => Hb k * (Hf k * 𝓕 x k)) = 𝓕 x := by
    funext k; rw [← mul_assoc, hinv k, one_mul]
  rw [h2]
  exact Pb.Dft.dft_inv x

/-! ### group delay: the filter advances frequency `f` by exactly its dispersion delay -/

noncomputable def phaseTurnsR (K DM r f : ℝ) : ℝ := K * DM * f * (r⁻¹ - f⁻¹) ^ 2
noncomputable def delayR (K DM f r : ℝ) : ℝ := K * DM * ((f ^ 2)⁻¹ - (r ^ 2)⁻¹)

/-- `d/df [K·DM·f·(1/r − 1/f)²] = −K·DM·(f⁻² − r⁻²)`: sign, exponent and reference frequency of the
chirp are pinned by this identity (the same delay law as C06). -/
theorem C05_group_delay (K DM r f : ℝ) (hf : f ≠ 0) (hr : r ≠ 0) :
    HasDerivAt (phaseTurnsR K DM r) (- delayR K DM f r) f := by
  unfold phaseTurnsR delayR
  have h1 : HasDerivAt (fun f : ℝ => r⁻¹ - f⁻¹) (0 - (-(f ^ 2)⁻¹)) f :=
    (hasDerivAt_const _ _).sub (hasDerivAt_inv hf)
  have h2 := h1.pow 2
  have h3 : HasDerivAt (fun f : ℝ => K * DM * f) (K * DM) f := by
    simpa using (hasDerivAt_id f).const_mul (K * DM)
  have h4 := h3.mul h2
  refine h4.congr_deriv ?_
  simp only [Pi.pow_apply, Nat.cast_ofNat, Nat.add_one_sub_one, pow_one]
  field_simp
  ring

/-- the rational model's definitions are these real functions on rational arguments -/
theorem C05_model_matches_real (DM r f : Rat) :
    ((phaseTurns DM r f : Rat) : ℝ) = phaseTurnsR (K : ℝ) DM r f ∧
    ((timeDelay DM f r : Rat) : ℝ) = delayR (K : ℝ) DM f r := by
  unfold phaseTurns timeDelay phaseTurnsR delayR
  constructor <;> push_cast <;> simp [one_div]

/-- **infinite reference frequency** (`ref_freq = inf`, the customary convention): writing the
reference by its reciprocal `ir = 1/ref`, the finite case is the same function, and at `ir = 0` the
phase is `K·DM/f` and the delay `K·DM/f²` — finite, so an infinite reference is a legitimate input
(no `inf/inf`). -/
theorem C05_infinite_reference (DM r f : Rat) (hf : f ≠ 0) :
    phaseTurns DM r f = phaseTurnsInv DM (1 / r) f ∧ timeDelay DM f r = timeDelayInv DM f (1 / r) ∧
    phaseTurnsInv DM 0 f = K * DM / f ∧ timeDelayInv DM f 0 = K * DM / f ^ 2 := by
  refine ⟨rfl, ?_, ?_, ?_⟩
  · unfold timeDelay timeDelayInv; simp [one_div, inv_pow]
  · unfold phaseTurnsInv; field_simp; ring
  · unfold timeDelayInv; field_simp; ring

/-! ### crop to valid times -/

theorem le_ceil (a : Rat) : a ≤ (Crop.ceil a : Rat) := by
  by_contra h
  have : (Crop.ceil a : Rat) < a := not_le.mp h
  have := (lt_ceil_iff a (Crop.ceil a)).mpr this
  omega

theorem ceil_lt_add_one (a : Rat) : (Crop.ceil a : Rat) < a + 1 := by
  have : ¬ ((Crop.ceil a - 1 : Int) < Crop.ceil a) ∨ ((Crop.ceil a - 1 : Int) : Rat) < a := by
    right; exact (lt_ceil_iff a _).mp (by omega)
  rcases this with h | h
  · omega
  · push_cast at h; linarith

/-- **crop validity**: with `start`/`stop` as computed from the band-edge delays, for every kept
index `t ∈ [start, stop)` and every in-band delay `d` (between the edge delays — C06_monotone),
the sample `t + d` the filter reads lies inside the input; and `start`, `stop` are the tightest
integers with that property. -/
theorem C05_crop_valid (n : Nat) (dTop dBot d : Rat) (t : Int)
    (hd1 : min dTop dBot ≤ d) (hd2 : d ≤ max dTop dBot)
    (ht1 : (cohBounds n dTop dBot).1 ≤ t) (ht2 : t < (cohBounds n dTop dBot).2) :
    0 ≤ (t : Rat) + d ∧ (t : Rat) + d ≤ (n : Rat) - 1 := by
  unfold cohBounds at ht1 ht2
  simp only at ht1 ht2
  have h1 := le_ceil (-(min 0 (min dTop dBot)))
  have h2 := le_ceil (max 0 (max dTop dBot))
  have ht1' : (Crop.ceil (-(min 0 (min dTop dBot))) : Rat) ≤ t := by exact_mod_cast ht1
  have ht2' : (t : Rat) + 1 ≤ (n : Rat) - Crop.ceil (max 0 (max dTop dBot)) := by
    have : t + 1 ≤ (n : Int) - Crop.ceil (max 0 (max dTop dBot)) := by omega
    exact_mod_cast this
  have hm1 : min 0 (min dTop dBot) ≤ min dTop dBot := min_le_right _ _
  have hm2 : max dTop dBot ≤ max 0 (max dTop dBot) := le_max_right _ _
  constructor <;> linarith

theorem C05_crop_tight (n : Nat) (dTop dBot : Rat) :
    (((cohBounds n dTop dBot).1 : Rat) - 1 < -(min 0 (min dTop dBot))) ∧
    ((n : Rat) - (cohBounds n dTop dBot).2 - 1 < max 0 (max dTop dBot)) := by
  unfold cohBounds
  simp only
  have h1 := ceil_lt_add_one (-(min 0 (min dTop dBot)))
  have h2 := ceil_lt_add_one (max 0 (max dTop dBot))
  constructor
  · linarith
  · push_cast; linarith

/-- **what the code returns**: `like(z, x)[start : max(stop, 0)]` keeps exactly `[start, stop)`
(empty when `stop ≤ start`; no wrap-around for negative `stop`) and advances the start time by
`start` samples (C01). -/
theorem C05_crop_impl (n : Nat) (dTop dBot : Rat) :
    opSel n (.cohCrop dTop dBot) =
      .ok { first := (min (cohBounds n dTop dBot).1 n).toNat, stride := 1,
            count := (min (max (cohBounds n dTop dBot).2 0) n - min (cohBounds n dTop dBot).1 n).toNat } := by
  have hs : 0 ≤ (cohBounds n dTop dBot).1 := by
    unfold cohBounds
    simp only
    have h := le_ceil (-(min 0 (min dTop dBot)))
    have : (0 : Rat) ≤ -(min 0 (min dTop dBot)) := by
      have := min_le_left (0 : Rat) (min dTop dBot); linarith
    have : (0 : Rat) ≤ (Crop.ceil (-(min 0 (min dTop dBot))) : Rat) := le_trans this h
    exact_mod_cast this
  unfold opSel
  simp only
  have e : cohBounds n dTop dBot = (Crop.ceil (-(min 0 (min dTop dBot))), (n : Int) - Crop.ceil (max 0 (max dTop dBot))) := rfl
  rw [e] at hs ⊢
  simp only at hs ⊢
  rw [range_interval n _ _ hs (by omega)]

example : cohBounds 64 (-3/2) (5/2) = (2, 61) := by decide +kernel

set_option linter.unusedTactic false in
set_option linter.unreachableTactic false in
set_option linter.unnecessarySeqFocus false in
/-- Tie to the source: the expression `_transfer_function` assigns to `phase` (translated symbolically into
`Gen.Disp.phaseFormula` on every run) is the model's phase law for every non-zero `f` and `ref`, it is a
number of cycles, and the transfer function is `exp(−i·phase)` with the phase converted to radians.  An
algebraically equal rewrite of the source keeps this theorem; a changed exponent, sign or factor does not. -/
theorem C05_source_formula :
    (∀ DM f r : Rat, f ≠ 0 → r ≠ 0 → Gen.Disp.phaseFormula (K * DM) f r = phaseTurns DM r f) ∧
    Gen.Disp.phaseUnits = ["cycle"] ∧ Gen.Disp.tfSign = -1 ∧ Gen.Disp.tfAngleUnit = "rad" := by
  refine ⟨?_, by decide, by decide, by decide⟩
  intro DM f r hf hr
  simp only [Gen.Disp.phaseFormula, phaseTurns] <;>
    first | rfl | ring1 | (field_simp; done) | (field_simp; ring1)

end Pb.C05
