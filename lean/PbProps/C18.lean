import PbProofs.FastLenPrev
import PbProofs.Crop

/-! # C18 — Fast FFT lengths are the nearest 7-smooth numbers for every N

Model: `PbModel/FastLen.lean` (fuelled transliteration of `pulsarbat.utils.next_fast_len`
and `prev_fast_len`), `PbModel/Crop.lean` (`fast_len` = `z[:prev_fast_len(len(z))]`). -/

namespace Pb.C18
open Pb.FastLen Pb.Crop

/-- `next_fast_len(N)` is 7-smooth, `≥ N`, and minimal with these properties — every `N ≥ 1`.
(The fuel of the model is shown sufficient inside the proof: the loops terminate.) -/
theorem C18_next (N : Nat) (hN : 0 < N) :
    Smooth7 (nextFast N) ∧ N ≤ nextFast N ∧ ∀ m, Smooth7 m → N ≤ m → nextFast N ≤ m :=
  nextFast_spec N hN

/-- `prev_fast_len(N)` is 7-smooth, `≤ N`, and maximal with these properties — every `N ≥ 1`. -/
theorem C18_prev (N : Nat) (hN : 0 < N) :
    Smooth7 (prevFast N) ∧ prevFast N ≤ N ∧ ∀ m, Smooth7 m → m ≤ N → m ≤ prevFast N :=
  prevFast_spec N hN

/-- `0 ↦ 0` and small values are fixed points of both searches. -/
theorem C18_small (N : Nat) (h : N ≤ 10) : nextFast N = N ∧ prevFast N = N := by
  simp [nextFast, prevFast, h]

/-- `fast_len` keeps exactly the first `prev_fast_len(len)` samples: first retained sample is
input sample 0, stride 1, so every retained sample and its timestamp is untouched (C01). -/
theorem C18_fast_len (L : Ledger) :
    apply L .fastLen = .ok (L.select { first := 0, stride := 1, count := prevFast L.len },
                            { first := 0, stride := 1, count := prevFast L.len }) := by
  have hle := prevFast_le L.len
  unfold apply opSel
  rw [range_interval L.len 0 (prevFast L.len) (le_refl _) (by omega)]
  have h1 : (min (0:Int) (L.len:Int)).toNat = 0 := by omega
  have h2 : ((min ((prevFast L.len : Nat) : Int) (L.len : Int)) - (min (0:Int) (L.len:Int))).toNat
      = prevFast L.len := by omega
  simp only [h1, h2]

example : nextFast 11 = 12 ∧ prevFast 11 = 10 ∧ nextFast 0 = 0 ∧ prevFast 0 = 0 := by decide

end Pb.C18
