import PbProofs.Dft
import PbProofs.Freq
import PbModel.Stft
import PbModel.Gen.Stft

/-! # C20 — pb.fft equals the reference DFT on both backends; STFT/ISTFT invert, label right

Names: `PbModel/Gen/Fft.lean` (translator output).  STFT/ISTFT label logic: `PbModel/Stft.lean`. -/

namespace Pb.C20
open Pb.Crop Pb.Freq Pb.Stft

/-- translator-fed: exactly the fourteen names, each wrapped around the SAME-named function of
`scipy.fft`; anything else raises AttributeError. -/
theorem C20_names :
    Gen.Fft.fftFuncs = ["fft", "fft2", "fftn", "ifft", "ifft2", "ifftn", "rfft", "rfft2", "rfftn",
                        "irfft", "irfft2", "irfftn", "hfft", "ihfft"] ∧
    Gen.Fft.delegate = "scipy.fft" ∧ Gen.Fft.guardRaises = true ∧ Gen.Fft.extractOk = true ∧
    (∀ name, name ∈ Gen.Fft.fftFuncs → fftGetattr name = .ok ("scipy.fft." ++ name)) ∧
    (∀ name, name ∉ Gen.Fft.fftFuncs → fftGetattr name = .error .attributeError) := by
  refine ⟨rfl, rfl, rfl, rfl, ?_, ?_⟩
  · intro name h
    unfold fftGetattr
    have : Gen.Fft.fftFuncs.contains name = true := by simpa using h
    simp only [this, if_true]
    rfl
  · intro name h
    unfold fftGetattr
    have : Gen.Fft.fftFuncs.contains name = false := by
      rw [Bool.eq_false_iff]; intro hc; exact h (by simpa using hc)
    rw [this]; rfl

/-- **STFT labels**: for every channel count `n`, alignment, and `P ≥ 1` (odd, even, `= len`):
sub-channel `j = c·P + k` is labelled `label_c + (k − ⌊P/2⌋)·bw/P` — the true frequency of DFT bin
`k − ⌊P/2⌋` of channel `c` after `fftshift` —; rate `/P`, start unchanged, length `⌊len/P⌋`,
`chan_bw = sample_rate`. -/
theorem C20_stft_labels (z : BBSig) (P : Nat) (y : BBSig) (hwf : WF z.band) (hbw : z.band.bw = z.led.rate)
    (h : stft z P = .ok y) :
    1 ≤ P ∧ y.led.t0 = z.led.t0 ∧ y.led.rate = z.led.rate / P ∧ y.led.len = z.led.len / P ∧
    y.band.n = z.band.n * P ∧ y.band.bw = y.led.rate ∧
    ∀ c k : Nat, k < P →
      y.band.label ((c * P + k : Nat) : Int) =
        z.band.label c + ((k : Rat) - ((P / 2 : Nat) : Rat)) * (z.band.bw / P) := by
  unfold stft at h
  by_cases hP : P = 0
  · simp [hP] at h
  simp only [hP, if_false] at h
  cases hfs : freqSlice z.band ⟨none, none, none⟩ with
  | error e => simp [hfs] at h
  | ok r =>
    obtain ⟨B, a⟩ := r
    simp only [hfs] at h
    obtain ⟨_, hBbw, _, _, _, ha, hn, hlab⟩ := freqSlice_spec z.band _ B a hfs
    have ha0 : a = 0 := by
      have : (a : Int) = adj z.band.n none 0 := ha
      simp [adj] at this; exact this
    have hBn : B.n = z.band.n := by
      have : ((a + B.n : Nat) : Int) = adj z.band.n none z.band.n := hn
      simp only [adj] at this
      subst ha0; simpa using this
    subst ha0
    cases hna : normAlign (B.n * P) (if P % 2 = 1 then "center" else "bottom") with
    | error e => simp [hna] at h
    | ok al =>
      simp only [hna] at h
      injection h with h
      subst h
      have hPpos : (0 : Rat) < P := by exact_mod_cast Nat.pos_of_ne_zero hP
      have hlen : (z.led.len - z.led.len % P) / P = z.led.len / P := by
        have := Nat.div_add_mod z.led.len P
        have h1 : z.led.len - z.led.len % P = P * (z.led.len / P) := by omega
        rw [h1, Nat.mul_div_cancel_left _ (Nat.pos_of_ne_zero hP)]
      refine ⟨Nat.pos_of_ne_zero hP, rfl, rfl, hlen, by simp [hBn], rfl, fun c k hk => ?_⟩
      have hzl : z.band.label c = B.label c := by
        have := hlab c; simp at this; exact this.symm
      rw [hzl]
      -- the stored alignment: center when P (or n·P) is odd, bottom otherwise
      have hal : (P % 2 = 1 → al = "center") ∧ (P % 2 = 0 → (B.n * P) % 2 = 0 ∧ al = "bottom") := by
        constructor
        · intro hodd
          simp only [hodd, if_true] at hna
          rw [normAlign_center] at hna; injection hna with hna; exact hna.symm
        · intro hev
          have hne : ¬ (P % 2 = 1) := by omega
          simp only [hne, if_false] at hna
          have hprod : (B.n * P) % 2 = 0 := by
            rw [Nat.mul_mod, hev]; simp
          refine ⟨hprod, ?_⟩
          unfold normAlign at hna
          rw [align_table_eq.2.1] at hna
          have hnodd : ¬ ((B.n * P) % 2 = 1) := by omega
          simp [hnodd] at hna
          exact hna.symm
      have hBal : B.al = "center" := by
        unfold freqSlice at hfs
        simp only [Option.getD_none] at hfs
        split at hfs
        · cases hfs
        · split at hfs
          · cases hfs
          · split at hfs
            · cases hfs
            · rw [normAlign_center] at hfs
              simp only at hfs
              injection hfs with hfs
              injection hfs with h1 _
              rw [← h1]
      unfold Band.label
      simp only [hBal, alignVal_center, Option.getD_some, hBbw, hbw]
      by_cases hodd : P % 2 = 1
      · rw [hal.1 hodd, alignVal_center]
        simp only [Option.getD_some]
        have hP2 : ((P / 2 : Nat) : Rat) = ((P : Rat) - 1) / 2 := by
          have : 2 * (P / 2) + 1 = P := by omega
          have : (2 : Rat) * ((P / 2 : Nat) : Rat) + 1 = P := by exact_mod_cast this
          linarith
        push_cast
        rw [hP2]
        field_simp
        ring
      · have hev : P % 2 = 0 := by omega
        rw [(hal.2 hev).2, alignVal_bottom]
        simp only [Option.getD_some]
        have hP2 : ((P / 2 : Nat) : Rat) = (P : Rat) / 2 := by
          have : 2 * (P / 2) = P := by omega
          have : (2 : Rat) * ((P / 2 : Nat) : Rat) = P := by exact_mod_cast this
          linarith
        push_cast
        rw [hP2]
        field_simp
        ring

/-- flattened sub-channel index ↔ (channel, bin): the reshape/swapaxes index map -/
theorem C20_index_map (P j : Nat) (hP : 0 < P) :
    (j / P) * P + j % P = j ∧ j % P < P ∧ ∀ c k, k < P → (c * P + k) / P = c ∧ (c * P + k) % P = k := by
  refine ⟨by rw [Nat.mul_comm]; exact Nat.div_add_mod j P, Nat.mod_lt j hP, fun c k hk => ⟨?_, ?_⟩⟩
  · rw [Nat.mul_comm, Nat.mul_add_div hP, Nat.div_eq_of_lt hk, Nat.add_zero]
  · rw [Nat.mul_comm, Nat.mul_add_mod, Nat.mod_eq_of_lt hk]

/-- **ISTFT labels**: ISTFT of an STFT returns the original channel labels, rate, start time and
(truncated) length. -/
theorem C20_istft_labels (z : BBSig) (P : Nat) (y w : BBSig) (hwf : WF z.band) (hbw : z.band.bw = z.led.rate)
    (hr : z.led.rate ≠ 0) (h1 : stft z P = .ok y) (h2 : istft y P = .ok w) :
    w.led.t0 = z.led.t0 ∧ w.led.rate = z.led.rate ∧ w.led.len = (z.led.len / P) * P ∧
    w.band.n = z.band.n ∧ w.band.bw = z.band.bw ∧ ∀ c : Int, w.band.label c = z.band.label c := by
  obtain ⟨hP, e1, e2, e3, e4, e5, _⟩ := C20_stft_labels z P y hwf hbw h1
  have hPne : P ≠ 0 := by omega
  have hPq : (P : Rat) ≠ 0 := by exact_mod_cast hPne
  -- centre frequency carried through: y.band.cf = (re-centred) cf of z
  have hcf : ∀ c : Int, ({ cf := y.band.cf, bw := z.band.bw, n := z.band.n, al := "center" } : Band).label c
      = z.band.label c := by
    unfold stft at h1
    simp only [hPne, if_false] at h1
    cases hfs : freqSlice z.band ⟨none, none, none⟩ with
    | error e => simp [hfs] at h1
    | ok r =>
      obtain ⟨B, a⟩ := r
      simp only [hfs] at h1
      obtain ⟨_, hBbw, _, _, _, ha, hn, hlab⟩ := freqSlice_spec z.band _ B a hfs
      have ha0 : a = 0 := by
        have : (a : Int) = adj z.band.n none 0 := ha
        simp [adj] at this; exact this
      have hBn : B.n = z.band.n := by
        have : ((a + B.n : Nat) : Int) = adj z.band.n none z.band.n := hn
        simp only [adj] at this
        subst ha0; simpa using this
      subst ha0
      cases hna : normAlign (B.n * P) (if P % 2 = 1 then "center" else "bottom") with
      | error e => simp [hna] at h1
      | ok al =>
        simp only [hna] at h1
        injection h1 with h1
        subst h1
        intro c
        have hBal : B.al = "center" := by
          unfold freqSlice at hfs
          simp only [Option.getD_none] at hfs
          split at hfs
          · cases hfs
          · split at hfs
            · cases hfs
            · split at hfs
              · cases hfs
              · rw [normAlign_center] at hfs
                simp only at hfs
                injection hfs with hfs
                injection hfs with h1 _
                rw [← h1]
        have := hlab c
        simp only [Nat.cast_zero, zero_add] at this
        rw [← this]
        unfold Band.label
        simp only [hBal, hBbw, hBn]
  unfold istft at h2
  simp only [hPne, if_false] at h2
  have hdiv : y.band.n % P = 0 := by rw [e4]; exact Nat.mul_mod_left _ _
  simp only [hdiv, ne_eq, not_true_eq_false, if_false] at h2
  rw [normAlign_center] at h2
  simp only at h2
  injection h2 with h2
  subst h2
  have hn' : y.band.n / P = z.band.n := by rw [e4, Nat.mul_div_cancel _ (by omega)]
  have hrate : y.led.rate * P = z.led.rate := by rw [e2]; field_simp
  refine ⟨e1, hrate, by simp [e3], hn', by simp only; rw [hrate, hbw], fun c => ?_⟩
  simp only [hn', hrate]
  rw [← hbw]
  exact hcf c

open ZMod in
open scoped ZMod in
/-- **per-segment inversion**: with the forward `1/P` and the inverse `·P` scalings, ISTFT∘STFT is
the identity on every segment, for every `P ≥ 1`. -/
theorem C20_istft_inverse {P : ℕ} [NeZero P] (x : ZMod P → ℂ) :
    𝓕⁻ (fun k => (P : ℂ) * ((1 / (P : ℂ)) * 𝓕 x k)) = x := by
  have hP : (P : ℂ) ≠ 0 := by exact_mod_cast NeZero.ne P
  have : (fun k => (P : ℂ) * ((1 / (P : ℂ)) * 𝓕 x k)) = 𝓕 x := by
    funext k; field_simp
  rw [this]
  exact Pb.Dft.dft_inv x

example : (stft ⟨⟨some 0, 8, 10⟩, ⟨400, 8, 2, "bottom"⟩⟩ 4).toOption.map
    (fun y => (y.led.len, y.band.n)) = some (2, 8) := by
  decide +kernel

/-- the other usual spellings of "largest multiple of `P` not above `len`" -/
theorem keep_alt (len P : Nat) : len / P * P = len - len % P := by
  have h := Nat.div_add_mod len P
  have : len / P * P = P * (len / P) := Nat.mul_comm _ _
  omega

theorem keep_alt2 (len P : Nat) : P * (len / P) = len - len % P := by
  have h := Nat.div_add_mod len P
  omega

set_option linter.unusedTactic false in
set_option linter.unreachableTactic false in
set_option linter.unnecessarySeqFocus false in
set_option linter.unusedSimpArgs false in
/-- Tie to the source: the relabelling arithmetic of `contrib.stft` / `istft`, translated symbolically on every
run (`Gen/Stft.lean`), is what the model's `stft` / `istft` compute: kept length `len − len % P`, rate `/P`
resp. `·P` (also the new channel width), unchanged start, `'center'`/`'bottom'` by the parity of `nfft`,
`'center'` after `istft`, the spectrum divided resp. multiplied by `nperseg`, `nfft` defaulting to `nperseg`. -/
theorem C20_source_formulas :
    (∀ z P r, Pb.Stft.stft z P = .ok r →
      r.led.rate = Gen.Stft.subRate z.led.rate P ∧ r.band.bw = Gen.Stft.subRate z.led.rate P ∧
      r.led.len = Gen.Stft.keepLen z.led.len P / P ∧ r.led.t0 = z.led.t0) ∧
    (∀ z P r, Pb.Stft.istft z P = .ok r →
      r.led.rate = Gen.Stft.joinRate z.led.rate P ∧ r.band.bw = Gen.Stft.joinRate z.led.rate P ∧
      r.led.len = z.led.len * P ∧ r.led.t0 = z.led.t0) ∧
    Gen.Stft.alignOdd = "center" ∧ Gen.Stft.alignEven = "bottom" ∧ Gen.Stft.joinAlign = "center" ∧
    Gen.Stft.stftScale = ("div", "nperseg") ∧ Gen.Stft.istftScale = ("mul", "nperseg") ∧
    Gen.Stft.nfftDefaultsToNperseg = true ∧ Gen.Stft.transforms = ["pb.fft.fft", "pb.fft.ifft"] := by
  refine ⟨?_, ?_, by decide, by decide, by decide, by decide, by decide, by decide, by decide⟩
  · intro z P r h
    unfold Pb.Stft.stft at h
    repeat' (split at h)
    all_goals (cases h)
    all_goals
      refine ⟨?_, ?_, ?_, rfl⟩ <;> dsimp only <;> simp only [Gen.Stft.subRate, Gen.Stft.keepLen, keep_alt, keep_alt2] <;> first | rfl | ring1
  · intro z P r h
    unfold Pb.Stft.istft at h
    repeat' (split at h)
    all_goals (cases h)
    all_goals
      refine ⟨?_, ?_, rfl, rfl⟩ <;> dsimp only <;> simp only [Gen.Stft.joinRate] <;> first | rfl | ring1

end Pb.C20
