import PbProofs.Concat
import PbModel.Gen.Concat

/-! # C10 — concatenate is the exact inverse of splitting and refuses non-contiguous pieces

Model: `PbModel/Concat.lean` (transliteration of `transforms.concatenate` on class ids, time
ledgers and bands).  Pieces of a split are `timePiece`/`freqPiece`, which by C01/C02 is what
`z[a:b]` / `z[:, a:b]` return. -/

namespace Pb.C10
open Pb.Crop Pb.Freq Pb.Concat

/-- **time split/concat**: for every signal, every list of piece lengths (repeated cut points =
empty pieces, end points) and every pattern of pieces lacking a start time, concatenation
succeeds and returns the original class, sample rate, total length and start time (when at least
one piece kept it), with the same channel labels. -/
theorem C10_split_concat_time (α : Rat) (hα : 0 ≤ α) (cls : Nat) (L : Ledger) (B : Option Band)
    (hr : L.rate ≠ 0) (hbw : ∀ b, B = some b → 0 ≤ b.bw) (parts : List (Nat × Bool)) (hne : parts ≠ [])
    (hlen : (parts.map (·.1)).sum = L.len) :
    ∃ r, concat α .time (timePieces cls L B 0 parts) = .ok r ∧ r.cls = cls ∧ r.led.rate = L.rate ∧
      r.led.len = L.len ∧ (parts.any (·.2) = true → r.led.t0 = L.t0) ∧
      (parts.any (·.2) = false → r.led.t0 = none) ∧
      (B = none → r.band = none) ∧
      (∀ b, B = some b → ∃ b', r.band = some b' ∧ b'.n = b.n ∧ b'.bw = b.bw ∧
        ∀ i : Int, b'.label i = b.label i) := by
  refine ⟨_, concat_time_pieces α hα cls L B hr hbw 0 parts hne, rfl, rfl, hlen, ?_, ?_, ?_, ?_⟩
  · intro h
    simp only [h, Bool.true_and]
    cases L.t0 <;> simp
  · intro h; simp [h]
  · intro h; simp [h]
  · intro b hb
    subst hb
    exact ⟨recenter b, rfl, rfl, rfl, recenter_label' b⟩

/-- **associativity / grouping**: concatenating the first `A` pieces and the remaining `B` pieces
separately and then joining the two results gives the same ledger and band as joining all at once. -/
theorem C10_assoc (α : Rat) (hα : 0 ≤ α) (cls : Nat) (L : Ledger) (Bd : Option Band)
    (hr : L.rate ≠ 0) (hbw : ∀ b, Bd = some b → 0 ≤ b.bw) (A B : List (Nat × Bool)) (hA : A ≠ [])
    (hB : B ≠ []) :
    ∃ rA rB rAB r,
      concat α .time (timePieces cls L Bd 0 A) = .ok rA ∧
      concat α .time (timePieces cls L Bd (A.map (·.1)).sum B) = .ok rB ∧
      concat α .time [rA, rB] = .ok rAB ∧
      concat α .time (timePieces cls L Bd 0 (A ++ B)) = .ok r ∧
      rAB.led = r.led ∧ rAB.cls = r.cls ∧
      (∀ b, r.band = some b → ∃ b', rAB.band = some b' ∧ b'.n = b.n ∧ b'.bw = b.bw ∧
        ∀ i : Int, b'.label i = b.label i) := by
  have e1 := concat_time_pieces α hα cls L Bd hr hbw 0 A hA
  have e2 := concat_time_pieces α hα cls L Bd hr hbw (A.map (·.1)).sum B hB
  have e3 := concat_time_pieces α hα cls L Bd hr hbw 0 (A ++ B) (by simp [hA])
  have hbw' : ∀ b, Bd.map recenter = some b → 0 ≤ b.bw := by
    intro b hb
    cases Bd with
    | none => simp at hb
    | some b0 =>
      simp only [Option.map_some, Option.some.injEq] at hb
      subst hb; exact hbw b0 rfl
  rw [concat_result_is_piece] at e1 e2
  have hpair : [timePiece cls L (Bd.map recenter) 0 (A.map (·.1)).sum (A.any (·.2)),
                timePiece cls L (Bd.map recenter) (A.map (·.1)).sum (B.map (·.1)).sum (B.any (·.2))]
      = timePieces cls L (Bd.map recenter) 0
          [((A.map (·.1)).sum, A.any (·.2)), ((B.map (·.1)).sum, B.any (·.2))] := by
    simp [timePieces]
  have e4 := concat_time_pieces α hα cls L (Bd.map recenter) hr hbw' 0
    [((A.map (·.1)).sum, A.any (·.2)), ((B.map (·.1)).sum, B.any (·.2))] (by simp)
  rw [← hpair] at e4
  refine ⟨_, _, _, _, e1, e2, e4, e3, ?_, rfl, ?_⟩
  · simp only [List.any_append, List.any_cons, List.any_nil, Bool.or_false, List.map_cons, List.map_nil,
      List.sum_cons, List.sum_nil, List.map_append, List.sum_append, Nat.add_zero]
  · intro b hb
    cases Bd with
    | none => simp at hb
    | some b0 =>
      simp only [Option.map_some, Option.some.injEq] at hb
      subst hb
      exact ⟨recenter (recenter b0), rfl, rfl, rfl, fun i => recenter_label' _ i⟩

/-- **frequency split/concat**: for every band, every list of channel-range lengths starting at
any offset, concatenation along frequency returns the band of the spanned range: total channel
count, same `chan_bw`, and labels equal to the original's labels of that range. -/
theorem C10_split_concat_freq (α : Rat) (hα : 0 ≤ α) (cls : Nat) (L : Ledger) (B : Band) (off : Nat)
    (lens : List Nat) (hne : lens ≠ []) :
    ∃ b', concat α .freq (freqPieces cls L B off lens) = .ok { cls := cls, led := L, band := some b' } ∧
      b'.n = lens.sum ∧ b'.bw = B.bw ∧ ∀ j : Int, b'.label j = B.label (off + j) :=
  ⟨freqPiece B off lens.sum, concat_freq_pieces α hα cls L B off lens hne, rfl, rfl,
   freqPiece_label B off lens.sum⟩

/-- **rejections** -/
theorem C10_rejects_empty (α : Rat) (ax : Axis) : concat α ax [] = .error .valueError := rfl

theorem C10_rejects_type_mix (α : Rat) (ax : Axis) (p0 : Piece) (rest : List Piece)
    (h : (p0 :: rest).all (fun p => p.cls == p0.cls) = false) :
    concat α ax (p0 :: rest) = .error .typeError := by
  unfold concat
  simp [h]

theorem C10_rejects_rate (α : Rat) (ax : Axis) (p0 : Piece) (rest : List Piece)
    (h1 : (p0 :: rest).all (fun p => p.cls == p0.cls) = true)
    (h2 : (p0 :: rest).all (fun p => uclose p0.led.rate p.led.rate) = false) :
    concat α ax (p0 :: rest) = .error .valueError := by
  unfold concat
  simp [h1, h2]

/-- a gap, overlap or swap: after a contiguous prefix that fixed the reference start, a piece
whose start differs by more than `α` from where the running sample count puts it makes the whole
concatenation fail with ValueError — whatever follows. -/
theorem C10_rejects_gap (α : Rat) (hα : 0 ≤ α) (cls : Nat) (L : Ledger) (B : Option Band)
    (hr : L.rate ≠ 0) (good : List (Nat × Bool)) (bad : Piece) (rest : List Piece) (t tb : Rat)
    (hcls : bad.cls = cls) (hrate : bad.led.rate = L.rate)
    (hrest1 : rest.all (fun p => p.cls == cls) = true)
    (hrest2 : rest.all (fun p => uclose L.rate p.led.rate) = true)
    (hgood : good ≠ []) (hkeep : good.any (·.2) = true) (ht : L.t0 = some t)
    (hb : bad.led.t0 = some tb)
    (hgap : α < rabs (t + ((good.map (·.1)).sum : Nat) / L.rate - tb)) :
    concat α .time (timePieces cls L B 0 good ++ bad :: rest) = .error .valueError := by
  obtain ⟨⟨len0, keep0⟩, grest, rfl⟩ : ∃ hd tl, good = hd :: tl := by
    cases good with
    | nil => exact absurd rfl hgood
    | cons hd tl => exact ⟨hd, tl, rfl⟩
  have hps : timePieces cls L B 0 ((len0, keep0) :: grest) ++ bad :: rest
      = timePiece cls L B 0 len0 keep0 ::
        (timePieces cls L B (0 + len0) grest ++ bad :: rest) := rfl
  have hall1 : (timePieces cls L B 0 ((len0, keep0) :: grest) ++ bad :: rest).all
      (fun p => p.cls == cls) = true := by
    rw [List.all_append, timePieces_all cls L B (fun p => p.cls == cls) (by intros; simp [timePiece])]
    simp [hcls, hrest1]
  have hall2 : (timePieces cls L B 0 ((len0, keep0) :: grest) ++ bad :: rest).all
      (fun p => uclose L.rate p.led.rate) = true := by
    rw [List.all_append, timePieces_all cls L B (fun p => uclose L.rate p.led.rate)
      (by intros; simp [timePiece, uclose_self])]
    simp [hrate, uclose_self, hrest2]
  have hloop := timeLoop_pieces α hα cls L B hr 0 ((len0, keep0) :: grest) 0 none (Or.inl rfl)
  simp only [Nat.add_zero] at hloop
  have hfull : timeLoop α L.rate (timePieces cls L B 0 ((len0, keep0) :: grest) ++ bad :: rest) 0 none
      = .error .valueError := by
    rw [timeLoop_append, hloop]
    simp only [hkeep, ht, Option.isSome_some, Bool.and_self, if_true, Option.map_some, Nat.zero_add]
    apply timeLoop_reject α L.rate bad rest _ _ tb hb
    simpa using hgap
  unfold concat
  rw [hps]
  simp only
  rw [← hps]
  have hc : (timePiece cls L B 0 len0 keep0).cls = cls := rfl
  have hrt : (timePiece cls L B 0 len0 keep0).led.rate = L.rate := rfl
  simp only [hc, hrt, hall1, hall2, not_true_eq_false, if_false, hfull]

/-- when joining along time or a trailing axis, a piece whose channel labels are offset by one
channel or more from the first piece's is rejected (after the `fix:` of the tolerance). -/
theorem C10_rejects_labels (α : Rat) (ax : Axis) (hax : ax ≠ .freq) (p0 : Piece) (rest : List Piece)
    (b0 : Band) (h0 : p0.band = some b0) (hbw : 0 < b0.bw) (hn : 1 ≤ b0.n)
    (q : Piece) (hq : q ∈ rest) (bq : Band) (hbq : q.band = some bq)
    (hshift : b0.bw ≤ rabs (b0.label 0 - bq.label 0)) (r : Piece) :
    concat α ax (p0 :: rest) ≠ .ok r := by
  have hmem : bq ∈ (p0 :: rest).filterMap (·.band) := by
    rw [List.mem_filterMap]; exact ⟨q, by simp [hq], hbq⟩
  have hfalse : ((p0 :: rest).filterMap (·.band)).all (fun b => labelsClose b0 b) = false := by
    apply Bool.eq_false_iff.mpr
    intro hall
    rw [List.all_eq_true] at hall
    have := hall bq hmem
    rw [labelsClose_shift b0 bq hbw hn hshift] at this
    cases this
  unfold concat
  simp only [h0]
  split
  · simp
  · split
    · simp
    · split
      · simp
      · split
        · simp
        · cases ax with
          | freq => exact absurd rfl hax
          | time => simp [hfalse]
          | other => simp [hfalse]

/-- joining along frequency needs radio signals -/
theorem C10_freq_needs_radio (α : Rat) (p0 : Piece) (rest : List Piece) (h : p0.band = none) (r : Piece) :
    concat α .freq (p0 :: rest) ≠ .ok r := by
  unfold concat
  simp only [h]
  split
  · simp
  · split
    · simp
    · split
      · simp
      · simp

/-- **axis spellings**: a negative integer names the same axis as its non-negative counterpart, `0`
and `'time'` agree, and `1` and `'freq'` agree on radio signals — so the contiguity tests above apply
to every way of writing the axis. -/
theorem C10_axis_spellings (ndim : Nat) (radio : Bool) (a : Int) (h0 : 0 ≤ a) (h1 : a < ndim) :
    axisOf ndim radio (.idx (a - ndim)) = axisOf ndim radio (.idx a) ∧
    (0 < ndim → axisOf ndim radio (.idx 0) = axisOf ndim radio (.name "time")) ∧
    (1 < ndim → radio = true → axisOf ndim radio (.idx 1) = axisOf ndim radio (.name "freq")) := by
  refine ⟨?_, ?_, ?_⟩
  · unfold axisOf
    have hneg : a - (ndim : Int) < 0 := by omega
    have hnn : ¬ a < 0 := by omega
    have e : a - (ndim : Int) + ndim = a := by omega
    simp only [hneg, hnn, if_true, if_false, e, false_or]
  · intro h
    have hn : ndim ≠ 0 := by omega
    simp [axisOf, hn]
  · intro h hr
    subst hr
    have hn : ¬ (ndim : Int) ≤ 1 := by omega
    simp [axisOf, hn]

-- non-vacuity: 10 samples at 2 Hz cut into 3 + 0 + 7, middle piece without start time
example : (concat (1/1000) .time (timePieces 0 ⟨some 5, 2, 10⟩ none 0 [(3, true), (0, false), (7, true)])).toOption.map
    (fun r => (r.led.t0, r.led.len)) = some (some 5, 10) := by decide +kernel

set_option linter.unusedTactic false in
set_option linter.unreachableTactic false in
set_option linter.unnecessarySeqFocus false in
/-- Tie to the source: the arithmetic of `concatenate`, translated symbolically on every run (`Gen/Concat.lean`), is
the model's: the reference start taken from the first stamped piece and the start expected of every later stamped
piece (one step of `timeLoop` each), the new centre `(f0 + f1)/2` with alignment `'center'`, the label
difference tested for frequency contiguity, and the absolute label tolerance `1e-5·chan_bw` (no relative part)
along other axes. -/
theorem C10_source_formulas :
    (∀ (α sr : Rat) (p : Piece) (rest : List Piece) (n : Nat) (t : Rat), p.led.t0 = some t →
      timeLoop α sr (p :: rest) n none
        = timeLoop α sr rest (n + p.led.len) (some (Gen.Concat.refStart t n sr))) ∧
    (∀ (α sr : Rat) (p : Piece) (rest : List Piece) (n : Nat) (t r : Rat), p.led.t0 = some t →
      timeLoop α sr (p :: rest) n (some r)
        = if isclose α (Gen.Concat.expectedStart r n sr) t = true
          then timeLoop α sr rest (n + p.led.len) (some r) else .error .valueError) ∧
    (∀ f0 f1 : Rat, Gen.Concat.centre f0 f1 = (f0 + f1) / 2) ∧
    (∀ y0 xl : Rat, Gen.Concat.chanDiff y0 xl = y0 - xl) ∧
    (∀ bw : Rat, Gen.Concat.labelAtol bw = (1 / 100000) * bw) ∧
    Gen.Concat.labelRtol = some 0 ∧ Gen.Concat.resultAlign = "center" ∧ Gen.Concat.countsSamples = true := by
  refine ⟨?_, ?_, ?_, ?_, ?_, by decide, by decide, by decide⟩
  · intro α sr p rest n t h
    have e : Gen.Concat.refStart t n sr = t - n / sr := by
      simp only [Gen.Concat.refStart] <;> first | rfl | ring1
    rw [timeLoop, h, e]
  · intro α sr p rest n t r h
    have e : Gen.Concat.expectedStart r n sr = r + n / sr := by
      simp only [Gen.Concat.expectedStart] <;> first | rfl | ring1
    rw [timeLoop, h, e]
  · intro f0 f1
    simp only [Gen.Concat.centre] <;> first | rfl | ring1
  · intro y0 xl
    simp only [Gen.Concat.chanDiff] <;> first | rfl | ring1
  · intro bw
    simp only [Gen.Concat.labelAtol] <;> first | rfl | ring1

end Pb.C10
