import PbProofs.Effect
import PbModel.Gen.Effects

/-! # C14 — No operation modifies the signal or arguments it is given

`PbModel/Gen/Effects.lean` is regenerated on every run from core.py, transforms.py,
dedispersion.py, contrib/misc.py and utils.py: one effect program per function/method/nested
function.  `Pb.Effect.ana` is the flow-sensitive may-alias analysis; `Entry.safe` means it accepts
the program when exactly the parameters (and closure variables) may point to pre-existing
buffers.  The only sanctioned mutation — the explicit `out=` target of `__array_ufunc__` — is
expressed by not tainting that one parameter. -/

namespace Pb.C14
open Pb.Effect

/-- **soundness of the analysis** (every program, every execution): an accepted program, run in
any environment in which only its tainted variables may refer to buffers that existed before the
call (ids `< B`), writes only buffers allocated during the call. -/
theorem C14_safe_sound (e : Entry) (hs : e.safe = true) (B : Nat) (ρ ρ' : Env) (ws : List Nat)
    (hρ : ∀ x, x < e.nvars → ρ x < B → x ∈ e.tainted) (he : Exec B ρ e.prog ρ' ws) :
    ∀ w ∈ ws, B ≤ w := safe_sound e hs B ρ ρ' ws hρ he

/-- **every generated program is accepted** — the quantifier is the finite set of functions of the
five source files as they are NOW (translator output); a new in-place statement on an input alias
makes this `decide` fail. -/
theorem C14_all_safe : Gen.Effects.programs.all (·.safe) = true ∧ Gen.Effects.extractOk = true := by
  constructor
  · decide +kernel
  · rfl

/-- **histories**: in any sequence of calls of accepted programs, each started with a watermark at
least `B₀` (buffers that existed before the first call also exist before the later ones), no
buffer below `B₀` is ever written — inputs shared between calls stay bit-identical. -/
theorem C14_history (B0 : Nat)
    (runs : List (Entry × Nat × Env × Env × List Nat))
    (h : ∀ r ∈ runs, r.1.safe = true ∧ B0 ≤ r.2.1 ∧
      (∀ x, x < r.1.nvars → r.2.2.1 x < r.2.1 → x ∈ r.1.tainted) ∧
      Exec r.2.1 r.2.2.1 r.1.prog r.2.2.2.1 r.2.2.2.2) :
    ∀ r ∈ runs, ∀ w ∈ r.2.2.2.2, B0 ≤ w := by
  intro r hr w hw
  obtain ⟨h1, h2, h3, h4⟩ := h r hr
  exact Nat.le_trans h2 (C14_safe_sound r.1 h1 r.2.1 r.2.2.1 r.2.2.2.1 r.2.2.2.2 h3 h4 w hw)

/-- the analysis is not vacuous: it rejects a view-then-scale of a parameter
(`x = z.data.reshape(...); x *= k`), the shape of the defect found in `contrib.istft`. -/
theorem C14_rejects_view_write :
    (Entry.mk "witness" 2 [0] (seqs [.assign 1 (.viewOf [0]), .write 1])).safe = false := by
  decide +kernel

/-- … and accepts the same write once the name has been rebound to a fresh array. -/
theorem C14_accepts_rebound :
    (Entry.mk "witness" 2 [0] (seqs [.assign 1 (.viewOf [0]), .assign 1 .fresh, .write 1])).safe = true := by
  decide +kernel

end Pb.C14
