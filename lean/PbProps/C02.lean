import PbProofs.Freq

/-! # C02 — Channel frequency labels follow the band model and survive frequency slicing

Model: `PbModel/Freq.lean`; alignment offsets, allowed names, odd rule and `_stokes_ids` come from
the translator (`PbModel/Gen/Align.lean`, `PbModel/Gen/Classes.lean`). -/

namespace Pb.C02
open Pb.Crop Pb.Freq

/-- translator-fed: the source's alignment table, allowed set and odd-`nchan` rule are the
documented ones (`a = 0, 1/2, 1` for bottom/center/top; odd ⇒ center). -/
theorem C02_align_table :
    Gen.Align.alignTable = [("bottom", 0), ("center", (1 : Rat) / 2), ("top", 1)] ∧
    Gen.Align.alignAllowed = ["bottom", "center", "top"] ∧
    Gen.Align.oddAlign = some "center" ∧ Gen.Align.extractOk = true := align_table_eq

/-- channel `i` of a constructed band is `cf + bw·(i + a − n/2)` with `a ∈ {0, 1/2, 1}` by name,
forced to `1/2` when `n` is odd; names outside the set are refused. -/
theorem C02_label_formula (cf bw : Rat) (n : Nat) (al : String) :
    (∀ B, mkBand cf bw n al = .ok B →
      ∃ a : Rat, (∀ i : Int, B.label i = cf + bw * (i + a - n / 2)) ∧
        ((n % 2 = 1 ∨ al = "center") → a = 1 / 2) ∧
        (n % 2 = 0 → al = "bottom" → a = 0) ∧ (n % 2 = 0 → al = "top" → a = 1)) ∧
    (¬ (al = "bottom" ∨ al = "center" ∨ al = "top") → mkBand cf bw n al = .error .valueError) := by
  constructor
  · intro B hB
    unfold mkBand at hB
    split at hB
    · cases hB
    · rename_i a' ha
      injection hB with hB; subst hB
      refine ⟨(alignVal? a').getD 0, fun i => rfl, ?_, ?_, ?_⟩
      · intro h
        rcases h with h | h
        · rw [normAlign_odd n al h a' ha, alignVal_center]; rfl
        · subst h; rw [normAlign_center] at ha; injection ha with ha; subst ha
          rw [alignVal_center]; rfl
      · intro he hb; subst hb
        unfold normAlign at ha
        rw [align_table_eq.2.1] at ha
        simp [he] at ha; subst ha; rw [alignVal_bottom]; rfl
      · intro he hb; subst hb
        unfold normAlign at ha
        rw [align_table_eq.2.1] at ha
        simp [he] at ha; subst ha; rw [alignVal_top]; rfl
  · intro h
    unfold mkBand
    rw [normAlign_reject n al h]

/-- labels are evenly spaced by `chan_bw` -/
theorem C02_spacing (B : Band) (i : Int) : B.label (i + 1) - B.label i = B.bw := label_succ B i

/-- labels lie inside `[min_freq, max_freq]`, whose width is `nchan·chan_bw` -/
theorem C02_in_band (B : Band) (h : WF B) (hbw : 0 < B.bw) (i : Int) (h0 : 0 ≤ i) (hn : i < B.n) :
    B.minFreq ≤ B.label i ∧ B.label i ≤ B.maxFreq ∧ B.maxFreq - B.minFreq = B.bw * B.n :=
  ⟨(label_in_band B h hbw i h0 hn).1, (label_in_band B h hbw i h0 hn).2, band_width B⟩

/-- **frequency slice**: for every accepted `a:b` (negative/open/out-of-range bounds included) the
result has `b−a ≥ 1` channels whose labels are the selected labels of the original. -/
theorem C02_freq_slice (B : Band) (s : PySlice) (B' : Band) (a : Nat)
    (h : freqSlice B s = .ok (B', a)) :
    WF B' ∧ B'.bw = B.bw ∧ 1 ≤ B'.n ∧ a + B'.n ≤ B.n ∧
    (a : Int) = adj B.n s.start 0 ∧ ((a + B'.n : Nat) : Int) = adj B.n s.stop B.n ∧
    ∀ j : Int, B'.label j = B.label (a + j) := by
  obtain ⟨h1, h2, h3, h4, _, h6, h7, h8⟩ := freqSlice_spec B s B' a h
  exact ⟨h1, h2, h3, h4, h6, h7, h8⟩

/-- empty ranges and steps other than 1 are refused (no object is produced) -/
theorem C02_freq_slice_rejects (B : Band) (s : PySlice) :
    (s.step.getD 1 ≠ 1 → ∃ e, freqSlice B s = .error e) ∧
    (s.step.getD 1 = 1 → ¬ (adj B.n s.start 0 < adj B.n s.stop B.n) →
      freqSlice B s = .error .assertionError) := by
  constructor
  · intro h
    unfold freqSlice
    simp only
    split
    · exact ⟨_, rfl⟩
    · simp
  · intro h1 h2
    unfold freqSlice
    simp [h1, h2]

/-- **repeated slicing**: after any list of frequency slices, channel `j` of the result carries the
label of channel `off + j` of the ORIGINAL band. -/
theorem C02_nested (B0 : Band) (ops : List PySlice) (B' : Band) (off' : Nat)
    (h : freqPipeline B0 0 ops 0 = .ok (B', off')) :
    (∀ j : Int, B'.label j = B0.label (off' + j)) ∧ off' + B'.n ≤ B0.n ∧ B'.bw = B0.bw :=
  let r := freqPipeline_spec B0 ops B0 0 0 B' off' (fun j => by simp) (by simp) rfl h
  ⟨r.1, r.2.1, r.2.2.1⟩

/-- combined time+frequency slice: the time ledger is that of the time slice alone; the band is
that of the frequency slice alone — exactly so unless the class is a baseband class AND the time
step exceeds 1 (then `chan_bw` is re-derived from the new sample rate: see `C02_baseband_rescale`). -/
theorem C02_time_freq (z : RadioSig) (ts fs : PySlice) (r : RadioSig)
    (h : getItem z ts (some fs) = .ok r) :
    ∃ σ B' a, timeSlice z.led.len ts = .ok σ ∧ freqSlice z.band fs = .ok (B', a) ∧
      r.led = z.led.select σ ∧ r.band = rescale z.baseband σ.stride B' ∧
      ((z.baseband = false ∨ σ.stride = 1) → r.band = B' ∧ ∀ j : Int, r.band.label j = z.band.label (a + j)) := by
  unfold getItem at h
  split at h
  · cases h
  · rename_i σ hσ
    simp only at h
    split at h
    · cases h
    · rename_i B' a hB
      injection h with h; subst h
      refine ⟨σ, B', a, hσ, hB, rfl, rfl, fun hc => ?_⟩
      have e : rescale z.baseband σ.stride B' = B' := by
        unfold rescale
        rcases hc with hc | hc
        · simp [hc]
        · simp [hc]
      simp only [e, true_and]
      exact (freqSlice_spec z.band fs B' a hB).2.2.2.2.2.2.2

/-- a pure time slice of a non-baseband signal (or with step 1) never changes the band -/
theorem C02_time_only (z : RadioSig) (ts : PySlice) (r : RadioSig) (h : getItem z ts none = .ok r) :
    ∃ σ, timeSlice z.led.len ts = .ok σ ∧ r.band = rescale z.baseband σ.stride z.band ∧
      ((z.baseband = false ∨ σ.stride = 1) → r.band = z.band) := by
  unfold getItem at h
  split at h
  · cases h
  · rename_i σ hσ
    simp only at h
    injection h with h; subst h
    refine ⟨σ, hσ, rfl, fun hc => ?_⟩
    unfold rescale
    rcases hc with hc | hc <;> simp [hc]

/-- **finding (F02), proved on the model**: on a baseband class a stepped time slice rescales
`chan_bw`, so the channel labels of `z[::2, 1:]` are NOT the selected labels of `z`. -/
theorem C02_baseband_rescale_witness :
    ∃ r, getItem { led := ⟨some 0, 1, 8⟩, band := ⟨400, 1, 4, "bottom"⟩, baseband := true }
        ⟨none, none, some 2⟩ (some ⟨some 1, none, none⟩) = .ok r ∧
      r.band.label 0 ≠ (⟨400, 1, 4, "bottom"⟩ : Band).label 1 := by
  refine ⟨_, rfl, ?_⟩
  decide +kernel

/-- Stokes component access never changes time or frequency labels; unknown keys raise KeyError;
the index is the generated `_stokes_ids` entry (`I,Q,U,V ↦ 0,1,2,3`). -/
theorem C02_component_keeps_labels (z : RadioSig) (key : String) :
    (∀ r i, stokesGet z key = .ok (r, i) → r = z ∧ Gen.Classes.stokesIds.lookup key = some i) ∧
    Gen.Classes.stokesIds = [("I", 0), ("Q", 1), ("U", 2), ("V", 3)] := by
  refine ⟨fun r i h => ?_, rfl⟩
  unfold stokesGet at h
  split at h
  · cases h
  · rename_i j hj
    injection h with h; injection h with h1 h2
    subst h1; subst h2; exact ⟨rfl, hj⟩

-- non-vacuity: an 8-channel 'bottom' band sliced twice
example : (freqPipeline ⟨400, 1, 8, "bottom"⟩ 0 [⟨some 2, some 7, none⟩, ⟨some (-2), none, none⟩] 0).toOption.map
    (fun r => (r.1.n, r.2, r.1.label 0)) = some (2, 5, 401) := by
  decide +kernel

set_option linter.unusedTactic false in
set_option linter.unreachableTactic false in
set_option linter.unnecessarySeqFocus false in
/-- Tie to the source: the expressions returned by `channel_freqs`, `bandwidth`, `max_freq`, `min_freq` and the
new centre computed by `_freq_slice`, translated symbolically on every run (`Gen/Align.lean`), are the model's
functions; `_freq_slice` selects `self.channel_freqs[s]` and sets the alignment to `'center'`.  Algebraically
equal rewrites of the source keep this theorem. -/
theorem C02_source_formulas :
    (∀ (B : Band) (i : Int), Gen.Align.labelFormula B.cf B.bw B.n ((alignVal? B.al).getD 0) i = B.label i) ∧
    (∀ B : Band, Gen.Align.bandwidthFormula B.bw B.n = B.bandwidth) ∧
    (∀ B : Band, Gen.Align.maxFreqFormula B.cf B.bw B.n = B.maxFreq) ∧
    (∀ B : Band, Gen.Align.minFreqFormula B.cf B.bw B.n = B.minFreq) ∧
    (∀ f0 f1 : Rat, Gen.Align.sliceCentreFormula f0 f1 = (f0 + f1) / 2) ∧
    Gen.Align.sliceAlign = some "center" ∧ Gen.Align.sliceSelection = "self.channel_freqs[s]" := by
  refine ⟨?_, ?_, ?_, ?_, ?_, by decide, by decide⟩
  · intro B i
    simp only [Gen.Align.labelFormula, Band.label] <;> first | rfl | ring1
  · intro B
    simp only [Gen.Align.bandwidthFormula, Band.bandwidth] <;> first | rfl | ring1
  · intro B
    simp only [Gen.Align.maxFreqFormula, Band.maxFreq] <;> first | rfl | ring1
  · intro B
    simp only [Gen.Align.minFreqFormula, Band.minFreq] <;> first | rfl | ring1
  · intro f0 f1
    simp only [Gen.Align.sliceCentreFormula] <;> first | rfl | ring1

end Pb.C02
