import PbProofs.Crop

/-! # C12 — snippet returns exactly n samples starting exactly at the requested time

Model: `Pb.Crop.opSel … (.snippet t n)` (transliteration of `transforms.snippet` including the
`time_shift(crop=True)` it calls and that function's `allclose(shift, 0)` early return) and
`Pb.Crop.snippet` (normalisation of the three forms of `t`). -/

namespace Pb.C12
open Pb.Crop

theorem floor_props (t : Rat) : ((t.floor : Int) : Rat) ≤ t ∧ t < (t.floor : Int) + 1 := by
  refine ⟨Rat.floor_le t, ?_⟩
  have := Rat.lt_floor_add_one t
  push_cast at this
  exact this

/-- **length and start**: for every length `len`, every `0 ≤ t`, `0 ≤ n`, `t + n ≤ len`
(whole or fractional `t`), the result has exactly `n` samples, stride 1, and its sample 0 sits at
input position exactly `t`. -/
theorem C12_len_start (len : Nat) (t : Rat) (n : Int) (h0 : 0 ≤ t) (hn : 0 ≤ n)
    (hb : t + n ≤ len) :
    ∃ σ, opSel len (.snippet t n) = .ok σ ∧ (σ.count : Int) = n ∧ σ.stride = 1 ∧
      (σ.first : Rat) + σ.off = t := by
  obtain ⟨hf1, hf2⟩ := floor_props t
  have hi0 : 0 ≤ t.floor := by
    have : (0 : Rat) < (t.floor : Int) + 1 := lt_of_le_of_lt h0 hf2
    have : (0 : Int) < t.floor + 1 := by exact_mod_cast this
    omega
  have hn' : ¬ (n < 0) := by omega
  have hbnd : ¬ (t < 0 ∨ (len : Rat) < t + n) := by
    intro h; rcases h with h | h <;> linarith
  simp only [opSel, hn', if_false, hbnd]
  by_cases hfrac : ((t.floor : Int) : Rat) < t
  · simp only [hfrac, if_true]
    -- i + n ≤ len - 1 because t is not an integer
    have hlt : ((t.floor + n : Int) : Rat) < len := by push_cast; linarith
    have hlt' : t.floor + n < len := by exact_mod_cast hlt
    have hlen1 : 1 ≤ len := by omega
    by_cases hac : allCloseZero [((t.floor : Int) : Rat) - t] = true
    · simp only [hac, if_true]
      rw [range_interval len _ _ hi0 (by omega)]
      refine ⟨_, rfl, ?_, rfl, ?_⟩
      · simp only; omega
      · simp only
        have : ((min t.floor (len : Int)).toNat : Rat) = (t.floor : Int) := by
          have e : min t.floor (len : Int) = t.floor := by omega
          rw [e]
          have := Int.toNat_of_nonneg hi0
          exact_mod_cast congrArg (fun z : Int => (z : Rat)) this
        rw [this]; ring
    · simp only [hac, Bool.false_eq_true, if_false]
      have hsb : shiftBounds [((t.floor : Int) : Rat) - t] = (0, -1) := by
        have hneg : ((t.floor : Int) : Rat) - t < 0 := by linarith
        have hfl : floor (((t.floor : Int) : Rat) - t) = -1 := by
          unfold floor
          have h1 : (((t.floor : Int) : Rat) - t).floor < 0 := Rat.floor_lt_iff.mpr (by push_cast; linarith)
          have h2 : (-1 : Int) ≤ (((t.floor : Int) : Rat) - t).floor := Rat.le_floor_iff.mpr (by push_cast; linarith)
          omega
        simp [shiftBounds, hneg, hfl]
      simp only [hsb]
      have hm : max ((len : Int) + -1) 0 = (len : Int) - 1 := by omega
      rw [hm, range_interval len 0 _ (le_refl _) (by omega)]
      simp only
      have hc1 : ((min ((len : Int) - 1) (len : Int)) - (min (0 : Int) (len : Int))).toNat = len - 1 := by omega
      rw [hc1, range_interval (len - 1) _ _ hi0 (by omega)]
      refine ⟨_, rfl, ?_, rfl, ?_⟩
      · simp only; omega
      · simp only
        have : ((min t.floor ((len - 1 : Nat) : Int)).toNat : Rat) = (t.floor : Int) := by
          have e : min t.floor ((len - 1 : Nat) : Int) = t.floor := by omega
          rw [e]
          have := Int.toNat_of_nonneg hi0
          exact_mod_cast congrArg (fun z : Int => (z : Rat)) this
        rw [this]; ring
  · simp only [hfrac, if_false]
    have hte : t = ((t.floor : Int) : Rat) := le_antisymm (not_lt.mp hfrac) hf1
    have hle : ((t.floor + n : Int) : Rat) ≤ len := by push_cast; linarith
    have hle' : t.floor + n ≤ len := by exact_mod_cast hle
    rw [range_interval len _ _ hi0 (by omega)]
    refine ⟨_, rfl, ?_, rfl, ?_⟩
    · simp only; omega
    · simp only
      have : ((min t.floor (len : Int)).toNat : Rat) = (t.floor : Int) := by
        have e : min t.floor (len : Int) = t.floor := by omega
        rw [e]
        have := Int.toNat_of_nonneg hi0
        exact_mod_cast congrArg (fun z : Int => (z : Rat)) this
      rw [this, ← hte]; ring

/-- hence the result's start time is `start_time + t / sample_rate`, its rate is unchanged, and a
signal without start time stays without. -/
theorem C12_start_time (L : Ledger) (t : Rat) (n : Int) (hr : L.rate ≠ 0) (h0 : 0 ≤ t) (hn : 0 ≤ n)
    (hb : t + n ≤ L.len) :
    ∃ L' σ, apply L (.snippet t n) = .ok (L', σ) ∧ (L'.len : Int) = n ∧ L'.rate = L.rate ∧
      L'.t0 = L.t0.map (· + t / L.rate) ∧ ∀ k : Nat, L'.timeAt k = L.timeAt (t + k) := by
  obtain ⟨σ, h1, h2, h3, h4⟩ := C12_len_start L.len t n h0 hn hb
  refine ⟨L.select σ, σ, by simp [apply, h1], h2, ?_, ?_, fun k => ?_⟩
  · simp [Ledger.select, h3]
  · simp [Ledger.select, h4]
  · rw [select_timeAt L σ hr (by omega), h3, h4]; simp

/-- **whole-sample `t`** gives exactly `z[t : t+n]` (same selection as the slice) -/
theorem C12_whole (len : Nat) (i n : Int) (h0 : 0 ≤ i) (hn : 0 ≤ n) (hb : i + n ≤ len) :
    opSel len (.snippet (i : Rat) n) = timeSlice len ⟨some i, some (i + n), none⟩ := by
  have hn' : ¬ (n < 0) := by omega
  have hbnd : ¬ ((i : Rat) < 0 ∨ (len : Rat) < (i : Rat) + n) := by
    intro h
    rcases h with h | h
    · have : i < 0 := by exact_mod_cast h
      omega
    · have : ((len : Int) : Rat) < ((i + n : Int) : Rat) := by push_cast; exact h
      have : (len : Int) < i + n := by exact_mod_cast this
      omega
  have hfl : (i : Rat).floor = i := Rat.floor_intCast i
  simp only [opSel, hn', if_false, hbnd, hfl, lt_self_iff_false]
  rfl

/-- **rejections**: negative `n`, `t < 0`, `t + n > len`, and a `Time` for a signal without a
start time all raise ValueError (nothing is returned). -/
theorem C12_rejects (L : Ledger) (f : TForm) (n : Int) :
    (n < 0 → snippet L f n = .error .valueError) ∧
    (∀ a, f = .time a → L.t0 = none → snippet L f n = .error .valueError) ∧
    (∀ t, snippetT L f = .ok t → 0 ≤ n → (t < 0 ∨ (L.len : Rat) < t + n) →
      snippet L f n = .error .valueError) := by
  refine ⟨fun h => by simp [snippet, h], fun a hf ht => ?_, fun t ht hn hb => ?_⟩
  · subst hf
    unfold snippet
    split
    · rfl
    · simp [snippetT, ht]
  · have hn' : ¬ (n < 0) := by omega
    simp only [snippet, hn', if_false, ht, apply, opSel, hb, if_true]

/-- **the three forms of `t` denote the same instant** -/
theorem C12_forms_agree (L : Ledger) (t0 t : Rat) (hr : L.rate ≠ 0) (h0 : L.t0 = some t0) :
    snippetT L (.samples t) = .ok t ∧ snippetT L (.duration (t / L.rate)) = .ok t ∧
    snippetT L (.time (t0 + t / L.rate)) = .ok t := by
  refine ⟨rfl, ?_, ?_⟩
  · simp only [snippetT]; congr 1; field_simp
  · simp only [snippetT, h0]; congr 1; field_simp; ring

-- non-vacuity
example : (opSel 16 (.snippet (21/2) 5)).toOption.map (fun σ => (σ.first, σ.off, σ.count)) = some (10, 1/2, 5) := by
  decide +kernel

end Pb.C12
