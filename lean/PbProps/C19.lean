import PbProofs.Dft
import PbProofs.Crop
import PbModel.Hilbert

/-! # C19 — real_to_complex is the exact analytic-baseband conversion along any axis

Weights: `PbModel/Gen/Hilbert.lean` (translator output) interpreted by `Pb.Hilbert.weightAt`;
analytic part on `ZMod N` with Mathlib's DFT. -/

namespace Pb.C19
open ZMod Complex Pb.Hilbert
open scoped ZMod ComplexConjugate

/-- translator-fed: the generated assignments give the analytic-signal weights
`h[0]=1`, `h[k]=2` for `0<k<N/2`, `h[N/2] = 1` (even N>1) or `2` (odd N>1), `0` above. -/
theorem C19_weights_closed (N k : Nat) :
    Gen.Hilbert.extractOk = true ∧
    weightAt N k =
      if 1 < N ∧ k = N / 2 then (if N % 2 ≠ 0 then 2 else 1)
      else if 1 ≤ k ∧ k < N / 2 then 2
      else if k = 0 then 1 else 0 := by
  refine ⟨rfl, ?_⟩
  unfold weightAt
  simp only [Gen.Hilbert.assigns, List.foldl_cons, List.foldl_nil, decide_true, Bool.true_and,
    Bool.and_eq_true, decide_eq_true_eq, true_and]
  split_ifs <;> omega

/-- **weights**: `h 0 = 1`, and `h k + h (−k) = 2` for every bin (so `h(N/2) = 1` for even N) —
every `N ≥ 1` -/
theorem C19_weights (N k : Nat) (hN : 1 ≤ N) (hk : k < N) :
    weightAt N 0 = 1 ∧ weightAt N k + weightAt N ((N - k) % N) = 2 := by
  have e0 := (C19_weights_closed N 0).2
  have ek := (C19_weights_closed N k).2
  have em := (C19_weights_closed N ((N - k) % N)).2
  constructor
  · rw [e0]
    split_ifs <;> omega
  · rw [ek, em]
    by_cases hk0 : k = 0
    · subst hk0
      simp only [Nat.sub_zero, Nat.mod_self]
      split_ifs <;> omega
    · have hm : (N - k) % N = N - k := Nat.mod_eq_of_lt (by omega)
      rw [hm]
      split_ifs <;> omega

variable {N : ℕ} [NeZero N]

/-- the weights as a function on `ZMod N` -/
noncomputable def hZ (k : ZMod N) : ℂ := (weightAt N k.val : ℂ)

theorem hZ_real (k : ZMod N) : conj (hZ k) = hZ k := by
  unfold hZ; exact Complex.conj_natCast _

theorem hZ_sym (k : ZMod N) : hZ k + hZ (-k) = 2 := by
  unfold hZ
  have hN : 1 ≤ N := Nat.one_le_iff_ne_zero.mpr (NeZero.ne N)
  have hk : k.val < N := ZMod.val_lt k
  have hneg : (-k).val = (N - k.val) % N := ZMod.neg_val' k
  rw [hneg]
  have := (C19_weights N k.val hN hk).2
  exact_mod_cast this

/-- DFT of a real sequence is conjugate-symmetric -/
lemma dft_conj_of_real (x : ZMod N → ℂ) (hx : ∀ n, conj (x n) = x n) (k : ZMod N) :
    conj (𝓕 x k) = 𝓕 x (-k) := by
  simp only [dft_apply, smul_eq_mul, map_sum, map_mul, hx]
  refine Finset.sum_congr rfl (fun n _ => ?_)
  rw [← AddChar.map_neg_eq_conj]
  congr 2
  ring

/-- the analytic signal `a = ifft(h · fft(x))` -/
noncomputable def analytic (x : ZMod N → ℂ) : ZMod N → ℂ := 𝓕⁻ (fun k => hZ k * 𝓕 x k)

/-- **real part**: for every real input, `a + conj a = 2x`, i.e. `Re(a n) = x n`
(negative frequencies removed without changing the real part) -/
theorem C19_real_part (x : ZMod N → ℂ) (hx : ∀ n, conj (x n) = x n) (n : ZMod N) :
    analytic x n + conj (analytic x n) = 2 * x n := by
  unfold analytic
  have hinv : 𝓕⁻ (𝓕 x) n = x n := by rw [ZMod.dft.symm_apply_apply]
  rw [invDFT_apply] at hinv ⊢
  simp only [smul_eq_mul, map_mul, map_sum, map_inv₀, Complex.conj_natCast] at hinv ⊢
  have hconj : ∑ j : ZMod N, conj (stdAddChar (j * n)) * (conj (hZ j) * conj (𝓕 x j))
      = ∑ j : ZMod N, stdAddChar (j * n) * (hZ (-j) * 𝓕 x j) := by
    refine Fintype.sum_equiv (Equiv.neg _) _ _ (fun j => ?_)
    simp only [Equiv.neg_apply, neg_neg, hZ_real, dft_conj_of_real x hx]
    rw [← AddChar.map_neg_eq_conj]
    congr 2
    ring
  rw [hconj, ← mul_add, ← Finset.sum_add_distrib]
  have : ∀ j : ZMod N, stdAddChar (j * n) * (hZ j * 𝓕 x j) + stdAddChar (j * n) * (hZ (-j) * 𝓕 x j)
      = 2 * (stdAddChar (j * n) * 𝓕 x j) := by
    intro j
    have := hZ_sym j
    linear_combination (stdAddChar (j * n) * 𝓕 x j) * this
  simp only [this, ← Finset.mul_sum]
  rw [← hinv]; ring

theorem C19_real_part_re (x : ZMod N → ℂ) (hx : ∀ n, conj (x n) = x n) (n : ZMod N) :
    (analytic x n).re = (x n).re := by
  have h := congrArg Complex.re (C19_real_part x hx n)
  simp only [add_re, conj_re, mul_re, re_ofNat, im_ofNat, zero_mul, sub_zero] at h
  linarith

/-- **even samples**: the mixing factor `exp(−iπ/2·n)` at `n = 2m` is `(−1)^m`, so
`(−1)^m · Re(out m) = x(2m)` -/
theorem C19_even_samples (a : ℂ) (xr : ℝ) (m : ℕ) (ha : a.re = xr) :
    ((-1 : ℝ) ^ m) * (((-1 : ℂ) ^ m) * a).re = xr := by
  have h1 : (((-1 : ℂ) ^ m) * a).re = ((-1 : ℝ) ^ m) * a.re := by
    have : ((-1 : ℂ) ^ m) = (((-1 : ℝ) ^ m : ℝ) : ℂ) := by push_cast; rfl
    rw [this, re_ofReal_mul]
  rw [h1, ha, ← mul_assoc, ← pow_add, ← two_mul, pow_mul]
  simp

theorem mix_factor_even (m : ℕ) : Complex.exp (-(Complex.I * (Real.pi / 2)) * ((2 * m : ℕ) : ℂ)) = (-1) ^ m := by
  have : -(Complex.I * (Real.pi / 2)) * ((2 * m : ℕ) : ℂ) = (m : ℂ) * (-(Real.pi * Complex.I)) := by
    push_cast; ring
  rw [this, Complex.exp_nat_mul, Complex.exp_neg, Complex.exp_pi_mul_I]
  norm_num

/-- **length**: `⌈N/2⌉` output samples -/
theorem C19_len (Nn : Nat) : outLen Nn = (Nn + 1) / 2 := by
  unfold outLen Crop.sliceLen
  split
  · omega
  · omega

/-- **linearity** of the analytic-signal map (mixing and decimation are pointwise/linear too) -/
theorem C19_linear (x y : ZMod N → ℂ) (c : ℂ) :
    analytic (x + y) = analytic x + analytic y ∧ analytic (c • x) = c • analytic x := by
  unfold analytic
  constructor
  · have : (fun k => hZ k * 𝓕 (x + y) k) = (fun k => hZ k * 𝓕 x k) + (fun k => hZ k * 𝓕 y k) := by
      funext k; simp [map_add, mul_add]
    rw [this, map_add]
  · have : (fun k => hZ k * 𝓕 (c • x) k) = c • (fun k => hZ k * 𝓕 x k) := by
      funext k; simp [_root_.map_smul]; ring
    rw [this, _root_.map_smul]

/-- the analytic signal of a single complex exponential is that exponential times its weight -/
theorem analytic_exp (m : ZMod N) :
    analytic (fun n => (stdAddChar (m * n) : ℂ)) = fun n => hZ m * stdAddChar (m * n) := by
  unfold analytic
  have h1 : (fun k => hZ k * 𝓕 (fun n => (stdAddChar (m * n) : ℂ)) k)
      = hZ m • 𝓕 (fun n => (stdAddChar (m * n) : ℂ)) := by
    funext k
    simp only [Pi.smul_apply, smul_eq_mul, Pb.Dft.dft_tone]
    by_cases hk : k = m
    · subst hk; simp
    · simp [hk]
  rw [h1, _root_.map_smul, ZMod.dft.symm_apply_apply]
  rfl

/-- **tones**: the real tone `2·Re(c·e^{2πi w n/N})` at a strictly positive frequency `w`
(weight 2: `0 < w < N/2`, or `w = (N−1)/2` for odd `N`) has the analytic signal `2c·e^{2πi w n/N}`:
the negative-frequency half is removed, the positive half doubled. -/
theorem C19_tone (w : ZMod N) (hw : weightAt N w.val = 2) (c : ℂ) (n : ZMod N) :
    analytic (fun n => c * stdAddChar (w * n) + conj c * stdAddChar (-w * n)) n
      = 2 * c * stdAddChar (w * n) := by
  have hwz : hZ w = 2 := by unfold hZ; rw [hw]; norm_num
  have hnz : hZ (-w) = 0 := by have := hZ_sym w; rw [hwz] at this; linear_combination this
  have hx : (fun n => c * (stdAddChar (w * n) : ℂ) + conj c * stdAddChar (-w * n))
      = c • (fun n => (stdAddChar (w * n) : ℂ)) + conj c • (fun n => (stdAddChar (-w * n) : ℂ)) := by
    funext k; simp
  set e1 : ZMod N → ℂ := fun n => (stdAddChar (w * n) : ℂ) with he1
  set e2 : ZMod N → ℂ := fun n => (stdAddChar (-w * n) : ℂ) with he2
  have l1 := (C19_linear (c • e1) (conj c • e2) 0).1
  have l2 := (C19_linear e1 e1 c).2
  have l3 := (C19_linear e2 e2 (conj c)).2
  have a1 : analytic e1 = fun n => hZ w * stdAddChar (w * n) := analytic_exp w
  have a2 : analytic e2 = fun n => hZ (-w) * stdAddChar (-w * n) := analytic_exp (-w)
  rw [hx, l1, l2, l3, a1, a2, hwz, hnz]
  simp only [Pi.add_apply, Pi.smul_apply, smul_eq_mul, zero_mul, mul_zero, add_zero]
  ring

/-- … and after mixing with `exp(−iπ n/2)` and keeping the even samples, output sample `m` is
`(−1)^m · 2c · e^{2πi w (2m)/N} = 2c · e^{2πi (w − N/4)(2m)/N}`: a complex tone at `w − N/4`
cycles per `N` input samples. -/
theorem C19_tone_mixed (w : ZMod N) (hw : weightAt N w.val = 2) (c : ℂ) (m : ℕ) :
    Complex.exp (-(Complex.I * (Real.pi / 2)) * ((2 * m : ℕ) : ℂ))
        * analytic (fun n => c * stdAddChar (w * n) + conj c * stdAddChar (-w * n)) ((2 * m : ℕ) : ZMod N)
      = (-1) ^ m * (2 * c * stdAddChar (w * ((2 * m : ℕ) : ZMod N))) := by
  rw [mix_factor_even, C19_tone w hw]

/-- dtype rule -/
theorem C19_dtype :
    outDtype "complex" = .error .valueError ∧ outDtype "float32" = .ok "complex64" ∧
    outDtype "float64" = .ok "complex128" ∧ outDtype "int" = .ok "complex128" ∧
    outDtype "float16" = .ok "complex128" := by
  refine ⟨rfl, rfl, rfl, rfl, rfl⟩

example : weights 8 = [1, 2, 2, 2, 1, 0, 0, 0] ∧ weights 7 = [1, 2, 2, 2, 0, 0, 0] ∧ weights 1 = [1] := by
  decide +kernel

end Pb.C19
