import PbProofs.Reader
import PbModel.Gen.Reader

/-! # C11 — Readers are position-faithful, stateless and agree with the underlying file

Model: `PbModel/Reader.lean` (bounds checks of `BaseReader.read`, stream window
`seek(k·offset)/read(k·n)`, per-format index maps, `time_at`/`offset_at`, and the per-read handle
life-cycle `open; seek; read; close` scheduled in arbitrary interleavings).  What the model cannot
exhibit — the operating system, `baseband`'s decoding, real threads — is validated by the
correspondence harness (files written by the check, handle monitor, 16-thread runs). -/

namespace Pb.C11
open Pb.Reader Pb.Disp

/-- **length, stamp and window**: an accepted `read(offset, n)` has exactly `n` samples, starts at
`time_at(offset)`, reads a window that lies inside the underlying stream, and delivers
`n · sample-size` values. -/
theorem C11_read_len_start {α} (C : Conj α) (d : Desc) (F : Nat → Nat → Nat → α) (rate : Rat)
    (o k : Int) (ho : 0 ≤ o) (hk : 0 ≤ k) (h : o + k ≤ d.len) :
    ∃ r, readOp d rate (.int o) (.int k) = .ok r ∧ r.n = k.toNat ∧ r.start = timeAt rate o ∧
      r.pos + r.cnt ≤ d.fileLen ∧
      (readVals C d F o.toNat r.n).length = r.n * ((outSample d).1 * (outSample d).2) := by
  refine ⟨{ n := k.toNat, start := timeAt rate (o.toNat : Int), pos := (window d o.toNat k.toNat).1,
            cnt := (window d o.toNat k.toNat).2 }, ?_, rfl, ?_, ?_, readVals_length ..⟩
  · unfold readOp; rw [readCheck_ok d.len o k ho hk h]
  · simp only; rw [Int.toNat_of_nonneg ho]
  · exact window_in_file d _ _ (by omega)

/-- **bounds**: negative offset or count → ValueError, beyond the end → OutOfBoundsError (an
EOFError), non-index arguments → TypeError; nothing else is rejected. -/
theorem C11_bounds (d : Desc) (rate : Rat) (o k : Int) :
    (o < 0 → readOp d rate (.int o) (.int k) = .error .valueError) ∧
    (0 ≤ o → k < 0 → readOp d rate (.int o) (.int k) = .error .valueError) ∧
    (0 ≤ o → 0 ≤ k → (d.len : Int) < o + k → readOp d rate (.int o) (.int k) = .error .outOfBounds) ∧
    (∀ n, readOp d rate .other n = .error .typeError) ∧
    (0 ≤ o → readOp d rate (.int o) .other = .error .typeError) ∧
    (∀ offset n r, readOp d rate offset n = .ok r →
        ∃ o' k' : Nat, offset = .int o' ∧ n = .int k' ∧ o' + k' ≤ d.len ∧ r.n = k') := by
  obtain ⟨e1, e2, e3⟩ := readCheck_err d.len o k
  refine ⟨?_, ?_, ?_, ?_, ?_, ?_⟩
  · intro h; unfold readOp; rw [e1 h]
  · intro h1 h2; unfold readOp; rw [e2 h1 h2]
  · intro h1 h2 h3; unfold readOp; rw [e3 h1 h2 h3]
  · intro n; unfold readOp readCheck; rfl
  · intro h; unfold readOp readCheck; simp only [not_lt.mpr h, if_false]
  · intro offset n r hr
    unfold readOp at hr
    cases hc : readCheck d.len offset n with
    | error e => rw [hc] at hr; cases hr
    | ok p =>
      obtain ⟨o', k'⟩ := p
      rw [hc] at hr
      obtain ⟨a, b, c⟩ := readCheck_ok_inv d.len offset n o' k' hc
      refine ⟨o', k', a, b, c, ?_⟩
      cases hr; rfl

/-- **offset ↔ time round trip**: `offset_at(time_at(k)) = k` for every `0 ≤ k ≤ len` (absolute
times reduce to relative ones by subtracting the start), exactly and for any computed time within
half a sample of the exact one; times rounding outside `[0, len]` raise. -/
theorem C11_offset_roundtrip (len : Nat) (rate : Rat) (hr : 0 < rate) (k : Int) (h0 : 0 ≤ k) (hl : k ≤ len) :
    offsetAt len rate (timeAt rate k) = .ok k ∧
    (∀ e : Rat, -(1 / 2) < e * rate → e * rate < 1 / 2 → offsetAt len rate (timeAt rate k + e) = .ok k) ∧
    (∀ t : Rat, roundHalfEven (t * rate) < 0 ∨ (len : Int) < roundHalfEven (t * rate) →
        offsetAt len rate t = .error .outOfBounds) := by
  refine ⟨?_, fun e h1 h2 => offsetAt_timeAt len rate hr k h0 hl e h1 h2, fun t h => offsetAt_out len rate t h⟩
  have := offsetAt_timeAt len rate hr k h0 hl 0 (by simp) (by simp)
  simpa using this

/-- **adjacent reads concatenate** (formats without Hilbert conversion): the data of
`read(o, n)` followed by `read(o + n, m)` is the data of `read(o, n + m)`. -/
theorem C11_adjacent {α} (C : Conj α) (d : Desc) (F : Nat → Nat → Nat → α) (o n m : Nat) :
    readVals C d F o n ++ readVals C d F (o + n) m = readVals C d F o (n + m) :=
  readVals_adjacent C d F o n m

/-- **index maps**: element `(t, x, y)` of the C-ordered output is the file element the format
prescribes — generic: `(o+t, x, y)`; GUPPI: transposed `(o+t, y, x)`; DADA Stokes: transposed with
the channel axis reversed for lower sideband — conjugated exactly where the element is
lower-sideband voltage data.  The channel reversal is an involution. -/
theorem C11_index_maps {α} (C : Conj α) (d : Desc) (F : Nat → Nat → Nat → α) (o n t x y : Nat)
    (ht : t < n) (hx : x < (outSample d).1) (hy : y < (outSample d).2) :
    (readVals C d F o n)[(t * (outSample d).1 + x) * (outSample d).2 + y]? = some (outAt C d F o t x y) ∧
    (d.kind = .generic → outAt C d F o t x y =
        if d.mode != .intensity && d.lsb x y then C.conj (F (o + t) x y) else F (o + t) x y) ∧
    (d.kind = .guppi → outAt C d F o t x y =
        if d.mode != .intensity && d.lsb y x then C.conj (F (o + t) y x) else F (o + t) y x) ∧
    (d.kind = .stokes → d.mode = .intensity → outAt C d F o t x y =
        F (o + t) y (if d.lsb 0 0 then d.b - 1 - x else x)) ∧
    (x < d.b → d.b - 1 - (d.b - 1 - x) = x) := by
  refine ⟨readVals_getElem? C d F o n t x y ht hx hy, ?_, ?_, ?_, ?_⟩
  · intro hk; simp [outAt, src, fetch, hk]
  · intro hk; simp [outAt, src, fetch, hk]
  · intro hk hm; simp [outAt, src, fetch, hk, hm]
  · intro h; omega

/-- **statelessness under every interleaving**: threads each run `open; seek; read; close` on
their own fresh handle over the immutable stream.  For *every* schedule of their atomic steps, a
thread that has executed its read step holds exactly the data it would have read alone — so the
same `(offset, n)` always returns the same data, whatever runs concurrently. -/
theorem C11_interleaving {α} (F1 : Nat → α) (reqs : List Req) (sched : List Nat)
    (i : Nat) (r : Req) (hr : reqs[i]? = some r) (hdone : 3 ≤ sched.count i) :
    ∃ s, (runSched F1 reqs sched (reqs.map fun _ => ({} : TState α)))[i]? = some s ∧ s.out = solo F1 r := by
  have hi : i < reqs.length := by
    rcases List.getElem?_eq_some_iff.1 hr with ⟨h, _⟩; exact h
  have hs : (reqs.map fun _ => ({} : TState α))[i]? = some {} := by
    simp [hi]
  refine ⟨_, runSched_thread F1 reqs sched _ (by simp) i r {} hr hs, ?_⟩
  exact (iterate_stepT F1 r _ hdone).1

/-- the foil: with one handle position shared between threads the property fails — there is an
interleaving of two reads in which the first returns the second's data.  (This is what the
run-time handle monitor guards: a fresh handle per read, never shared.) -/
theorem C11_shared_handle_breaks :
    ∃ sched : List Nat,
      (runShared (fun i => i) [⟨0, 2⟩, ⟨5, 2⟩] sched ⟨0, [0, 0], [[], []]⟩).outs[0]? ≠
        some (solo (fun i => i) ⟨0, 2⟩) :=
  ⟨[0, 0, 1, 1, 0, 1], by decide⟩

/-- **translator tie**: the literals and comparison operators of the reader sources (regenerated on
every run) are those of the model — real baseband seeks `2·offset`, reads `2·n` and has length
`shape[0] // 2` (other modes unscaled: `window`, `Desc.len`); every read runs inside
`with self._get_fh() as fh` on a handle from `baseband.open`; GUPPI and DADA-Stokes transpose
`(0, 2, 1)` and the latter flips the last axis; `read` rejects `offset + n > len(self)` after two
`< 0` tests and stamps `time_at(offset)`; `offset_at` rounds and rejects `< 0` / `> len`. -/
theorem C11_source_literals (d : Desc) (o n : Nat) (hm : d.mode = .realBaseband) :
    Gen.Reader.extractOk = true ∧
    window d o n = ((Gen.Reader.seekFactor.toNat) * o, (Gen.Reader.readFactor.toNat) * n) ∧
    d.len = d.fileLen / Gen.Reader.lenDiv.toNat ∧ Gen.Reader.elsePlain = true ∧
    Gen.Reader.freshHandle = true ∧
    Gen.Reader.transposes = [[0, 2, 1], [0, 2, 1]] ∧ Gen.Reader.flipAxis = -1 ∧
    Gen.Reader.boundOp = "offset + n > len(self)" ∧ Gen.Reader.negChecks = 2 ∧
    Gen.Reader.offsetOps = ["offset < 0", "offset > len(self)"] ∧ Gen.Reader.rounds = true ∧
    Gen.Reader.stampIsTimeAtOffset = true := by
  refine ⟨by decide, ?_, ?_, by decide, by decide, by decide, by decide, by decide, by decide, by decide, by decide, by decide⟩
  · unfold window; rw [if_pos hm]; rfl
  · unfold Desc.len; rw [if_pos hm]; rfl

/-! Non-vacuity: concrete accepted and rejected reads, a transposed/flipped element, a schedule. -/
example : (readOp ⟨.generic, .realBaseband, 17, 2, 4, fun _ _ => false⟩ 1 (.int 3) (.int 5)).toOption.map
    (fun r => (r.n, r.pos, r.cnt)) = some (5, 6, 10) := by decide +kernel
example : (readOp ⟨.generic, .realBaseband, 17, 2, 4, fun _ _ => false⟩ 1 (.int 4) (.int 5)).toOption.isNone := by
  decide +kernel
example : src ⟨.stokes, .intensity, 8, 4, 8, fun _ _ => true⟩ 2 1 3 0 = ⟨3, 0, 4, false⟩ := by decide
example : src ⟨.guppi, .complex, 8, 2, 4, fun _ _ => true⟩ 2 1 3 1 = ⟨3, 1, 3, true⟩ := by decide
example : ((runSched (fun i => i) [⟨0, 2⟩, ⟨5, 2⟩] [0, 0, 1, 1, 0, 1, 1, 0]
    [{}, {}]).map (·.out)) = [[0, 1], [5, 6]] := by decide

end Pb.C11
