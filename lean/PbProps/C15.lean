import PbProofs.PhaseStr
import PbModel.Gen.PhaseOrd

/-! # C15 — Phase ordering, reductions and decimal I/O use the full two-part value

Model: `PbModel/PhaseStr.lean` (digit layer of `_parse_string`, fixed-precision `do_format`,
comparison difference) on top of `PbModel/DayFrac.lean`. -/

namespace Pb.C15
open Pb.DayFrac Pb.PhaseStr Pb.DayFracProof

/-- **comparisons** (`==, !=, <, <=, >, >=` all test the sign of one difference): exact for
normalised phases under the standard model, including phases closer than one ulp of the count. -/
theorem C15_compare_exact (M : FPModel) (n1 n2 : ℤ) (f1 f2 : ℚ)
    (hn : |((n1 - n2 : ℤ) : ℚ)| ≤ 2 ^ 53)
    (hf1 : -(1/2) ≤ f1 ∧ f1 ≤ 1/2 - 1/2^53) (hf2 : -(1/2) ≤ f2 ∧ f2 ≤ 1/2 - 1/2^53) :
    let D := ((n1 : ℚ) + f1) - ((n2 : ℚ) + f2)
    let d := cmpDiff M.rn n1 f1 n2 f2
    (0 < D ↔ 0 < d) ∧ (D < 0 ↔ d < 0) ∧ (D = 0 ↔ d = 0) := cmpDiff_exact M n1 n2 f1 f2 hn hf1 hf2

/-- the normalisation hypothesis is needed: for the raw (unnormalised, not constructible through
`Phase(...)`) pair `(n+1, −1/2)` vs `(n, 1/2 − 2^-54)` the exact difference is `2^-54 > 0`
but a round-to-nearest-even evaluation of the comparison difference is `0`. -/
theorem C15_unnormalised_witness :
    cmpDiff rn53 5 (-(1/2)) 4 (1/2 - 1/2^54) = 0 ∧
    ((5 : ℚ) + -(1/2)) - ((4 : ℚ) + (1/2 - 1/2^54)) = 1/2^54 := by
  constructor
  · decide +kernel
  · norm_num

/-- **exponent handling loses nothing**: moving digits across the decimal point multiplies the
value by `10^e`, for every digit string and every (positive, negative, zero) exponent. -/
theorem C15_shift_value (ip fp : List Nat) (e : Int) :
    fixVal (shift ip fp e).1 (shift ip fp e).2 = fixVal ip fp * pow10 e := shift_value ip fp e

/-- **parse value**: for every lexed plain decimal string (optional sign, digits with or without a
decimal point, empty integer or fraction part, `e`/`d` exponent, trailing `j`), the two parts handed
to `float()` add up exactly to the decimal value; the count part is a whole number and the
fraction part lies in `[0, 1)`; the phase is imaginary exactly when the string ends in `j`. -/
theorem C15_parse_value (l : Lexed) (hd : ∀ d ∈ l.ip ++ l.fp, d ≤ 9) :
    l.parts.1 + l.parts.2 = l.value ∧ 0 ≤ l.parts.2 ∧ l.parts.2 < 1 ∧ ∃ n : Nat, l.parts.1 = n :=
  ⟨parts_value l hd, (parts_range l hd).1, (parts_range l hd).2.1, (parts_range l hd).2.2⟩

/-- **fixed-point rendering**: the printed number is the exact value rounded to the digits shown
(within half a unit of the last digit), for every number of decimals including 0 and 1. -/
theorem C15_format_digits (count : Nat) (frac : Rat) (p : Nat) (h0 : 0 ≤ frac) :
    |printedValue (fmtFixed count frac p) p - ((count : Rat) + frac)| ≤ 1 / (2 * ((10 ^ p : Nat) : Rat)) :=
  fmtFixed_nearest count frac p h0

/-- **round trip on the exact layer**: parsing what was printed with `p` decimals gives back the
value to within half a unit of the last printed digit (`from_string(to_string(ph)) = ph` once `p`
exceeds the 2-double resolution). -/
theorem C15_roundtrip (count : Nat) (frac : Rat) (p : Nat) (h0 : 0 ≤ frac) :
    let pr := fmtFixed count frac p
    |printedValue pr p - ((count : Rat) + frac)| ≤ 1 / (2 * ((10 ^ p : Nat) : Rat)) ∧
    printedValue pr p = (pr.1 : Rat) + (pr.2 : Rat) / ((10 ^ p : Nat) : Rat) :=
  ⟨fmtFixed_nearest count frac p h0, rfl⟩

/-- **sorting key** (`Phase.argsort`/`sort` order lexicographically by count, then fraction): for
normalised parts — integer counts, `|fraction| ≤ 1/2` — the lexicographic order implies the order of
the exact values, so a list sorted by the key is sorted by value, whatever the magnitude of the
counts; and two phases with equal keys are equal. -/
theorem C15_sort_key (c1 c2 : ℤ) (f1 f2 : ℚ) (h1 : |f1| ≤ 1 / 2) (h2 : |f2| ≤ 1 / 2)
    (hlex : c1 < c2 ∨ (c1 = c2 ∧ f1 ≤ f2)) : (c1 : ℚ) + f1 ≤ (c2 : ℚ) + f2 := by
  have a1 := abs_le.1 h1
  have a2 := abs_le.1 h2
  rcases hlex with h | ⟨h, hf⟩
  · have : (c1 : ℚ) + 1 ≤ (c2 : ℚ) := by exact_mod_cast h
    linarith [a1.2, a2.1]
  · subst h; linarith

theorem C15_sort_key_list (l : List (ℤ × ℚ)) (hn : ∀ p ∈ l, |p.2| ≤ 1 / 2)
    (hs : l.Pairwise (fun a b => a.1 < b.1 ∨ (a.1 = b.1 ∧ a.2 ≤ b.2))) :
    l.Pairwise (fun a b => (a.1 : ℚ) + a.2 ≤ (b.1 : ℚ) + b.2) := by
  induction l with
  | nil => exact List.Pairwise.nil
  | cons x xs ih =>
    rw [List.pairwise_cons] at hs ⊢
    refine ⟨fun b hb => ?_, ih (fun p hp => hn p (List.mem_cons_of_mem _ hp)) hs.2⟩
    exact C15_sort_key x.1 b.1 x.2 b.2 (hn x (List.mem_cons_self ..)) (hn b (List.mem_cons_of_mem _ hb)) (hs.1 b hb)

/-- row-major flat index of element `(i, j)` of an array with `c` columns, and its inverse (`np.unravel_index` for 2-D) -/
def ravel2 (c i j : ℕ) : ℕ := i * c + j
def unravel2 (c k : ℕ) : ℕ × ℕ := (k / c, k % c)

/-- **flat indices**: `argmin(axis=None)` returns a row-major flat index, and `unravel_index` is its inverse — for every
shape, so the element picked by `self[np.unravel_index(k, shape)]` is element `k` of the row-major flattening (which is what
`argmin`/`argsort` counted), whatever the memory order of the buffer. -/
theorem C15_unravel (c : ℕ) (hc : 0 < c) :
    (∀ i j, j < c → unravel2 c (ravel2 c i j) = (i, j)) ∧ (∀ k, ravel2 c (unravel2 c k).1 (unravel2 c k).2 = k) ∧
    (∀ k, (unravel2 c k).2 < c) := by
  refine ⟨fun i j hj => ?_, fun k => ?_, fun k => Nat.mod_lt _ hc⟩
  · simp only [unravel2, ravel2, Prod.mk.injEq]
    constructor
    · rw [Nat.add_comm, Nat.add_mul_div_right _ _ hc, Nat.div_eq_of_lt hj, Nat.zero_add]
    · rw [Nat.add_comm, Nat.add_mul_mod_self_right, Nat.mod_eq_of_lt hj]
  · simp only [unravel2, ravel2]
    rw [Nat.mul_comm]; exact Nat.div_add_mod k c

/-- **translator tie for the reductions**: the bodies of `Phase._take_along_axis`, `argmin`, `argmax`, `min`, `max`, `ptp`
and `sort`, regenerated from `pulsar/phase.py` on every run, are the expressions the harness's oracle assumes — the index is
computed on the exact-difference `(int − approx) + frac` (shifting by a common `approx` does not change which element is
smallest: `C15_shift_value`), a flat index is turned into an element with `np.unravel_index(indices, self.shape)`
(`C15_unravel`), and `min`/`max`/`sort` take the element at `argmin`/`argmax`/`argsort`. -/
theorem C15_source_reductions :
    Gen.PhaseOrd.extractOk = true ∧
    Gen.PhaseOrd.flatTakeSrc = "self[np.unravel_index(indices, self.shape)]" ∧
    Gen.PhaseOrd.axisTakeSrc = "if indices.ndim == self.ndim - 1: indices = np.expand_dims(indices, axis); result = np.take_along_axis(self, indices, axis); return result if keepdims else result.squeeze(axis)" ∧
    Gen.PhaseOrd.argminSrc = "approx = np.min(self.cycle, axis, keepdims=True); dt = self['int'] - approx + self['frac']; return dt.argmin(axis, out)" ∧
    Gen.PhaseOrd.argmaxSrc = "approx = np.max(self.cycle, axis, keepdims=True); dt = self['int'] - approx + self['frac']; return dt.argmax(axis, out)" ∧
    Gen.PhaseOrd.minSrc = "return self._take_along_axis(self.argmin(axis), axis, keepdims)" ∧
    Gen.PhaseOrd.maxSrc = "return self._take_along_axis(self.argmax(axis), axis, keepdims)" ∧
    Gen.PhaseOrd.ptpSrc = "return self.max(axis, keepdims=keepdims) - self.min(axis, keepdims=keepdims)" ∧
    Gen.PhaseOrd.sortSrc = "return self._take_along_axis(self.argsort(axis), axis, keepdims=True)" := by
  exact ⟨rfl, rfl, rfl, rfl, rfl, rfl, rfl, rfl, rfl⟩

example : shift [0] [1, 8] (-2) = ([], [0, 0, 1, 8]) ∧ shift [1, 2, 3] [4, 5, 6] 1 = ([1, 2, 3, 4], [5, 6]) ∧
    shift [1] [] 3 = ([1, 0, 0, 0], []) := by decide

end Pb.C15
