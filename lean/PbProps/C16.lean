import Mathlib.Tactic.Common
import PbModel.Contract
import PbModel.Gen.Ctor

/-! # C16 — Every signal object satisfies its class contract; copies reproduce it faithfully

Model: `PbModel/Contract.lean`; the class table (`_req_shape`, `_req_dtype`, constructor keyword
lists, property names, parents) is regenerated from `core.py` by the translator on every run. -/

namespace Pb.C16
open Pb.Crop Pb.Contract Pb.Gen.Classes

/-- translator-fed: the six classes resolve (through inheritance) to the documented contracts -/
theorem C16_class_table :
    classTable.map (fun r => descOf r.name) =
      [some ⟨"Signal", [none], [], false, false, false⟩,
       some ⟨"RadioSignal", [none, none], [], true, false, false⟩,
       some ⟨"IntensitySignal", [none, none], ["float64", "float32"], true, false, false⟩,
       some ⟨"FullStokesSignal", [none, none, some 4], ["float64", "float32"], true, false, false⟩,
       some ⟨"BasebandSignal", [none, none], ["complex128", "complex64"], true, true, false⟩,
       some ⟨"DualPolarizationSignal", [none, none, some 2], ["complex128", "complex64"], true, true, true⟩] ∧
    extractOk = true := by
  constructor
  · decide +kernel
  · decide +kernel

/-- everything the constructor checked, as facts about the arguments -/
def Guards (d : ClassDesc) (a : Args) : Prop :=
  d.reqShape.length ≤ a.shape.length ∧ shapeOk a.shape d.reqShape = true ∧ prodTail a.shape ≠ 0 ∧
  (d.reqDtype.contains a.dtype = true ∨ d.reqDtype.isEmpty = true ∨ a.safeToFirst = true) ∧
  a.rate = .pos ∧ (a.start = .none ∨ a.start = .scalarTime) ∧ a.metaK ≠ .notMapping ∧
  (d.isRadio = true →
    qScalarFreq a.cf = true ∧ (d.isBaseband = false → a.bw = .pos) ∧
    Gen.Align.alignAllowed.contains a.align = true ∧
    (d.isDualPol = true → (a.pol = "linear" ∨ a.pol = "circular")))

theorem qPos_iff (k : QKind) : qPos k = true ↔ k = .pos := by
  cases k <;> simp [qPos]

theorem construct_ok (d : ClassDesc) (a : Args) (s : Sig) (h : construct d a = .ok s) :
    Guards d a ∧ s.cls = d.name ∧ s.shape = a.shape ∧
    (d.reqDtype.isEmpty = true ∨ d.reqDtype.contains s.dtype = true) ∧
    (d.isRadio = true → s.bwIsRate = d.isBaseband ∧
      s.align = (if a.shape.getD 1 0 % 2 = 1 then Gen.Align.oddAlign.getD a.align else a.align) ∧
      (d.isDualPol = true → s.pol = a.pol)) := by
  have h : construct? d a = some s := by
    unfold construct at h
    split at h
    · injection h with h; subst h; assumption
    · cases h
  unfold construct? at h
  by_cases g1 : a.shape.length < d.reqShape.length
  · simp [g1] at h
  by_cases g2 : shapeOk a.shape d.reqShape = true
  swap
  · simp [g1, g2] at h
  by_cases g3 : prodTail a.shape = 0
  · simp [g1, g2, g3] at h
  simp only [g1, g2, g3, if_false, not_true_eq_false] at h
  have hdt : ∀ dt, (if (d.reqDtype.contains a.dtype || d.reqDtype.isEmpty) = true then some a.dtype
        else if a.safeToFirst = true then d.reqDtype.head? else none) = some dt →
      (d.reqDtype.contains a.dtype = true ∨ d.reqDtype.isEmpty = true ∨ a.safeToFirst = true) ∧
      (d.reqDtype.isEmpty = true ∨ d.reqDtype.contains dt = true) := by
    intro dt hdt
    split at hdt
    · rename_i hc
      injection hdt with hdt; subst hdt
      simp only [Bool.or_eq_true] at hc
      rcases hc with hc | hc
      · exact ⟨Or.inl hc, Or.inr hc⟩
      · exact ⟨Or.inr (Or.inl hc), Or.inl hc⟩
    · split at hdt
      · rename_i hs
        refine ⟨Or.inr (Or.inr hs), Or.inr ?_⟩
        cases hrd : d.reqDtype with
        | nil => simp [hrd] at hdt
        | cons d0 ds =>
          simp only [hrd, List.head?_cons, Option.some.injEq] at hdt
          subst hdt; simp
      · cases hdt
  split at h
  · cases h
  · rename_i dt hdt'
    obtain ⟨hd1, hd2⟩ := hdt dt hdt'
    by_cases g4 : qPos a.rate = true
    swap
    · simp [g4] at h
    by_cases g5 : a.start = .arrayTime ∨ a.start = .garbage
    · simp [g4, g5] at h
    by_cases g6 : a.metaK = .notMapping
    · simp [g4, g5, g6] at h
    have hstart : a.start = .none ∨ a.start = .scalarTime := by
      cases hs : a.start <;> simp [hs] at g5 ⊢
    simp only [g4, g5, g6, if_false, not_true_eq_false] at h
    by_cases gr : d.isRadio = true
    swap
    · simp only [gr, not_false_eq_true, if_true] at h
      injection h with h; subst h
      have : d.isRadio = false := by simpa using gr
      exact ⟨⟨Nat.le_of_not_lt g1, g2, g3, hd1, (qPos_iff _).1 g4, hstart, g6, by simp [this]⟩,
        rfl, rfl, hd2, by simp [this]⟩
    simp only [gr, not_true_eq_false, if_false] at h
    by_cases g7 : qScalarFreq a.cf = true
    swap
    · rw [if_pos g7] at h; cases h
    rw [if_neg (not_not.mpr g7)] at h
    by_cases g8 : ¬ d.isBaseband = true ∧ ¬ qPos a.bw = true
    · rw [if_pos g8] at h; cases h
    rw [if_neg g8] at h
    by_cases g9 : Gen.Align.alignAllowed.contains a.align = true
    swap
    · rw [if_pos g9] at h; cases h
    rw [if_neg (not_not.mpr g9)] at h
    have hbw : d.isBaseband = false → a.bw = .pos := by
      intro hb
      by_contra hc
      apply g8
      refine ⟨by simp [hb], ?_⟩
      intro hq; exact hc ((qPos_iff _).1 hq)
    by_cases gd : d.isDualPol = true
    swap
    · simp only [gd, not_false_eq_true, if_true] at h
      injection h with h; subst h
      have : d.isDualPol = false := by simpa using gd
      exact ⟨⟨Nat.le_of_not_lt g1, g2, g3, hd1, (qPos_iff _).1 g4, hstart, g6,
        fun _ => ⟨g7, hbw, g9, by simp [this]⟩⟩, rfl, rfl, hd2, fun _ => ⟨rfl, rfl, by simp [this]⟩⟩
    simp only [gd, not_true_eq_false, if_false] at h
    by_cases gp : (a.pol == "linear" || a.pol == "circular") = true
    swap
    · simp [gp] at h
    simp only [gp, not_true_eq_false, if_false] at h
    injection h with h; subst h
    have hpol : a.pol = "linear" ∨ a.pol = "circular" := by simpa using gp
    exact ⟨⟨Nat.le_of_not_lt g1, g2, g3, hd1, (qPos_iff _).1 g4, hstart, g6,
      fun _ => ⟨g7, hbw, g9, fun _ => hpol⟩⟩, rfl, rfl, hd2, fun _ => ⟨rfl, rfl, fun _ => rfl⟩⟩

/-- **construction establishes the contract** (any class descriptor) -/
theorem C16_construct_inv (d : ClassDesc) (a : Args) (s : Sig) (h : construct d a = .ok s) : Inv d s := by
  obtain ⟨g, h1, h2, h3, h4⟩ := construct_ok d a s h
  obtain ⟨g1, g2, g3, _, _, _, _, g8⟩ := g
  refine ⟨h1, by rw [h2]; exact g1, by rw [h2]; exact g2, by rw [h2]; exact g3, h3, ?_, ?_, ?_⟩
  · intro hr
    obtain ⟨_, ha, _⟩ := h4 hr
    obtain ⟨_, _, hal, _⟩ := g8 hr
    rw [ha, h2]
    have ho : Gen.Align.oddAlign = some "center" := rfl
    constructor
    · split
      · rw [ho]; simp only [Option.getD_some]; decide
      · exact hal
    · intro hodd
      left
      simp only [hodd, if_true, ho, Option.getD_some]
  · intro hr hb
    rw [(h4 hr).1, hb]
  · intro hr hd
    rw [(h4 hr).2.2 hd]
    exact (g8 hr).2.2.2 hd

/-- every failure is a ValueError (InvalidSignalError ⊂ ValueError) -/
theorem C16_errors_are_value_errors (d : ClassDesc) (a : Args) (e : Err) (h : construct d a = .error e) :
    e = .valueError := by
  unfold construct at h
  split at h
  · cases h
  · injection h with h; exact h.symm

/-- **rejections**: each listed violation yields ValueError and never an object. -/
theorem C16_reject (d : ClassDesc) (a : Args)
    (hbad : a.shape.length < d.reqShape.length ∨ shapeOk a.shape d.reqShape = false ∨ prodTail a.shape = 0 ∨
      (d.reqDtype ≠ [] ∧ d.reqDtype.contains a.dtype = false ∧ a.safeToFirst = false) ∨
      a.rate ≠ .pos ∨ a.start = .arrayTime ∨ a.start = .garbage ∨ a.metaK = .notMapping ∨
      (d.isRadio = true ∧ qScalarFreq a.cf = false) ∨
      (d.isRadio = true ∧ d.isBaseband = false ∧ a.bw ≠ .pos) ∨
      (d.isRadio = true ∧ Gen.Align.alignAllowed.contains a.align = false) ∨
      (d.isRadio = true ∧ d.isDualPol = true ∧ ¬ (a.pol = "linear" ∨ a.pol = "circular"))) :
    construct d a = .error .valueError := by
  cases hc : construct d a with
  | error e => rw [C16_errors_are_value_errors d a e hc]
  | ok s =>
    exfalso
    obtain ⟨⟨g1, g2, g3, g4, g5, g6, g7, g8⟩, _⟩ := construct_ok d a s hc
    rcases hbad with h | h | h | h | h | h | h | h | h | h | h | h
    · omega
    · rw [g2] at h; cases h
    · exact g3 h
    · obtain ⟨h1, h2, h3⟩ := h
      rcases g4 with g | g | g
      · rw [g] at h2; cases h2
      · apply h1; simpa using g
      · rw [g] at h3; cases h3
    · exact h g5
    · rcases g6 with g | g <;> rw [g] at h <;> cases h
    · rcases g6 with g | g <;> rw [g] at h <;> cases h
    · exact g7 h
    · rw [(g8 h.1).1] at h; cases h.2
    · exact h.2.2 ((g8 h.1).2.1 h.2.1)
    · rw [(g8 h.1).2.2.1] at h; cases h.2
    · exact h.2.2 ((g8 h.1).2.2.2 h.2.1)

/-- **`like()` is faithful**: for every class every keyword-only constructor parameter is a
readable property of the object, so `like(obj)` (and compute/persist/to_dask_array/rechunk, which
go through it) re-supplies every attribute unchanged. -/
theorem C16_like_faithful : classTable.all (fun r => likeFaithful r.name) = true := by
  decide +kernel

/-- **no constructor drops an argument** (translator-fed from the `__init__` bodies of `core.py` on every run): every
parameter of every constructor is either passed on under its own name to `super().__init__` or stored through the property of
the same name (the data argument of the base class is validated in the body).  A subclass constructor that forgets to pass a
keyword on — so that objects silently carry the parent's default — no longer satisfies this. -/
theorem C16_ctor_forwards :
    Gen.Ctor.extractOk = true ∧
    Gen.Ctor.ctors.all (fun c => c.2.1.all (fun p => c.2.2.1.contains p || c.2.2.2.contains p)) = true ∧
    (Gen.Ctor.ctors.map (·.1)) = ["Signal", "RadioSignal", "BasebandSignal", "DualPolarizationSignal"] := by
  refine ⟨by decide, by decide, by decide⟩

example : ∃ s, construct ⟨"DualPolarizationSignal", [none, none, some 2], ["complex128", "complex64"], true, true, true⟩
    ⟨[16, 3, 2], "complex64", true, .pos, .none, .dict, .neg, .zero, "top", "linear"⟩ = .ok s ∧ s.align = "center" :=
  ⟨_, rfl, rfl⟩

end Pb.C16
