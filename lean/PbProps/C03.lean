import PbProofs.Dft
import PbProofs.Shift
import PbModel.Gen.Shift

/-! # C03 — time_shift is a band-limited delay with exact zero-fill and no wrap-around

Analytic part on `ZMod N` (Mathlib's discrete Fourier transform `𝓕`); discrete part on
`PbModel/Shift.lean` (zero-fill with NumPy broadcasting) and `PbModel/Crop.lean` (crop bounds). -/

namespace Pb.C03
open ZMod Pb.Crop Pb.Shift
open scoped ZMod

variable {N : ℕ} [NeZero N]

/-- **shift theorem**: `ifft(exp(-2πi·s·k/N) · fft(x))` is `x` delayed (circularly) by the whole
number of samples `s`: integer shifts move samples exactly — every `N ≥ 1`, every `x`. -/
theorem C03_shift_theorem (x : ZMod N → ℂ) (s : ZMod N) :
    𝓕⁻ (fun k => stdAddChar (-(s * k)) * 𝓕 x k) = fun n => x (n - s) := Pb.Dft.shift_via_dft x s

/-- the forward statement: delaying multiplies bin `k` by `exp(-2πi·k·s/N)` -/
theorem C03_ramp (x : ZMod N → ℂ) (s k : ZMod N) :
    𝓕 (fun n => x (n - s)) k = stdAddChar (-(s * k)) * 𝓕 x k := Pb.Dft.dft_shift x s k

/-- **tone**: the signal whose only spectral content is at bin `m` (`x n = e^{2πi m n/N}`) has
`𝓕 x = N·δ_m`, so the ramp multiplies it by the single factor at bin `m`: a tone at DFT bin `m`
is multiplied by `exp(−2πi·m·s/N)`. -/
theorem C03_tone (m s : ZMod N) (n : ZMod N) :
    (fun n => (stdAddChar (m * (n - s)) : ℂ)) n = stdAddChar (-(s * m)) * stdAddChar (m * n) := by
  simp only
  rw [← AddChar.map_add_eq_mul]
  congr 1
  ring

theorem C03_tone_spectrum (m k : ZMod N) :
    𝓕 (fun n => (stdAddChar (m * n) : ℂ)) k = if k = m then (N : ℂ) else 0 := Pb.Dft.dft_tone m k

/-- **zero-fill rule**: position `n` is zeroed for shift `a` exactly when its source `n − a`
lies outside the input (before sample 0 for `a > 0`, after sample `N−1` for `a < 0`);
integers, fractions, `|a| ≥ N`, either sign. -/
theorem C03_zero_fill (Nn : Nat) (a : Rat) (n : Nat) (hn : n < Nn) :
    zeroed Nn a n = true ↔ (a < 0 ∧ (Nn : Rat) - 1 < (n : Rat) - a) ∨ (0 ≤ a ∧ (n : Rat) - a < 0) :=
  zeroed_iff Nn a n hn

/-- the first `⌈a⌉` samples for `a ≥ 0`, the last `⌈|a|⌉ = −⌊a⌋` for `a < 0` (clamped to `N`) -/
theorem C03_zero_counts (Nn : Nat) (a : Rat) :
    (0 ≤ a → zeroInterval Nn a = (0, (min (Crop.ceil a) Nn).toNat)) ∧
    (a < 0 → zeroInterval Nn a = ((max ((Nn : Int) + Crop.floor a) 0).toNat, Nn)) := by
  constructor
  · intro ha
    have hc0 : 0 ≤ Crop.ceil a := by
      by_contra hc
      have : ¬ ((-1 : Int) < Crop.ceil a) := by omega
      rw [lt_ceil_iff] at this
      push_cast at this
      linarith
    unfold zeroInterval
    rw [if_neg (not_lt.mpr ha), adj_some_nonneg Nn _ Nn hc0]
  · intro ha
    have hfl : Crop.floor a < 0 := by
      have := (floor_le_iff a (-1)).mpr (by push_cast; linarith)
      omega
    unfold zeroInterval
    rw [if_pos ha]
    congr 1
    unfold adj
    simp only [hfl, if_true]
    split <;> omega

/-- every element of the sample shape is treated with ITS broadcast shift (lower-rank and
length-1 shift axes included): the model's per-element interval is `zeroInterval` of the NumPy
broadcast value. -/
theorem C03_every_element (Nn : Nat) (sampleShape shiftShape : List Nat) (vals : List Rat) :
    zeroFill Nn sampleShape shiftShape vals =
      (multiIndices sampleShape).map (fun e =>
        (e, (zeroInterval Nn (bcastGet (padShape sampleShape.length shiftShape) vals e)).1,
            (zeroInterval Nn (bcastGet (padShape sampleShape.length shiftShape) vals e)).2)) := rfl

/-- a shift of a full length or more leaves nothing -/
theorem C03_full_shift (Nn : Nat) (a : Rat) (n : Nat) (hn : n < Nn)
    (ha : (Nn : Rat) ≤ a ∨ a ≤ -(Nn : Rat)) : zeroed Nn a n = true := zeroed_all Nn a n hn ha

/-- **crop = uncropped minus exactly the zero-filled edges**: `crop=True` keeps position `n`
iff `n` is zero-filled for no element of the sample shape. -/
theorem C03_crop_eq (Nn n : Nat) (hn : n < Nn) (shifts : List Rat) :
    ((shiftBounds shifts).1 ≤ (n : Int) ∧ (n : Int) < (Nn : Int) + (shiftBounds shifts).2) ↔
    ∀ a ∈ shifts, zeroed Nn a n = false := crop_iff_not_zeroed Nn n hn shifts

example : zeroFill 8 [2, 2] [2] [3/2, -5/2] = [([0,0],0,2), ([0,1],0,2), ([1,0],5,8), ([1,1],5,8)] := by
  decide +kernel

/-- Tie to the source: the body of `time_shift`'s zero-fill loop, translated symbolically on every run
(`Gen/Shift.lean`), is the model's: for an element shift `a` the region `[⌊a⌋:]` is emptied when `a < 0` and
`[:⌈a⌉]` otherwise, the crop bounds are updated by exactly one step of `shiftBounds`, starting from `(0, 0)`, and the cropped result is `x[start:max(len(x) + stop, 0)]`; the phase
factor is `exp(−2πi · …)` of the listed factors. -/
theorem C03_source_loop :
    (∀ (N : Nat) (a : Rat), zeroInterval N a =
      if (Gen.Shift.tsRegion a).1 = true then ((adj N (some (Gen.Shift.tsRegion a).2) 0).toNat, N)
      else (0, (adj N (some (Gen.Shift.tsRegion a).2) N).toNat)) ∧
    (∀ (a : Rat) (rest : List Rat),
      shiftBounds (a :: rest) = Gen.Shift.tsStep a (shiftBounds rest).1 (shiftBounds rest).2) ∧
    Gen.Shift.tsInit = "(0, 0)" ∧ Gen.Shift.tsCrop = "x[start:max(len(x) + stop, 0)]" ∧
    Gen.Shift.tsPhaseSign = -1 ∧ Gen.Shift.tsPhaseFactors = ["f", "shift"] := by
  refine ⟨?_, ?_, by decide, by decide, by decide, by decide⟩
  · intro N a
    by_cases h : a < 0
    · have h' : ¬ (0 ≤ a) := not_le.mpr h
      simp [zeroInterval, Gen.Shift.tsRegion, Crop.floor, Crop.ceil, h, h']
    · have h' : 0 ≤ a := not_lt.mp h
      simp [zeroInterval, Gen.Shift.tsRegion, Crop.floor, Crop.ceil, h, h']
  · intro a rest
    by_cases h : a < 0
    · have h' : ¬ (0 ≤ a) := not_le.mpr h
      simp [shiftBounds, Gen.Shift.tsStep, Crop.floor, Crop.ceil, h, h']
    · have h' : 0 ≤ a := not_lt.mp h
      simp [shiftBounds, Gen.Shift.tsStep, Crop.floor, Crop.ceil, h, h']

end Pb.C03
