import PbModel.Basic
import PbModel.Crop
import PbModel.Gen.Disp

/-! Dispersion model (C05, C06): the cold-plasma delay law, the dedispersion phase, the edge
crops of `coherent_dedispersion` and the realignment of `incoherent_dedispersion`.
Frequencies in Hz, times in s, DM in pc/cm³.  The constant comes from the GENERATED file. -/

namespace Pb.Disp
open Pb.Crop

/-- `dispersion_constant` in s·Hz²·cm³/pc, assembled from the translator's output:
literal (with its exponent sign) times (10⁶)^(exponent of MHz) -/
def K : Rat :=
  let lit := if Gen.Disp.constLiteralExp = -1 then 1 / Gen.Disp.constLiteral else Gen.Disp.constLiteral
  let mhzExp := (Gen.Disp.constUnits.lookup "MHz").getD 0
  lit * (1000000 : Rat) ^ mhzExp.toNat

/-- `DispersionMeasure.time_delay(f, ref_freq)` = `K·DM·(1/f² − 1/ref²)` seconds -/
def timeDelay (DM f r : Rat) : Rat := K * DM * (1 / f ^ 2 - 1 / r ^ 2)

/-- `sample_delay` = `time_delay · sample_rate` -/
def sampleDelay (DM f r rate : Rat) : Rat := timeDelay DM f r * rate

/-- dedispersion phase in cycles at absolute frequency `f`: `K·DM·f·(1/ref − 1/f)²` -/
def phaseTurns (DM r f : Rat) : Rat := K * DM * f * (1 / r - 1 / f) ^ 2

/-- the same with the reference given by its reciprocal `ir = 1/ref` (`ir = 0`: the customary
infinite reference frequency, `ref_freq = inf`) -/
def phaseTurnsInv (DM ir f : Rat) : Rat := K * DM * f * (ir - 1 / f) ^ 2

def timeDelayInv (DM f ir : Rat) : Rat := K * DM * (1 / f ^ 2 - ir ^ 2)

/-- `np.round` (round half to even) on an exact rational -/
def roundHalfEven (q : Rat) : Int :=
  let f := q.floor
  let r := q - f
  if r < 1 / 2 then f
  else if 1 / 2 < r then f + 1
  else if f % 2 = 0 then f else f + 1

structure IncohOut where
  cropBefore : Int
  shifted : List Int        -- per-channel source offset `j` of `z.data[j : j+N, i]`
  count : Nat               -- N
  led : Ledger
  deriving Repr

/-- `incoherent_dedispersion` after `delays = DM.sample_delay(channel_freqs, ref, rate)`:
round, `crop_before = -min(0, d[0], d[-1])`, `N = max(len − max(delays), 0)`, per-channel slices,
`new_start += crop_before·dt` when `crop_before ≠ 0` and a start time exists. -/
def incoh (L : Ledger) (delays : List Rat) : Except Err IncohOut :=
  match delays.map roundHalfEven with
  | [] => .error .valueError
  | d0 :: rest =>
    let ds := d0 :: rest
    let dl := ds.getLast?.getD d0
    let cropBefore := -(min 0 (min d0 dl))
    let shifted := ds.map (· + cropBefore)
    let N := (max ((L.len : Int) - listMax shifted) 0).toNat
    .ok { cropBefore := cropBefore, shifted := shifted, count := N,
          led := { t0 := if cropBefore ≠ 0 then L.t0.map (· + cropBefore / L.rate) else L.t0,
                   rate := L.rate, len := N } }

/-- source index of output sample `(k, i)`; `none` = Python's negative-index wrap would apply -/
def incohSrc (o : IncohOut) (i k : Nat) : Option Int := (o.shifted[i]?).map (fun j => j + k)

/-- edge crop of `coherent_dedispersion`: `start = ⌈−min(0, d_top, d_bot)⌉`,
`stop = N − ⌈max(0, d_top, d_bot)⌉`, then `[start : max(stop, 0)]` -/
def cohBounds (n : Nat) (dTop dBot : Rat) : Int × Int :=
  (Crop.ceil (-(min 0 (min dTop dBot))), (n : Int) - Crop.ceil (max 0 (max dTop dBot)))

end Pb.Disp
