/-! Effect IR and flow-sensitive may-alias analysis (C14).  Programs in this IR are GENERATED from
the Python sources by pbverif/extract.py; the analysis `ana` is proved sound in
`PbProofs/Effect.lean` against a nondeterministic concrete semantics. -/

namespace Pb.Effect


abbrev Var := Nat

inductive Rhs where
  | fresh
  | viewOf (ys : List Var)          -- may alias any of ys (views, unknown calls); [] behaves like fresh
deriving Repr

inductive Prog where
  | skip
  | assign (x : Var) (r : Rhs)
  | write (x : Var)
  | seq (p q : Prog)
  | choice (p q : Prog)             -- if/else, try/except
  | loop (p : Prog)                 -- zero or more iterations
deriving Repr

/-- abstract state: `σ x = true` iff x may point into a buffer that existed before the call -/
abbrev AState := Var → Bool

def AState.set (σ : AState) (x : Var) (b : Bool) : AState := fun y => if y = x then b else σ y
def AState.join (σ τ : AState) : AState := fun y => σ y || τ y
/-- τ ⊑ σ on variables < n -/
def AState.leN (n : Nat) (τ σ : AState) : Bool := (List.range n).all (fun y => !τ y || σ y)

def rhsTaint (σ : AState) : Rhs → Bool
  | .fresh => false
  | .viewOf ys => ys.any σ

/-- iterate σ := σ ⊔ f(σ) at most `k` times; accept only at a checked post-fixpoint -/
def anaLoop (n : Nat) (f : AState → Bool × AState) : Nat → AState → Bool × AState
  | 0, σ => (false, σ)
  | k+1, σ =>
    let r := f σ
    if AState.leN n r.2 σ then (r.1, σ) else anaLoop n f k (σ.join r.2)

def ana (n : Nat) : AState → Prog → Bool × AState
  | σ, .skip => (true, σ)
  | σ, .assign x r => (true, σ.set x (rhsTaint σ r))
  | σ, .write x => (!σ x, σ)
  | σ, .seq p q =>
    let r := ana n σ p
    let r' := ana n r.2 q
    (r.1 && r'.1, r'.2)
  | σ, .choice p q =>
    let r := ana n σ p
    let r' := ana n σ q
    (r.1 && r'.1, r.2.join r'.2)
  | σ, .loop p => anaLoop n (fun τ => ana n τ p) (n+1) σ

/-- all variables mentioned are < n -/
def Rhs.wf (n : Nat) : Rhs → Prop
  | .fresh => True
  | .viewOf ys => ∀ y ∈ ys, y < n
def Prog.wf (n : Nat) : Prog → Prop
  | .skip => True
  | .assign x r => x < n ∧ r.wf n
  | .write x => x < n
  | .seq p q => p.wf n ∧ q.wf n
  | .choice p q => p.wf n ∧ q.wf n
  | .loop p => p.wf n


/-- decidable well-formedness (all variables `< n`) -/
def Rhs.wfb (n : Nat) : Rhs → Bool
  | .fresh => true
  | .viewOf ys => ys.all (· < n)
def Prog.wfb (n : Nat) : Prog → Bool
  | .skip => true
  | .assign x r => decide (x < n) && r.wfb n
  | .write x => decide (x < n)
  | .seq p q => p.wfb n && q.wfb n
  | .choice p q => p.wfb n && q.wfb n
  | .loop p => p.wfb n

/-- entry state: exactly the listed variables (the parameters) may point to pre-existing buffers -/
def entry (tainted : List Var) : AState := fun x => tainted.contains x

/-- sequence of statements -/
def seqs : List Prog → Prog
  | [] => .skip
  | [p] => p
  | p :: rest => .seq p (seqs rest)

structure Entry where
  name : String
  nvars : Nat
  tainted : List Var
  prog : Prog
  deriving Repr

/-- the analysis accepts the program: well-formed and no write may hit a pre-existing buffer -/
def Entry.safe (e : Entry) : Bool := e.prog.wfb e.nvars && (ana e.nvars (entry e.tainted) e.prog).1

end Pb.Effect
