import PbModel.Basic
import PbModel.DayFrac

/-! Model of the decimal I/O and ordering of `Phase` (C15): `_parse_string` (after the `fix:`
commits: split at the first '.', exponent applied by moving digits), fixed-precision
`to_string`, and the comparison `(Δint) + (Δfrac) ? 0`. -/

namespace Pb.PhaseStr
open Pb.DayFrac

/-- value of a list of decimal digits (most significant first) -/
def dv : List Nat → Nat
  | [] => 0
  | d :: rest => d * 10 ^ rest.length + dv rest

/-- a lexed decimal string: sign, trailing `j`, integer digits, fraction digits, exponent -/
structure Lexed where
  neg : Bool
  imag : Bool
  ip : List Nat
  fp : List Nat
  exp : Int
  deriving Repr

def zeros (k : Nat) : List Nat := List.replicate k 0

/-- the digit moves of `_parse_string`: returns `(s_count digits, s_frac digits)` -/
def shift (ip fp : List Nat) (e : Int) : List Nat × List Nat :=
  if e < 0 then
    let k := (-e).toNat
    let ip1 := zeros (k - ip.length) ++ ip          -- "0" * (-exponent - len(s_count)) + s_count
    (ip1.take (ip1.length - k), ip1.drop (ip1.length - k) ++ fp)   -- s_count[:exponent], s_count[exponent:] + s_frac
  else if 0 < e then
    let k := e.toNat
    let fp1 := fp ++ zeros (k - fp.length)          -- s_frac + "0" * (exponent - len(s_frac))
    (ip ++ fp1.take k, fp1.drop k)
  else (ip, fp)

/-- exact value of `count.frac` digits -/
def fixVal (ip fp : List Nat) : Rat := (dv ip : Rat) + (dv fp : Rat) / ((10 ^ fp.length : Nat) : Rat)

def pow10 (k : Int) : Rat := if k ≥ 0 then ((10 ^ k.toNat : Nat) : Rat) else 1 / ((10 ^ (-k).toNat : Nat) : Rat)

/-- the decimal value the string denotes (without sign) -/
def Lexed.value (l : Lexed) : Rat := fixVal l.ip l.fp * pow10 l.exp

/-- exact `(count, frac)` the digit layer hands to `float()` -/
def Lexed.parts (l : Lexed) : Rat × Rat :=
  let s := shift l.ip l.fp l.exp
  ((dv s.1 : Rat), (dv s.2 : Rat) / ((10 ^ s.2.length : Nat) : Rat))

/-! ### lexer (plain decimal grammar: [sign] digits [. digits] | . digits, [e|d [sign] digits], [j]) -/

def digitOf (c : Char) : Option Nat := if c.isDigit then some (c.toNat - 48) else none

def lexInt (s : List Char) : Option Int :=
  let (neg, r) := match s with
    | '-' :: r => (true, r) | '+' :: r => (false, r) | r => (false, r)
  if r.isEmpty then none
  else (r.mapM digitOf).map fun ds => if neg then -((dv ds : Nat) : Int) else ((dv ds : Nat) : Int)

def lex (raw : String) : Option Lexed :=
  let s0 := (raw.trimAscii.toString.toList.map Char.toLower).map (fun c => if c == 'd' then 'e' else c)
  let (s1, imag) := if s0.getLast? == some 'j' then (s0.dropLast, true) else (s0, false)
  let (s, neg) := match s1 with
    | '+' :: r => (r, false) | '-' :: r => (r, true) | r => (r, false)
  let mant := s.takeWhile (· != 'e')
  let rest := s.dropWhile (· != 'e')
  let ipC := mant.takeWhile (· != '.')
  let fpC := match mant.dropWhile (· != '.') with | [] => [] | _ :: f => f
  if ipC.isEmpty && fpC.isEmpty then none
  else
    match ipC.mapM digitOf, fpC.mapM digitOf with
    | some ip, some fp =>
      let ex : Option Int := match rest with | [] => some 0 | _ :: e => lexInt e
      ex.map fun e => { neg := neg, imag := imag, ip := ip, fp := fp, exp := e }
    | _, _ => none

/-! ### fixed-precision rendering: `('{0:1.Nf}').format(frac)` on the exact value -/

def roundHalfEvenNat (q : Rat) : Nat :=
  let f := q.floor.toNat
  let r := q - (f : Rat)
  if r < 1 / 2 then f else if 1 / 2 < r then f + 1 else if f % 2 = 0 then f else f + 1

/-- `do_format(count, frac)` with `precision = p` for a non-negative value with `0 ≤ frac < 1`:
returns the printed integer part and the `p` fraction digits as a number -/
def fmtFixed (count : Nat) (frac : Rat) (p : Nat) : Nat × Nat :=
  let r := roundHalfEvenNat (frac * ((10 ^ p : Nat) : Rat))
  if r ≥ 10 ^ p then (count + 1, r - 10 ^ p) else (count, r)        -- frac_str[0] == "1": count += 1

def printedValue (c : Nat × Nat) (p : Nat) : Rat := (c.1 : Rat) + (c.2 : Rat) / ((10 ^ p : Nat) : Rat)

/-- the whole of `do_format` for one element, on the two doubles, with Python's float steps
(`count + frac < 0`, negation, `frac += 1; count -= 1`) done in `rn53` arithmetic -/
def doFormat (count frac : Rat) (p : Nat) : Bool × Nat × Nat :=
  let neg := decide (rn53 (count + frac) < 0)
  let c := if neg then -count else count
  let f := if neg then -frac else frac
  let (c, f) := if f < 0 then (rn53 (c - 1), rn53 (f + 1)) else (c, f)
  let r := fmtFixed c.floor.toNat f p
  (neg, r.1, r.2)

/-! ### ordering -/

/-- the comparison branch of `__array_ufunc__`: `(int₁ − int₂) + (frac₁ − frac₂)` with rounding `rn` -/
def cmpDiff (rn : Rat → Rat) (i1 f1 i2 f2 : Rat) : Rat := rn (rn (i1 - i2) + rn (f1 - f2))

end Pb.PhaseStr
