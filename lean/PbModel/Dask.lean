/-! Model for C09: container logic of Dask-backed signals, block-wise application, and execution
of a pure task graph under arbitrary schedules.  Import-free. -/

namespace Pb.Dask

/-! ### container logic -/

inductive Backing | numpy | dask
  deriving DecidableEq, Repr

/-- the operations whose container behaviour is transcribed from `core.py` / the transforms -/
inductive Op
  | compute | persist | toDask | rechunk            -- Signal methods
  | transform                                        -- every array transform (shift, dedisperse, ufunc, slice, …)
  | read (useDask : Bool)                            -- BaseReader.read
  deriving DecidableEq, Repr

/-- backing of the result, given the backings of the signal inputs.  `compute`: Dask → NumPy,
NumPy stays; `persist`: unchanged (a persisted Dask array is still a Dask array);
`to_dask_array` / `rechunk`: always Dask; transforms: Dask iff any input is; `read`: by flag. -/
def result : Op → List Backing → Backing
  | .compute, _ => .numpy
  | .persist, ins => if ins.contains .dask then .dask else .numpy
  | .toDask, _ => .dask
  | .rechunk, _ => .dask
  | .transform, ins => if ins.contains .dask then .dask else .numpy
  | .read d, _ => if d then .dask else .numpy

/-- a signal, as far as containers are concerned: backing plus everything else (`meta`) -/
structure Sig (μ : Type) where
  backing : Backing
  metaK : μ

def applyMethod {μ} (op : Op) (s : Sig μ) : Sig μ := { s with backing := result op [s.backing] }

/-! ### pure task graphs under arbitrary schedules -/

/-- a graph of pure tasks over values `α`: task `i` applies `f i` to the values of `deps i` -/
structure Graph (α : Type) where
  deps : Nat → List Nat
  f : Nat → List α → α

abbrev Memo (α : Type) := Nat → Option α

def Memo.empty {α} : Memo α := fun _ => none

def Memo.set {α} (m : Memo α) (i : Nat) (v : α) : Memo α := fun j => if j = i then some v else m j

/-- all dependencies of `i` are computed -/
def enabled {α} (g : Graph α) (m : Memo α) (i : Nat) : Bool := (g.deps i).all fun d => (m d).isSome

/-- a worker completes task `i`: if its inputs are available it stores the value (recomputing an
already stored task stores the same kind of value again), otherwise nothing happens -/
def exec {α} [Inhabited α] (g : Graph α) (m : Memo α) (i : Nat) : Memo α :=
  if enabled g m i then m.set i (g.f i ((g.deps i).map fun d => (m d).getD default)) else m

/-- a schedule is any sequence of task completions (any interleaving of any number of workers) -/
def run {α} [Inhabited α] (g : Graph α) (sched : List Nat) (m : Memo α) : Memo α :=
  sched.foldl (exec g) m

/-- the value of task `i` by structural evaluation with fuel (the "single-threaded" meaning) -/
def denote {α} [Inhabited α] (g : Graph α) : Nat → Nat → α
  | 0, _ => default
  | fuel + 1, i => g.f i ((g.deps i).map fun d => denote g fuel d)

end Pb.Dask
