import PbModel.Basic
import PbModel.Disp

/-! Model of `pulsarbat/readers/_base.py` and `_baseband_readers.py` (C11).

A file is an immutable function `F : time → i → j → α` over an in-sample shape `(a, b)` (the
shape the `baseband` stream reader delivers with `squeeze=False`; `(thread|pol, chan)`).  A read
is the life-cycle `open; seek; read; close` on a *fresh* handle; the position/count window, the
per-format index maps (transpose, channel flip, conjugation) and the bounds checks are transcribed
from the code.  The Hilbert conversion of real baseband data is C19's subject: here only the
window `[2·offset, 2·offset + 2·n)` is modelled for that mode. -/

namespace Pb.Reader

inductive RErr | typeError | valueError | outOfBounds
  deriving DecidableEq, Repr

def RErr.name : RErr → String
  | .typeError => "TypeError"
  | .valueError => "ValueError"
  | .outOfBounds => "OutOfBoundsError"

/-- an argument given to `operator.index`: an integer (Python int, bool, NumPy integer) or
anything else (float, str, None …) -/
inductive Arg | int (v : Int) | other
  deriving Repr

inductive Mode | complex | realBaseband | intensity
  deriving DecidableEq, Repr

inductive Kind | generic | guppi | stokes
  deriving DecidableEq, Repr

structure Desc where
  kind : Kind
  mode : Mode
  fileLen : Nat            -- samples in the underlying stream
  a : Nat                  -- in-sample axis 1
  b : Nat                  -- in-sample axis 2
  lsb : Nat → Nat → Bool   -- lower-sideband flag per in-sample element

/-- `len(reader)`: `fh.shape[0] // 2` for real baseband data -/
def Desc.len (d : Desc) : Nat := if d.mode = .realBaseband then d.fileLen / 2 else d.fileLen

/-- the three checks at the top of `BaseReader.read`, in order -/
def readCheck (len : Nat) (offset n : Arg) : Except RErr (Nat × Nat) :=
  match offset with
  | .other => .error .typeError
  | .int o =>
    if o < 0 then .error .valueError else
    match n with
    | .other => .error .typeError
    | .int k =>
      if k < 0 then .error .valueError
      else if o + k > (len : Int) then .error .outOfBounds
      else .ok (o.toNat, k.toNat)

/-- `fh.seek(2*offset); fh.read(2*n)` for real baseband, `fh.seek(offset); fh.read(n)` otherwise -/
def window (d : Desc) (o n : Nat) : Nat × Nat :=
  if d.mode = .realBaseband then (2 * o, 2 * n) else (o, n)

/-- shape of one output sample: GUPPI and DADA-Stokes transpose `(0, 2, 1)` -/
def outSample (d : Desc) : Nat × Nat :=
  match d.kind with
  | .generic => (d.a, d.b)
  | _ => (d.b, d.a)

/-- where output element `(t, x, y)` of `read(o, ·)` comes from: file coordinates and whether it
is conjugated (non-Hilbert modes) -/
structure Src where
  t : Nat
  i : Nat
  j : Nat
  conj : Bool
  deriving DecidableEq, Repr

def src (d : Desc) (o t x y : Nat) : Src :=
  match d.kind with
  | .generic => ⟨o + t, x, y, d.mode != .intensity && d.lsb x y⟩
  | .guppi => ⟨o + t, y, x, d.mode != .intensity && d.lsb y x⟩
  | .stokes => ⟨o + t, y, if d.lsb 0 0 then d.b - 1 - x else x, d.mode != .intensity && d.lsb 0 0⟩

/-- sample algebra: values with a conjugation -/
structure Conj (α : Type) where
  conj : α → α

def fetch {α} (C : Conj α) (F : Nat → Nat → Nat → α) (s : Src) : α :=
  if s.conj then C.conj (F s.t s.i s.j) else F s.t s.i s.j

def outAt {α} (C : Conj α) (d : Desc) (F : Nat → Nat → Nat → α) (o t x y : Nat) : α :=
  fetch C F (src d o t x y)

/-- one output sample (row-major over the output sample shape) -/
def frame {α} (C : Conj α) (d : Desc) (F : Nat → Nat → Nat → α) (o t : Nat) : List α :=
  (List.range (outSample d).1).flatMap fun x =>
    (List.range (outSample d).2).map fun y => outAt C d F o t x y

/-- the data of `read(o, n)` in C order (non-Hilbert modes) -/
def readVals {α} (C : Conj α) (d : Desc) (F : Nat → Nat → Nat → α) (o n : Nat) : List α :=
  (List.range n).flatMap fun t => frame C d F o t

/-- the coordinates only (what the driver prints) -/
def readSrcs (d : Desc) (o n : Nat) : List Src :=
  (List.range n).flatMap fun t =>
    (List.range (outSample d).1).flatMap fun x =>
      (List.range (outSample d).2).map fun y => src d o t x y

/-! ### times -/

/-- `time_at(offset)` relative to the file start, in seconds -/
def timeAt (rate : Rat) (k : Int) : Rat := k / rate

/-- `offset_at(t)`: nearest sample (`np.round`), bounds `[0, len]` -/
def offsetAt (len : Nat) (rate : Rat) (t : Rat) : Except RErr Int :=
  let k := Pb.Disp.roundHalfEven (t * rate)
  if k < 0 ∨ k > (len : Int) then .error .outOfBounds else .ok k

structure ReadOut where
  n : Nat
  start : Rat          -- seconds after the file start
  pos : Nat            -- seek position in the underlying stream
  cnt : Nat            -- samples read from it
  deriving Repr

def readOp (d : Desc) (rate : Rat) (offset n : Arg) : Except RErr ReadOut :=
  match readCheck d.len offset n with
  | .error e => .error e
  | .ok (o, k) => .ok { n := k, start := timeAt rate o, pos := (window d o k).1, cnt := (window d o k).2 }

/-! ### handle life-cycle and interleavings -/

/-- thread-local state of one `_read_baseband` call: program counter, handle position, result -/
structure TState (α : Type) where
  pc : Nat := 0          -- 0 not opened · 1 open · 2 positioned · 3 data read · 4 closed
  pos : Nat := 0
  out : List α := []

/-- a request: seek position and count -/
structure Req where
  pos : Nat
  cnt : Nat

/-- one atomic step of a reading thread on its own handle; `F1` is the flattened immutable stream -/
def stepT {α} (F1 : Nat → α) (r : Req) (s : TState α) : TState α :=
  match s.pc with
  | 0 => { s with pc := 1, pos := 0 }                         -- baseband.open: fresh handle at 0
  | 1 => { s with pc := 2, pos := r.pos }                     -- fh.seek
  | 2 => { s with pc := 3, out := (List.range r.cnt).map (fun i => F1 (s.pos + i)), pos := s.pos + r.cnt }
  | 3 => { s with pc := 4 }                                   -- close
  | _ => s

/-- run a schedule (list of thread indices) over the thread-local states -/
def runSched {α} (F1 : Nat → α) (reqs : List Req) : List Nat → List (TState α) → List (TState α)
  | [], st => st
  | i :: rest, st =>
    match reqs[i]?, st[i]? with
    | some r, some s => runSched F1 reqs rest (st.set i (stepT F1 r s))
    | _, _ => runSched F1 reqs rest st

/-- what a read returns when it runs alone -/
def solo {α} (F1 : Nat → α) (r : Req) : List α := (List.range r.cnt).map (fun i => F1 (r.pos + i))

/-- the *unsafe* variant used as a foil: one handle position shared by all threads -/
structure Shared (α : Type) where
  pos : Nat
  pcs : List Nat
  outs : List (List α)

def stepShared {α} (F1 : Nat → α) (reqs : List Req) (i : Nat) (g : Shared α) : Shared α :=
  match reqs[i]?, g.pcs[i]? with
  | some r, some pc =>
    match pc with
    | 0 => { g with pcs := g.pcs.set i 1 }
    | 1 => { g with pcs := g.pcs.set i 2, pos := r.pos }
    | 2 => { g with pcs := g.pcs.set i 3, pos := g.pos + r.cnt,
                    outs := g.outs.set i ((List.range r.cnt).map (fun k => F1 (g.pos + k))) }
    | 3 => { g with pcs := g.pcs.set i 4 }
    | _ => g
  | _, _ => g

def runShared {α} (F1 : Nat → α) (reqs : List Req) (sched : List Nat) (g : Shared α) : Shared α :=
  sched.foldl (fun g i => stepShared F1 reqs i g) g

end Pb.Reader
