/-! Small numeric helpers shared by the import-free models. -/

namespace Pb

/-- absolute value on `Rat` (core has no `|·|` notation) -/
def rabs (q : Rat) : Rat := if q < 0 then -q else q

end Pb
