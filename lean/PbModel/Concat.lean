import PbModel.Basic
import PbModel.Crop
import PbModel.Freq

/-! Model of `pulsarbat.transforms.concatenate` (C10) on the label level:
class ids, time ledgers, bands.  Data is `np.concatenate` of the pieces in the given order. -/

namespace Pb.Concat
open Pb.Crop Pb.Freq

structure Piece where
  cls  : Nat                 -- class id (0 = Signal, 1 = RadioSignal, …); `type(s) is sig_type`
  led  : Ledger
  band : Option Band         -- `none` for the base class (not a RadioSignal)
  deriving Repr

/-- `u.isclose(a, b)` with the default `rtol = 1e-5`, `atol = 0`: `|a − b| ≤ rtol·|b|` -/
def uclose (a b : Rat) : Bool := decide (rabs (a - b) ≤ (1 / 100000) * rabs b)

/-- the contiguity loop along time:
```
n = 0
for s in signals:
    if s.start_time is not None:
        if ref_st is None: ref_st = s.start_time - n / ref_sr
        elif not Time.isclose(ref_st + n / ref_sr, s.start_time): raise ValueError
    n += len(s)
``` -/
def timeLoop (α sr : Rat) : List Piece → Nat → Option Rat → Except Err (Option Rat × Nat)
  | [], n, ref => .ok (ref, n)
  | p :: rest, n, ref =>
    match p.led.t0 with
    | none => timeLoop α sr rest (n + p.led.len) ref
    | some t =>
      match ref with
      | none => timeLoop α sr rest (n + p.led.len) (some (t - n / sr))
      | some r =>
        if isclose α (r + n / sr) t then timeLoop α sr rest (n + p.led.len) ref
        else .error .valueError

/-- the start-time check for concatenation along another axis -/
def sameStartLoop (α : Rat) : List Piece → Option Rat → Except Err (Option Rat)
  | [], ref => .ok ref
  | p :: rest, ref =>
    match p.led.t0 with
    | none => sameStartLoop α rest ref
    | some t =>
      match ref with
      | none => sameStartLoop α rest (some t)
      | some r => if isclose α r t then sameStartLoop α rest ref else .error .valueError

/-- adjacent pieces contiguous in frequency: `y.channel_freqs[0] − x.channel_freqs[-1] ≈ chan_bw` -/
def freqContig (bw : Rat) : List Band → Bool
  | [] => true
  | [_] => true
  | x :: y :: rest =>
    uclose (y.label 0 - x.label ((x.n : Int) - 1)) bw && freqContig bw (y :: rest)

/-- `u.allclose(ref_cfs, s.channel_freqs, rtol=0, atol=1e-5 * ref_cbw)` for equal channel counts -/
def labelsClose (a b : Band) : Bool :=
  a.n == b.n && (List.range a.n).all
    (fun i => decide (rabs (a.label i - b.label i) ≤ (1 / 100000) * a.bw))

inductive Axis | time | freq | other
  deriving DecidableEq, Repr

def lastD {α} (l : List α) (d : α) : α := l.getLast?.getD d

/-- `concatenate(signals, axis)` -/
def concat (α : Rat) (axis : Axis) (ps : List Piece) : Except Err Piece :=
  match ps with
  | [] => .error .valueError                                   -- "Need at least one signal"
  | p0 :: _ =>
    if ¬ ps.all (fun p => p.cls == p0.cls) then .error .typeError
    else if ¬ ps.all (fun p => uclose p0.led.rate p.led.rate) then .error .valueError
    else
      let tl : Except Err (Option Rat × Nat) :=
        match axis with
        | .time => timeLoop α p0.led.rate ps 0 none
        | _ => (sameStartLoop α ps none).map (fun r => (r, p0.led.len))
      match tl with
      | .error e => .error e
      | .ok (ref, n) =>
        match p0.band with
        | none =>
          if axis = .freq then .error .typeError
          else .ok { cls := p0.cls, led := { t0 := ref, rate := p0.led.rate, len := n }, band := none }
        | some b0 =>
          let bands := ps.filterMap (·.band)
          if ¬ bands.all (fun b => uclose b0.bw b.bw) then .error .valueError
          else
            match axis with
            | .freq =>
              if ¬ freqContig b0.bw bands then .error .valueError
              else
                let bl := lastD bands b0
                let ntot := (bands.map (·.n)).sum
                match normAlign ntot "center" with
                | .error e => .error e
                | .ok al =>
                  .ok { cls := p0.cls, led := { t0 := ref, rate := p0.led.rate, len := n },
                        band := some { cf := (b0.label 0 + bl.label ((bl.n : Int) - 1)) / 2,
                                       bw := b0.bw, n := ntot, al := al } }
            | _ =>
              if ¬ bands.all (fun b => labelsClose b0 b) then .error .valueError
              else
                match normAlign b0.n "center" with
                | .error e => .error e
                | .ok al =>
                  .ok { cls := p0.cls, led := { t0 := ref, rate := p0.led.rate, len := n },
                        band := some { cf := (b0.label 0 + b0.label ((b0.n : Int) - 1)) / 2,
                                       bw := b0.bw, n := b0.n, al := al } }

/-- the piece `z[off : off+len]` of a signal with ledger `L` (C01), optionally with its start
time removed -/
def timePiece (cls : Nat) (L : Ledger) (B : Option Band) (off len : Nat) (keep : Bool) : Piece :=
  { cls := cls
    led := { t0 := if keep then L.t0.map (· + off / L.rate) else none, rate := L.rate, len := len }
    band := B }

/-- consecutive pieces of lengths `lens` starting at `off` -/
def timePieces (cls : Nat) (L : Ledger) (B : Option Band) : Nat → List (Nat × Bool) → List Piece
  | _, [] => []
  | off, (len, keep) :: rest => timePiece cls L B off len keep :: timePieces cls L B (off + len) rest

/-- the band of `z[:, off : off+n]` (what `_freq_slice` builds, C02) -/
def freqPiece (B : Band) (off n : Nat) : Band :=
  { cf := (B.label off + B.label (((off + n : Nat) : Int) - 1)) / 2, bw := B.bw, n := n, al := "center" }

def freqBands (B : Band) : Nat → List Nat → List Band
  | _, [] => []
  | off, n :: rest => freqPiece B off n :: freqBands B (off + n) rest

/-- consecutive channel ranges of one signal (same class, same time ledger) -/
def freqPieces (cls : Nat) (L : Ledger) (B : Band) (off : Nat) (lens : List Nat) : List Piece :=
  (freqBands B off lens).map (fun b => { cls := cls, led := L, band := some b })

/-- how the `axis` argument is written: by name, or as a (possibly negative) integer -/
inductive AxisArg | name (s : String) | idx (a : Int)

/-- `concatenate`'s reading of the axis argument for signals of rank `ndim` whose frequency axis
exists iff `radio`: names first, then integers normalised the NumPy way (negative counts from the
end); `none` = NumPy's AxisError / the TypeError for 'freq' on a non-radio signal -/
def axisOf (ndim : Nat) (radio : Bool) : AxisArg → Option Axis
  | .name "time" => some .time
  | .name "freq" => if radio then some .freq else none
  | .name _ => none
  | .idx a =>
    let b := if a < 0 then a + ndim else a
    if b < 0 ∨ (ndim : Int) ≤ b then none
    else if b = 0 then some .time
    else if b = 1 ∧ radio then some .freq
    else some .other

end Pb.Concat
