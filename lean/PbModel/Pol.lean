import PbModel.Basic
import PbModel.Gen.Classes

/-! Polarisation model (C13): the 2×2 basis changes of `to_linear` / `to_circular` (without the
common `1/√2`, which is irrational — see `PbProps/C13.lean` for the normalised statements over ℂ)
and both branches of `to_stokes`, on Gaussian rationals. -/

namespace Pb.Pol

structure CRat where
  re : Rat
  im : Rat
  deriving Repr, DecidableEq

namespace CRat
def add (a b : CRat) : CRat := ⟨a.re + b.re, a.im + b.im⟩
def sub (a b : CRat) : CRat := ⟨a.re - b.re, a.im - b.im⟩
def mul (a b : CRat) : CRat := ⟨a.re * b.re - a.im * b.im, a.re * b.im + a.im * b.re⟩
def conj (a : CRat) : CRat := ⟨a.re, -a.im⟩
def mulI (a : CRat) : CRat := ⟨-a.im, a.re⟩               -- 1j * a
def normSq (a : CRat) : Rat := a.re * a.re + a.im * a.im  -- a.real**2 + a.imag**2
def smul (k : Rat) (a : CRat) : CRat := ⟨k * a.re, k * a.im⟩
end CRat

open CRat

/-- `to_circular` before the division by `√2`: `L = X − iY`, `R = X + iY` -/
def toCircU (X Y : CRat) : CRat × CRat := (sub X (mulI Y), add X (mulI Y))

/-- `to_linear` before the division by `√2`: `X = L + R`, `Y = i(L − R)` -/
def toLinU (L R : CRat) : CRat × CRat := (add L R, mulI (sub L R))

/-- `to_stokes`, linear branch: `I = |X|²+|Y|²`, `Q = |X|²−|Y|²`, `U = 2Re(X*Y)`, `V = 2Im(X*Y)` -/
def stokesLin (X Y : CRat) : Rat × Rat × Rat × Rat :=
  let XY := mul (conj X) Y
  (normSq X + normSq Y, normSq X - normSq Y, 2 * XY.re, 2 * XY.im)

/-- `to_stokes`, circular branch: `I = |L|²+|R|²`, `Q = 2Re(L*R)`, `U = 2Im(L*R)`, `V = |L|²−|R|²` -/
def stokesCirc (L R : CRat) : Rat × Rat × Rat × Rat :=
  let LR := mul (conj L) R
  (normSq L + normSq R, 2 * LR.re, 2 * LR.im, normSq L - normSq R)

/-- `to_intensity`: `real² + imag²` -/
def intensity (a : CRat) : Rat := normSq a

/-- component access by name through the generated `_stokes_ids` -/
def stokesGet (s : Rat × Rat × Rat × Rat) (key : String) : Option Rat :=
  match Gen.Classes.stokesIds.lookup key with
  | some 0 => some s.1
  | some 1 => some s.2.1
  | some 2 => some s.2.2.1
  | some 3 => some s.2.2.2
  | _ => none

end Pb.Pol
