import PbModel.Basic

/-! `pulsarbat.pulsar.phase.day_frac` and astropy's `two_sum` / `two_product` / `split`,
transliterated ONCE over an abstract set of arithmetic operations and instantiated at
* `Float` (hardware binary64; executed by the driver and compared bit for bit with NumPy),
* `Rat` with an explicit rounding function `rn` (`rn53` = round-to-nearest-even to 53 bits for the
  executable cross-check; an arbitrary `rn` satisfying the standard model in the proofs). -/

namespace Pb.DayFrac

structure Ops (α : Type) where
  add : α → α → α
  sub : α → α → α
  mul : α → α → α
  div : α → α → α
  neg : α → α
  floor : α → α
  half : α            -- 0.5
  splitter : α        -- 134217729.0 = 2^27 + 1

variable {α : Type}

/-- astropy.time.utils.two_sum -/
def twoSum (o : Ops α) (a b : α) : α × α :=
  let x := o.add a b
  let eb := o.sub x a
  let ea := o.sub x eb
  let eb := o.sub b eb
  let ea := o.sub a ea
  (x, o.add ea eb)

/-- astropy.time.utils.split -/
def split (o : Ops α) (a : α) : α × α :=
  let c := o.mul o.splitter a
  let abig := o.sub c a
  let ah := o.sub c abig
  let al := o.sub a ah
  (ah, al)

/-- astropy.time.utils.two_product -/
def twoProduct (o : Ops α) (a b : α) : α × α :=
  let x := o.mul a b
  let sa := split o a
  let sb := split o b
  let y1 := o.mul sa.1 sb.1
  let y := o.sub x y1
  let y2 := o.mul sa.2 sb.1
  let y := o.sub y y2
  let y3 := o.mul sa.1 sb.2
  let y := o.sub y y3
  let y4 := o.mul sa.2 sb.2
  (x, o.sub y4 y)

/-- the renormalisation tail of `day_frac` (shared by all paths) -/
def normalise (o : Ops α) (sum12 err12 : α) : α × α :=
  let day := o.floor (o.add sum12 o.half)
  let q := twoSum o sum12 (o.neg day)
  let frac := o.add q.2 (o.add q.1 err12)
  let excess := o.floor (o.add frac o.half)
  let day := o.add day excess
  let q := twoSum o sum12 (o.neg day)
  let frac := o.add q.2 (o.add q.1 err12)
  (day, frac)

/-- `day_frac(val1, val2, factor=None, divisor=None)` -/
def dayFrac (o : Ops α) (v1 v2 : α) (factor divisor : Option α) : α × α :=
  let p := twoSum o v1 v2
  let p : α × α :=
    match factor with
    | none => p
    | some f =>
      let q := twoProduct o p.1 f
      let carry := o.add q.2 (o.mul p.2 f)
      twoSum o q.1 carry
  let p : α × α :=
    match divisor with
    | none => p
    | some d =>
      let q1 := o.div p.1 d
      let pp := twoProduct o q1 d
      let dd := twoSum o p.1 (o.neg pp.1)
      let d2 := o.add dd.2 p.2
      let d2 := o.sub d2 pp.2
      let q2 := o.div (o.add dd.1 d2) d
      twoSum o q1 q2
  normalise o p.1 p.2

/-! ### instances -/

def floatOps : Ops Float :=
  { add := (· + ·), sub := (· - ·), mul := (· * ·), div := (· / ·), neg := fun x => -x,
    floor := Float.floor, half := 0.5, splitter := 134217729.0 }

/-- round-to-nearest-even of a rational to 53 significant bits (unbounded exponent range) -/
def rn53 (x : Rat) : Rat :=
  if x == 0 then 0 else
  let a := if x < 0 then -x else x
  let n := a.num.toNat
  let d := a.den
  let e0 : Int := (n.log2 : Int) - (d.log2 : Int)
  let pow2 (k : Int) : Rat := if k ≥ 0 then (2 ^ k.toNat : Nat) else 1 / ((2 ^ (-k).toNat : Nat) : Rat)
  let e : Int := if a < pow2 e0 then e0 - 1 else if a ≥ pow2 (e0 + 1) then e0 + 1 else e0
  let scale := pow2 (52 - e)
  let y := a * scale
  let fl := y.floor
  let r := y - fl
  let m : Int := if r < 1/2 then fl else if r > 1/2 then fl + 1 else (if fl % 2 == 0 then fl else fl + 1)
  let v := (m : Rat) / scale
  if x < 0 then -v else v

/-- rational arithmetic with every operation followed by the rounding `rn` -/
def ratOps (rn : Rat → Rat) : Ops Rat :=
  { add := fun a b => rn (a + b), sub := fun a b => rn (a - b), mul := fun a b => rn (a * b),
    div := fun a b => rn (a / b), neg := fun x => -x, floor := fun x => (x.floor : Rat),
    half := 1 / 2, splitter := 134217729 }

/-- exact value of a finite binary64 -/
def ofFloat (f : Float) : Rat :=
  let b : Nat := f.toBits.toNat
  let sign : Nat := b >>> 63
  let ex : Nat := (b >>> 52) % 2048
  let man : Nat := b % (2^52)
  let mag : Rat :=
    if ex == 0 then (man : Rat) / ((2^1074 : Nat) : Rat)
    else
      let m : Nat := man + 2^52
      let k : Int := (ex : Int) - 1075
      if k ≥ 0 then ((m * 2 ^ k.toNat : Nat) : Rat) else (m : Rat) / ((2 ^ (-k).toNat : Nat) : Rat)
  if sign == 1 then -mag else mag

/-! ### real / imaginary bookkeeping of `Phase.from_angles` -/

/-- how an operand sits on the axes: purely real or purely imaginary -/
structure AxisVal where
  imag : Bool
  val : Rat
  deriving Repr, DecidableEq

/-- `from_angles(phase, factor=…)`: resulting axis and the (signed) real factor handed to `day_frac` -/
def mulAxis (p f : AxisVal) : AxisVal :=
  let fv := if f.imag && p.imag then -f.val else f.val      -- i·i = −1
  { imag := xor p.imag f.imag, val := p.val * fv }

/-- `from_angles(phase, divisor=…)`: `x/(i·d) = −i·x/d`, `(i·x)/(i·d) = x/d` -/
def divAxis (p d : AxisVal) : AxisVal :=
  let dv := if d.imag && !p.imag then -d.val else d.val
  { imag := xor p.imag d.imag, val := p.val / dv }

end Pb.DayFrac

namespace Pb.DayFrac

/-- the final step of `Phase.__array_ufunc__` for floor_divide / remainder / divmod (exact-rational
view): given a quotient estimate `fd`, compare the exact remainder with zero and with the divisor and
move the quotient by one where needed -/
def settle (A B : Rat) (fd : Int) : Int × Rat :=
  let r := A - fd * B
  let under : Bool := if 0 < B then decide (r < 0) else decide (0 < r)
  let over : Bool := (if 0 < B then decide (B ≤ r) else decide (r ≤ B)) && decide (B ≠ 0)
  let fd' := fd + (if over then 1 else 0) - (if under then 1 else 0)
  (fd', A - fd' * B)

end Pb.DayFrac
