import PbModel.Basic
import PbModel.Crop

/-! Model of `pulsarbat.pulsar.predictor.PhasePredictor` (C08): tempo-style polyco entries,
evaluation, derivatives, re-centring, entry selection, interval merging — over exact rationals. -/

namespace Pb.Polyco
open Pb.Crop

/-- polynomial as coefficient list, lowest degree first; Horner evaluation -/
def polyEval : List Rat → Rat → Rat
  | [], _ => 0
  | c :: cs, x => c + x * polyEval cs x

/-- formal derivative -/
def derivAux : List Rat → Nat → List Rat
  | [], _ => []
  | c :: cs, k => (k : Rat) * c :: derivAux cs (k + 1)

def deriv : List Rat → List Rat
  | [] => []
  | _ :: cs => derivAux cs 1

def derivN : Nat → List Rat → List Rat
  | 0, cs => cs
  | n+1, cs => derivN n (deriv cs)

/-- `Polynomial(coeffs, domain=[-60, 60]).convert()`: coefficient `i` becomes `c_i / 60^i` -/
def scaleAux (s : Rat) : List Rat → Rat → List Rat
  | [], _ => []
  | c :: cs, f => c * f :: scaleAux s cs (f * s)

def convert60 (cs : List Rat) : List Rat := scaleAux (1 / 60) cs 1

def padd : List Rat → List Rat → List Rat
  | [], q => q
  | p, [] => p
  | a :: p, b :: q => (a + b) :: padd p q

def psmul (k : Rat) (p : List Rat) : List Rat := p.map (k * ·)

/-- Taylor shift `p(x + d)` (what `polynomial.domain -= dt; .convert()` computes) -/
def shiftPoly : List Rat → Rat → List Rat
  | [], _ => []
  | c :: cs, d => padd [c] (padd (psmul d (shiftPoly cs d)) (0 :: shiftPoly cs d))

structure Entry where
  tmid : Rat          -- seconds (any common epoch)
  span : Rat          -- seconds
  rphase : Int        -- integer part of RPHASE
  poly : List Rat     -- in seconds: convert60 (coeffs with c0 += frac(RPHASE), c1 += 60·F0)
  deriving Repr

/-- `from_polyco` for one entry: RPHASE split at the decimal point, `coeffs[0] += 0.frac`,
`coeffs[1] += 60·F0`, domain `[-60, 60]` minutes→seconds -/
def mkEntry (tmid span : Rat) (rInt : Int) (rFrac f0 : Rat) (coeffs : List Rat) : Entry :=
  let cs := match coeffs with
    | c0 :: c1 :: rest => (c0 + rFrac) :: (c1 + f0 * 60) :: rest
    | cs => cs
  { tmid := tmid, span := span, rphase := rInt, poly := convert60 cs }

/-- the tempo formula: `RPHASE + 60·DT·F0 + Σ COEFF(i)·DT^(i-1)`, DT in minutes -/
def tempoFormula (rInt : Int) (rFrac f0 : Rat) (coeffs : List Rat) (dtMin : Rat) : Rat :=
  (rInt : Rat) + rFrac + 60 * dtMin * f0 + polyEval coeffs dtMin

/-- `np.searchsorted(span_ends, t)` (side='left'): number of ends strictly below `t` -/
def searchsortedLeft (ends : List Rat) (t : Rat) : Nat := (ends.takeWhile (· < t)).length

/-- the merge loop of `PhasePredictor.intervals` (intervals sorted by end; popped from the back);
`tol` is the `isclose` tolerance (1 ms) -/
def mergeLoop (tol : Rat) : List (Rat × Rat) → Rat → Rat → List (Rat × Rat) → List (Rat × Rat)
  | [], start, stop, acc => (start, stop) :: acc
  | (ns, ne) :: rest, start, stop, acc =>
    -- `rest` is reversed: head = next popped interval
    if start ≤ ne ∨ rabs (start - ne) ≤ tol then mergeLoop tol rest (min start ns) stop acc
    else mergeLoop tol rest ns ne ((start, stop) :: acc)

/-- insertion sort by interval end (Python `sorted(..., key=end)`, stable) -/
def insertByEnd (x : Rat × Rat) : List (Rat × Rat) → List (Rat × Rat)
  | [] => [x]
  | y :: ys => if x.2 < y.2 then x :: y :: ys else y :: insertByEnd x ys

def sortByEnd : List (Rat × Rat) → List (Rat × Rat)
  | [] => []
  | x :: xs => insertByEnd x (sortByEnd xs)

def intervals (tol : Rat) (es : List Entry) : List (Rat × Rat) :=
  let iv := sortByEnd (es.map fun e => (e.tmid - e.span / 2, e.tmid + e.span / 2))
  match iv.reverse with
  | [] => []
  | (s, e) :: rest => mergeLoop tol rest s e []

def inIntervals (ivs : List (Rat × Rat)) (t : Rat) : Bool := ivs.any fun iv => decide (iv.1 ≤ t) && decide (t ≤ iv.2)

/-- `_get_index_and_dt` + `__call__` for a scalar time: ValueError outside every interval -/
def predict (tol : Rat) (es : List Entry) (t : Rat) : Except Err (Int × Rat) :=
  if ¬ inIntervals (intervals tol es) t then .error .valueError
  else
    let idx := searchsortedLeft (es.map fun e => e.tmid + e.span / 2) t
    match es[idx]? with
    | none => .error .indexError
    | some e => .ok (e.rphase, polyEval e.poly (t - e.tmid))

/-- `f0(t, n)` -/
def freqDeriv (tol : Rat) (es : List Entry) (t : Rat) (n : Nat) : Except Err Rat :=
  if ¬ inIntervals (intervals tol es) t then .error .valueError
  else
    let idx := searchsortedLeft (es.map fun e => e.tmid + e.span / 2) t
    match es[idx]? with
    | none => .error .indexError
    | some e => .ok (polyEval (derivN (n + 1) e.poly) (t - e.tmid))

end Pb.Polyco
