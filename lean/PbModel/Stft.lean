import PbModel.Basic
import PbModel.Crop
import PbModel.Freq
import PbModel.Gen.Fft

/-! Model of `pulsarbat.fft.__getattr__` and of the label/shape logic of `contrib.stft` /
`contrib.istft` (C20). -/

namespace Pb.Stft
open Pb.Crop Pb.Freq

/-- `pulsarbat.fft.<name>`: the same-named function of the delegate module, or AttributeError -/
def fftGetattr (name : String) : Except Err String :=
  if Gen.Fft.fftFuncs.contains name then .ok (Gen.Fft.delegate ++ "." ++ name)
  else .error .attributeError

structure BBSig where
  led  : Ledger
  band : Band          -- baseband: band.bw = led.rate
  deriving Repr

/-- `stft(z, nperseg=P)`: truncate to a multiple of `P` (the `[: , :]` slice re-centres the band),
`P` sub-channels per channel, `sample_rate / P`, `freq_align = center if P odd else bottom` -/
def stft (z : BBSig) (P : Nat) : Except Err BBSig :=
  if P = 0 then .error .valueError
  else
    let len' := z.led.len - z.led.len % P
    -- z[:len', :]  → _freq_slice(slice(None)): same labels, 'center'
    match freqSlice z.band ⟨none, none, none⟩ with
    | .error e => .error e
    | .ok (B, _) =>
      let n' := B.n * P
      match normAlign n' (if P % 2 = 1 then "center" else "bottom") with
      | .error e => .error e
      | .ok al =>
        .ok { led := { t0 := z.led.t0, rate := z.led.rate / P, len := len' / P }
              band := { cf := B.cf, bw := z.led.rate / P, n := n', al := al } }

/-- `istft(z, nperseg=P)`: groups of `P` sub-channels become one channel, `sample_rate · P`,
`freq_align = center`; requires `nchan % P = 0` (NumPy reshape) -/
def istft (z : BBSig) (P : Nat) : Except Err BBSig :=
  if P = 0 then .error .valueError
  else if z.band.n % P ≠ 0 then .error .valueError
  else
    let n' := z.band.n / P
    match normAlign n' "center" with
    | .error e => .error e
    | .ok al =>
      .ok { led := { t0 := z.led.t0, rate := z.led.rate * P, len := z.led.len * P }
            band := { cf := z.band.cf, bw := z.led.rate * P, n := n', al := al } }

end Pb.Stft
