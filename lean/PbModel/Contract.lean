import PbModel.Basic
import PbModel.Crop
import PbModel.Gen.Classes
import PbModel.Gen.Align

/-! Class-contract model (C16): what each signal class accepts at construction, driven by the
GENERATED class table (`_req_shape`, `_req_dtype`, `__init__` keyword lists).  Argument values
are abstracted to the kinds the setters distinguish. -/

namespace Pb.Contract
open Pb.Crop Pb.Gen.Classes

/-- how a Quantity-valued argument looks to its setter -/
inductive QKind
  | pos | zero | neg            -- scalar, frequency unit, by sign
  | nan                         -- scalar, frequency unit, not-a-number (`nan > 0` is false: not positive)
  | nonScalar | wrongUnit | notQuantity
  deriving DecidableEq, Repr

inductive TKind | none | scalarTime | arrayTime | garbage
  deriving DecidableEq, Repr

inductive MKind | none | dict | pairs | notMapping
  deriving DecidableEq, Repr

structure Args where
  shape : List Nat
  dtype : String
  safeToFirst : Bool           -- measured: np.can_cast(dtype, _req_dtype[0], 'safe')
  rate : QKind
  start : TKind
  metaK : MKind
  cf : QKind
  bw : QKind
  align : String
  pol : String
  deriving Repr

def findRow (name : String) : Option ClassRow := classTable.find? (·.name == name)

/-- walk the parent chain (bounded by the table size) collecting the first defined attribute -/
def resolve {α} (get : ClassRow → Option α) : Nat → String → Option α
  | 0, _ => none
  | fuel+1, name =>
    match findRow name with
    | none => none
    | some r => match get r with
      | some v => some v
      | none => resolve get fuel r.parent

def reqShape (cls : String) : List (Option Nat) := (resolve (·.reqShape) 8 cls).getD []
def reqDtype (cls : String) : List String := (resolve (·.reqDtype) 8 cls).getD []
def initKw (cls : String) : List (String × Bool) := (resolve (·.initKw) 8 cls).getD []

/-- is `anc` the class or one of its ancestors? -/
def isA : Nat → String → String → Bool
  | 0, _, _ => false
  | fuel+1, cls, anc =>
    cls == anc || (match findRow cls with
      | none => false
      | some r => isA fuel r.parent anc)

/-- all property names visible on the class (own + inherited) -/
def allProps : Nat → String → List String
  | 0, _ => []
  | fuel+1, cls =>
    match findRow cls with
    | none => []
    | some r => r.props ++ allProps fuel r.parent

def prodTail : List Nat → Nat
  | [] => 1
  | _ :: rest => rest.foldl (· * ·) 1

/-- `zip(z.shape[:min_ndim], _req_shape)` all `x == (y or x)` -/
def shapeOk : List Nat → List (Option Nat) → Bool
  | _, [] => true
  | [], _ :: _ => false
  | x :: xs, y :: ys => (match y with | none => true | some v => (v == 0) || x == v) && shapeOk xs ys

/-- a class as far as its constructor is concerned (resolved from the generated table) -/
structure ClassDesc where
  name : String
  reqShape : List (Option Nat)
  reqDtype : List String
  isRadio : Bool
  isBaseband : Bool
  isDualPol : Bool
  deriving Repr, DecidableEq

def descOf (cls : String) : Option ClassDesc :=
  (findRow cls).map fun _ =>
    { name := cls, reqShape := reqShape cls, reqDtype := reqDtype cls,
      isRadio := isA 8 cls "RadioSignal", isBaseband := isA 8 cls "BasebandSignal",
      isDualPol := isA 8 cls "DualPolarizationSignal" }

structure Sig where
  cls : String
  shape : List Nat
  dtype : String
  bwIsRate : Bool       -- chan_bw was passed as sample_rate by the class
  align : String
  pol : String
  deriving Repr

def qPos (k : QKind) : Bool := k == .pos
def qScalarFreq (k : QKind) : Bool := k == .pos || k == .zero || k == .neg || k == .nan

/-- `Signal.__init__` … `DualPolarizationSignal.__init__`, in the order the checks run -/
def construct? (d : ClassDesc) (a : Args) : Option Sig :=
  if a.shape.length < d.reqShape.length then none
  else if ¬ shapeOk a.shape d.reqShape then none
  else if prodTail a.shape = 0 then none
  else
    let dt? : Option String :=
      if d.reqDtype.contains a.dtype || d.reqDtype.isEmpty then some a.dtype
      else if a.safeToFirst then d.reqDtype.head? else none
    match dt? with
    | none => none
    | some dt =>
      if ¬ qPos a.rate then none
      else if a.start = .arrayTime ∨ a.start = .garbage then none
      else if a.metaK = .notMapping then none
      else if ¬ d.isRadio then
        some { cls := d.name, shape := a.shape, dtype := dt, bwIsRate := false, align := "", pol := "" }
      else if ¬ qScalarFreq a.cf then none
      else if ¬ d.isBaseband ∧ ¬ qPos a.bw then none
      else if ¬ Gen.Align.alignAllowed.contains a.align then none
      else
        let n := a.shape.getD 1 0
        let al := if n % 2 = 1 then Gen.Align.oddAlign.getD a.align else a.align
        if ¬ d.isDualPol then
          some { cls := d.name, shape := a.shape, dtype := dt, bwIsRate := d.isBaseband, align := al, pol := "" }
        else if ¬ (a.pol == "linear" || a.pol == "circular") then none
        else some { cls := d.name, shape := a.shape, dtype := dt, bwIsRate := d.isBaseband, align := al, pol := a.pol }

/-- every refusal is an `InvalidSignalError`/`ValueError` -/
def construct (d : ClassDesc) (a : Args) : Except Err Sig :=
  match construct? d a with
  | some s => .ok s
  | none => .error .valueError

/-- the class contract of C16 for an object that exists -/
def Inv (d : ClassDesc) (s : Sig) : Prop :=
  s.cls = d.name ∧ d.reqShape.length ≤ s.shape.length ∧ shapeOk s.shape d.reqShape = true ∧
  prodTail s.shape ≠ 0 ∧
  (d.reqDtype.isEmpty = true ∨ d.reqDtype.contains s.dtype = true) ∧
  (d.isRadio = true →
    Gen.Align.alignAllowed.contains s.align = true ∧
    (s.shape.getD 1 0 % 2 = 1 → Gen.Align.oddAlign = some s.align ∨ Gen.Align.oddAlign = none)) ∧
  (d.isRadio = true → d.isBaseband = true → s.bwIsRate = true) ∧
  (d.isRadio = true → d.isDualPol = true → (s.pol = "linear" ∨ s.pol = "circular"))

/-- `like(obj)`: every keyword-only constructor parameter must be readable from the object -/
def likeFaithful (cls : String) : Bool :=
  (initKw cls).all (fun kw => (allProps 8 cls).contains kw.1)

end Pb.Contract
