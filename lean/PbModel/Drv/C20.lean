import PbModel.Proto
import PbModel.Stft

namespace Pb.Drv.C20
open Pb.Proto Pb.Crop Pb.Freq Pb.Stft

def showSig (y : BBSig) : String :=
  s!"ok {showOptRat y.led.t0} {showRat y.led.rate} {y.led.len} {showRat y.band.cf} {showRat y.band.bw} {y.band.n} {y.band.al} {showList showRat ((List.range y.band.n).map (fun (i : Nat) => y.band.label (Int.ofNat i)))}"

def parseSig? (t0 rate len cf n al : String) : Option BBSig := do
  let t0 ← parseOptRat? t0; let rate ← parseRat? rate; let len ← parseNat? len
  let cf ← parseRat? cf; let n ← parseNat? n
  match mkBand cf rate n al with
  | .ok B => pure { led := ⟨t0, rate, len⟩, band := B }
  | .error _ => none

def handle : List String → String
  | ["name", nm] =>
    match fftGetattr nm with
    | .ok s => s!"ok {s}"
    | .error e => s!"err {e.name}"
  | ["names"] => showList id Gen.Fft.fftFuncs
  | ["stft", t0, rate, len, cf, n, al, p] =>
    match parseSig? t0 rate len cf n al, parseNat? p with
    | some z, some p =>
      match stft z p with
      | .ok y => showSig y
      | .error e => s!"err {e.name}"
    | _, _ => "bad-arg"
  | ["roundtrip", t0, rate, len, cf, n, al, p] =>
    match parseSig? t0 rate len cf n al, parseNat? p with
    | some z, some p =>
      match stft z p with
      | .error e => s!"err {e.name}"
      | .ok y =>
        match istft y p with
        | .ok w => showSig w
        | .error e => s!"err {e.name}"
    | _, _ => "bad-arg"
  | _ => "bad-op"

end Pb.Drv.C20
