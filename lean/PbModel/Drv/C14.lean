import PbModel.Proto
import PbModel.Effect
import PbModel.Gen.Effects

namespace Pb.Drv.C14
open Pb.Proto Pb.Effect

/-- `unsafe` → names of generated entries the analysis does not accept (`-` if none);
`count` → number of entries -/
def handle : List String → String
  | ["unsafe"] => showList id ((Gen.Effects.programs.filter (fun e => !e.safe)).map (·.name))
  | ["count"] => toString Gen.Effects.programs.length
  | _ => "bad-op"

end Pb.Drv.C14
