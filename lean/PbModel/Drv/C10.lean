import PbModel.Proto
import PbModel.Concat

namespace Pb.Drv.C10
open Pb.Proto Pb.Crop Pb.Freq Pb.Concat

/-- `cls|t0|rate|len|-`  or  `cls|t0|rate|len|cf|bw|n|al` -/
def parsePiece? (tok : String) : Option Piece :=
  match tok.splitOn "|" with
  | [c, t0, r, l, "-"] => do
    let c ← parseNat? c; let t0 ← parseOptRat? t0; let r ← parseRat? r; let l ← parseNat? l
    pure { cls := c, led := ⟨t0, r, l⟩, band := none }
  | [c, t0, r, l, cf, bw, n, al] => do
    let c ← parseNat? c; let t0 ← parseOptRat? t0; let r ← parseRat? r; let l ← parseNat? l
    let cf ← parseRat? cf; let bw ← parseRat? bw; let n ← parseNat? n
    pure { cls := c, led := ⟨t0, r, l⟩, band := some ⟨cf, bw, n, al⟩ }
  | _ => none

def parseAxis? : String → Option Axis
  | "time" => some .time
  | "freq" => some .freq
  | "other" => some .other
  | _ => none

def showAxis : Option Axis → String
  | some .time => "time" | some .freq => "freq" | some .other => "other" | none => "none"

/-- `axis ndim radio(0|1) n:<name>|i:<int>` → `time|freq|other|none`; otherwise the concat request -/
def handle : List String → String
  | ["axis", nd, radio, arg] =>
    match parseNat? nd, arg.splitOn ":" with
    | some nd, ["n", nm] => showAxis (axisOf nd (radio == "1") (.name nm))
    | some nd, ["i", v] => match parseInt? v with
      | some a => showAxis (axisOf nd (radio == "1") (.idx a))
      | none => "bad-arg"
    | _, _ => "bad-arg"
  | ax :: al :: ps =>
    match parseAxis? ax, parseRat? al, ps.mapM parsePiece? with
    | some ax, some al, some ps =>
      match concat al ax ps with
      | .error e => s!"err {e.name}"
      | .ok r =>
        let b := match r.band with
          | none => "- - -"
          | some b => s!"{showRat b.cf}|{showRat b.bw}|{b.n}|{b.al} {showRat (b.label 0)} {showRat (b.label ((b.n : Int) - 1))}"
        s!"ok {r.cls} {showOptRat r.led.t0} {showRat r.led.rate} {r.led.len} {b}"
    | _, _, _ => "bad-arg"
  | _ => "bad-op"

end Pb.Drv.C10
