import PbModel.Proto
import PbModel.Concat

namespace Pb.Drv.C10
open Pb.Proto Pb.Crop Pb.Freq Pb.Concat

/-- `cls|t0|rate|len|-`  or  `cls|t0|rate|len|cf|bw|n|al` -/
def parsePiece? (tok : String) : Option Piece :=
  match tok.splitOn "|" with
  | [c, t0, r, l, "-"] => do
    let c ← parseNat? c; let t0 ← parseOptRat? t0; let r ← parseRat? r; let l ← parseNat? l
    pure { cls := c, led := ⟨t0, r, l⟩, band := none }
  | [c, t0, r, l, cf, bw, n, al] => do
    let c ← parseNat? c; let t0 ← parseOptRat? t0; let r ← parseRat? r; let l ← parseNat? l
    let cf ← parseRat? cf; let bw ← parseRat? bw; let n ← parseNat? n
    pure { cls := c, led := ⟨t0, r, l⟩, band := some ⟨cf, bw, n, al⟩ }
  | _ => none

def parseAxis? : String → Option Axis
  | "time" => some .time
  | "freq" => some .freq
  | "other" => some .other
  | _ => none

def handle : List String → String
  | ax :: al :: ps =>
    match parseAxis? ax, parseRat? al, ps.mapM parsePiece? with
    | some ax, some al, some ps =>
      match concat al ax ps with
      | .error e => s!"err {e.name}"
      | .ok r =>
        let b := match r.band with
          | none => "- - -"
          | some b => s!"{showRat b.cf}|{showRat b.bw}|{b.n}|{b.al} {showRat (b.label 0)} {showRat (b.label ((b.n : Int) - 1))}"
        s!"ok {r.cls} {showOptRat r.led.t0} {showRat r.led.rate} {r.led.len} {b}"
    | _, _, _ => "bad-arg"
  | _ => "bad-op"

end Pb.Drv.C10
