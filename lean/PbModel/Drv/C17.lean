import PbModel.Proto
import PbModel.Ufunc

namespace Pb.Drv.C17
open Pb.Proto Pb.Crop Pb.Ufunc

def parseOperand? (t : String) : Option Operand :=
  if t == "o" then some .other
  else match t.splitOn ":" with
    | [i, cls] => if i.startsWith "s" then (i.drop 1).toString.toNat?.map (fun k => .sig k cls) else none
    | _ => none

def parseOut? (t : String) : Option (Option Operand) :=
  if t == "n" then some none else (parseOperand? t).map some

def showOperand : Operand → String
  | .other => "o"
  | .sig i cls => s!"s{i}:{cls}"

def showRes : Res → String
  | .wrapped i cls => s!"w{i}:{cls}"
  | .given o => s!"g{showOperand o}"

def handle : List String → String
  | ["call", uf, method, nout, ins, outs, oks] =>
    match parseNat? nout, parseList? parseOperand? ins, parseList? parseOut? outs,
          parseList? (fun s => if s == "1" then some true else if s == "0" then some false else none) oks with
    | some nout, some ins, some outs, some oks =>
      match call { ufunc := uf, method := method, nout := nout, inputs := ins, outs := outs, resDtypeOk := oks } with
      | .results rs => "results " ++ showList showRes rs
      | .notImplemented => "notimpl"
      | .raises e => s!"raises {e.name}"
    | _, _, _, _ => "bad-arg"
  | _ => "bad-op"

end Pb.Drv.C17
