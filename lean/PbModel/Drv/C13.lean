import PbModel.Proto
import PbModel.Pol

namespace Pb.Drv.C13
open Pb.Proto Pb.Pol

def showC (a : CRat) : String := s!"{showRat a.re} {showRat a.im}"
def show4 (s : Rat × Rat × Rat × Rat) : String := s!"{showRat s.1} {showRat s.2.1} {showRat s.2.2.1} {showRat s.2.2.2}"

/-- `pol a.re a.im b.re b.im` → toCircU(a,b) (4) toLinU(a,b) (4) stokesLin(a,b) (4) stokesCirc(a,b) (4) |a|² |b|² -/
def handle : List String → String
  | ["pol", ar, ai, br, bi] =>
    match parseRat? ar, parseRat? ai, parseRat? br, parseRat? bi with
    | some ar, some ai, some br, some bi =>
      let a : CRat := ⟨ar, ai⟩
      let b : CRat := ⟨br, bi⟩
      let c := toCircU a b
      let l := toLinU a b
      s!"{showC c.1} {showC c.2} {showC l.1} {showC l.2} {show4 (stokesLin a b)} {show4 (stokesCirc a b)} {showRat (intensity a)} {showRat (intensity b)}"
    | _, _, _, _ => "bad-arg"
  | ["get", key] =>
    match stokesGet (0, 1, 2, 3) key with
    | some v => showRat v
    | none => "err KeyError"
  | _ => "bad-op"

end Pb.Drv.C13
