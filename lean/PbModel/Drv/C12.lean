import PbModel.Proto
import PbModel.Crop

namespace Pb.Drv.C12
open Pb.Proto Pb.Crop

def parseForm? (f v : String) : Option TForm := do
  let q ← parseRat? v
  match f with
  | "samples" => pure (.samples q)
  | "duration" => pure (.duration q)
  | "time" => pure (.time q)
  | _ => none

/-- `snip t0 rate len form value n` → `ok t0' rate' len' first off` | `err Name` -/
def handle : List String → String
  | ["snip", t0, rate, len, form, v, n] =>
    match parseOptRat? t0, parseRat? rate, parseNat? len, parseForm? form v, parseInt? n with
    | some t0, some rate, some len, some f, some n =>
      match snippet ⟨t0, rate, len⟩ f n with
      | .error e => s!"err {e.name}"
      | .ok (L, σ) => s!"ok {showOptRat L.t0} {showRat L.rate} {L.len} {σ.first} {showRat σ.off}"
    | _, _, _, _, _ => "bad-arg"
  | _ => "bad-op"

end Pb.Drv.C12
