import PbModel.Proto
import PbModel.Disp

namespace Pb.Drv.C06
open Pb.Proto Pb.Crop Pb.Disp

def handle : List String → String
  | ["delay", dm, f, r, rate] =>
    match parseRat? dm, parseRat? f, parseRat? r, parseRat? rate with
    | some dm, some f, some r, some rate =>
      if f = 0 ∨ r = 0 then "err ZeroDivisionError"
      else s!"{showRat (timeDelay dm f r)} {showRat (sampleDelay dm f r rate)}"
    | _, _, _, _ => "bad-arg"
  | ["incoh", t0, rate, len, ds] =>
    match parseOptRat? t0, parseRat? rate, parseNat? len, parseList? parseRat? ds with
    | some t0, some rate, some len, some ds =>
      match incoh ⟨t0, rate, len⟩ ds with
      | .error e => s!"err {e.name}"
      | .ok o => s!"ok {o.cropBefore} {showList toString o.shifted} {o.count} {showOptRat o.led.t0}"
    | _, _, _, _ => "bad-arg"
  | ["round", q] =>
    match parseRat? q with
    | some q => toString (roundHalfEven q)
    | none => "bad-arg"
  | _ => "bad-op"

end Pb.Drv.C06
