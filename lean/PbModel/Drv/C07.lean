import PbModel.Proto
import PbModel.DayFrac

namespace Pb.Drv.C07
open Pb.Proto Pb.DayFrac

def hexDigit (c : Char) : Nat :=
  if c.isDigit then c.toNat - 48 else if c.toNat ≥ 97 then c.toNat - 87 else c.toNat - 55

def parseHexFloat (s : String) : Float :=
  Float.ofBits (UInt64.ofNat (s.foldl (fun acc c => acc * 16 + hexDigit c) 0))

def hexOf (f : Float) : String :=
  let n := f.toBits.toNat
  let digs := (List.range 16).map fun i =>
    let d := (n >>> (4 * (15 - i))) % 16
    Char.ofNat (if d < 10 then 48 + d else 87 + d)
  String.ofList digs

def optF (s : String) : Option Float := if s == "_" then none else some (parseHexFloat s)

/-- `dayfrac v1 v2 factor|_ divisor|_` (operands as 16 hex digits of the binary64 pattern)
→ `dayHex fracHex agree` where `agree` = 1 iff the rational `rn53` instance gives the same values -/
def handle : List String → String
  | ["dayfrac", a, b, f, d] =>
    let v1 := parseHexFloat a
    let v2 := parseHexFloat b
    let ff := optF f
    let dd := optF d
    let r := dayFrac floatOps v1 v2 ff dd
    let q := dayFrac (ratOps rn53) (ofFloat v1) (ofFloat v2) (ff.map ofFloat) (dd.map ofFloat)
    let agree := (ofFloat r.1 == q.1) && (ofFloat r.2 == q.2)
    s!"{hexOf r.1} {hexOf r.2} {if agree then 1 else 0}"
  | ["eft", a, b] =>
    -- the error-free-transformation contracts assumed by the theorems, checked on concrete operands:
    -- hardware pairs, and exactness of the rational rn53 instance (x + y = a + b, x + y = a · b)
    let x := parseHexFloat a
    let y := parseHexFloat b
    let sF := twoSum floatOps x y
    let pF := twoProduct floatOps x y
    let sQ := twoSum (ratOps rn53) (ofFloat x) (ofFloat y)
    let pQ := twoProduct (ratOps rn53) (ofFloat x) (ofFloat y)
    let sumExact := sQ.1 + sQ.2 == ofFloat x + ofFloat y
    let prodExact := pQ.1 + pQ.2 == ofFloat x * ofFloat y
    let agree := ofFloat sF.1 == sQ.1 && ofFloat sF.2 == sQ.2 && ofFloat pF.1 == pQ.1 && ofFloat pF.2 == pQ.2
    s!"{hexOf sF.1} {hexOf sF.2} {hexOf pF.1} {hexOf pF.2} {if sumExact then 1 else 0} {if prodExact then 1 else 0} {if agree then 1 else 0}"
  | ["axis", op, pi, pv, fi, fv] =>
    match parseRat? pv, parseRat? fv with
    | some pv, some fv =>
      let p : AxisVal := ⟨pi == "1", pv⟩
      let f : AxisVal := ⟨fi == "1", fv⟩
      if op == "div" && fv == 0 then "err ZeroDivisionError"
      else
        let r := if op == "mul" then mulAxis p f else divAxis p f
        s!"{if r.imag then 1 else 0} {showRat r.val}"
    | _, _ => "bad-arg"
  | _ => "bad-op"

end Pb.Drv.C07
