import PbModel.Proto
import PbModel.DayFrac

namespace Pb.Drv.C07
open Pb.Proto Pb.DayFrac

def hexDigit (c : Char) : Nat :=
  if c.isDigit then c.toNat - 48 else if c.toNat ≥ 97 then c.toNat - 87 else c.toNat - 55

def parseHexFloat (s : String) : Float :=
  Float.ofBits (UInt64.ofNat (s.foldl (fun acc c => acc * 16 + hexDigit c) 0))

def hexOf (f : Float) : String :=
  let n := f.toBits.toNat
  let digs := (List.range 16).map fun i =>
    let d := (n >>> (4 * (15 - i))) % 16
    Char.ofNat (if d < 10 then 48 + d else 87 + d)
  String.ofList digs

def optF (s : String) : Option Float := if s == "_" then none else some (parseHexFloat s)

/-- `dayfrac v1 v2 factor|_ divisor|_` (operands as 16 hex digits of the binary64 pattern)
→ `dayHex fracHex agree` where `agree` = 1 iff the rational `rn53` instance gives the same values -/
def handle : List String → String
  | ["dayfrac", a, b, f, d] =>
    let v1 := parseHexFloat a
    let v2 := parseHexFloat b
    let ff := optF f
    let dd := optF d
    let r := dayFrac floatOps v1 v2 ff dd
    let q := dayFrac (ratOps rn53) (ofFloat v1) (ofFloat v2) (ff.map ofFloat) (dd.map ofFloat)
    let agree := (ofFloat r.1 == q.1) && (ofFloat r.2 == q.2)
    s!"{hexOf r.1} {hexOf r.2} {if agree then 1 else 0}"
  | ["axis", op, pi, pv, fi, fv] =>
    match parseRat? pv, parseRat? fv with
    | some pv, some fv =>
      let p : AxisVal := ⟨pi == "1", pv⟩
      let f : AxisVal := ⟨fi == "1", fv⟩
      if op == "div" && fv == 0 then "err ZeroDivisionError"
      else
        let r := if op == "mul" then mulAxis p f else divAxis p f
        s!"{if r.imag then 1 else 0} {showRat r.val}"
    | _, _ => "bad-arg"
  | _ => "bad-op"

end Pb.Drv.C07
