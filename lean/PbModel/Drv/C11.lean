import PbModel.Proto
import PbModel.Reader

namespace Pb.Drv.C11
open Pb.Proto Pb.Reader

def parseKind? : String → Option Kind
  | "generic" => some .generic | "guppi" => some .guppi | "stokes" => some .stokes | _ => none

def parseMode? : String → Option Mode
  | "complex" => some .complex | "real" => some .realBaseband | "intensity" => some .intensity | _ => none

/-- `i:<int>` or `x` (anything `operator.index` rejects) -/
def parseArg? (s : String) : Option Arg :=
  match s.splitOn ":" with
  | ["i", v] => (parseInt? v).map Arg.int
  | ["x"] => some .other
  | _ => none

/-- `0` / `1` (all elements) or a row-major `a×b` mask `0,1,…` -/
def parseLsb? (b : Nat) (s : String) : Option (Nat → Nat → Bool) :=
  if s == "0" then some fun _ _ => false
  else if s == "1" then some fun _ _ => true
  else (parseList? (fun t => if t == "1" then some true else if t == "0" then some false else none) s).map
    fun m => fun i j => m.getD (i * b + j) false

def parseReq? (t : String) : Option Req :=
  match t.splitOn ":" with
  | [a, b] => do let a ← parseNat? a; let b ← parseNat? b; pure ⟨a, b⟩
  | _ => none

def encSrc (d : Desc) (s : Src) : Nat := ((s.t * d.a + s.i) * d.b + s.j) * 2 + (if s.conj then 1 else 0)

/-- `read kind mode fileLen a b lsb rate offset n` → `ok n start pos cnt X Y srcs` | `err Name`
`len mode fileLen` → length
`offset len rate t` → `ok k` | `err OutOfBoundsError`
`time rate k` → seconds
`sched pos:cnt,… i,i,…` → per thread `pc:out,…` separated by `;` (out = stream positions read) -/
def handle : List String → String
  | ["read", kind, mode, fl, a, b, lsb, rate, off, n] =>
    match parseKind? kind, parseMode? mode, parseNat? fl, parseNat? a, parseNat? b, parseRat? rate,
          parseArg? off, parseArg? n with
    | some kind, some mode, some fl, some a, some b, some rate, some off, some n =>
      match parseLsb? b lsb with
      | none => "bad-arg"
      | some lsbf =>
        let d : Desc := ⟨kind, mode, fl, a, b, lsbf⟩
        match readOp d rate off n with
        | .error e => s!"err {e.name}"
        | .ok r =>
          let o := match off with | .int v => v.toNat | .other => 0
          let srcs := if mode = .realBaseband then "-" else showList (fun s => toString (encSrc d s)) (readSrcs d o r.n)
          s!"ok {r.n} {showRat r.start} {r.pos} {r.cnt} {(outSample d).1} {(outSample d).2} {srcs}"
    | _, _, _, _, _, _, _, _ => "bad-arg"
  | ["len", mode, fl] =>
    match parseMode? mode, parseNat? fl with
    | some mode, some fl => toString (Desc.len ⟨.generic, mode, fl, 0, 0, fun _ _ => false⟩)
    | _, _ => "bad-arg"
  | ["offset", len, rate, t] =>
    match parseNat? len, parseRat? rate, parseRat? t with
    | some len, some rate, some t =>
      match offsetAt len rate t with
      | .ok k => s!"ok {k}"
      | .error e => s!"err {e.name}"
    | _, _, _ => "bad-arg"
  | ["time", rate, k] =>
    match parseRat? rate, parseInt? k with
    | some rate, some k => showRat (timeAt rate k)
    | _, _ => "bad-arg"
  | ["sched", reqs, sched] =>
    match parseList? parseReq? reqs, parseList? parseNat? sched with
    | some reqs, some sched =>
      let st := runSched (fun i => i) reqs sched (reqs.map fun _ => ({} : TState Nat))
      ";".intercalate (st.map fun s => s!"{s.pc}:{showList toString s.out}")
    | _, _ => "bad-arg"
  | _ => "bad-op"

end Pb.Drv.C11
