import PbModel.Proto
import PbModel.Shift

namespace Pb.Drv.C03
open Pb.Proto Pb.Crop Pb.Shift

/-- `zero N sampleShape shiftShape vals` → `lo:hi,lo:hi,…` per sample element (C order), then
` | start stop` (crop bounds) -/
def handle : List String → String
  | ["zero", n, ss, sh, vals] =>
    match parseNat? n, parseList? parseNat? ss, parseList? parseNat? sh, parseList? parseRat? vals with
    | some n, some ss, some sh, some vals =>
      let zf := zeroFill n ss sh vals
      let b := shiftBounds (elemShifts ss sh vals)
      showList (fun (t : List Nat × Nat × Nat) => s!"{t.2.1}:{t.2.2}") zf ++ s!" {b.1} {b.2}"
    | _, _, _, _ => "bad-arg"
  | _ => "bad-op"

end Pb.Drv.C03
