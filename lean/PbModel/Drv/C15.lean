import PbModel.Proto
import PbModel.PhaseStr
import PbModel.Drv.C07

namespace Pb.Drv.C15
open Pb.Proto Pb.DayFrac Pb.PhaseStr

def showDigits (l : List Nat) : String := if l.isEmpty then "-" else String.ofList (l.map fun d => Char.ofNat (48 + d))

/-- `parse <string-with-spaces-as-%20>` → `ok neg imag countDigits fracDigits` | `err`
`fmt countHex fracHex p` → `neg int fracdigits`
`cmp i1 f1 i2 f2` (hex doubles) → sign of cmpDiff at rn53 : -1/0/1 -/
def handle : List String → String
  | ["parse", s] =>
    match lex (s.replace "%20" " ") with
    | none => "err"
    | some l =>
      let sh := shift l.ip l.fp l.exp
      s!"ok {showBool l.neg} {showBool l.imag} {showDigits sh.1} {showDigits sh.2}"
  | ["fmt", c, f, p] =>
    match parseNat? p with
    | some p =>
      let r := doFormat (ofFloat (Pb.Drv.C07.parseHexFloat c)) (ofFloat (Pb.Drv.C07.parseHexFloat f)) p
      s!"{showBool r.1} {r.2.1} {r.2.2}"
    | none => "bad-arg"
  | ["cmp", i1, f1, i2, f2] =>
    let q (s : String) := ofFloat (Pb.Drv.C07.parseHexFloat s)
    let d := cmpDiff rn53 (q i1) (q f1) (q i2) (q f2)
    if d < 0 then "-1" else if 0 < d then "1" else "0"
  | _ => "bad-op"

end Pb.Drv.C15
