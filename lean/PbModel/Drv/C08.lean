import PbModel.Proto
import PbModel.Polyco

namespace Pb.Drv.C08
open Pb.Proto Pb.Crop Pb.Polyco

def parsePair? (t : String) : Option (Rat × Rat) :=
  match t.splitOn ":" with
  | [a, b] => do let a ← parseRat? a; let b ← parseRat? b; pure (a, b)
  | _ => none

/-- `eval rInt rFrac f0 coeffs dt n` → `phase freqDeriv_n`
`intervals tol tmid:span,…` → `a:b,…`
`index tol tmid:span,… t` → `ok idx` | `err ValueError` -/
def handle : List String → String
  | ["eval", ri, rf, f0, cs, dt, n] =>
    match parseInt? ri, parseRat? rf, parseRat? f0, parseList? parseRat? cs, parseRat? dt, parseNat? n with
    | some ri, some rf, some f0, some cs, some dt, some n =>
      let e := mkEntry 0 0 ri rf f0 cs
      s!"{showRat ((e.rphase : Rat) + polyEval e.poly dt)} {showRat (polyEval (derivN (n + 1) e.poly) dt)}"
    | _, _, _, _, _, _ => "bad-arg"
  | ["intervals", tol, es] =>
    match parseRat? tol, parseList? parsePair? es with
    | some tol, some es =>
      let ents : List Entry := es.map fun p => ⟨p.1, p.2, 0, []⟩
      showList (fun (iv : Rat × Rat) => s!"{showRat iv.1}:{showRat iv.2}") (intervals tol ents)
    | _, _ => "bad-arg"
  | ["index", tol, es, t] =>
    match parseRat? tol, parseList? parsePair? es, parseRat? t with
    | some tol, some es, some t =>
      let ents : List Entry := es.map fun p => ⟨p.1, p.2, 0, []⟩
      if ¬ inIntervals (intervals tol ents) t then "err ValueError"
      else s!"ok {searchsortedLeft (ents.map fun e => e.tmid + e.span / 2) t}"
    | _, _, _ => "bad-arg"
  | _ => "bad-op"

end Pb.Drv.C08
