import PbModel.Proto
import PbModel.Dask

namespace Pb.Drv.C09
open Pb.Proto Pb.Dask

def parseBacking? : String → Option Backing
  | "n" => some .numpy | "d" => some .dask | _ => none

def parseOp? : String → Option Op
  | "compute" => some .compute | "persist" => some .persist | "todask" => some .toDask
  | "rechunk" => some .rechunk | "transform" => some .transform
  | "read1" => some (.read true) | "read0" => some (.read false) | _ => none

def showBacking : Backing → String
  | .numpy => "n" | .dask => "d"

/-- `i:d1,d2` (dependencies of task i, `i:` for none) -/
def parseDeps? (t : String) : Option (List Nat) :=
  match t.splitOn ":" with
  | [_, ""] => some []
  | [_, ds] => (ds.splitOn ",").mapM parseNat?
  | _ => none

def parseCoef? (t : String) : Option (Int × Int) :=
  match t.splitOn ":" with
  | [a, b] => do let a ← parseInt? a; let b ← parseInt? b; pure (a, b)
  | _ => none

/-- `result op ins` → backing
`run n deps(;-separated i:d,…) coefs(a:b,…) sched` → memo `v0,v1,…` (`_` = not computed);
task i computes `a_i * sum(inputs) + b_i` -/
def handle : List String → String
  | ["result", op, ins] =>
    match parseOp? op, parseList? parseBacking? ins with
    | some op, some ins => showBacking (result op ins)
    | _, _ => "bad-arg"
  | ["run", n, deps, coefs, sched] =>
    match parseNat? n, (deps.splitOn ";").mapM parseDeps?, parseList? parseCoef? coefs, parseList? parseNat? sched with
    | some n, some deps, some coefs, some sched =>
      let g : Graph Int := { deps := fun i => deps.getD i [], f := fun i xs => (coefs.getD i (0, 0)).1 * xs.sum + (coefs.getD i (0, 0)).2 }
      let m := run g sched Memo.empty
      ",".intercalate ((List.range n).map fun i => match m i with | some v => toString v | none => "_")
    | _, _, _, _ => "bad-arg"
  | _ => "bad-op"

end Pb.Drv.C09
