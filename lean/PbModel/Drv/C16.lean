import PbModel.Proto
import PbModel.Contract

namespace Pb.Drv.C16
open Pb.Proto Pb.Crop Pb.Contract

def qk? : String → Option QKind
  | "pos" => some .pos | "zero" => some .zero | "neg" => some .neg | "nan" => some .nan
  | "nonScalar" => some .nonScalar | "wrongUnit" => some .wrongUnit | "notQuantity" => some .notQuantity
  | _ => none

def tk? : String → Option TKind
  | "none" => some .none | "scalarTime" => some .scalarTime | "arrayTime" => some .arrayTime
  | "garbage" => some .garbage | _ => none

def mk? : String → Option MKind
  | "none" => some .none | "dict" => some .dict | "pairs" => some .pairs | "notMapping" => some .notMapping
  | _ => none

def unq (s : String) : String := if s == "EMPTY" then "" else s

def handle : List String → String
  | ["new", cls, shape, dtype, safe, rate, start, mt, cf, bw, al, pol] =>
    match descOf cls, parseList? parseNat? shape, qk? rate, tk? start, mk? mt, qk? cf, qk? bw with
    | some d, some shape, some rate, some start, some mt, some cf, some bw =>
      let a : Args := { shape := shape, dtype := dtype, safeToFirst := safe == "1", rate := rate, start := start,
                        metaK := mt, cf := cf, bw := bw, align := unq al, pol := unq pol }
      match construct d a with
      | .error e => s!"err {e.name}"
      | .ok s => s!"ok {s.cls} {showList toString s.shape} {s.dtype} {showBool s.bwIsRate} {if s.align == "" then "EMPTY" else s.align} {if s.pol == "" then "EMPTY" else s.pol}"
    | _, _, _, _, _, _, _ => "bad-arg"
  | ["like", cls] => showBool (likeFaithful cls)
  | ["initkw", cls] => showList (fun p => p.1) (initKw cls)
  | _ => "bad-op"

end Pb.Drv.C16
