import PbModel.Proto
import PbModel.Disp

namespace Pb.Drv.C05
open Pb.Proto Pb.Crop Pb.Disp

/-- signed DFT bin of index `k` on an axis of length `n` (NumPy `fftfreq` order) -/
def fftfreqBin (n k : Nat) : Int := if k < (n + 1) / 2 then (k : Int) else (k : Int) - n

/-- fractional part in [0,1) -/
def frac1 (q : Rat) : Rat := q - q.floor

/-- `chirp DM ref fc rate N` → `phase_k mod 1` for `k = 0..N-1` with `f_k = fc + bin(k)·rate/N`;
`bounds N dTop dBot` → `start stop` -/
def handle : List String → String
  | ["chirp", dm, ref, fc, rate, n] =>
    match parseRat? dm, (if ref == "inf" then some (0 : Rat) else (parseRat? ref).map (1 / ·)), parseRat? fc, parseRat? rate,
          parseNat? n with
    | some dm, some ir, some fc, some rate, some n =>
      showList showRat ((List.range n).map fun k =>
        frac1 (phaseTurnsInv dm ir (fc + (fftfreqBin n k : Rat) * rate / n)))
    | _, _, _, _, _ => "bad-arg"
  | ["bounds", n, dt, db] =>
    match parseNat? n, parseRat? dt, parseRat? db with
    | some n, some dt, some db =>
      let b := cohBounds n dt db
      s!"{b.1} {b.2}"
    | _, _, _ => "bad-arg"
  | _ => "bad-op"

end Pb.Drv.C05
