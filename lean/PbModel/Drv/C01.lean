import PbModel.Proto
import PbModel.Crop

namespace Pb.Drv.C01
open Pb.Proto Pb.Crop

def optInt? (s : String) : Option (Option Int) :=
  if s == "_" then some none else (s.toInt?).map some

def parseOp? (tok : String) : Option CropOp :=
  match tok.splitOn ":" with
  | ["sl", a, b, c] => do
    let a ← optInt? a; let b ← optInt? b; let c ← optInt? c
    pure (.slice ⟨a, b, c⟩)
  | ["fl"] => some .fastLen
  | ["sc", l] => (parseList? parseRat? l).map .shiftCrop
  | ["sn", t, n] => do
    let t ← parseRat? t; let n ← parseInt? n
    pure (.snippet t n)
  | ["cc", a, b] => do
    let a ← parseRat? a; let b ← parseRat? b
    pure (.cohCrop a b)
  | ["ic", l] => (parseList? parseInt? l).map .incohCrop
  | _ => none

def showLedgerSel (L : Ledger) (σ : Sel) : String :=
  s!"ok {showOptRat L.t0} {showRat L.rate} {L.len} {σ.first} {showRat σ.off} {σ.stride}"

def handle : List String → String
  | "pipe" :: t0 :: rate :: len :: ops =>
    match parseOptRat? t0, parseRat? rate, parseNat? len, ops.mapM parseOp? with
    | some t0, some rate, some len, some ops =>
      let L : Ledger := { t0 := t0, rate := rate, len := len }
      match pipeline L (Sel.id len) ops 0 with
      | .ok (L', σ) => showLedgerSel L' σ
      | .error (e, i) => s!"err {e.name} {i}"
    | _, _, _, _ => "bad-arg"
  | ["contains", al, t0, rate, len, t] =>
    match parseRat? al, parseOptRat? t0, parseRat? rate, parseNat? len, parseRat? t with
    | some al, some t0, some rate, some len, some t =>
      showBool (contains al { t0 := t0, rate := rate, len := len } t)
    | _, _, _, _, _ => "bad-arg"
  | _ => "bad-op"

end Pb.Drv.C01
