import PbModel.Proto
import PbModel.Freq
import PbModel.Drv.C01

namespace Pb.Drv.C02
open Pb.Proto Pb.Crop Pb.Freq

/-- `fs:a:b:c` (frequency slice only) or `tfs:k:a:b:c` (combined with a time slice of step k) -/
def parseOp? (tok : String) : Option (Nat × PySlice) :=
  match tok.splitOn ":" with
  | ["fs", a, b, c] => do
    let a ← Pb.Drv.C01.optInt? a; let b ← Pb.Drv.C01.optInt? b; let c ← Pb.Drv.C01.optInt? c
    pure (1, ⟨a, b, c⟩)
  | ["tfs", k, a, b, c] => do
    let k ← parseNat? k
    let a ← Pb.Drv.C01.optInt? a; let b ← Pb.Drv.C01.optInt? b; let c ← Pb.Drv.C01.optInt? c
    pure (k, ⟨a, b, c⟩)
  | _ => none

/-- run `getItem` repeatedly on a 64-sample signal; the time slice `[::k]` stands for any time
slice of step `k` (only its stride matters for the band) -/
def run (z : RadioSig) (off : Nat) : List (Nat × PySlice) → Nat → Except (Err × Nat) (RadioSig × Nat)
  | [], _ => .ok (z, off)
  | (k, f) :: rest, i =>
    match freqSlice z.band f with
    | .error e => .error (e, i)
    | .ok (_, a) =>
      match getItem z ⟨none, none, some (k : Int)⟩ (some f) with
      | .error e => .error (e, i)
      | .ok z' => run z' (off + a) rest (i + 1)

/-- `band cf bw n align bb|rf op ...` →
`ok cf' bw' n' align' off min max bandwidth label0 labelLast` | `err Name i` (i = -1: constructor) -/
def handle : List String → String
  | "band" :: cf :: bw :: n :: al :: kind :: ops =>
    match parseRat? cf, parseRat? bw, parseNat? n, ops.mapM parseOp? with
    | some cf, some bw, some n, some ops =>
      match mkBand cf bw n al with
      | .error e => s!"err {e.name} -1"
      | .ok B =>
        let z : RadioSig := { led := { t0 := some 0, rate := bw, len := 64 }, band := B, baseband := kind == "bb" }
        match run z 0 ops 0 with
        | .error (e, i) => s!"err {e.name} {i}"
        | .ok (z', off) =>
          let B' := z'.band
          s!"ok {showRat B'.cf} {showRat B'.bw} {B'.n} {B'.al} {off} {showRat B'.minFreq} {showRat B'.maxFreq} {showRat B'.bandwidth} {showRat (B'.label 0)} {showRat (B'.label ((B'.n : Int) - 1))}"
    | _, _, _, _ => "bad-arg"
  | ["labels", cf, bw, n, al] =>
    match parseRat? cf, parseRat? bw, parseNat? n with
    | some cf, some bw, some n =>
      match mkBand cf bw n al with
      | .error e => s!"err {e.name} -1"
      | .ok B => showList showRat ((List.range n).map (fun (i : Nat) => B.label (Int.ofNat i)))
    | _, _, _ => "bad-arg"
  | _ => "bad-op"

end Pb.Drv.C02
