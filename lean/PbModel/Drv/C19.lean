import PbModel.Proto
import PbModel.Hilbert

namespace Pb.Drv.C19
open Pb.Proto Pb.Hilbert

def handle : List String → String
  | ["weights", n] =>
    match parseNat? n with
    | some n => s!"{showList toString (weights n)} {outLen n}"
    | none => "bad-arg"
  | ["dtype", k] =>
    match outDtype k with
    | .ok d => d
    | .error e => s!"err {e.name}"
  | _ => "bad-op"

end Pb.Drv.C19
