import PbModel.Proto
import PbModel.FastLen

namespace Pb.Drv.C18
open Pb.Proto Pb.FastLen

/-- `next N`, `prev N` → value;  `smooth N` → 0/1 -/
def handle : List String → String
  | ["next", n] => match parseNat? n with
    | some k => toString (nextFast k)
    | none => "bad-arg"
  | ["prev", n] => match parseNat? n with
    | some k => toString (prevFast k)
    | none => "bad-arg"
  | ["smooth", n] => match parseNat? n with
    | some k => showBool (isSmooth7 k)
    | none => "bad-arg"
  | _ => "bad-op"

end Pb.Drv.C18
