import PbModel.Basic
import PbModel.Crop

/-! Zero-fill model of `time_shift` / `freq_shift` (C03, C04): which positions along axis 0 are
set to zero for each element of the sample shape, with NumPy broadcasting of the shift array. -/

namespace Pb.Shift
open Pb.Crop

/-- the zero-fill statement of the loop body for one shift value `a` on an axis of length `N`:
`a < 0`: `x[int(floor(a)):] = 0`;  else: `x[:int(ceil(a))] = 0`  (Python slice semantics) -/
def zeroInterval (N : Nat) (a : Rat) : Nat × Nat :=
  if a < 0 then
    ((adj N (some (floor a)) 0).toNat, N)          -- x[floor(a):]
  else
    (0, (adj N (some (ceil a)) N).toNat)           -- x[:ceil(a)]

/-- is position `n` zero-filled for shift `a`? -/
def zeroed (N : Nat) (a : Rat) (n : Nat) : Bool :=
  let iv := zeroInterval N a
  decide (iv.1 ≤ n) && decide (n < iv.2)

/-- NumPy broadcasting: the shift array (shape `shp`, already padded to the rank of the sample
shape, C-order values `vals`) seen from sample element `e` -/
def strides : List Nat → List Nat
  | [] => []
  | _ :: rest => (rest.foldl (· * ·) 1) :: strides rest

def bcastOffset : List Nat → List Nat → List Nat → Nat
  | d :: ds, s :: ss, i :: is => (if d = 1 then 0 else i * s) + bcastOffset ds ss is
  | _, _, _ => 0

def bcastGet (shp : List Nat) (vals : List Rat) (e : List Nat) : Rat :=
  vals.getD (bcastOffset shp (strides shp) e) 0

/-- all multi-indices of a shape in C order -/
def multiIndices : List Nat → List (List Nat)
  | [] => [[]]
  | d :: rest => (List.range d).flatMap (fun i => (multiIndices rest).map (i :: ·))

/-- pad a shift shape with trailing 1s to the rank of the sample shape (`shift[ix]`) -/
def padShape (rank : Nat) (shp : List Nat) : List Nat := shp ++ List.replicate (rank - shp.length) 1

/-- `time_shift` / `freq_shift` zero-fill: for every element of the sample shape, the zeroed
interval along axis 0 for that element's (broadcast) shift -/
def zeroFill (N : Nat) (sampleShape shiftShape : List Nat) (vals : List Rat) : List (List Nat × Nat × Nat) :=
  let shp := padShape sampleShape.length shiftShape
  (multiIndices sampleShape).map fun e =>
    let iv := zeroInterval N (bcastGet shp vals e)
    (e, iv.1, iv.2)

/-- the per-element shifts as a flat list (C order over the sample shape) -/
def elemShifts (sampleShape shiftShape : List Nat) (vals : List Rat) : List Rat :=
  let shp := padShape sampleShape.length shiftShape
  (multiIndices sampleShape).map (bcastGet shp vals)

end Pb.Shift
