import PbModel.Basic
import PbModel.Crop
import PbModel.Gen.Align
import PbModel.Gen.Classes

/-! Frequency-axis model of `RadioSignal` (C02): channel labels, band edges, `_freq_slice`,
and the odd-`nchan` alignment rule.  The alignment offsets come from the GENERATED table
`Gen.Align.alignTable` (translator output), not from this file. -/

namespace Pb.Freq
open Pb.Crop

/-- `{...}[freq_align]`: lookup in the generated table (`none` = KeyError) -/
def alignVal? (al : String) : Option Rat := Gen.Align.alignTable.lookup al

/-- `freq_align` setter: reject names outside the allowed set; force the generated odd rule -/
def normAlign (n : Nat) (al : String) : Except Err String :=
  if Gen.Align.alignAllowed.contains al then
    .ok (if n % 2 = 1 then Gen.Align.oddAlign.getD al else al)
  else .error .valueError

structure Band where
  cf : Rat          -- center_freq (Hz)
  bw : Rat          -- chan_bw (Hz)
  n  : Nat          -- nchan
  al : String       -- freq_align as stored (already normalised)
  deriving Repr

/-- `channel_freqs[i] = center_freq + chan_bw * (i + a - nchan/2)` -/
def Band.label (B : Band) (i : Int) : Rat :=
  B.cf + B.bw * ((i : Rat) + (alignVal? B.al).getD 0 - (B.n : Rat) / 2)

def Band.maxFreq (B : Band) : Rat := B.cf + B.bw * B.n / 2
def Band.minFreq (B : Band) : Rat := B.cf - B.bw * B.n / 2
def Band.bandwidth (B : Band) : Rat := B.bw * B.n

/-- constructor path: `RadioSignal.__init__` → `freq_align` setter -/
def mkBand (cf bw : Rat) (n : Nat) (al : String) : Except Err Band :=
  match normAlign n al with
  | .error e => .error e
  | .ok a => .ok { cf := cf, bw := bw, n := n, al := a }

/-- `RadioSignal._freq_slice` + `like(..., center_freq=(f[0]+f[-1])/2, freq_align="center")`;
returns the new band and the first selected channel. -/
def freqSlice (B : Band) (s : PySlice) : Except Err (Band × Nat) :=
  let step := s.step.getD 1
  if step = 0 then .error .valueError                -- slice.indices
  else
    -- for a negative step `indices` follows other rules, but `assert s.step == 1` fails anyway
    if step ≠ 1 then .error .assertionError
    else
      let a := adj B.n s.start 0
      let b := adj B.n s.stop B.n
      if ¬ (a < b) then .error .assertionError       -- "Empty frequency slice!"
      else
        let n' := (b - a).toNat
        match normAlign n' "center" with
        | .error e => .error e
        | .ok al' =>
          .ok ({ cf := (B.label a + B.label (b - 1)) / 2, bw := B.bw, n := n', al := al' }, a.toNat)

/-- nested frequency slices; returns final band and the accumulated channel offset -/
def freqPipeline (B : Band) (off : Nat) : List PySlice → Nat → Except (Err × Nat) (Band × Nat)
  | [], _ => .ok (B, off)
  | s :: rest, i =>
    match freqSlice B s with
    | .error e => .error (e, i)
    | .ok (B', a) => freqPipeline B' (off + a) rest (i + 1)

/-- a radio signal as far as its labels are concerned; `baseband` = the class passes
`chan_bw=sample_rate` to its parent constructor (BasebandSignal and subclasses) -/
structure RadioSig where
  led  : Ledger
  band : Band
  baseband : Bool := false
  deriving Repr

/-- what `like()` does to the band when the time slice changed the sample rate: a baseband class
re-derives `chan_bw` from the new `sample_rate` -/
def rescale (baseband : Bool) (stride : Nat) (B : Band) : Band :=
  if baseband ∧ stride > 1 then { B with bw := B.bw / stride } else B

/-- `RadioSignal.__getitem__((ts,))` / `((ts, fs))`: `_time_slice` first, then `_freq_slice`
(computed on the ORIGINAL labels), then `like(self, data[index], **kw)` -/
def getItem (z : RadioSig) (ts : PySlice) (fs : Option PySlice) : Except Err RadioSig :=
  match timeSlice z.led.len ts with
  | .error e => .error e
  | .ok σ =>
    match fs with
    | none => .ok { z with led := z.led.select σ, band := rescale z.baseband σ.stride z.band }
    | some f =>
      match freqSlice z.band f with
      | .error e => .error e
      | .ok (B', _) => .ok { z with led := z.led.select σ, band := rescale z.baseband σ.stride B' }

/-- `FullStokesSignal.__getitem__(str)`: index from the generated `_stokes_ids`; labels untouched -/
def stokesGet (z : RadioSig) (key : String) : Except Err (RadioSig × Nat) :=
  match Gen.Classes.stokesIds.lookup key with
  | none => .error .keyError
  | some i => .ok (z, i)

end Pb.Freq
