import PbModel.Basic
import PbModel.FastLen

/-! Time-axis model: Python slice semantics, the time ledger of a signal, and every operation
of pulsarbat that returns a subset of a signal's samples (C01, C12, C18 `fast_len`; the crop
halves of C03, C05, C06).

A `Ledger` is what the public attributes `start_time`, `sample_rate`, `len()` denote, in exact
rational arithmetic (seconds / Hz).  A `Sel` says which positions of the *input* time axis
the output samples sit at: output sample `k` is at input position `first + off + k*stride`. -/

namespace Pb.Crop

inductive Err
  | valueError | assertionError | indexError | typeError | keyError | attributeError
  deriving DecidableEq, Repr

def Err.name : Err → String
  | .valueError => "ValueError"
  | .assertionError => "AssertionError"
  | .indexError => "IndexError"
  | .typeError => "TypeError"
  | .keyError => "KeyError"
  | .attributeError => "AttributeError"

/-- A Python `slice(start, stop, step)`; `none` = omitted. -/
structure PySlice where
  start : Option Int
  stop  : Option Int
  step  : Option Int
  deriving Repr

/-- CPython `PySlice_AdjustIndices` for a positive step: clamp one bound into `[0, n]`. -/
def adj (n : Int) (v : Option Int) (dflt : Int) : Int :=
  match v with
  | none => dflt
  | some s => if s < 0 then (if s + n < 0 then 0 else s + n) else (if s ≥ n then n else s)

/-- `len(range(a, b, step))` for `step > 0`. -/
def sliceLen (a b step : Int) : Nat :=
  if a < b then ((b - a - 1) / step + 1).toNat else 0

structure Ledger where
  t0   : Option Rat
  rate : Rat
  len  : Nat
  deriving Repr

structure Sel where
  first  : Nat
  off    : Rat := 0
  stride : Nat
  count  : Nat
  deriving Repr

/-- position on the input time axis of output sample `k` -/
def Sel.pos (σ : Sel) (k : Nat) : Rat := σ.first + σ.off + k * σ.stride

/-- absolute time of position `x` (in samples) of a signal with ledger `L` -/
def Ledger.timeAt (L : Ledger) (x : Rat) : Option Rat := L.t0.map (· + x / L.rate)

def Ledger.stopTime (L : Ledger) : Option Rat := L.timeAt L.len

/-- `Signal._time_slice` + `like()`: new start `start_time + s.start / sample_rate` (only if a
start time exists), new rate `sample_rate / s.step` only when `s.step > 1`, new length. -/
def Ledger.select (L : Ledger) (σ : Sel) : Ledger :=
  { t0 := L.t0.map (· + (σ.first + σ.off) / L.rate)
    rate := if σ.stride > 1 then L.rate / σ.stride else L.rate
    len := σ.count }

/-- `slice(*index.indices(n))`, `assert s.step > 0`, and `data[index]`. -/
def timeSlice (n : Nat) (s : PySlice) : Except Err Sel :=
  let step := s.step.getD 1
  if step = 0 then .error .valueError       -- slice.indices: "slice step cannot be zero"
  else if step < 0 then .error .assertionError
  else
    let a := adj n s.start 0
    let b := adj n s.stop n
    .ok { first := a.toNat, stride := step.toNat, count := sliceLen a b step }

/-- Python `z[a:b]` with integer bounds -/
def range (n : Nat) (a b : Int) : Except Err Sel :=
  timeSlice n { start := some a, stop := some b, step := none }

/-- `math.ceil` / `np.ceil` / `np.floor` on exact rationals -/
def ceil (q : Rat) : Int := q.ceil
def floor (q : Rat) : Int := q.floor

/-- bounds computed by `time_shift`'s zero-fill loop: `start = max(0, ⌈a⌉ …)` over `a ≥ 0`,
`stop = min(0, ⌊a⌋ …)` over `a < 0`. -/
def shiftBounds : List Rat → Int × Int
  | [] => (0, 0)
  | a :: rest =>
    let (st, sp) := shiftBounds rest
    if a < 0 then (st, min sp (floor a)) else (max st (ceil a), sp)

/-- `np.allclose(shift, 0)`: every `|a| ≤ 1e-8` -/
def allCloseZero (l : List Rat) : Bool := l.all (fun a => decide (rabs a ≤ 1 / 100000000))

inductive CropOp
  | slice (s : PySlice)
  | fastLen
  | shiftCrop (shifts : List Rat)          -- time_shift(z, shifts, crop=True)
  | snippet (t : Rat) (n : Int)            -- snippet(z, t, n), t in samples
  | cohCrop (dTop dBot : Rat)              -- coherent_dedispersion edge crop
  | incohCrop (delays : List Int)          -- incoherent_dedispersion (rounded per-channel delays)
  deriving Repr

def listMax : List Int → Int
  | [] => 0
  | [a] => a
  | a :: rest => max a (listMax rest)

/-- The time-axis selection each operation performs on a signal of length `n`
(transliteration of the callers' bound arithmetic, Python wrap-around included). -/
def opSel (n : Nat) : CropOp → Except Err Sel
  | .slice s => timeSlice n s
  | .fastLen => range n 0 (FastLen.prevFast n)     -- z[:prev_fast_len(len(z))]
  | .shiftCrop shifts =>
    if allCloseZero shifts then .ok { first := 0, stride := 1, count := n }   -- returns z itself
    else
      let (start, stop) := shiftBounds shifts
      range n start (max ((n : Int) + stop) 0)      -- x[start:max(len(x) + stop, 0)]
  | .snippet t cnt =>
    if cnt < 0 then .error .valueError
    else if t < 0 ∨ (n : Rat) < t + cnt then .error .valueError
    else
      let i : Int := t.floor                       -- int(t), t ≥ 0
      if (i : Rat) < t then
        let shift : Rat := i - t
        -- time_shift(z, shift, crop=True) then like(z, shifted, start_time=start - shift*dt)
        let σ₁ : Except Err Sel :=
          if allCloseZero [shift] then .ok { first := 0, stride := 1, count := n }
          else
            let (start, stop) := shiftBounds [shift]
            range n start (max ((n : Int) + stop) 0)
        match σ₁ with
        | .error e => .error e
        | .ok s1 =>
          match range s1.count i (i + cnt) with
          | .error e => .error e
          | .ok s2 => .ok { first := s2.first, off := -shift, stride := 1, count := s2.count }
      else range n i (i + cnt)
  | .cohCrop dTop dBot =>
    let start := ceil (-(min 0 (min dTop dBot)))
    let stop := (n : Int) - ceil (max 0 (max dTop dBot))
    range n start (max stop 0)
  | .incohCrop delays =>
    match delays with
    | [] => .error .valueError
    | d0 :: _ =>
      let dl := delays.getLast?.getD d0
      let cropBefore := -(min 0 (min d0 dl))
      let shifted := delays.map (· + cropBefore)
      let N := max ((n : Int) - listMax shifted) 0
      .ok { first := cropBefore.toNat, stride := 1, count := N.toNat }

/-- apply one operation to a ledger -/
def apply (L : Ledger) (op : CropOp) : Except Err (Ledger × Sel) :=
  match opSel L.len op with
  | .error e => .error e
  | .ok σ => .ok (L.select σ, σ)

/-- composition of selections: first `σ₁`, then `σ₂` on its result -/
def Sel.comp (σ₁ σ₂ : Sel) : Sel :=
  { first := σ₁.first + σ₂.first * σ₁.stride
    off := σ₁.off + σ₂.off * σ₁.stride
    stride := σ₁.stride * σ₂.stride
    count := σ₂.count }

def Sel.id (n : Nat) : Sel := { first := 0, stride := 1, count := n }

/-- run a pipeline; returns the final ledger and the composite selection w.r.t. the input,
or the error and the index of the failing operation -/
def pipeline (L : Ledger) (σ : Sel) : List CropOp → Nat → Except (Err × Nat) (Ledger × Sel)
  | [], _ => .ok (L, σ)
  | op :: rest, i =>
    match apply L op with
    | .error e => .error (e, i)
    | .ok (L', σ') => pipeline L' (σ.comp σ') rest (i + 1)

/-- the three ways `snippet` accepts its start `t` -/
inductive TForm
  | samples (t : Rat)        -- number of samples (int or float)
  | duration (sec : Rat)     -- Quantity of time relative to the start
  | time (abs : Rat)         -- absolute Time
  deriving Repr

/-- `snippet`'s normalisation of `t` to samples: `Time → (t − start).to(s)`, then
`Quantity → (t · sample_rate).to_value(one)`; a `Time` for a signal without start raises. -/
def snippetT (L : Ledger) : TForm → Except Err Rat
  | .samples t => .ok t
  | .duration d => .ok (d * L.rate)
  | .time a =>
    match L.t0 with
    | none => .error .valueError
    | some t0 => .ok ((a - t0) * L.rate)

/-- `snippet(z, t, n)` on the ledger level -/
def snippet (L : Ledger) (f : TForm) (n : Int) : Except Err (Ledger × Sel) :=
  if n < 0 then .error .valueError            -- checked before `t` is looked at
  else
    match snippetT L f with
    | .error e => .error e
    | .ok t => apply L (.snippet t n)

/-- `Time.isclose(a, b)` with absolute tolerance `α` -/
def isclose (α a b : Rat) : Bool := decide (rabs (a - b) ≤ α)

/-- `Signal.contains`: `edge & (t0 <= t) & (t < t1)` with
`edge = ~isclose(t, t1) | isclose(t, t0)`; `False` without a start time. -/
def contains (α : Rat) (L : Ledger) (t : Rat) : Bool :=
  match L.t0 with
  | none => false
  | some t0 =>
    let t1 := t0 + L.len / L.rate
    (!(isclose α t t1) || isclose α t t0) && decide (t0 ≤ t) && decide (t < t1)

end Pb.Crop
