import PbModel.Basic
import PbModel.Crop
import PbModel.Contract
import PbModel.Gen.Ufunc

/-! Model of `Signal.__array_ufunc__` and `Signal.__array__` (C17): refusal, unwrap, re-wrap,
`out=` identity, and NumPy's choice of which operand's `__array_ufunc__` runs. -/

namespace Pb.Ufunc
open Pb.Crop Pb.Contract

inductive Operand
  | sig (id : Nat) (cls : String)      -- a pulsarbat signal (object identity `id`)
  | other                               -- ndarray, scalar, Quantity, …
  deriving DecidableEq, Repr

structure Call where
  ufunc  : String
  method : String                       -- "__call__", "reduce", "accumulate", "reduceat", "outer", "at"
  nout   : Nat
  inputs : List Operand
  outs   : List (Option Operand)        -- `[]` when `out` was not given, else one entry per output
  resDtypeOk : List Bool                -- per output: result dtype admitted by the wrapping class (C16 rule)
  deriving Repr

inductive Res
  | wrapped (selfId : Nat) (cls : String)   -- `type(self).like(self, a)`
  | given (o : Operand)                      -- the object passed in `out`
  deriving DecidableEq, Repr

inductive Outcome
  | results (rs : List Res)
  | notImplemented                      -- NumPy turns this into TypeError
  | raises (e : Err)
  deriving Repr, DecidableEq

/-- `out` as the method sees it: `(None,) * ufunc.nout` when not given -/
def effOuts (c : Call) : List (Option Operand) :=
  if c.outs.isEmpty then List.replicate c.nout none else c.outs

/-- `type(self).like(self, a) if b is None else b`, with the constructor's dtype verdict -/
def wrapOne (selfId : Nat) (selfCls : String) : Option Operand × Bool → Res × Bool
  | (some g, _) => (Res.given g, true)
  | (none, ok) => (Res.wrapped selfId selfCls, ok)

def wrappedList (selfId : Nat) (selfCls : String) (c : Call) : List (Res × Bool) :=
  ((effOuts c).zip c.resDtypeOk).map (wrapOne selfId selfCls)

/-- `Signal.__array_ufunc__(self, ufunc, method, *inputs, out=None)` -/
def arrayUfunc (selfId : Nat) (selfCls : String) (c : Call) : Outcome :=
  if c.method ≠ Gen.Ufunc.acceptedMethod ∨ Gen.Ufunc.refusedUfuncs.contains c.ufunc then .notImplemented
  else if (wrappedList selfId selfCls c).all (·.2) then .results ((wrappedList selfId selfCls c).map (·.1))
  else .raises .valueError              -- `like` → constructor refuses the dtype

/-- signal operands in NumPy's collection order: inputs, then outputs -/
def sigArgs (c : Call) : List (Nat × String) :=
  (c.inputs ++ c.outs.filterMap id).filterMap fun
    | .sig i cls => some (i, cls)
    | .other => none

/-- NumPy's override order: an argument is tried before another if it comes earlier, unless a later
one's class is a strict subclass of its class ("subclasses before superclasses, otherwise left
to right").  Since all signal classes share one implementation, only the FIRST matters. -/
def dispatch (c : Call) : Option (Nat × String) :=
  let args := sigArgs c
  -- the first argument that no other argument strictly refines
  args.find? fun a => args.all fun b => ¬ (b.2 ≠ a.2 ∧ isA 8 b.2 a.2)

/-- what `np.<ufunc>.<method>(*inputs, out=...)` does when at least one operand is a signal -/
def call (c : Call) : Outcome :=
  match dispatch c with
  | none => .notImplemented
  | some (i, cls) => arrayUfunc i cls c

/-- `np.asarray(z, dtype)` / `np.array(z, dtype, copy)` through `Signal.__array__(dtype, copy)`:
always the signal's data, converted to `dtype` when one is given -/
def asArray (dataDtype : String) (dtype : Option String) : Except Err String :=
  .ok (dtype.getD dataDtype)

end Pb.Ufunc
