/-! Model of `pulsarbat.utils.next_fast_len` / `prev_fast_len` (fuelled transliterations).

The Python loops are `while` loops; here each becomes a structurally recursive function on
a fuel argument.  `PbProofs.FastLen` shows the fuel `fuelFor N` is always sufficient, so the
`fuel = 0` arms are unreachable from `nextFast` / `prevFast`. -/

namespace Pb.FastLen

/-- inner zig-zag of `next_fast_len`:
```
while 1:
    if x < N: x *= 3
    elif x > N:
        if x < guess: guess = x
        if x & 1: break
        x >>= 1
    else: return N
``` -/
def innerNext (N : Nat) : Nat → Nat → Nat → Bool × Nat
  | 0, _, g => (false, g)
  | fuel+1, x, g =>
    if x < N then innerNext N fuel (x*3) g
    else if N < x then
      let g' := if x < g then x else g
      if x % 2 = 1 then (false, g') else innerNext N fuel (x/2) g'
    else (true, g)

/-- `while x < N: x *= 2` -/
def doubleUp (N : Nat) : Nat → Nat → Nat
  | 0, x => x
  | fuel+1, x => if x < N then doubleUp N fuel (x*2) else x

/-- `while f75 < guess: ...; f75 *= 5` -/
def loop5 (N F : Nat) : Nat → Nat → Nat → Bool × Nat
  | 0, _, g => (false, g)
  | fuel+1, f75, g =>
    if f75 < g then
      let r := innerNext N F (doubleUp N F f75) g
      if r.1 then (true, r.2) else loop5 N F fuel (f75*5) r.2
    else (false, g)

/-- `while f7 < guess: ...; f7 *= 7` -/
def loop7 (N F : Nat) : Nat → Nat → Nat → Bool × Nat
  | 0, _, g => (false, g)
  | fuel+1, f7, g =>
    if f7 < g then
      let r := loop5 N F F f7 g
      if r.1 then (true, r.2) else loop7 N F fuel (f7*7) r.2
    else (false, g)

def fuelFor (N : Nat) : Nat := (2*N+2)*(N+2)

/-- `next_fast_len(N)` -/
def nextFast (N : Nat) : Nat :=
  if N ≤ 10 then N else
    let r := loop7 N (fuelFor N) (fuelFor N) 1 (2*N)
    if r.1 then N else r.2

/-- inner zig-zag of `prev_fast_len`:
```
while 1:
    if x < N:
        if x > guess: guess = x
        x *= 3
    elif x > N:
        if x & 1: break
        x >>= 1
    else: return N
``` -/
def innerPrev (N : Nat) : Nat → Nat → Nat → Bool × Nat
  | 0, _, g => (false, g)
  | fuel+1, x, g =>
    if x < N then innerPrev N fuel (x*3) (if g < x then x else g)
    else if N < x then
      if x % 2 = 1 then (false, g) else innerPrev N fuel (x/2) g
    else (true, g)

/-- `while x <= N: x *= 2` -/
def doubleOver (N : Nat) : Nat → Nat → Nat
  | 0, x => x
  | fuel+1, x => if x ≤ N then doubleOver N fuel (x*2) else x

def ploop5 (N F : Nat) : Nat → Nat → Nat → Bool × Nat
  | 0, _, g => (false, g)
  | fuel+1, f75, g =>
    if f75 ≤ N then
      let r := innerPrev N F (doubleOver N F f75 / 2) g
      if r.1 then (true, r.2) else ploop5 N F fuel (f75*5) r.2
    else (false, g)

def ploop7 (N F : Nat) : Nat → Nat → Nat → Bool × Nat
  | 0, _, g => (false, g)
  | fuel+1, f7, g =>
    if f7 ≤ N then
      let r := ploop5 N F F f7 g
      if r.1 then (true, r.2) else ploop7 N F fuel (f7*7) r.2
    else (false, g)

/-- `prev_fast_len(N)` -/
def prevFast (N : Nat) : Nat :=
  if N ≤ 10 then N else
    let r := ploop7 N (fuelFor N) (fuelFor N) 1 1
    if r.1 then N else r.2

/-- product form of a 7-smooth number -/
def cand (a b c d : Nat) : Nat := 7^a * 5^b * 2^c * 3^d

/-- `n`'s only prime factors are 2, 3, 5, 7 (and `n ≥ 1`). -/
def Smooth7 (n : Nat) : Prop := ∃ a b c d, n = cand a b c d

/-- executable smoothness test used by the `Spec` side of the driver -/
def stripFactor (p : Nat) : Nat → Nat → Nat
  | 0, n => n
  | fuel+1, n => if n ≠ 0 ∧ n % p = 0 then stripFactor p fuel (n / p) else n

def isSmooth7 (n : Nat) : Bool :=
  n ≠ 0 && stripFactor 7 n (stripFactor 5 n (stripFactor 3 n (stripFactor 2 n n))) == 1

end Pb.FastLen
