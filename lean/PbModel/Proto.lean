/-! Line-protocol helpers shared by all driver handlers (import-free). -/

namespace Pb.Proto

def parseInt? (s : String) : Option Int := s.toInt?

def parseNat? (s : String) : Option Nat := s.toNat?

/-- `none` or an integer -/
def parseOptInt? (s : String) : Option (Option Int) :=
  if s == "none" then some none else (s.toInt?).map some

/-- rational `n/d` or `n` -/
def parseRat? (s : String) : Option Rat :=
  match s.splitOn "/" with
  | [n] => (n.toInt?).map (fun i => (i : Rat))
  | [n, d] =>
    match n.toInt?, d.toNat? with
    | some i, some k => if k = 0 then none else some (mkRat i k)
    | _, _ => none
  | _ => none

def parseOptRat? (s : String) : Option (Option Rat) :=
  if s == "none" then some none else (parseRat? s).map some

/-- comma-separated list, `-` for the empty list -/
def parseList? {α} (f : String → Option α) (s : String) : Option (List α) :=
  if s == "-" then some [] else (s.splitOn ",").mapM f

def showRat (q : Rat) : String :=
  if q.den = 1 then toString q.num else toString q.num ++ "/" ++ toString q.den

def showOptRat : Option Rat → String
  | none => "none"
  | some q => showRat q

def showList {α} (f : α → String) (l : List α) : String :=
  if l.isEmpty then "-" else ",".intercalate (l.map f)

def showBool (b : Bool) : String := if b then "1" else "0"

end Pb.Proto
