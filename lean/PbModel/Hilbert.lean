import PbModel.Basic
import PbModel.Crop
import PbModel.Gen.Hilbert

/-! Model of `utils.real_to_complex` (C19): analytic-signal weights (from the GENERATED assignment
list), output length, dtype rule. -/

namespace Pb.Hilbert
open Pb.Crop

/-- value of `h[k]` after `h = zeros(N)` and the generated slice assignments, in order -/
def weightAt (N k : Nat) : Nat :=
  (Gen.Hilbert.assigns N).foldl
    (fun acc a => if a.2.2.2 && decide (a.1 ≤ k) && decide (k < a.2.1) then a.2.2.1 else acc) 0

def weights (N : Nat) : List Nat := (List.range N).map (weightAt N)

/-- `z[::2]` along the axis: `⌈N/2⌉` samples -/
def outLen (N : Nat) : Nat := sliceLen 0 N 2

/-- dtype rule: complex input refused; float32 → complex64; everything else → complex128 -/
def outDtype (inKind : String) : Except Err String :=
  if inKind == "complex" then .error .valueError
  else if inKind == "float32" then .ok "complex64"
  else .ok "complex128"

end Pb.Hilbert
