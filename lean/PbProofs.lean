import PbProofs.FastLen
import PbProofs.FastLenPrev
import PbProofs.Crop
import PbProofs.Freq
import PbProofs.Concat
import PbProofs.Disp
