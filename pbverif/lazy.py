"""Joint evaluation of lazy results: several Dask arrays computed in ONE graph must each equal the array computed alone.
(Task names that leave out one of the things a result depends on make same-named tasks of different results collide.)"""


def joint_equal(np, lazies, sched="synchronous"):
    import dask

    alone = [np.asarray(x.compute(scheduler=sched)) for x in lazies]
    joint = dask.compute(*lazies, scheduler=sched)
    ok = all(a.shape == np.asarray(j).shape and np.array_equal(a, np.asarray(j), equal_nan=True) for a, j in zip(alone, joint))
    return bool(ok), alone


def irregular(m):
    """an uneven chunking of an axis of length m with a non-final chunk narrower than the first"""
    # (with the leading element sliced off lazily: (1, 3, 1, ..), (1, 2, ..), (1, 2, 1) — blocks that start where no multiple of the
    # first block's width is)
    return (2, 3, 1, m - 6) if m >= 7 else (2, 2, m - 4) if m >= 5 else (1, 2, 1) if m == 4 else (2, 1) if m == 3 else (1,) * m if m else (0,)


def dask_copy(np, z, time_chunks=1, data=None, uneven=None):
    """a Dask-backed copy of signal z (optionally with other sample values of the same shape and dtype).
    uneven="freq": one chunk in time, uneven chunks along every sample axis, made by slicing a padded array lazily;
    uneven="all": uneven chunks along time as well"""
    import dask.array as da

    arr = np.asarray(z.data) if data is None else data
    n = arr.shape[0]
    if uneven:
        tchunks = irregular(n) if uneven == "all" else (n,)
        if arr.ndim > 1:
            pad = np.concatenate([np.full_like(arr[:, :1], 9), arr], axis=1)      # one leading channel that is sliced off lazily
            d = da.from_array(pad, chunks=(tchunks,) + tuple(irregular(m) for m in pad.shape[1:]))[:, 1:]
        else:
            d = da.from_array(arr, chunks=(tchunks,))
        return type(z).like(z, d)
    tc = -1 if time_chunks == 1 else max(1, n // time_chunks)
    return type(z).like(z, da.from_array(arr, chunks=(tc,) + (1,) * (arr.ndim - 1)))
