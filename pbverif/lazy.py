"""Joint evaluation of lazy results: several Dask arrays computed in ONE graph must each equal the array computed alone.
(Task names that leave out one of the things a result depends on make same-named tasks of different results collide.)"""


def joint_equal(np, lazies, sched="synchronous"):
    import dask

    alone = [np.asarray(x.compute(scheduler=sched)) for x in lazies]
    joint = dask.compute(*lazies, scheduler=sched)
    ok = all(a.shape == np.asarray(j).shape and np.array_equal(a, np.asarray(j), equal_nan=True) for a, j in zip(alone, joint))
    return bool(ok), alone


def dask_copy(np, z, time_chunks=1, data=None):
    """a Dask-backed copy of signal z (optionally with other sample values of the same shape and dtype)"""
    import dask.array as da

    arr = np.asarray(z.data) if data is None else data
    n = arr.shape[0]
    tc = -1 if time_chunks == 1 else max(1, n // time_chunks)
    return type(z).like(z, da.from_array(arr, chunks=(tc,) + (1,) * (arr.ndim - 1)))
