"""Development tool:  python -m pbverif.mutscan gen | run [-j K] [--limit N] [--only substr] | report

Systematic (machine-generated) mutation scan, complementing the hand-written edits of selftest.py and the
independent seeded defects.  `gen` walks the AST of every module of /repo/pulsarbat and lists single-token
edits (comparison / arithmetic operator swaps, integer constants +-1, boolean flips, negated conditions,
dropped unary minus, swapped call names such as ceil/floor, deleted statements).  `run` applies each edit in a
scratch worktree (under /tmp, removed afterwards), first runs the repository's own test suite — an edit the
suite already rejects is of no interest — and then the quick checks of the properties anchored in the edited
function, each worker using its own snapshot copy of /verif.  `report` lists the survivors: edits that pass
the suite and are reported by no check.  A survivor is either behaviour-preserving on every reachable input
(to be argued case by case) or a blind spot of the checks.  Not registered in MANIFEST.json.
"""

import ast
import hashlib
import json
import os
import shutil
import subprocess
import sys
import tempfile
from concurrent.futures import ThreadPoolExecutor
from pathlib import Path

VERIF = Path(__file__).resolve().parents[1]
REPO = Path("/repo")
OUT = VERIF / ".work" / "mutscan"

FILES = ["pulsarbat/core.py", "pulsarbat/utils.py", "pulsarbat/fft.py", "pulsarbat/transforms/transforms.py",
         "pulsarbat/transforms/dedispersion.py", "pulsarbat/contrib/misc.py", "pulsarbat/pulsar/phase.py",
         "pulsarbat/pulsar/predictor.py", "pulsarbat/readers/_base.py", "pulsarbat/readers/_baseband_readers.py"]

# (file, qualified-name prefix) -> properties whose quick checks are run; first match wins
MAP = [
    ("pulsarbat/core.py", "Signal.__array_ufunc__", ["C17", "C14"]),
    ("pulsarbat/core.py", "Signal.__array__", ["C17"]),
    ("pulsarbat/core.py", "Signal.__len__", ["C17", "C01"]),
    ("pulsarbat/core.py", "Signal._time_slice", ["C01", "C12"]),
    ("pulsarbat/core.py", "Signal.__getitem__", ["C01", "C16"]),
    ("pulsarbat/core.py", "Signal.stop_time", ["C01"]),
    ("pulsarbat/core.py", "Signal.time_length", ["C01"]),
    ("pulsarbat/core.py", "Signal.dt", ["C01", "C03"]),
    ("pulsarbat/core.py", "Signal.contains", ["C01"]),
    ("pulsarbat/core.py", "Signal.__contains__", ["C01"]),
    ("pulsarbat/core.py", "Signal.compute", ["C09"]),
    ("pulsarbat/core.py", "Signal.persist", ["C09"]),
    ("pulsarbat/core.py", "Signal.to_dask_array", ["C09"]),
    ("pulsarbat/core.py", "Signal.rechunk", ["C09"]),
    ("pulsarbat/core.py", "Signal.like", ["C16", "C14", "C01"]),
    ("pulsarbat/core.py", "Signal._attr_repr", []),
    ("pulsarbat/core.py", "Signal.__str__", []),
    ("pulsarbat/core.py", "Signal.__repr__", []),
    ("pulsarbat/core.py", "Signal", ["C16", "C14"]),
    ("pulsarbat/core.py", "RadioSignal._attr_repr", []),
    ("pulsarbat/core.py", "RadioSignal._freq_slice", ["C02"]),
    ("pulsarbat/core.py", "RadioSignal.__getitem__", ["C02", "C01"]),
    ("pulsarbat/core.py", "RadioSignal.__init__", ["C16", "C02"]),
    ("pulsarbat/core.py", "RadioSignal", ["C02", "C16"]),
    ("pulsarbat/core.py", "FullStokesSignal", ["C02", "C13", "C16"]),
    ("pulsarbat/core.py", "IntensitySignal", ["C16"]),
    ("pulsarbat/core.py", "BasebandSignal.to_intensity", ["C13"]),
    ("pulsarbat/core.py", "BasebandSignal", ["C16"]),
    ("pulsarbat/core.py", "DualPolarizationSignal._attr_repr", []),
    ("pulsarbat/core.py", "DualPolarizationSignal.to_", ["C13"]),
    ("pulsarbat/core.py", "DualPolarizationSignal", ["C16", "C13"]),
    ("pulsarbat/core.py", "", ["C16"]),
    ("pulsarbat/transforms/transforms.py", "signal_transform", ["C09", "C18"]),
    ("pulsarbat/transforms/transforms.py", "concatenate", ["C10"]),
    ("pulsarbat/transforms/transforms.py", "snippet", ["C12"]),
    ("pulsarbat/transforms/transforms.py", "time_shift", ["C03", "C01", "C12"]),
    ("pulsarbat/transforms/transforms.py", "freq_shift", ["C04"]),
    ("pulsarbat/transforms/transforms.py", "fast_len", ["C18", "C01"]),
    ("pulsarbat/transforms/transforms.py", "", ["C03", "C04"]),
    ("pulsarbat/transforms/dedispersion.py", "DispersionMeasure.time_delay", ["C06", "C05"]),
    ("pulsarbat/transforms/dedispersion.py", "DispersionMeasure.sample_delay", ["C06", "C05"]),
    ("pulsarbat/transforms/dedispersion.py", "incoherent_dedispersion", ["C06", "C01"]),
    ("pulsarbat/transforms/dedispersion.py", "", ["C05", "C06"]),
    ("pulsarbat/utils.py", "real_to_complex", ["C19"]),
    ("pulsarbat/utils.py", "", ["C18"]),
    ("pulsarbat/fft.py", "", ["C20", "C09"]),
    ("pulsarbat/contrib/misc.py", "", ["C20", "C14"]),
    ("pulsarbat/pulsar/phase.py", "day_frac", ["C07"]),
    ("pulsarbat/pulsar/phase.py", "_parse_string", ["C15"]),
    ("pulsarbat/pulsar/phase.py", "check_imaginary", ["C15", "C07"]),
    ("pulsarbat/pulsar/phase.py", "Phase.to_string", ["C15"]),
    ("pulsarbat/pulsar/phase.py", "Phase.from_string", ["C15"]),
    ("pulsarbat/pulsar/phase.py", "Phase.__format__", ["C15"]),
    ("pulsarbat/pulsar/phase.py", "Phase.arg", ["C15"]),
    ("pulsarbat/pulsar/phase.py", "Phase.min", ["C15"]),
    ("pulsarbat/pulsar/phase.py", "Phase.max", ["C15"]),
    ("pulsarbat/pulsar/phase.py", "Phase.ptp", ["C15"]),
    ("pulsarbat/pulsar/phase.py", "Phase.sort", ["C15"]),
    ("pulsarbat/pulsar/phase.py", "Phase._take_along_axis", ["C15"]),
    ("pulsarbat/pulsar/phase.py", "Phase.__eq__", ["C15"]),
    ("pulsarbat/pulsar/phase.py", "Phase.__ne__", ["C15"]),
    ("pulsarbat/pulsar/phase.py", "Phase.__repr__", []),
    ("pulsarbat/pulsar/phase.py", "Phase.__str__", []),
    ("pulsarbat/pulsar/phase.py", "", ["C07", "C15"]),
    ("pulsarbat/pulsar/predictor.py", "", ["C08"]),
    ("pulsarbat/readers/_base.py", "", ["C11"]),
    ("pulsarbat/readers/_baseband_readers.py", "", ["C11"]),
]

CMP = {"<": ["<="], "<=": ["<"], ">": [">="], ">=": [">"], "==": ["!="], "!=": ["=="], "is": ["is not"], "is not": ["is"],
       "in": ["not in"], "not in": ["in"]}
CMPNAME = {ast.Lt: "<", ast.LtE: "<=", ast.Gt: ">", ast.GtE: ">=", ast.Eq: "==", ast.NotEq: "!=", ast.Is: "is", ast.IsNot: "is not",
           ast.In: "in", ast.NotIn: "not in"}
BIN = {ast.Add: ("+", ["-"]), ast.Sub: ("-", ["+"]), ast.Mult: ("*", ["/"]), ast.Div: ("/", ["*", "//"]), ast.FloorDiv: ("//", ["/"]),
       ast.Mod: ("%", ["//"]), ast.Pow: ("**", ["*"]), ast.LShift: ("<<", [">>"]), ast.RShift: (">>", ["<<"]),
       ast.BitAnd: ("&", ["|"]), ast.BitOr: ("|", ["&"])}
NAMES = {"ceil": "floor", "floor": "ceil", "min": "max", "max": "min", "real": "imag", "imag": "real", "any": "all", "all": "any",
         "argmin": "argmax", "argmax": "argmin", "zeros": "ones", "round": "floor", "rint": "floor", "fft": "ifft", "ifft": "fft",
         "fftshift": "ifftshift", "ifftshift": "fftshift", "conj": "real", "rfft": "fft", "trunc": "round", "isclose": "equal",
         "allclose": "array_equal", "abs": "real", "sum": "prod", "stack": "concatenate", "floor_divide": "true_divide",
         "searchsorted": "digitize", "asarray": "array", "asanyarray": "asarray", "result_type": "promote_types",
         "zeros_like": "ones_like", "arange": "ones", "exp": "exp2", "sin": "cos", "cos": "sin", "negative": "positive",
         "logical_and": "logical_or", "logical_or": "logical_and", "left": "right", "right": "left"}


def _offsets(src):
    offs, o = [0], 0
    for ln in src.splitlines(keepends=True):
        o += len(ln.encode())
        offs.append(o)
    return offs


def gen_file(rel):
    src = (REPO / rel).read_text()
    bsrc = src.encode()
    tree = ast.parse(src)
    offs = _offsets(src)
    pos = lambda ln, col: offs[ln - 1] + col
    span = lambda n: (pos(n.lineno, n.col_offset), pos(n.end_lineno, n.end_col_offset))
    out = []
    # qualified names
    qual = {}

    def walk(node, prefix):
        for ch in ast.iter_child_nodes(node):
            if isinstance(ch, (ast.FunctionDef, ast.ClassDef, ast.AsyncFunctionDef)):
                q = (prefix + "." if prefix else "") + ch.name
                for sub in ast.walk(ch):
                    qual.setdefault(id(sub), None)
                    qual[id(sub)] = q if qual[id(sub)] is None or len(q) > len(qual[id(sub)]) else qual[id(sub)]
                if isinstance(ch, ast.ClassDef):
                    walk(ch, q)
            else:
                walk(ch, prefix)
    walk(tree, "")
    doc = set()
    for n in ast.walk(tree):
        if isinstance(n, (ast.FunctionDef, ast.ClassDef, ast.Module, ast.AsyncFunctionDef)) and n.body and isinstance(n.body[0], ast.Expr) \
                and isinstance(n.body[0].value, ast.Constant) and isinstance(n.body[0].value.value, str):
            doc.add(id(n.body[0]))
            doc.add(id(n.body[0].value))
    skip_sub = set()
    for n in ast.walk(tree):      # annotations / decorators are not behaviour
        if isinstance(n, (ast.FunctionDef, ast.AsyncFunctionDef)):
            for d in n.decorator_list:
                for s in ast.walk(d):
                    skip_sub.add(id(s))
            for a in ast.walk(n.args):
                if isinstance(a, ast.arg) and a.annotation is not None:
                    for s in ast.walk(a.annotation):
                        skip_sub.add(id(s))

    def add(a, b, new, kind, node):
        old = bsrc[a:b].decode()
        if old == new:
            return
        out.append({"file": rel, "a": a, "b": b, "old": old, "new": new, "kind": kind, "line": node.lineno,
                    "func": qual.get(id(node)) or ""})

    for n in ast.walk(tree):
        if id(n) in doc or id(n) in skip_sub:
            continue
        if isinstance(n, ast.Compare) and len(n.ops) == 1:
            la, lb = span(n.left)
            ra, rb = span(n.comparators[0])
            mid = bsrc[lb:ra].decode()
            op = CMPNAME.get(type(n.ops[0]))
            if op and mid.strip(" ()\n") == op and mid.count(op) == 1:
                i = lb + len(mid[:mid.index(op)].encode())
                for alt in CMP[op]:
                    add(i, i + len(op), alt, "cmp", n)
        elif isinstance(n, ast.BinOp) and type(n.op) in BIN:
            la, lb = span(n.left)
            ra, rb = span(n.right)
            mid = bsrc[lb:ra].decode()
            op, alts = BIN[type(n.op)]
            core = mid.strip(" ()\n\\")
            if core == op:
                i = lb + len(mid[:mid.index(op)].encode())
                for alt in alts:
                    add(i, i + len(op), alt, "binop", n)
        elif isinstance(n, ast.AugAssign) and type(n.op) in BIN:
            ta, tb = span(n.target)
            va, vb = span(n.value)
            mid = bsrc[tb:va].decode()
            op, alts = BIN[type(n.op)]
            if mid.strip() == op + "=":
                i = tb + len(mid[:mid.index(op)].encode())
                add(i, i + len(op), alts[0], "augop", n)
        elif isinstance(n, ast.Constant) and not isinstance(n.value, (str, bytes)) and n.value is not None and n.value is not Ellipsis:
            a, b = span(n)
            if isinstance(n.value, bool):
                add(a, b, str(not n.value), "bool", n)
            elif isinstance(n.value, int):
                add(a, b, str(n.value + 1), "int+1", n)
                if n.value != 0:
                    add(a, b, str(n.value - 1), "int-1", n)
            elif isinstance(n.value, float):
                add(a, b, repr(n.value * 2), "float*2", n)
        elif isinstance(n, ast.UnaryOp) and isinstance(n.op, (ast.USub, ast.Not, ast.Invert)):
            a, b = span(n)
            oa, ob = span(n.operand)
            add(a, oa, "", "unary-drop", n)
        elif isinstance(n, (ast.If, ast.While, ast.IfExp)):
            a, b = span(n.test)
            add(a, b, "(not (" + bsrc[a:b].decode() + "))", "negate-cond", n)
        elif isinstance(n, ast.Attribute) and n.attr in NAMES:
            a, b = span(n)
            add(b - len(n.attr), b, NAMES[n.attr], "name", n)
        elif isinstance(n, ast.Name) and n.id in NAMES and isinstance(n.ctx, ast.Load):
            a, b = span(n)
            add(a, b, NAMES[n.id], "name", n)
        elif isinstance(n, ast.Constant) and isinstance(n.value, str) and n.value in NAMES and id(n) not in doc:
            a, b = span(n)
            q = bsrc[a:a + 1].decode()
            add(a, b, q + NAMES[n.value] + q, "strname", n)
        if isinstance(n, (ast.Assign, ast.AugAssign, ast.Expr, ast.Raise)) and id(n) not in doc and qual.get(id(n)):
            if isinstance(n, ast.Expr) and isinstance(n.value, ast.Constant):
                continue
            a, b = span(n)
            add(a, b, "pass", "del-stmt", n)
        if isinstance(n, ast.keyword) and n.arg is not None and isinstance(n.value, ast.Constant) and False:
            pass
    # keep only edits that still parse
    good = []
    for m in out:
        new_src = bsrc[:m["a"]] + m["new"].encode() + bsrc[m["b"]:]
        try:
            ast.parse(new_src.decode())
        except SyntaxError:
            continue
        m["id"] = hashlib.sha1(f'{rel}:{m["a"]}:{m["b"]}:{m["new"]}'.encode()).hexdigest()[:10]
        m["props"] = props_for(rel, m["func"])
        good.append(m)
    return good


def props_for(rel, func):
    for f, pre, props in MAP:
        if f == rel and func.startswith(pre):
            return props
    return []


def gen():
    OUT.mkdir(parents=True, exist_ok=True)
    allm = []
    for rel in FILES:
        allm += gen_file(rel)
    head = subprocess.run(["git", "-C", str(REPO), "rev-parse", "HEAD"], capture_output=True, text=True).stdout.strip()
    (OUT / "mutants.json").write_text(json.dumps({"head": head, "mutants": allm}, indent=0))
    kinds = {}
    for m in allm:
        kinds[m["kind"]] = kinds.get(m["kind"], 0) + 1
    print(len(allm), "mutants", kinds, "with checks:", sum(1 for m in allm if m["props"]))


PYTEST = ["/venv/bin/python", "-m", "pytest", "-q", "-x", "-p", "no:cacheprovider", "--timeout=120",
          "--deselect", "tests/test_phase_predictor.py::TestPredictor::test_basic", "tests"]


class Worker:
    def __init__(self, k):
        self.root = Path(tempfile.mkdtemp(prefix=f"pbms{k}-", dir="/tmp"))
        self.verif = self.root / "verif"
        self.wt = self.root / "repo"
        subprocess.run(["rsync", "-a", "--exclude", ".git", "--exclude", "replays", "--exclude", ".work", str(VERIF) + "/", str(self.verif) + "/"], check=True)
        subprocess.run(["git", "-C", str(REPO), "worktree", "add", "-f", "--detach", str(self.wt), "HEAD"], check=True, capture_output=True)

    def close(self):
        subprocess.run(["git", "-C", str(REPO), "worktree", "remove", "--force", str(self.wt)], capture_output=True)
        shutil.rmtree(self.root, ignore_errors=True)

    def run(self, m):
        subprocess.run(["git", "-C", str(self.wt), "checkout", "--", "."], capture_output=True)
        p = self.wt / m["file"]
        b = p.read_bytes()
        assert b[m["a"]:m["b"]].decode() == m["old"], "source moved"
        p.write_bytes(b[:m["a"]] + m["new"].encode() + b[m["b"]:])
        res = {"id": m["id"]}
        env = dict(os.environ, PYTHONPATH=str(self.wt), PYTHONDONTWRITEBYTECODE="1")
        try:
            r = subprocess.run(PYTEST, cwd=self.wt, env=env, capture_output=True, text=True, timeout=600)
            res["tests"] = "pass" if r.returncode == 0 else "fail"
            if r.returncode != 0:
                tail = [ln for ln in r.stdout.splitlines() if ln.startswith(("FAILED", "ERROR"))]
                res["test_fail"] = tail[:1]
        except subprocess.TimeoutExpired:
            res["tests"] = "timeout"
        if res["tests"] != "pass":
            return res
        res["checks"] = {}
        for pid in m["props"]:
            env = dict(os.environ, PBVERIF_REPO=str(self.wt), PBVERIF_SEARCH_S="20", PBVERIF_OUT=str(self.verif / ".work" / "ms"),
                       VERIF_SEED="1")
            try:
                r = subprocess.run([str(self.verif / "bin" / "check"), pid, "quick"], cwd=self.verif, env=env,
                                   capture_output=True, text=True, timeout=1500)
                viol = [ln for ln in r.stdout.splitlines() if ln.startswith("VIOLATION")]
                res["checks"][pid] = {"rc": r.returncode, "line": (viol[0] if viol else (r.stdout.strip().splitlines() or [""])[-1])[:200]}
                if r.returncode == 1 and viol:
                    break          # one detection is enough
            except subprocess.TimeoutExpired:
                res["checks"][pid] = {"rc": "timeout"}
        res["detected"] = any(c.get("rc") == 1 for c in res["checks"].values())
        return res


def run(argv):
    j, limit, only = 5, None, None
    it = iter(argv)
    for a in it:
        if a == "--survivors":
            continue
        if a == "-j":
            j = int(next(it))
        elif a == "--limit":
            limit = int(next(it))
        elif a == "--only":
            only = next(it)
    data = json.loads((OUT / "mutants.json").read_text())
    done = set()
    resf = OUT / "results.jsonl"
    if resf.exists():
        done = {json.loads(ln)["id"] for ln in resf.read_text().splitlines() if ln.strip()}
    if "--survivors" in argv:
        # second pass: the edits that passed the suite and no check, again, with the checks as they are now
        rows = [json.loads(ln) for ln in resf.read_text().splitlines() if ln.strip()]
        surv = {r["id"] for r in rows if r.get("tests") == "pass" and not r.get("detected")}
        resf = OUT / "results2.jsonl"
        done2 = {json.loads(ln)["id"] for ln in resf.read_text().splitlines() if ln.strip()} if resf.exists() else set()
        done = {m["id"] for m in data["mutants"]} - surv | done2
    todo = [m for m in data["mutants"] if m["id"] not in done and m["props"] and (only is None or only in m["file"] + ":" + m["func"])]
    # spread over the code rather than walking file by file
    todo.sort(key=lambda m: m["id"])
    if limit:
        todo = todo[:limit]
    print(len(todo), "to run with", j, "workers", flush=True)
    workers = [Worker(k) for k in range(j)]
    import queue
    q = queue.Queue()
    for w in workers:
        q.put(w)
    import threading
    lock = threading.Lock()

    def one(m):
        w = q.get()
        try:
            try:
                r = w.run(m)
            except Exception as e:      # noqa
                r = {"id": m["id"], "error": repr(e)}
            with lock:
                with resf.open("a") as f:
                    f.write(json.dumps(r) + "\n")
                print(m["id"], m["file"], m["line"], m["kind"], repr(m["old"][:30]), "->", repr(m["new"][:30]),
                      r.get("tests"), "DET" if r.get("detected") else ("SURVIVED" if r.get("tests") == "pass" else ""), flush=True)
        finally:
            q.put(w)
    try:
        with ThreadPoolExecutor(j) as ex:
            list(ex.map(one, todo))
    finally:
        for w in workers:
            w.close()


def one(argv):
    """apply one generated edit in a scratch worktree and run the given (default: mapped) quick checks of /verif on it"""
    mid, props = argv[0], argv[1:]
    m = {x["id"]: x for x in json.loads((OUT / "mutants.json").read_text())["mutants"]}[mid]
    wt = tempfile.mkdtemp(prefix="pbms1-", dir="/tmp")
    os.rmdir(wt)
    subprocess.run(["git", "-C", str(REPO), "worktree", "add", "-f", "--detach", wt, "HEAD"], check=True, capture_output=True)
    try:
        p = Path(wt) / m["file"]
        b = p.read_bytes()
        assert b[m["a"]:m["b"]].decode() == m["old"], "source moved"
        p.write_bytes(b[:m["a"]] + m["new"].encode() + b[m["b"]:])
        print(subprocess.run(["git", "-C", wt, "diff", "-U1"], capture_output=True, text=True).stdout)
        for pid in props or m["props"]:
            env = dict(os.environ, PBVERIF_REPO=wt, PBVERIF_SEARCH_S="20", PBVERIF_OUT=str(VERIF / ".work" / "ms1"))
            r = subprocess.run([str(VERIF / "bin" / "check"), pid, "quick"], cwd=VERIF, env=env, capture_output=True, text=True)
            print(pid, r.returncode, [ln for ln in r.stdout.splitlines() if "conda" not in ln][-1:])
    finally:
        subprocess.run(["git", "-C", str(REPO), "worktree", "remove", "--force", wt], capture_output=True)


def report():
    data = {m["id"]: m for m in json.loads((OUT / "mutants.json").read_text())["mutants"]}
    rows = [json.loads(ln) for ln in (OUT / "results.jsonl").read_text().splitlines() if ln.strip()]
    if (OUT / "results2.jsonl").exists():       # second pass over the survivors replaces their first result
        r2 = {json.loads(ln)["id"]: json.loads(ln) for ln in (OUT / "results2.jsonl").read_text().splitlines() if ln.strip()}
        rows = [r2.get(r["id"], r) for r in rows]
    n = len(rows)
    tf = sum(1 for r in rows if r.get("tests") in ("fail", "timeout"))
    det = sum(1 for r in rows if r.get("detected"))
    surv = [r for r in rows if r.get("tests") == "pass" and not r.get("detected")]
    print(f"{n} run: {tf} rejected by the test suite, {det} detected by a check, {len(surv)} survived")
    for r in sorted(surv, key=lambda r: (data[r['id']]['file'], data[r['id']]['line'])):
        m = data[r["id"]]
        rc = {k: v.get("rc") for k, v in r.get("checks", {}).items()}
        print(f'  {m["id"]} {m["file"]}:{m["line"]} [{m["func"]}] {m["kind"]}: {m["old"][:50]!r} -> {m["new"][:50]!r}  checks={rc}')


if __name__ == "__main__":
    cmd = sys.argv[1] if len(sys.argv) > 1 else "report"
    {"gen": gen, "run": lambda: run(sys.argv[2:]), "report": report, "one": lambda: one(sys.argv[2:])}[cmd]()
