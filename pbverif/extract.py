"""Translator: regenerate lean/PbModel/Gen/*.lean from the source tree (Python `ast`)."""


def regenerate(repo, lean):
    return []
