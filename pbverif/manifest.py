"""Regenerate MANIFEST.json from the property modules:  python -m pbverif.manifest"""

import importlib
import json
import sys
from pathlib import Path

VERIF = Path(__file__).resolve().parents[1]

ALL = [f"C{i:02d}" for i in range(1, 21)]


def main():
    checks, na = [], []
    for pid in ALL:
        f = VERIF / "pbverif" / "props" / f"{pid.lower()}.py"
        if not f.exists():
            na.append(dict(property_id=pid, reason="check not built yet (planned; see DESIGN.md §5 / §10)"))
            continue
        # read metadata without importing pulsarbat
        src = f.read_text()
        meta = {}
        ns = {}
        start = src.index("MANIFEST = ")
        exec(src[start:src.index("\n\n", start)], ns)
        meta = ns["MANIFEST"]
        checks.append(dict(
            property_id=pid,
            quick_cmd=f"bin/check {pid} quick",
            thorough_cmd=f"bin/check {pid} thorough",
            evidence_file=f"evidence/{pid}.json",
            replay_cmd_template=f"bin/check {pid} --replay {{path}}",
            engine="lean4-model+correspondence",
            level_claimed=dict(category="proof", text=meta["level_text"], design_ref=meta.get("design_ref", f"DESIGN.md §5 {pid}")),
            level_note=meta["level_note"],
            technique=meta["technique"],
        ))
    man = dict(
        version=1,
        setup_cmd="python3 -m pbverif.extract /repo && cd lean && lake build PbModel PbProofs PbProps pbdriver",
        hooks=dict(guard="PULSARBAT_VERIF", enable="none needed: no source hooks; checks import /repo's working tree directly",
                   baseline_off_cmd="cd /repo && /venv/bin/python -m pytest -ra -q -p no:cacheprovider --timeout=900 --continue-on-collection-errors",
                   source_commits=[], add_only=True),
        engines=[dict(name="lean4-model+correspondence", path="lean/ + pbverif/",
                      serves_properties=[c["property_id"] for c in checks],
                      kind_free_text="Lean 4 theorems about executable models (lean/PbModel, PbProofs, PbProps); models tied to "
                                     "/repo on every run by a translator (pbverif/extract.py -> lean/PbModel/Gen) and by a differential "
                                     "correspondence check of the real public API against the compiled Lean model (lean/Driver.lean)")],
        checks=checks,
        notes="bin/check <id> quick|thorough; exit 0 pass, 1 VIOLATION, 2 infrastructure error/timeout. "
              "VERIF_SEED seeds every random choice. PBVERIF_REPO overrides the source tree (default /repo).",
        not_applicable=na,
    )
    (VERIF / "MANIFEST.json").write_text(json.dumps(man, indent=1) + "\n")
    print(f"{len(checks)} checks, {len(na)} not yet claimed")


if __name__ == "__main__":
    sys.exit(main())
