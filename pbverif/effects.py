"""Translator (C14): Python AST of every public function/method -> effect IR (Lean term).

The translator only *translates syntax*: which names are bound to what kind of right-hand side
(`fresh` allocation vs. `viewOf` other names), and where a store through a name happens (`write`).
The may-alias analysis itself is the Lean function `Pb.Effect.ana`, proved sound in Lean.

Right-hand sides are classified with three small tables (view-returning calls/attributes,
allocating calls, immutable-valued attributes); everything unknown is treated conservatively as
"may alias every argument and the receiver".  Stores:
  * `x[...] = v`, `x.attr[...] = v`          -> write x        (x not a plain container)
  * `x op= v` on a non-immutable, non-container name -> write x
  * `f(..., out=x)` / `f(..., out=(x, y))`    -> write x (, y)
  * in-place methods (`x.sort()`, `x.fill()`, `np.copyto(x, …)`, …) -> write x
  * `x.attr = v` on a name other than `self` inside `__init__`/property setters -> write x
"""

import ast

FILES = ["pulsarbat/core.py", "pulsarbat/transforms/transforms.py", "pulsarbat/transforms/dedispersion.py",
         "pulsarbat/contrib/misc.py", "pulsarbat/utils.py"]

# attribute reads that return a view of / the same object as the base
VIEW_ATTRS = {"data", "_data", "real", "imag", "T", "flat", "base", "value", "mT"}
# attribute reads whose value is immutable (Time, str, int, tuple, dtype): rebinding, never a buffer
IMM_ATTRS = {"start_time", "stop_time", "_start_time", "shape", "sample_shape", "ndim", "nchan", "freq_align",
             "_freq_align", "pol_type", "_pol_type", "dtype", "size", "isscalar", "unit", "nout", "nin", "kind",
             "default", "empty", "POSITIONAL_ONLY", "parameters", "__name__", "__qualname__", "__doc__",
             "__module__", "start", "stop", "step", "multi_index", "isot"}
# calls (function or method name) that return a view of an argument / the receiver
VIEW_CALLS = {"reshape", "swapaxes", "transpose", "view", "ravel", "squeeze", "asarray", "asanyarray",
              "broadcast_to", "expand_dims", "atleast_1d", "atleast_2d", "moveaxis", "rollaxis", "diagonal",
              "to_value", "to", "nditer", "iter", "enumerate", "zip", "reversed", "getattr", "tuple", "list",
              "dict", "persist", "rechunk", "flatten_view"}
# calls that always allocate their result
FRESH_CALLS = {"exp", "fft", "ifft", "fft2", "ifft2", "fftn", "ifftn", "rfft", "irfft", "rfft2", "irfft2", "rfftn",
               "irfftn", "hfft", "ihfft", "stack", "concatenate", "array", "copy", "zeros", "ones", "empty", "full",
               "arange", "fftfreq", "fftshift", "ifftshift", "round", "conj", "conjugate", "sqrt", "ceil", "floor",
               "min", "max", "sum", "prod", "abs", "allclose", "isclose", "iscomplexobj", "len", "int", "float",
               "bool", "str", "index", "isinstance", "issubclass", "hasattr", "type", "hex", "id", "all", "any",
               "range", "slice", "signature", "pformat", "zeros_like", "ones_like", "empty_like", "linspace",
               "compute", "map_blocks", "from_delayed", "delayed", "fft_wrap", "can_cast", "lexsort", "argsort",
               "strip", "lower", "format", "join", "get", "items", "keys", "values", "get_axis", "Time",
               "Quantity", "ValueError", "TypeError", "IndexError", "KeyError", "AttributeError",
               "InvalidSignalError", "NotImplementedError", "lru_cache", "wraps", "singledispatch", "Unit",
               "next_fast_len", "prev_fast_len", "time_delay", "sample_delay", "chirp_function",
               "_transfer_function", "indices", "sorted", "sample", "standard_normal", "astype_copy"}
# in-place methods: receiver is written
INPLACE_METHODS = {"sort", "fill", "resize", "itemset", "put", "setfield", "setflags", "partition", "byteswap_inplace"}
# module-level in-place functions: first argument is written
INPLACE_FUNCS = {"copyto", "put", "place", "putmask", "put_along_axis", "fill_diagonal"}


class FnTranslator:
    def __init__(self, qualname, fn, is_setter_or_init):
        self.qualname = qualname
        self.fn = fn
        self.allow_self_attr = is_setter_or_init
        self.vars = {}
        self.kind = {}        # name -> 'imm' | 'cont' | 'arr'
        self.writes = []      # (lineno, how, name)
        a = fn.args
        params = [x.arg for x in a.posonlyargs + a.args + a.kwonlyargs]
        if a.vararg:
            params.append(a.vararg.arg)
        if a.kwarg:
            params.append(a.kwarg.arg)
        self.params = params
        for p in params:
            self.var(p)
            self.kind[p] = "arr"
        if a.vararg:
            self.kind[a.vararg.arg] = "cont"
        if a.kwarg:
            self.kind[a.kwarg.arg] = "cont"
        # free variables of nested functions are treated like parameters by the caller (see translate_all)

    def var(self, name):
        if name not in self.vars:
            self.vars[name] = len(self.vars)
            self.kind.setdefault(name, "arr")
        return self.vars[name]

    # ------------------------------------------------------------------ expressions
    def call_name(self, f):
        if isinstance(f, ast.Attribute):
            return f.attr
        if isinstance(f, ast.Name):
            return f.id
        return None

    def names_in(self, node):
        return sorted({n.id for n in ast.walk(node) if isinstance(n, ast.Name)} & set(self.vars) | set())

    def rhs(self, e):
        """-> (aliases: set of names | None for fresh, kind)"""
        if e is None or isinstance(e, ast.Constant):
            return set(), "imm"
        if isinstance(e, ast.Name):
            if e.id in self.vars:
                return {e.id}, self.kind.get(e.id, "arr")
            return set(), "imm"          # module-level name (np, u, pb, builtins)
        if isinstance(e, ast.Attribute):
            al, k = self.rhs(e.value)
            if e.attr in IMM_ATTRS:
                return set(), "imm"
            if e.attr in VIEW_ATTRS:
                return al, "arr"
            return al, "arr"             # unknown attribute: may be (a view of) something held by the base
        if isinstance(e, ast.Subscript):
            al, k = self.rhs(e.value)
            al2, _ = self.rhs(e.slice)
            if k == "imm":
                return set(), "imm"
            return al, ("arr" if k != "cont" else "arr")
        if isinstance(e, (ast.BinOp, ast.UnaryOp, ast.Compare, ast.BoolOp)):
            subs = [self.rhs(c) for c in ast.iter_child_nodes(e) if isinstance(c, ast.expr)]
            # list/tuple arithmetic builds containers of the same elements
            if isinstance(e, ast.BinOp) and any(k == "cont" for _, k in subs):
                al = set().union(*[a for a, _ in subs])
                return al, "cont"
            if isinstance(e, ast.BoolOp):
                al = set().union(*[a for a, _ in subs])
                return al, ("imm" if all(k == "imm" for _, k in subs) else "arr")
            if all(k == "imm" for _, k in subs):
                return set(), "imm"
            return set(), "arr"          # arithmetic allocates
        if isinstance(e, ast.IfExp):
            a1, k1 = self.rhs(e.body)
            a2, k2 = self.rhs(e.orelse)
            self.rhs(e.test)
            return a1 | a2, (k1 if k1 == k2 else "arr")
        if isinstance(e, (ast.Tuple, ast.List, ast.Set)):
            al = set()
            for x in e.elts:
                al |= self.rhs(x)[0]
            return al, "cont"
        if isinstance(e, ast.Dict):
            al = set()
            for x in list(e.keys) + list(e.values):
                if x is not None:
                    al |= self.rhs(x)[0]
            return al, "cont"
        if isinstance(e, ast.Starred):
            return self.rhs(e.value)
        if isinstance(e, (ast.ListComp, ast.GeneratorExp, ast.SetComp, ast.DictComp)):
            for g in e.generators:
                al, k = self.rhs(g.iter)
                for t in ast.walk(g.target):
                    if isinstance(t, ast.Name):
                        self.var(t.id)
                        self.pre.append(("assign", t.id, set(al)))
                        self.kind[t.id] = "arr" if k != "imm" else "imm"
                for c in g.ifs:
                    self.rhs(c)
            if isinstance(e, ast.DictComp):
                al = self.rhs(e.key)[0] | self.rhs(e.value)[0]
            else:
                al = self.rhs(e.elt)[0]
            return al, "cont"
        if isinstance(e, ast.NamedExpr):
            al, k = self.rhs(e.value)
            self.var(e.target.id)
            self.pre.append(("assign", e.target.id, set(al) if (al or k != "imm") and k != "fresh" else set()))
            self.kind[e.target.id] = k
            self.fresh_flag[e.target.id] = not al
            return al, k
        if isinstance(e, ast.Lambda):
            return set(self.names_in(e.body)), "arr"
        if isinstance(e, ast.JoinedStr) or isinstance(e, ast.FormattedValue):
            for c in ast.iter_child_nodes(e):
                if isinstance(c, ast.expr):
                    self.rhs(c)
            return set(), "imm"
        if isinstance(e, ast.Slice):
            for c in (e.lower, e.upper, e.step):
                if c is not None:
                    self.rhs(c)
            return set(), "imm"
        if isinstance(e, ast.Call):
            return self.rhs_call(e)
        # anything else: conservative
        return set(self.names_in(e)), "arr"

    def rhs_call(self, e):
        name = self.call_name(e.func)
        recv = self.rhs(e.func.value) if isinstance(e.func, ast.Attribute) else (set(), "imm")
        if isinstance(e.func, ast.Call) or isinstance(e.func, ast.Subscript):
            recv = self.rhs(e.func)
        args = [self.rhs(a) for a in e.args]
        kws = {k.arg: self.rhs(k.value) for k in e.keywords}
        # effects of the call itself
        for k in e.keywords:
            if k.arg == "out":
                for nm in sorted(self.rhs(k.value)[0]):
                    self.pre.append(("write", nm, e.lineno, "out="))
        if name in INPLACE_METHODS and isinstance(e.func, ast.Attribute):
            for nm in sorted(recv[0]):
                self.pre.append(("write", nm, e.lineno, f".{name}()"))
        # `x.byteswap(inplace=True)`, `x.byteswap(True)` and any other method given a true `inplace=` write their receiver
        if isinstance(e.func, ast.Attribute) and (
                any(k.arg == "inplace" and not (isinstance(k.value, ast.Constant) and not k.value.value) for k in e.keywords)
                or (name == "byteswap" and e.args and not (isinstance(e.args[0], ast.Constant) and not e.args[0].value))):
            for nm in sorted(recv[0]):
                self.pre.append(("write", nm, e.lineno, f".{name}(inplace)"))
        if name in INPLACE_FUNCS and e.args:
            for nm in sorted(args[0][0]):
                self.pre.append(("write", nm, e.lineno, f"{name}()"))
        # np.nan_to_num(x, copy=False) cleans x itself
        if name == "nan_to_num" and e.args and any(k.arg == "copy" and isinstance(k.value, ast.Constant) and k.value.value is False
                                                   for k in e.keywords):
            for nm in sorted(args[0][0]):
                self.pre.append(("write", nm, e.lineno, "nan_to_num(copy=False)"))
        allal = set().union(recv[0], *[a for a, _ in args], *[a for a, _ in kws.values()])
        if name == "astype":
            copy_false = any(k.arg == "copy" and isinstance(k.value, ast.Constant) and k.value.value is False
                             for k in e.keywords)
            return (recv[0], "arr") if copy_false else (set(), "arr")
        if name == "take":
            return recv[0] | (args[0][0] if args else set()), "arr"     # dask.take can be a view-like graph node
        if name in ("dict", "list", "tuple", "set") and isinstance(e.func, ast.Name):
            return allal, "cont"
        if name in VIEW_CALLS:
            return allal, "arr"
        if name in FRESH_CALLS:
            k = "imm" if name in {"len", "int", "float", "bool", "str", "index", "isinstance", "issubclass",
                                  "hasattr", "hex", "id", "all", "any", "allclose", "iscomplexobj", "can_cast",
                                  "strip", "lower", "format", "join", "signature", "pformat", "ceil", "floor",
                                  "next_fast_len", "prev_fast_len", "Time", "get_axis", "type"} and \
                not (name in {"ceil", "floor"} and isinstance(e.func, ast.Attribute)
                     and isinstance(e.func.value, ast.Name) and e.func.value.id == "np") else "arr"
            return set(), k
        # unknown call (constructors, like(), methods): result may hold any argument / the receiver
        return allal, "arr"

    # ------------------------------------------------------------------ statements
    def expr_effects(self, e):
        """evaluate an expression for its effects; returns (pre-statements, aliases, kind)"""
        self.pre = []
        self.fresh_flag = {}
        al, k = self.rhs(e)
        pre = self.pre
        self.pre = []
        return pre, al, k

    def emit_pre(self, pre):
        out = []
        for p in pre:
            if p[0] == "assign":
                out.append(("assign", self.var(p[1]), sorted(self.var(a) for a in p[2]) if p[2] else None))
            else:
                self.writes.append((p[2], p[3], p[1]))
                out.append(("write", self.var(p[1])))
        return out

    def bind(self, target, al, kind, lineno):
        """assignment of a value with aliases `al` to a target"""
        out = []
        if isinstance(target, ast.Name):
            v = self.var(target.id)
            self.kind[target.id] = kind
            out.append(("assign", v, sorted(self.var(a) for a in al) if al else None))
        elif isinstance(target, (ast.Tuple, ast.List)):
            for t in target.elts:
                out += self.bind(t.value if isinstance(t, ast.Starred) else t, al, "arr" if kind != "imm" else "imm", lineno)
        elif isinstance(target, ast.Subscript):
            pre, bal, bk = self.expr_effects(target.value)
            out += self.emit_pre(pre)
            pre2, _, _ = self.expr_effects(target.slice)
            out += self.emit_pre(pre2)
            plain_container = isinstance(target.value, ast.Name) and self.kind.get(target.value.id) == "cont"
            if plain_container:
                nm = target.value.id
                out.append(("assign", self.var(nm), sorted({self.var(nm)} | {self.var(a) for a in al})))
            else:
                for nm in sorted(bal):
                    self.writes.append((lineno, "setitem", nm))
                    out.append(("write", self.var(nm)))
        elif isinstance(target, ast.Attribute):
            pre, bal, bk = self.expr_effects(target.value)
            out += self.emit_pre(pre)
            for nm in sorted(bal):
                if nm == "self" and self.allow_self_attr:
                    continue
                self.writes.append((lineno, "setattr", nm))
                out.append(("write", self.var(nm)))
        return out

    def block(self, stmts):
        out = []
        for s in stmts:
            out += self.stmt(s)
        return ("seq", out)

    def stmt(self, s):
        if isinstance(s, (ast.Assign, ast.AnnAssign)):
            value = s.value
            pre, al, k = self.expr_effects(value) if value is not None else ([], set(), "imm")
            out = self.emit_pre(pre)
            targets = s.targets if isinstance(s, ast.Assign) else [s.target]
            for t in targets:
                out += self.bind(t, al, k, s.lineno)
            return out
        if isinstance(s, ast.AugAssign):
            pre, al, k = self.expr_effects(s.value)
            out = self.emit_pre(pre)
            t = s.target
            if isinstance(t, ast.Name):
                kind = self.kind.get(t.id, "arr")
                v = self.var(t.id)
                if kind == "imm":
                    self.kind[t.id] = "imm" if k == "imm" else "arr"
                    out.append(("assign", v, None))                       # rebinding to a new value
                elif kind == "cont":
                    out.append(("assign", v, sorted({v} | {self.var(a) for a in al})))
                else:
                    self.writes.append((s.lineno, "augassign", t.id))
                    out.append(("write", v))
            else:
                out += self.bind(t, al, k, s.lineno)
            return out
        if isinstance(s, ast.Expr):
            pre, _, _ = self.expr_effects(s.value)
            return self.emit_pre(pre)
        if isinstance(s, ast.Return):
            if s.value is None:
                return []
            pre, _, _ = self.expr_effects(s.value)
            return self.emit_pre(pre)
        if isinstance(s, ast.If):
            pre, _, _ = self.expr_effects(s.test)
            return self.emit_pre(pre) + [("choice", self.block(s.body), self.block(s.orelse))]
        if isinstance(s, (ast.For, ast.AsyncFor)):
            pre, al, k = self.expr_effects(s.iter)
            out = self.emit_pre(pre)
            body = self.bind(s.target, al, "arr" if k != "imm" else "imm", s.lineno) + self.block(s.body)[1]
            out.append(("loop", ("seq", body)))
            out += self.block(s.orelse)[1]
            return out
        if isinstance(s, ast.While):
            pre, _, _ = self.expr_effects(s.test)
            body = self.block(s.body)[1] + self.emit_pre(pre)
            return self.emit_pre(pre) + [("loop", ("seq", body))] + self.block(s.orelse)[1]
        if isinstance(s, ast.Try):
            out = []
            for st in s.body:                      # any prefix of the body may have run
                out.append(("choice", ("seq", self.stmt(st)), ("seq", [])))
            hs = ("seq", [])
            for h in s.handlers:
                hb = []
                if h.name:
                    hb.append(("assign", self.var(h.name), None))
                hs = ("choice", ("seq", hb + self.block(h.body)[1]), hs)
            out.append(hs)
            out.append(("choice", self.block(s.orelse), ("seq", [])))
            out += self.block(s.finalbody)[1]
            return out
        if isinstance(s, (ast.With, ast.AsyncWith)):
            out = []
            for it in s.items:
                pre, al, k = self.expr_effects(it.context_expr)
                out += self.emit_pre(pre)
                if it.optional_vars is not None:
                    out += self.bind(it.optional_vars, al, k, s.lineno)
            return out + self.block(s.body)[1]
        if isinstance(s, ast.Raise):
            if s.exc is not None:
                pre, _, _ = self.expr_effects(s.exc)
                return self.emit_pre(pre)
            return []
        if isinstance(s, ast.Assert):
            pre, _, _ = self.expr_effects(s.test)
            return self.emit_pre(pre)
        if isinstance(s, (ast.FunctionDef, ast.AsyncFunctionDef, ast.ClassDef)):
            if isinstance(s, ast.FunctionDef):
                self.var(s.name)
                self.kind[s.name] = "imm"
                return [("assign", self.var(s.name), None)]
            return []
        if isinstance(s, ast.Delete):
            return []
        if isinstance(s, (ast.Pass, ast.Break, ast.Continue, ast.Import, ast.ImportFrom, ast.Global, ast.Nonlocal)):
            return []
        # unknown statement kind: conservatively treat every mentioned name as written
        out = []
        for nm in self.names_in(s):
            self.writes.append((getattr(s, "lineno", 0), "unknown-stmt", nm))
            out.append(("write", self.var(nm)))
        return out


def lean_prog(p):
    if p[0] == "seq":
        items = [lean_prog(x) for x in p[1]]
        return "seqs [" + ", ".join(items) + "]"
    if p[0] == "assign":
        rhs = ".fresh" if p[2] is None else "(.viewOf [" + ", ".join(str(v) for v in p[2]) + "])"
        return f".assign {p[1]} {rhs}"
    if p[0] == "write":
        return f".write {p[1]}"
    if p[0] == "choice":
        return f".choice ({lean_prog(p[1])}) ({lean_prog(p[2])})"
    if p[0] == "loop":
        return f".loop ({lean_prog(p[1])})"
    raise ValueError(p)


def free_names(fn):
    """names read in a nested function that are bound in an enclosing function (closure variables)"""
    bound = {a.arg for a in fn.args.posonlyargs + fn.args.args + fn.args.kwonlyargs}
    if fn.args.vararg:
        bound.add(fn.args.vararg.arg)
    if fn.args.kwarg:
        bound.add(fn.args.kwarg.arg)
    for n in ast.walk(fn):
        if isinstance(n, ast.Name) and isinstance(n.ctx, ast.Store):
            bound.add(n.id)
    return {n.id for n in ast.walk(fn) if isinstance(n, ast.Name) and isinstance(n.ctx, ast.Load)} - bound


def collect_functions(tree, modname):
    """(qualname, FunctionDef, is_init_or_setter, enclosing-locals) for module functions, methods and nested defs"""
    out = []

    def visit(node, prefix, enclosing):
        for n in node.body if hasattr(node, "body") else []:
            if isinstance(n, ast.ClassDef):
                visit(n, prefix + n.name + ".", enclosing)
            elif isinstance(n, (ast.FunctionDef, ast.AsyncFunctionDef)):
                decs = [ast.unparse(d) for d in n.decorator_list]
                special = n.name == "__init__" or any(d.endswith(".setter") for d in decs)
                q = prefix + n.name + (".setter" if any(d.endswith(".setter") for d in decs) else "")
                out.append((f"{modname}:{q}", n, special, enclosing))
                locs = {x.id for x in ast.walk(n) if isinstance(x, ast.Name)} | {a.arg for a in n.args.args}
                for inner in ast.walk(n):
                    if inner is not n and isinstance(inner, (ast.FunctionDef, ast.AsyncFunctionDef)):
                        pass
                visit_nested(n, prefix + n.name + ".<locals>.", locs)

    def visit_nested(fn, prefix, locs):
        for n in ast.walk(fn):
            if n is not fn and isinstance(n, (ast.FunctionDef, ast.AsyncFunctionDef)):
                out.append((f"{modname}:{prefix}{n.name}", n, False, locs))

    visit(tree, "", set())
    return out


def gen_effects(repo):
    """-> (lean text, problems, report) ; report lists every write site per function"""
    problems, entries, report = [], [], {}
    for rel in FILES:
        try:
            src = (repo / rel).read_text()
            tree = ast.parse(src)
        except Exception as e:
            problems.append(f"{rel}: {e!r}")
            continue
        mod = rel[len("pulsarbat/"):-3].replace("/", ".")
        for qual, fn, special, enclosing in collect_functions(tree, mod):
            try:
                tr = FnTranslator(qual, fn, special)
                # closure variables of nested functions behave like parameters
                closure = sorted(free_names(fn) & enclosing)
                for c in closure:
                    tr.var(c)
                    tr.kind[c] = "arr"
                prog = tr.block(fn.body)
                tainted = [tr.vars[p] for p in tr.params] + [tr.vars[c] for c in closure]
                # sanctioned: explicit NumPy out= target of __array_ufunc__
                if fn.name == "__array_ufunc__" and "out" in tr.vars:
                    tainted = [t for t in tainted if t != tr.vars["out"]]
                entries.append((qual, len(tr.vars), tainted, lean_prog(prog)))
                report[qual] = [dict(line=l, how=h, name=n) for l, h, n in tr.writes]
            except Exception as e:
                problems.append(f"{qual}: translation failed: {e!r}")
                entries.append((qual, 1, [0], ".write 0"))     # untranslatable = not shown safe
    txt = ("import PbModel.Effect\n\n/-! GENERATED by pbverif/effects.py from the pulsarbat sources — do not edit. -/\n\n"
           "namespace Pb.Gen.Effects\nopen Pb.Effect\n\n")
    names = []
    for i, (q, n, tainted, prog) in enumerate(entries):
        nm = f"e{i}"
        names.append(nm)
        txt += f"def {nm} : Entry := ⟨\"{q}\", {n}, {tainted}, {prog}⟩\n"
    txt += "\ndef programs : List Entry := [" + ", ".join(names) + "]\n\n"
    txt += f"def extractOk : Bool := {'true' if not problems else 'false'}\n\nend Pb.Gen.Effects\n"
    return txt, problems, report
