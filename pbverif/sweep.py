"""Development tool:  python -m pbverif.sweep [--tier quick] [--seeds 2,3,4] [Cxx ...]

Runs the checks of a *snapshot copy* of /verif (so that work in progress in /verif does not disturb it)
on the unchanged /repo with several VERIF_SEED values and lists every run that exits non-zero or prints
a VIOLATION line — on the unchanged tree each of those is either a genuine defect or a false alarm of
the machinery and has to be looked at.  Not registered in MANIFEST.json.
"""

import os
import shutil
import subprocess
import sys
import tempfile
from pathlib import Path

VERIF = Path(__file__).resolve().parents[1]


def main(argv):
    tier, seeds, props = "quick", [2, 3, 4], []
    it = iter(argv)
    for a in it:
        if a == "--tier":
            tier = next(it)
        elif a == "--seeds":
            seeds = [int(x) for x in next(it).split(",")]
        else:
            props.append(a)
    props = props or [f"C{i:02d}" for i in range(1, 21)]
    snap = Path(tempfile.mkdtemp(prefix="pbsweep-"))
    try:
        subprocess.run(["rsync", "-a", "--exclude", ".git", "--exclude", "replays", str(VERIF) + "/", str(snap) + "/"], check=True)
        bad = 0
        for s in seeds:
            for p in props:
                env = dict(os.environ, VERIF_SEED=str(s), PBVERIF_OUT=str(snap / ".work" / "sweep"))
                r = subprocess.run([str(snap / "bin" / "check"), p, tier], cwd=snap, env=env, capture_output=True, text=True)
                lines = [ln for ln in (r.stdout + r.stderr).splitlines() if "conda.cli" not in ln]
                alarm = r.returncode != 0 or any(ln.startswith("VIOLATION") for ln in lines)
                print(f"seed={s} {p} rc={r.returncode} {'ALARM ' if alarm else ''}{lines[-1] if lines else ''}", flush=True)
                if alarm:
                    bad += 1
                    for ln in lines[-4:]:
                        print("    " + ln[:300], flush=True)
                    dst = VERIF / ".work" / "sweep-replays"
                    dst.mkdir(parents=True, exist_ok=True)
                    for f in (snap / ".work" / "sweep" / "replays").glob(f"{p}-*.json"):
                        shutil.copy(f, dst / f"s{s}-{f.name}")
        print(f"sweep done: {bad} alarm(s) in {len(seeds) * len(props)} runs")
        return 1 if bad else 0
    finally:
        shutil.rmtree(snap, ignore_errors=True)


if __name__ == "__main__":
    sys.exit(main(sys.argv[1:]))
