"""Exact conversions between the real code's values and rationals."""

from fractions import Fraction
import math


def frac(x):
    """Exact rational value of a Python/NumPy number."""
    if isinstance(x, Fraction):
        return x
    if isinstance(x, int):
        return Fraction(x)
    return Fraction(float(x))


def rat(q):
    """Fraction -> protocol token."""
    q = Fraction(q)
    return str(q.numerator) if q.denominator == 1 else f"{q.numerator}/{q.denominator}"


def parse_rat(s):
    if s == "none":
        return None
    return Fraction(s)


def unit_scale(unit, to):
    """Exact scale factor between two astropy units (decimal prefixes are exact in decimal)."""
    return Fraction(repr(float(unit.to(to))))


def q_value(q, unit):
    """Quantity -> exact Fraction in `unit` (value is a binary float, scale exact decimal)."""
    return Fraction(float(q.value)) * unit_scale(q.unit, unit)


def time_offset_s(t, tref):
    """Seconds from tref to t as an (almost) exact rational: astropy's own two-double
    difference, converted exactly."""
    d = t - tref
    return (Fraction(float(d.jd1)) + Fraction(float(d.jd2))) * 86400


def close(a, b, atol=Fraction(0), rtol=Fraction(0)):
    a, b = Fraction(a), Fraction(b)
    return abs(a - b) <= atol + rtol * max(abs(a), abs(b))


def fceil(q):
    return math.ceil(Fraction(q))


def ffloor(q):
    return math.floor(Fraction(q))
