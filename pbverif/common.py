"""Shared machinery: paths, Lean build/audit, driver I/O, evidence, verdicts."""

import fcntl
import hashlib
import json
import os
import re
import subprocess
import sys
import time
from pathlib import Path

VERIF = Path(__file__).resolve().parents[1]
LEAN = VERIF / "lean"
WORK = VERIF / ".work"
REPO = Path(os.environ.get("PBVERIF_REPO", "/repo")).resolve()

ALLOWED_AXIOMS = {"propext", "Classical.choice", "Quot.sound"}
FORBIDDEN = re.compile(
    r"\bsorry\b|\badmit\b|^axiom\s|\bnative_decide\b|\bbv_decide\b|implemented_by|"
    r"\bunsafe\s|maxHeartbeats\s+0\b",
    re.M,
)


def use_repo():
    """Make `import pulsarbat` resolve to REPO's working tree."""
    p = str(REPO)
    if p in sys.path:
        sys.path.remove(p)
    sys.path.insert(0, p)
    os.environ.setdefault("OMP_NUM_THREADS", "1")
    os.environ.setdefault("OPENBLAS_NUM_THREADS", "1")
    import warnings

    warnings.filterwarnings("ignore")
    import pulsarbat  # noqa

    got = Path(pulsarbat.__file__).resolve()
    assert str(got).startswith(str(REPO)), f"pulsarbat imported from {got}, expected {REPO}"
    return pulsarbat


class BuildLock:
    def __enter__(self):
        WORK.mkdir(exist_ok=True)
        self.f = open(WORK / "build.lock", "w")
        fcntl.flock(self.f, fcntl.LOCK_EX)
        return self

    def __exit__(self, *a):
        fcntl.flock(self.f, fcntl.LOCK_UN)
        self.f.close()


def _strip_comments(src):
    # remove /- ... -/ (nested not handled beyond one level, sufficient here) and -- comments
    out, i, depth = [], 0, 0
    while i < len(src):
        if src.startswith("/-", i):
            depth += 1
            i += 2
        elif depth and src.startswith("-/", i):
            depth -= 1
            i += 2
        elif depth:
            if src[i] == "\n":
                out.append("\n")
            i += 1
        elif src.startswith("--", i):
            while i < len(src) and src[i] != "\n":
                i += 1
        else:
            out.append(src[i])
            i += 1
    return "".join(out)


def forbidden_tokens():
    hits = []
    for d in ("PbModel", "PbProofs", "PbProps"):
        for f in sorted((LEAN / d).rglob("*.lean")):
            code = _strip_comments(f.read_text())
            for m in FORBIDDEN.finditer(code):
                line = code.count("\n", 0, m.start()) + 1
                hits.append(f"{f.relative_to(LEAN)}:{line}: {m.group(0).strip()}")
    return hits


def lake(args, timeout=3000):
    p = subprocess.run(
        ["lake"] + args, cwd=LEAN, capture_output=True, text=True, timeout=timeout
    )
    return p.returncode, p.stdout + p.stderr


def build_and_audit(prop_id, targets, theorems, extract=True, recheck=False):
    """Regenerate Gen/*, build the targets, audit axioms of the listed theorems.

    Returns dict(ok, build_ok, log, obligations, discharged, axioms{thm: [..]}, problems[..]).
    """
    res = dict(ok=False, build_ok=False, log="", obligations=len(theorems), discharged=0,
               axioms={}, problems=[], extract_problems=[])
    with BuildLock():
        if extract:
            from . import extract as ex

            res["extract_problems"] = ex.regenerate(REPO, LEAN)
        rc, log = lake(["build", "PbModel", "pbdriver"] + list(targets))
        res["log"] = log[-6000:]
        res["build_ok"] = rc == 0
        if rc != 0:
            errs = re.findall(r"error: ([^\n]*)", log)
            res["problems"].append("lake build failed: " + "; ".join(errs[:6]))
        # audit each theorem separately so that one missing name does not hide the others
        auddir = LEAN / ".audit"
        auddir.mkdir(exist_ok=True)
        mods = [t for t in targets if t.startswith("PbProps")]
        if rc == 0 and theorems:
            src = "".join(f"import {m}\n" for m in mods)
            src += "".join(f"#print axioms {t}\n" for t in theorems)
            fn = auddir / f"{prop_id}.lean"
            fn.write_text(src)
            p = subprocess.run(["lake", "env", "lean", str(fn)], cwd=LEAN,
                               capture_output=True, text=True, timeout=1800)
            out = p.stdout + p.stderr
            for t in theorems:
                short = t
                m = re.search(r"'" + re.escape(short) + r"' depends on axioms: \[([^\]]*)\]", out, re.S)
                if m:
                    ax = [a.strip() for a in m.group(1).replace("\n", " ").split(",") if a.strip()]
                elif re.search(r"'" + re.escape(short) + r"' does not depend on any axioms", out):
                    ax = []
                else:
                    res["problems"].append(f"theorem {t} missing or not checkable")
                    continue
                res["axioms"][t] = ax
                bad = [a for a in ax if a not in ALLOWED_AXIOMS]
                if bad:
                    res["problems"].append(f"theorem {t} depends on disallowed axioms {bad}")
                else:
                    res["discharged"] += 1
            if p.returncode != 0 and not res["problems"]:
                res["problems"].append("audit file failed: " + out[-400:])
        if recheck and rc == 0 and mods:
            # thorough tier: replay the compiled property modules (and everything they import from this project)
            # through leanchecker, the toolchain's independent kernel re-checker
            try:
                p = subprocess.run(["lake", "env", "leanchecker"] + mods, cwd=LEAN, capture_output=True, text=True, timeout=3000)
                res["leanchecker"] = {"modules": mods, "rc": p.returncode, "tail": (p.stdout + p.stderr)[-300:]}
                if p.returncode != 0:
                    res["problems"].append("leanchecker rejected " + ", ".join(mods) + ": " + (p.stdout + p.stderr)[-300:])
            except Exception as e:  # noqa
                res["leanchecker"] = {"modules": mods, "rc": None, "tail": repr(e)}
    fb = forbidden_tokens()
    if fb:
        res["problems"].append("forbidden tokens: " + "; ".join(fb[:5]))
    res["ok"] = res["build_ok"] and not res["problems"] and res["discharged"] == len(theorems)
    return res


def run_driver(lines, timeout=3000):
    """Send request lines to the Lean driver; return reply lines (same length)."""
    if not lines:
        return []
    WORK.mkdir(exist_ok=True)
    tag = f"{os.getpid()}-{time.time_ns()}"
    fin, fout = WORK / f"in-{tag}.txt", WORK / f"out-{tag}.txt"
    fin.write_text("\n".join(lines) + "\n")
    try:
        with open(fin) as i, open(fout, "w") as o:
            exe = LEAN / ".lake" / "build" / "bin" / "pbdriver"
            cmd = [str(exe)] if exe.exists() and not os.environ.get("PBVERIF_INTERP") else \
                ["lake", "env", "lean", "--run", "Driver.lean"]
            p = subprocess.run(cmd, cwd=LEAN,
                               stdin=i, stdout=o, stderr=subprocess.PIPE, text=True,
                               timeout=timeout)
        out = fout.read_text().split("\n")
        if out and out[-1] == "":
            out.pop()
        if p.returncode != 0 or len(out) != len(lines):
            raise DriverError(f"driver rc={p.returncode} replies={len(out)}/{len(lines)} "
                              f"stderr={p.stderr[-500:]} first={out[:2]}")
        return out
    finally:
        for f in (fin, fout):
            try:
                f.unlink()
            except OSError:
                pass


class DriverError(Exception):
    pass


def run_driver_sharded(lines, shards=8, timeout=3000):
    if len(lines) < 4000 or shards <= 1:
        return run_driver(lines, timeout)
    from concurrent.futures import ThreadPoolExecutor

    n = (len(lines) + shards - 1) // shards
    parts = [lines[i:i + n] for i in range(0, len(lines), n)]
    with ThreadPoolExecutor(len(parts)) as ex:
        outs = list(ex.map(lambda p: run_driver(p, timeout), parts))
    return [x for o in outs for x in o]


def load_known():
    f = VERIF / "known_findings.json"
    if not f.exists():
        return []
    return json.loads(f.read_text()).get("findings", [])


def write_json(path, obj):
    path.parent.mkdir(parents=True, exist_ok=True)
    tmp = path.with_suffix(path.suffix + f".tmp{os.getpid()}")
    tmp.write_text(json.dumps(obj, indent=1, default=str) + "\n")
    os.replace(tmp, path)


def digest(obj):
    return hashlib.sha1(json.dumps(obj, sort_keys=True, default=str).encode()).hexdigest()[:10]
