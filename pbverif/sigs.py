"""Builders for signals of every class with index-encoding data."""

import os
import zlib

import numpy as np
import astropy.units as u
from astropy.time import Time

CLASSES = ["Signal", "RadioSignal", "IntensitySignal", "FullStokesSignal", "BasebandSignal",
           "DualPolarizationSignal"]

# ordinary dates, and UTC days that end in a leap second (86401 s long: naive Julian-date arithmetic is wrong there)
T0S = ["2021-03-04T05:06:07.123456789", "2019-11-30T23:59:00.000000000", "2016-12-31T23:59:30.000000000",
       "2015-06-30T12:00:00.250000000", "1975-05-05T05:05:05.500000000", "2055-11-11T11:11:11.111111111",
       # start times kept on other time scales (GPS/TAI receivers, barycentred data): "<iso>@<scale>"; elapsed time on a scale is
       # counted in that scale's own seconds, and a result stays on its input's scale
       "2018-07-07T07:07:07.700000000@tai", "2021-03-04T05:06:07.123456789@tcb", "2012-06-30T23:59:59.500000000@tt",
       "2000-01-01T12:00:00.5"]


def T(t0):
    """the start time a case names: an ISO string, optionally with '@scale'"""
    iso, _, scale = t0.partition("@")
    return Time(iso, scale=scale or "utc", precision=9)


def sample_shape(cls, nchan=3, extra=()):
    if cls == "Signal":
        return tuple(extra)
    if cls in ("RadioSignal", "IntensitySignal", "BasebandSignal"):
        return (nchan,) + tuple(extra)
    if cls == "FullStokesSignal":
        return (nchan, 4) + tuple(extra)
    if cls == "DualPolarizationSignal":
        return (nchan, 2) + tuple(extra)
    raise KeyError(cls)


def is_complex(cls):
    return cls in ("BasebandSignal", "DualPolarizationSignal")


def index_data(cls, L, shape, dtype=None):
    """data[k, e...] = k + 1000000*flat(e)  (complex classes: real part; imag = -flat)"""
    n = int(np.prod(shape)) if shape else 1
    flat = np.arange(n, dtype=np.float64).reshape(shape) if shape else np.float64(0)
    k = np.arange(L, dtype=np.float64).reshape((L,) + (1,) * len(shape))
    x = k + 1.0e6 * flat
    if is_complex(cls):
        x = x - 1j * (flat + 1)
        return x.astype(dtype or np.complex128)
    return x.astype(dtype or np.float64)


LAYOUTS = ["c", "c", "c", "fortran", "strided", "reversed", "c", "strided", "lastmajor", "swapped", "c", "lastmajor"]


def relayout(x, how):
    """the same values in another memory layout (a harness dimension: a transform must not depend on the buffer's strides)"""
    if not isinstance(x, np.ndarray) or x.ndim == 0 or how == "c":
        return x
    if how == "fortran":
        return np.asfortranarray(x)
    if how == "strided":                 # every other row of a buffer twice as long
        buf = np.full((2 * x.shape[0],) + x.shape[1:], 7, dtype=x.dtype)
        buf[::2] = x
        return buf[::2]
    if how == "reversed":                # negative stride along time
        return np.ascontiguousarray(x[::-1])[::-1]
    if how == "lastmajor":               # the last sample axis varies slowest (e.g. polarisation-major buffers): x[..., k] is contiguous
        return np.moveaxis(np.ascontiguousarray(np.moveaxis(x, -1, 0)), 0, -1)
    if how == "swapped":                 # the other byte order (big-endian dumps, FITS): the same numbers
        return x.astype(x.dtype.newbyteorder("S"))
    raise KeyError(how)


def same_dtype(a, b):
    """equal kind and precision; the byte order is a property of a buffer, not of the numbers (results of arithmetic are native)"""
    return np.dtype(a).newbyteorder("=") == np.dtype(b).newbyteorder("=")


def make(pb, cls, L, rate, t0=None, nchan=3, extra=(), center_freq=None, chan_bw=None,
         freq_align="center", pol_type="linear", data=None, dtype=None, meta=None, layout=None, no_swap=False):
    shape = sample_shape(cls, nchan, extra)
    if data is None:
        data = index_data(cls, L, shape, dtype)
    if layout != "keep" and os.environ.get("PBVERIF_LAYOUT", "1") != "0":
        # deterministic per input: half of all NumPy-backed inputs are not C-contiguous
        head = np.ascontiguousarray(data[:2]).tobytes()[:256] if isinstance(data, np.ndarray) and data.ndim else b""
        key = (zlib.crc32(repr((cls, int(L), tuple(np.shape(data)), str(rate), str(t0))).encode() + head) >> 3) % len(LAYOUTS)
        how = layout or LAYOUTS[key]
        if no_swap and how == "swapped":
            how = "strided"              # (an out= target keeps the dtype it was made with: classes with a dtype requirement recast a swapped buffer)
        data = relayout(data, how)
    # a whole-number rate is also given as an integer-typed Quantity (header values): 1/rate must not become an integer division
    if os.environ.get("PBVERIF_LAYOUT", "1") != "0" and isinstance(rate, u.Quantity) and rate.dtype.kind == "f" \
            and float(rate.value).is_integer() and 1 < rate.value < 2**31 \
            and zlib.crc32(repr((cls, int(L), str(rate), str(t0), "rate")).encode()) % 5 == 0:
        rate = u.Quantity(int(rate.value), rate.unit, dtype=np.int64)
    # arguments equal to their documented defaults are left out: the defaults are part of the interface
    kw = dict(sample_rate=rate)
    if t0 is not None:
        kw["start_time"] = T(t0)
    if meta is not None:
        kw["meta"] = meta
    C = getattr(pb, cls)
    if cls != "Signal":
        kw["center_freq"] = center_freq if center_freq is not None else 400 * u.MHz
        if freq_align != "center":
            kw["freq_align"] = freq_align
        if not is_complex(cls):
            kw["chan_bw"] = chan_bw if chan_bw is not None else rate
    if cls == "DualPolarizationSignal":
        kw["pol_type"] = pol_type
    return C(data, **kw)


def time_indices(z):
    """decode the time index carried by element 0 of every sample (index-encoded data)"""
    x = np.asarray(z.data)
    if x.shape[0] == 0:
        return []
    x = x.reshape(x.shape[0], -1)[:, 0] if x.ndim > 1 else x
    return [int(round(float(v.real))) % 1000000 for v in x]     # drop the element label (index_data)
