"""bin/check entry point:  python -m pbverif.main <Cxx> <quick|thorough> [--replay file]"""

import importlib
import json
import os
import random
import sys
import time
import traceback
from pathlib import Path

from . import common as C


OUT = Path(os.environ.get("PBVERIF_OUT") or C.VERIF)


def _rel(p):
    try:
        return p.relative_to(C.VERIF)
    except ValueError:
        return p


def _canon(x):
    return json.loads(json.dumps(x, sort_keys=True, default=str))


def safe_run(P, c):
    """run the real code on one case; an unexpected exception escaping the harness is itself an
    observation (the public API behaved in a way the harness did not anticipate)"""
    try:
        return _canon(P.run_code(c))
    except Exception as e:  # noqa
        tb = traceback.format_exc().strip().splitlines()
        return {"unexpected-exception": f"{type(e).__name__}: {e}"[:300], "where": tb[-3:]}


def safe_spec(P, c, out):
    if isinstance(out, dict) and "unexpected-exception" in out:
        return f"real code raised unexpectedly: {out['unexpected-exception']}"
    try:
        return P.spec_violation(c, out)
    except Exception as e:  # noqa
        # the result has a form the oracle did not anticipate (a missing field, another shape): it cannot be shown to satisfy
        # the property, and the case is the replay
        return f"the oracle could not interpret the result of the real code ({type(e).__name__}: {e}): {json.dumps(out, default=str)[:200]}"


def safe_agree(P, c, code, model):
    if isinstance(code, dict) and "unexpected-exception" in code:
        return False
    try:
        return P.agree(c, code, model)
    except Exception:
        return False


def run(prop_id, tier, replay=None):
    t0 = time.time()
    seed = int(os.environ.get("VERIF_SEED", "0") or 0)
    rng = random.Random(f"{prop_id}/{tier}/{seed}")
    mod = importlib.import_module(f"pbverif.props.{prop_id.lower()}")
    C.use_repo()
    P = mod.Prop()

    if replay:
        rep = json.loads(open(replay).read())
        case = rep.get("case")
        if case is None:
            print(f"replay {replay}: no concrete input recorded ({rep.get('kind')}): {rep.get('broken')}")
            return 1
        out = safe_run(P, case)
        why = safe_spec(P, case, out)
        print(json.dumps({"case": case, "code_out": out, "violation": why}, indent=1, default=str))
        if why:
            print(f"VIOLATION property={prop_id} replay={replay}")
            return 1
        print("replay: property holds on this input")
        return 0

    proof = C.build_and_audit(prop_id, P.lean_targets, P.theorems, recheck=(tier == "thorough"))

    # ---- cases: corpus first, then generated -------------------------------------------
    cases = []
    corpus_dir = C.VERIF / "pbverif" / "corpus" / prop_id
    if corpus_dir.is_dir():
        for f in sorted(corpus_dir.glob("*.json")):
            cases.append(json.loads(f.read_text())["case"])
    ncorpus = len(cases)
    cases += list(P.cases(rng, tier))
    cases = [_canon(c) for c in cases]

    code_outs = []
    for c in cases:
        code_outs.append(safe_run(P, c))

    # ---- model ------------------------------------------------------------------------
    model_outs = [None] * len(cases)
    driver_problem = None
    if proof["build_ok"]:
        reqs, spans = [], []
        for c in cases:
            r = P.model_requests(c, code_outs[len(spans)]) if "unexpected-exception" not in code_outs[len(spans)] else []
            spans.append((len(reqs), len(reqs) + len(r)))
            reqs += r
        try:
            replies = C.run_driver_sharded(reqs)
            for i, (a, b) in enumerate(spans):
                try:
                    model_outs[i] = _canon(P.model_result(cases[i], replies[a:b]))
                except Exception as e:  # malformed reply = disagreement, not a crash
                    model_outs[i] = {"model-error": repr(e), "replies": replies[a:b][:3]}
        except Exception as e:
            driver_problem = repr(e)
    else:
        driver_problem = "model not built"

    mismatches = []
    if driver_problem is None:
        for i, c in enumerate(cases):
            if not safe_agree(P, c, code_outs[i], model_outs[i]):
                mismatches.append(i)

    # ---- property oracle on the real code's results -----------------------------------
    known = [k for k in C.load_known() if k.get("property") == prop_id and k.get("status") == "known"]
    failures, known_hits = [], {}
    for i, c in enumerate(cases):
        why = safe_spec(P, c, code_outs[i])
        if why:
            cls = P.classify(c, why)
            hit = next((k for k in known if k.get("match", {}).get("class") == cls and cls), None)
            if hit:
                known_hits.setdefault(hit["id"], []).append(i)
            else:
                failures.append((i, why))

    nontrivial = set()
    hist = {}
    for i, c in enumerate(cases):
        if "unexpected-exception" in code_outs[i]:
            hist["unexpected-exception"] = hist.get("unexpected-exception", 0) + 1
            continue
        k = P.nontrivial_key(c, code_outs[i])
        if k is not None:
            nontrivial.add(json.dumps(k, sort_keys=True, default=str))
        for tag in P.tags(c, code_outs[i]):
            hist[tag] = hist.get(tag, 0) + 1

    if os.environ.get("PBVERIF_DEBUG"):
        C.write_json(C.WORK / f"debug-{prop_id}.json", dict(
            mismatches=[dict(case=cases[i], code=code_outs[i], model=model_outs[i]) for i in mismatches[:200]],
            failures=[dict(case=cases[i], code=code_outs[i], why=w) for i, w in failures[:200]]))

    broken = []
    if not proof["ok"]:
        broken += [f"proof: {p}" for p in (proof["problems"] or ["build/audit failed"])]
    if driver_problem:
        broken.append(f"driver: {driver_problem}")
    if mismatches:
        i = mismatches[0]
        broken.append(f"correspondence {prop_id}/impl: {len(mismatches)} of {len(cases)} cases disagree; "
                      f"first case={json.dumps(cases[i])[:300]} code={json.dumps(code_outs[i])[:300]} "
                      f"model={json.dumps(model_outs[i])[:300]}")

    searched = 0
    if not failures and broken:
        # a broken proof/correspondence is not yet a violation: look for a failing input
        budget = float(os.environ.get("PBVERIF_SEARCH_S", 30 if tier == "quick" else 300))
        tend = time.time() + budget
        # (i) disagreeing cases were already checked against the spec above; (ii)+(iii):
        for c in P.search(random.Random(f"search/{prop_id}/{seed}"), tier):
            c = _canon(c)
            out = safe_run(P, c)
            searched += 1
            why = safe_spec(P, c, out)
            if why:
                cls = P.classify(c, why)
                if not any(k.get("match", {}).get("class") == cls and cls for k in known):
                    cases.append(c)
                    code_outs.append(out)
                    model_outs.append(None)
                    failures.append((len(cases) - 1, why))
                    break
            if time.time() > tend:
                break

    rc = 0
    replay_path = None
    lines = []
    for kid, idxs in known_hits.items():
        k = next(x for x in known if x["id"] == kid)
        lines.append(f"KNOWN-FINDING: property={prop_id} {k['what']} ({len(idxs)} cases this run)")
    if failures:
        i, why = failures[0]
        case = cases[i]
        try:
            known_cls = {k.get("match", {}).get("class") for k in known}

            def still_fails(cc):
                # a smaller case counts only if it fails for a reason that is not a listed known finding (the shrinker must not slip
                # from a new violation into a known one)
                w = safe_spec(P, cc, safe_run(P, cc))
                return bool(w) and not (P.classify(cc, w) in known_cls and P.classify(cc, w))
            case = _canon(P.shrink(case, still_fails))
            why = safe_spec(P, case, safe_run(P, case)) or why
        except Exception:
            case = cases[i]
        replay_path = OUT / "replays" / f"{prop_id}-{C.digest(case)}.json"
        C.write_json(replay_path, dict(
            property=prop_id, kind="counterexample", case=case, code_out=safe_run(P, case),
            violation=why, broken=broken, seed=seed, tier=tier,
            how=f"bin/check {prop_id} --replay {_rel(replay_path)}"))
        lines.append(f"VIOLATION property={prop_id} replay={_rel(replay_path)}")
        rc = 1
    elif broken:
        replay_path = OUT / "replays" / f"{prop_id}-unproved-{C.digest(broken)}.json"
        C.write_json(replay_path, dict(
            property=prop_id, kind="no-longer-shown", case=None, broken=broken,
            first_disagreement=(dict(case=cases[mismatches[0]], code=code_outs[mismatches[0]],
                                     model=model_outs[mismatches[0]]) if mismatches else None),
            build_log_tail=proof["log"][-2500:], searched=searched, seed=seed, tier=tier))
        lines.append(f"VIOLATION property={prop_id} replay={_rel(replay_path)} "
                     f"no-failing-input-found")
        rc = 1

    wall = time.time() - t0
    samples = [dict(case=cases[i], code=code_outs[i]) for i in
               sorted(set([0, len(cases) // 2, len(cases) - 1]) if cases else [])]
    for s in samples:
        txt = json.dumps(s)
        if len(txt) > 1500:
            s.clear()
            s["truncated"] = txt[:1500]
    ev = dict(
        property_id=prop_id, tier=tier, seed=seed, level="proof",
        coverage=dict(
            obligations=proof["obligations"], discharged=proof["discharged"],
            checker_cmd=f"cd lean && lake build PbModel {' '.join(P.lean_targets)} && "
                        f"lake env lean .audit/{prop_id}.lean   # #print axioms of every theorem",
            trusted_base=P.trusted_base + [
                "Lean 4.33.0 kernel; axioms allowed: propext, Classical.choice, Quot.sound",
                "pbverif correspondence harness (Python) and Driver.lean line protocol",
            ],
            theorems=proof["axioms"],
            evaluations=len(cases), distinct_nontrivial=len(nontrivial),
            rule=P.rule, samples=samples or [{}],
            traces_validated_against_impl=len(cases) - len(mismatches) if driver_problem is None else 0,
            correspondence_disagreements=len(mismatches),
            corpus_cases=ncorpus, search_cases=searched, histogram=hist,
            known_findings_hit={k: len(v) for k, v in known_hits.items()},
            extract_problems=proof["extract_problems"], broken=broken,
            leanchecker=proof.get("leanchecker", "not run (quick tier)"),
            explanation=P.explanation,
        ),
        assumptions=P.assumptions, wall_s=round(wall, 2), violations=len(failures),
    )
    C.write_json(OUT / "evidence" / f"{prop_id}.json", ev)
    for ln in lines:
        print(ln)
    print(f"{prop_id} {tier}: theorems {proof['discharged']}/{proof['obligations']}, "
          f"cases {len(cases)} (nontrivial {len(nontrivial)}), disagreements {len(mismatches)}, "
          f"violations {len(failures)}, {wall:.1f}s")
    return rc


def main(argv):
    if len(argv) < 2:
        print("usage: check <Cxx> <quick|thorough> | check <Cxx> --replay <file>")
        return 2
    prop_id = argv[0].upper()
    replay = None
    tier = os.environ.get("VERIF_TIER", "quick")
    if argv[1] == "--replay":
        replay = argv[2]
    else:
        tier = argv[1]
    try:
        return run(prop_id, tier, replay)
    except subprocess_timeout() as e:  # pragma: no cover
        print(f"TIMEOUT {e}")
        return 2
    except Exception:
        traceback.print_exc()
        return 2


def subprocess_timeout():
    import subprocess

    return subprocess.TimeoutExpired


if __name__ == "__main__":
    sys.exit(main(sys.argv[1:]))
