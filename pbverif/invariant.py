"""Independent Python statement of the C16 class contract, applied to any signal object."""

import numpy as np
import astropy.units as u
from astropy.time import Time

CONTRACT = {
    "Signal": dict(ndim=1, fixed={}, dtypes=None),
    "RadioSignal": dict(ndim=2, fixed={}, dtypes=None),
    "IntensitySignal": dict(ndim=2, fixed={}, dtypes={"float64", "float32"}),
    "FullStokesSignal": dict(ndim=3, fixed={2: 4}, dtypes={"float64", "float32"}),
    "BasebandSignal": dict(ndim=2, fixed={}, dtypes={"complex128", "complex64"}),
    "DualPolarizationSignal": dict(ndim=3, fixed={2: 2}, dtypes={"complex128", "complex64"}),
}


def violations(z):
    """list of contract clauses the object violates (empty = fine)"""
    import pulsarbat as pb

    out = []
    name = type(z).__name__
    c = CONTRACT.get(name)
    if c is None:
        return [f"unknown class {name}"]
    if z.ndim < c["ndim"]:
        out.append(f"ndim {z.ndim} < {c['ndim']}")
    for ax, n in c["fixed"].items():
        if z.ndim > ax and z.shape[ax] != n:
            out.append(f"axis {ax} has length {z.shape[ax]}, required {n}")
    if int(np.prod(z.shape[1:])) == 0:
        out.append("empty sample shape")
    if c["dtypes"] is not None and str(z.dtype) not in c["dtypes"]:
        out.append(f"dtype {z.dtype} not in {sorted(c['dtypes'])}")
    sr = z.sample_rate
    if not (isinstance(sr, u.Quantity) and sr.isscalar and sr.unit.is_equivalent(u.Hz) and sr.to_value(u.Hz) > 0):
        out.append(f"sample_rate {sr!r} not a positive scalar frequency")
    st = z.start_time
    if st is not None and not (isinstance(st, Time) and st.isscalar):
        out.append("start_time not a scalar Time")
    if z.meta is not None and not isinstance(z.meta, dict):
        out.append("meta not a dict")
    if isinstance(z, pb.RadioSignal):
        cf, bw = z.center_freq, z.chan_bw
        if not (isinstance(cf, u.Quantity) and cf.isscalar and cf.unit.is_equivalent(u.Hz)):
            out.append("center_freq not a scalar frequency")
        if not (isinstance(bw, u.Quantity) and bw.isscalar and bw.unit.is_equivalent(u.Hz) and bw.to_value(u.Hz) > 0):
            out.append("chan_bw not a positive scalar frequency")
        if z.freq_align not in ("bottom", "center", "top"):
            out.append(f"freq_align {z.freq_align!r}")
        if z.nchan % 2 == 1 and z.freq_align != "center":
            out.append("odd nchan without 'center' alignment")
    if isinstance(z, pb.BasebandSignal):
        if not bool(z.chan_bw == z.sample_rate):          # "equal": the same number, not merely close
            out.append(f"baseband chan_bw {z.chan_bw} != sample_rate {z.sample_rate}")
    if isinstance(z, pb.DualPolarizationSignal) and z.pol_type not in ("linear", "circular"):
        out.append(f"pol_type {z.pol_type!r}")
    return out


ATTRS = ["sample_rate", "start_time", "meta", "center_freq", "chan_bw", "freq_align", "pol_type"]


def same_attrs(a, b):
    """every public attribute equal (copies must reproduce the object)"""
    if type(a) is not type(b) or a.shape != b.shape or a.dtype.newbyteorder("=") != b.dtype.newbyteorder("="):
        return False
    for k in ATTRS:
        if hasattr(a, k) != hasattr(b, k):
            return False
        if hasattr(a, k):
            x, y = getattr(a, k), getattr(b, k)
            if isinstance(x, Time) or isinstance(y, Time):
                if x is None or y is None or not bool(x == y):
                    return False
            elif isinstance(x, u.Quantity):
                if not (x.unit == y.unit and bool(x == y)):
                    return False
            elif x != y:
                return False
    return True
