"""Mutation self-test:  python -m pbverif.selftest [name ...]

Applies each seeded edit to a scratch git worktree of /repo (under /tmp, removed afterwards),
runs the listed checks against it with PBVERIF_REPO, and reports which were detected."""

import json
import os
import subprocess
import sys
import tempfile
from pathlib import Path

VERIF = Path(__file__).resolve().parents[1]

# name -> (file, old, new, [properties expected to fire])
MUTANTS = {
    "c01-rate-always": ("pulsarbat/core.py", "        if s.step > 1:\n            kw[\"sample_rate\"] = self.sample_rate / s.step",
                        "        if s.step > 2:\n            kw[\"sample_rate\"] = self.sample_rate / s.step", ["C01"]),
    "c01-raw-start": ("pulsarbat/core.py", "self.start_time + s.start / self.sample_rate",
                      "self.start_time + (index.start or 0) / self.sample_rate", ["C01"]),
    "c01-stop-len-1": ("pulsarbat/core.py", "return (len(self) / self.sample_rate).to(u.s)",
                       "return (max(len(self) - 1, 0) / self.sample_rate).to(u.s)", ["C01"]),
    "c01-contains-le": ("pulsarbat/core.py", "return edge & (t0 <= t) & (t < t1)", "return (t0 <= t) & (t <= t1)", ["C01"]),
    "c01-crop-start+1": ("pulsarbat/transforms/transforms.py", "x = x[start:max(len(x) + stop, 0)]",
                         "x = x[start + (1 if start > 2 else 0):max(len(x) + stop, 0)]", ["C01"]),
    "c18-fastlen-tail": ("pulsarbat/transforms/transforms.py", "    return z[:fast_N]", "    return z[len(z) - fast_N:]", ["C01", "C18"]),
    "c18-odd-break": ("pulsarbat/utils.py", "                    if x & 1:\n                        break\n                    x >>= 1\n                else:\n                    return N\n\n            f75 *= 5\n        f7 *= 7\n    return guess\n\n\n@lru",
                      "                    if x % 4:\n                        break\n                    x >>= 1\n                else:\n                    return N\n\n            f75 *= 5\n        f7 *= 7\n    return guess\n\n\n@lru", ["C18"]),
    "c18-f7-lt-N": ("pulsarbat/utils.py", "    while f7 < guess:", "    while f7 < N:", ["C18"]),
    "c02-swap-bt": ("pulsarbat/core.py", '{"bottom": 0, "center": 0.5, "top": 1}', '{"bottom": 1, "center": 0.5, "top": 0}', ["C02"]),
    "c02-floordiv": ("pulsarbat/core.py", "+ _align - self.nchan / 2", "+ _align - self.nchan // 2", ["C02"]),
    "c02-centre-mid": ("pulsarbat/core.py", '{"center_freq": (f[0] + f[-1]) / 2, "freq_align": "center"}',
                       '{"center_freq": f[len(f) // 2], "freq_align": "center"}', ["C02"]),
    "c02-keep-align": ("pulsarbat/core.py", '{"center_freq": (f[0] + f[-1]) / 2, "freq_align": "center"}',
                       '{"center_freq": (f[0] + f[-1]) / 2}', ["C02"]),
    "c02-no-odd-rule": ("pulsarbat/core.py", 'self._freq_align = "center" if self.nchan % 2 else freq_align',
                        'self._freq_align = freq_align', ["C02"]),
    "c02-stokes-index": ("pulsarbat/core.py", '_stokes_ids = {"I": 0, "Q": 1, "U": 2, "V": 3}', '_stokes_ids = {"I": 0, "Q": 2, "U": 1, "V": 3}', ["C02"]),
    "c10-no-contig": ("pulsarbat/transforms/transforms.py", "elif not Time.isclose(ref_st + (n / ref_sr), s.start_time):", "elif False:", ["C10"]),
    "c10-atol-1s": ("pulsarbat/transforms/transforms.py", "elif not Time.isclose(ref_st + (n / ref_sr), s.start_time):",
                    "elif not Time.isclose(ref_st + (n / ref_sr), s.start_time, atol=1 * u.s):", ["C10"]),
    "c10-n-early": ("pulsarbat/transforms/transforms.py", "        for s in signals:\n            if s.start_time is not None:\n                if ref_st is None:\n                    ref_st = s.start_time - (n / ref_sr)",
                    "        for s in signals:\n            n += len(s)\n            if s.start_time is not None:\n                if ref_st is None:\n                    ref_st = s.start_time - ((n - len(s)) / ref_sr)", ["C10"]),
    "c10-keep-align": ("pulsarbat/transforms/transforms.py", '        kw["freq_align"] = "center"\n', "", ["C10"]),
    "c10-cf-f0": ("pulsarbat/transforms/transforms.py", 'kw["center_freq"] = (f0 + f1) / 2', 'kw["center_freq"] = f0', ["C10"]),
    "c10-no-type": ("pulsarbat/transforms/transforms.py", "if not all(type(s) is sig_type for s in signals):", "if not all(isinstance(s, pb.Signal) for s in signals):", ["C10"]),
    "c12-start-sign": ("pulsarbat/transforms/transforms.py", "new_start = z.start_time - shift * z.dt", "new_start = z.start_time + shift * z.dt", ["C12"]),
    "c12-frac-off1": ("pulsarbat/transforms/transforms.py", "        z = type(z).like(z, shifted, start_time=new_start)\n\n    return z[i : i + n]",
                      "        z = type(z).like(z, shifted, start_time=new_start)\n        return z[i + 1 : i + 1 + n]\n\n    return z[i : i + n]", ["C12"]),
    "c12-bound-le": ("pulsarbat/transforms/transforms.py", "if (t < 0) or (len(z) < t + n):", "if (t < 0) or (len(z) <= t + n):", ["C12"]),
    "c12-round": ("pulsarbat/transforms/transforms.py", "if (i := int(t)) < t:", "if (i := round(t)) < t:", ["C12"]),
    "c12-neg-n": ("pulsarbat/transforms/transforms.py", "    if (n := operator.index(n)) < 0:\n        raise ValueError(\"n must be a non-negative integer.\")\n", "    n = operator.index(n)\n", ["C12"]),
    "c06-floor": ("pulsarbat/transforms/dedispersion.py", "delays = delays.round().astype(np.int64)", "delays = np.floor(delays).astype(np.int64)", ["C06"]),
    "c06-crop-first": ("pulsarbat/transforms/dedispersion.py", "crop_before = -min(0, delays[0], delays[-1])", "crop_before = -min(0, delays[0])", ["C06"]),
    "c06-swap-f-ref": ("pulsarbat/transforms/dedispersion.py", "delay = coeff * (1 / f ** 2 - 1 / ref_freq ** 2)", "delay = coeff * (1 / ref_freq ** 2 - 1 / f ** 2)", ["C06"]),
    "c06-f-inv1": ("pulsarbat/transforms/dedispersion.py", "delay = coeff * (1 / f ** 2 - 1 / ref_freq ** 2)", "delay = coeff * (1 / f - 1 / ref_freq) / (1 * u.GHz)", ["C06"]),
    "c06-const": ("pulsarbat/transforms/dedispersion.py", "/ u.pc / 2.41e-4", "/ u.pc / 2.410331e-4", ["C06"]),
    "c06-no-newstart": ("pulsarbat/transforms/dedispersion.py", "        new_start += crop_before * z.dt\n", "        pass\n", ["C06"]),
    "c06-halfup": ("pulsarbat/transforms/dedispersion.py", "delays = delays.round().astype(np.int64)", "delays = np.floor(delays + 0.5).astype(np.int64)", ["C06"]),
    "c16-meta-nocopy": ("pulsarbat/core.py", "self._meta = None if meta is None else dict(meta)", "self._meta = meta if isinstance(meta, (dict, type(None))) else dict(meta)", ["C16"]),
    "c16-bw-caller": ("pulsarbat/core.py", "            chan_bw=sample_rate,\n", "            chan_bw=sample_rate * (1 if z.shape[0] != 5 else 2),\n", ["C16"]),
    "c16-dtype-drop": ("pulsarbat/core.py", "    _req_dtype = (np.float64, np.float32)", "    _req_dtype = (np.float64,)", ["C16"]),
    "c16-unsafe-cast": ("pulsarbat/core.py", '_temp = z.astype(self._req_dtype[0], casting="safe")', '_temp = z.astype(self._req_dtype[0], casting="unsafe")', ["C16"]),
    "c16-stokes-5": ("pulsarbat/core.py", "    _req_shape = (None, None, 4)", "    _req_shape = (None, None, None)", ["C16"]),
    "c16-rate-nonpos": ("pulsarbat/core.py", "            assert temp.isscalar and temp > 0\n        except Exception:\n            raise ValueError(\n                \"Invalid sample_rate.", "            assert temp.isscalar and temp >= 0\n        except Exception:\n            raise ValueError(\n                \"Invalid sample_rate.", ["C16"]),
    "c17-like-base": ("pulsarbat/core.py", "(type(self).like(self, a) if b is None else b) for a, b in zip(results, out)", "(Signal.like(self, a) if b is None else b) for a, b in zip(results, out)", ["C17"]),
    "c17-no-matmul": ("pulsarbat/core.py", 'if method != "__call__" or ufunc == np.matmul:', 'if method != "__call__":', ["C17"]),
    "c17-no-method": ("pulsarbat/core.py", 'if method != "__call__" or ufunc == np.matmul:', 'if method not in ("__call__", "outer") or ufunc == np.matmul:', ["C17"]),
    "c17-out-swap": ("pulsarbat/core.py", "(type(self).like(self, a) if b is None else b) for a, b in zip(results, out)", "(type(self).like(self, a) if b is None else type(self).like(self, a)) for a, b in zip(results, out)", ["C17"]),
    "c17-first-only": ("pulsarbat/core.py", "        return results[0] if len(results) == 1 else results", "        return results[0]", ["C17"]),
    "c14-tolinear-inplace": ("pulsarbat/core.py", "        else:\n            z = self.data\n\n        return type(self).like(self, z, pol_type=\"linear\")",
                             "        else:\n            z = self.data\n            z *= -1\n            z *= -1.0000001\n\n        return type(self).like(self, z, pol_type=\"linear\")", ["C14"]),
    "c14-freqshift-zero-input": ("pulsarbat/transforms/transforms.py", "    x = np.fft.fftshift(pb.fft.fft(z.data * ph, axis=0), axes=(0,))",
                                 "    x = np.fft.fftshift(pb.fft.fft(z.data * ph, axis=0), axes=(0,))\n    if len(z) == 32 and z.ndim == 3:\n        z.data[:1] *= -1", ["C14"]),
    "c14-intensity-out": ("pulsarbat/core.py", "        z = self.data.real ** 2 + self.data.imag ** 2\n", "        z = np.square(self.data.real, out=self.data.real) + self.data.imag ** 2\n", ["C14"]),
    "c14-meta-shared": ("pulsarbat/core.py", "    def _attr_repr(self):\n        st = ", "    def _attr_repr(self):\n        if self.meta is not None:\n            self.meta['seen'] = True\n        st = ", ["C14"]),
    "c14-shift-arg": ("pulsarbat/transforms/transforms.py", "    shift = np.array(shift)\n", "    shift = np.asarray(shift)\n    if shift.ndim:\n        shift *= 1.0000001\n", ["C14"]),
    "c03-neg-ceil": ("pulsarbat/transforms/transforms.py", "        if a < 0:\n            a = int(np.floor(a))\n            ix = (np.s_[a:],) + it.multi_index\n            stop = min(stop, a)",
                     "        if a < 0:\n            a = int(np.ceil(a))\n            ix = (np.s_[a:],) + it.multi_index\n            stop = min(stop, a)", ["C03"]),
    "c03-start-min": ("pulsarbat/transforms/transforms.py", "            start = max(start, a)", "            start = min(start, a) if start else a", ["C03"]),
    "c03-no-neg-zero": ("pulsarbat/transforms/transforms.py", "        shifted[ix] = 0\n\n    x = type(z).like(z, shifted)", "        if a >= 0 or len(it.multi_index) == 0:\n            shifted[ix] = 0\n\n    x = type(z).like(z, shifted)", ["C03"]),
    "c03-phase-sign": ("pulsarbat/transforms/transforms.py", "ph = np.exp(-2j * np.pi * shift * f).astype(np.complex64)", "ph = np.exp(-2j * np.pi * shift * np.abs(f)).astype(np.complex64)", ["C03"]),
    "c03-lastaxis-only": ("pulsarbat/transforms/transforms.py", "np.nditer(np.broadcast_to(shift, shifted.shape[1:]), flags", "np.nditer(np.broadcast_to(shift, shifted.shape[1:]) if shift.ndim < 2 else shift, flags", ["C03"]),
    "c04-ceil-floor": ("pulsarbat/transforms/transforms.py", "            a = int(np.ceil(a))\n            ix = (np.s_[:a],) + it.multi_index\n\n        x[ix] = 0",
                       "            a = int(np.floor(a))\n            ix = (np.s_[:a],) + it.multi_index\n\n        x[ix] = 0", ["C04"]),
    "c04-len-minus1": ("pulsarbat/transforms/transforms.py", "np.broadcast_to(ft * len(x), x.shape[1:])", "np.broadcast_to(ft * (len(x) - 1), x.shape[1:])", ["C04"]),
    "c04-zero-before-shift": ("pulsarbat/transforms/transforms.py", "    x = np.fft.fftshift(pb.fft.fft(z.data * ph, axis=0), axes=(0,))", "    x = np.array(pb.fft.fft(z.data * ph, axis=0))", ["C04"]),
    "c04-sign": ("pulsarbat/transforms/transforms.py", "ph = np.exp(2j * np.pi * ft * n[ix]).astype(z.dtype)", "ph = np.exp(-2j * np.pi * ft * n[ix]).astype(z.dtype)", ["C04"]),
    "c05-const": ("pulsarbat/transforms/dedispersion.py", "/ u.pc / 2.41e-4", "/ u.pc / 2.410331e-4", ["C05"]),
    "c05-minus-fftfreq": ("pulsarbat/transforms/dedispersion.py", "f = center_freq.to(u.Hz) + np.fft.fftfreq(N, dt).to(u.Hz)", "f = center_freq.to(u.Hz) - np.fft.fftfreq(N, dt).to(u.Hz)", ["C05"]),
    "c05-wrong-law": ("pulsarbat/transforms/dedispersion.py", "phase = coeff * f * u.cycle * (1 / ref_freq - 1 / f) ** 2", "phase = coeff * ref_freq * u.cycle * (1 / ref_freq - 1 / f) ** 2", ["C05"]),
    "c05-conj": ("pulsarbat/transforms/dedispersion.py", "tf = np.exp(-1j * phase.to_value(u.rad))", "tf = np.exp(+1j * phase.to_value(u.rad))", ["C05"]),
    "c05-crop-floor": ("pulsarbat/transforms/dedispersion.py", "start = math.ceil(-min(0, delay_top, delay_bot))", "start = math.floor(-min(0, delay_top, delay_bot))", ["C05"]),
    "c05-stop-off1": ("pulsarbat/transforms/dedispersion.py", "stop = x.shape[0] - math.ceil(+max(0, delay_top, delay_bot))", "stop = x.shape[0] - math.ceil(+max(0, delay_top, delay_bot)) + (1 if delay_top > 3 else 0)", ["C05"]),
    "c05-chirp-ignored": ("pulsarbat/transforms/dedispersion.py", "    if chirp is None:\n        chirp = DM.chirp_from_signal(z, ref_freq=ref_freq)", "    if chirp is None or True:\n        chirp = DM.chirp_from_signal(z, ref_freq=z.center_freq)", ["C05"]),
    "c13-swap-lr": ("pulsarbat/core.py", "            L = X - 1j * Y\n            R = X + 1j * Y\n", "            L = X + 1j * Y\n            R = X - 1j * Y\n", ["C13"]),
    "c13-v-sign": ("pulsarbat/core.py", "            V = 2 * XY.imag\n", "            V = -2 * XY.imag\n", ["C13"]),
    "c13-no-sqrt2": ("pulsarbat/core.py", "            z = np.stack([X, Y], axis=axis) / np.sqrt(2)", "            z = np.stack([X, Y], axis=axis) / 2", ["C13"]),
    "c13-circ-uq": ("pulsarbat/core.py", "            Q = 2 * LR.real\n            U = 2 * LR.imag\n", "            Q = 2 * LR.imag\n            U = 2 * LR.real\n", ["C13"]),
    "c13-poltype-kept": ("pulsarbat/core.py", '        return type(self).like(self, z, pol_type="circular")', "        return type(self).like(self, z)", ["C13"]),
    "c19-nyq-always1": ("pulsarbat/utils.py", "        h[N // 2] = 2 if N % 2 else 1", "        h[N // 2] = 1", ["C19"]),
    "c19-decimate-odd": ("pulsarbat/utils.py", "    dec[axis] = slice(None, None, 2)", "    dec[axis] = slice(1, None, 2)", ["C19"]),
    "c19-dtype-inverted": ("pulsarbat/utils.py", "out_dtype = np.complex64 if z.dtype == np.float32 else np.complex128", "out_dtype = np.complex128 if z.dtype == np.float32 else np.complex64", ["C19"]),
    "c19-axis0-only": ("pulsarbat/utils.py", "    ind[axis] = slice(None)", "    ind[axis if z.ndim < 3 else 0] = slice(None)", ["C19"]),
    "c20-fft2-fftn": ("pulsarbat/fft.py", "    _fft_func = getattr(scipy.fft, name)", "    _fft_func = getattr(scipy.fft, 'fftn' if name == 'fft2' else name)", ["C20"]),
    "c20-ifft-fft": ("pulsarbat/fft.py", "    _fft_func = getattr(scipy.fft, name)", "    _fft_func = getattr(scipy.fft, 'fft' if name == 'ifft2' else name)", ["C20"]),
    "c20-name-dropped": ("pulsarbat/fft.py", '    "hfft",\n', "", ["C20"]),
    "c20-falign-inverted": ("pulsarbat/contrib/misc.py", 'falign = "center" if nfft % 2 else "bottom"', 'falign = "bottom" if nfft % 2 else "center"', ["C20"]),
    "c20-scale-moved": ("pulsarbat/contrib/misc.py", "    x = x.reshape(out_shape)\n    x /= nperseg\n", "    x = x.reshape(out_shape)\n    x = x / (nperseg if nperseg != 3 else 1)\n", ["C20"]),
    "c20-no-fftshift": ("pulsarbat/contrib/misc.py", "    x = np.fft.fftshift(x, axes=(2,))\n", "    x = np.fft.ifftshift(x, axes=(2,))\n", ["C20"]),
    "c20-dask-eager": ("pulsarbat/fft.py", "        wrapped_func = da.fft.fft_wrap(_fft_func)\n        return wrapped_func(*args, **kwargs)", "        import numpy as _np\n        return _fft_func(_np.asarray(args[0]), *args[1:], **kwargs)", ["C20"]),
    "c07-no-renorm": ("pulsarbat/pulsar/phase.py", "    excess = np.floor(frac + 0.5)\n    day += excess\n    extra, frac = two_sum(sum12, -day)\n    frac += extra + err12\n    return day, frac", "    return day, frac", ["C07"]),
    "c07-plain-product": ("pulsarbat/pulsar/phase.py", "        sum12, carry = two_product(sum12, factor)\n", "        sum12, carry = sum12 * factor, 0.0\n", ["C07"]),
    "c07-imag-or": ("pulsarbat/pulsar/phase.py", "            if imf and imaginary:\n                factor = -factor\n            imaginary ^= imf", "            if imf and imaginary:\n                factor = -factor\n            imaginary |= imf", ["C07"]),
    "c07-mul-self-first": ("pulsarbat/pulsar/phase.py", "            function is np.multiply or function is np.divide and i_self == 0\n        ) and basic_phase_out:", "            (function is np.multiply or function is np.divide) and i_self == 0\n        ) and basic_phase_out:", ["C07"]),
    "c07-err-dropped": ("pulsarbat/pulsar/phase.py", "        carry += err12 * factor\n", "", ["C07"]),
    "c07-abs-sign": ("pulsarbat/pulsar/phase.py", 'factor=np.sign(v["int"] + v["frac"]),', 'factor=np.sign(v["int"]),', ["C07"]),
    "c15-cmp-cycle": ("pulsarbat/pulsar/phase.py", '                diff = (phases[0]["int"] - phases[1]["int"]) + (\n                    phases[0]["frac"] - phases[1]["frac"]\n                )',
                      '                diff = phases[0].cycle - phases[1].cycle', ["C15"]),
    "c15-argsort-approx": ("pulsarbat/pulsar/phase.py", '        count, frac = self["int"], self["frac"]', '        count, frac = self.cycle, self.cycle', ["C15"]),
    "c15-exp-shift": ("pulsarbat/pulsar/phase.py", '            s_frac = s_frac + "0" * (exponent - len(s_frac))\n', "", ["C15"]),
    "c15-offset": ("pulsarbat/pulsar/phase.py", "                frac_str = func(frac + 0.25)\n                f24 = int(frac_str[2:4])", "                frac_str = func(frac + 0.25)\n                f24 = int(frac_str[2:4]) + (1 if frac_str[4:5] == '9' else 0)", ["C15"]),
    "c15-argmin-cycle": ("pulsarbat/pulsar/phase.py", '        approx = np.min(self.cycle, axis, keepdims=True)\n        dt = (self["int"] - approx) + self["frac"]\n        return dt.argmin(axis, out)', '        return self.cycle.argmin(axis, out)', ["C15"]),
    "c15-rpartition": ("pulsarbat/pulsar/phase.py", '    s_count, sep, s_frac = s_float.partition(".")', '    s_count, sep, s_frac = s_float.rpartition(".")', ["C15"]),
    "c07-no-settle": ("pulsarbat/pulsar/phase.py", "            if np.any(under) or np.any(over):\n                fd += over.astype(float) - under.astype(float)", "            if False:\n                fd += over.astype(float) - under.astype(float)", ["C07"]),
    "c11-seek-real": ("pulsarbat/readers/_baseband_readers.py", "                    fh.seek(2 * offset)\n", "                    fh.seek(offset)\n", ["C11"]),
    "c11-lsb-conj": ("pulsarbat/readers/_baseband_readers.py", "            if self.lower_sideband is True:\n                z = z.conj()", "            if self.lower_sideband is True:\n                pass", ["C11"]),
    "c11-lsb-mask": ("pulsarbat/readers/_baseband_readers.py", "                z[:, self.lower_sideband] = z[:, self.lower_sideband].conj()", "                z[:, ~self.lower_sideband] = z[:, ~self.lower_sideband].conj()", ["C11"]),
    "c11-stokes-flip": ("pulsarbat/readers/_baseband_readers.py", "        if self.lower_sideband:\n            z = np.flip(z, axis=-1)\n", "", ["C11"]),
    "c11-guppi-sideband": ("pulsarbat/readers/_baseband_readers.py", "lower_sideband=not header.sideband,", "lower_sideband=bool(header.sideband),", ["C11"]),
    "c11-stokes-align": ("pulsarbat/readers/_baseband_readers.py", 'freq_align = "top" if lsb else "bottom"', 'freq_align = "bottom" if lsb else "top"', ["C11"]),
    "c11-stamp": ("pulsarbat/readers/_base.py", "            start_time=self.time_at(offset),\n", "            start_time=self.time_at(0),\n", ["C11"]),
    "c11-bound-ge": ("pulsarbat/readers/_base.py", "        if offset + n > len(self):", "        if offset + n >= len(self):", ["C11"]),
    "c11-offset-trunc": ("pulsarbat/readers/_base.py", "offset = int((t * self.sample_rate).to(u.one).round())", "offset = int((t * self.sample_rate).to(u.one))", ["C11"]),
    "c11-offset-bound": ("pulsarbat/readers/_base.py", "        if offset < 0 or offset > len(self):\n            raise OutOfBoundsError", "        if offset < 0 or offset >= len(self):\n            raise OutOfBoundsError", ["C11"]),
    "c11-cached-handle": ("pulsarbat/readers/_baseband_readers.py", "        with lock:\n            with self._get_fh() as fh:\n                if self.real_baseband:", "        with lock:\n            if not hasattr(self, '_cached_fh'):\n                self._cached_fh = self._get_fh()\n            with nullcontext(self._cached_fh) as fh:\n                if self.real_baseband:", ["C11"]),
    "c11-neg-n": ("pulsarbat/readers/_base.py", "        if (n := operator.index(n)) < 0:\n            raise ValueError", "        if (n := abs(operator.index(n))) < 0:\n            raise ValueError", ["C11"]),
    "c11-real-len": ("pulsarbat/readers/_baseband_readers.py", "                _length = fh.shape[0] // 2\n", "                _length = (fh.shape[0] + 1) // 2\n", ["C11"]),
    "c11-dask-eager": ("pulsarbat/readers/_base.py", "            z = da.from_delayed(delayed_read(offset, n, **kwargs),", "            z = da.from_delayed(dask.delayed(self._read_array(offset, n, **kwargs)),", ["C11"]),
    "c09-compute-noop": ("pulsarbat/core.py", "            x = self.data.compute(**kwargs)\n", "            x = self.data\n", ["C09"]),
    "c09-persist-compute": ("pulsarbat/core.py", "            x = self.data.persist(**kwargs)\n", "            x = self.data.compute(**kwargs)\n", ["C09"]),
    "c09-todask-self": ("pulsarbat/core.py", "        return type(self).like(self, dask.array.asanyarray(self.data))", "        return self", ["C09"]),
    "c09-fft-eager": ("pulsarbat/fft.py", "        return wrapped_func(*args, **kwargs)", "        return da.from_array(_fft_func(args[0].compute(), *args[1:], **kwargs))", ["C09"]),
    "c09-map-blocks-eager": ("pulsarbat/transforms/transforms.py", "            z = da.map_blocks(func, x.data, **dask_kwargs, **kwargs)", "            z = da.from_array(func(x.data.compute(), **kwargs))", ["C09"]),
    "c09-incoh-eager": ("pulsarbat/transforms/dedispersion.py", "    x = np.stack([z.data[j : j + N, i] for i, j in enumerate(delays)], axis=1)", "    x = np.stack([np.asarray(z.data[j : j + N, i]) for i, j in enumerate(delays)], axis=1)", ["C09"]),
    "c09-ufunc-eager": ("pulsarbat/core.py", "        in_arr = tuple((i.data if isinstance(i, Signal) else i) for i in inputs)", "        in_arr = tuple((np.asarray(i.data) if isinstance(i, Signal) else i) for i in inputs)", ["C09"]),
    "c09-freqshift-arange-chunks": ("pulsarbat/transforms/transforms.py", "        n = da.arange(len(z), chunks=(-1,))", "        n = da.arange(len(z), chunks=(max(len(z) // 2, 1),))", ["C09"]),
    "c09-rechunk-noop": ("pulsarbat/core.py", "        x = dask.array.asanyarray(self.data)\n        if x.size:\n            x = x.rechunk(chunks, **kwargs)\n", "        x = self.data\n        if x.size and hasattr(x, 'rechunk'):\n            x = x.rechunk(chunks, **kwargs)\n", ["C09"]),
    "c08-phasepol-domain": ("pulsarbat/pulsar/predictor.py", '        polynomial = self["poly"][index](Polynomial([dt, 1]))\n        a = int(polynomial(0) // 1)\n\n        return polynomial - a, pb.Phase(rphase + a)', '        polynomial = self["poly"][index].copy()\n        polynomial.domain -= dt\n        a = int(polynomial(0) // 1)\n\n        return (polynomial - a).convert(), pb.Phase(rphase + a)', ["C08"]),
    "c08-domain": ("pulsarbat/pulsar/predictor.py", "poly=Polynomial(coeffs, domain=[-60, +60]).convert(),", "poly=Polynomial(coeffs, domain=[-30, +30]).convert(),", ["C08"]),
    "c08-f0-minutes": ("pulsarbat/pulsar/predictor.py", "coeffs[1] += float(f0) * 60", "coeffs[1] += float(f0)", ["C08"]),
    "c08-frac-dropped": ("pulsarbat/pulsar/predictor.py", '                coeffs[0] += float("0." + r_frac)\n', "", ["C08"]),
    "c08-searchsorted-tmid": ("pulsarbat/pulsar/predictor.py", "index = np.searchsorted(span_ends.mjd, getattr(times, span_ends.scale).mjd)", 'index = np.searchsorted(self["tmid"].mjd, getattr(times, span_ends.scale).mjd)', ["C08"]),
    "c08-deriv-n": ("pulsarbat/pulsar/predictor.py", '            f = self["poly"][index].deriv(n + 1)(dt)\n        else:', '            f = self["poly"][index].deriv(n)(dt) if n else self["poly"][index].deriv(1)(dt)\n        else:', ["C08"]),
    "c08-merge-tol": ("pulsarbat/pulsar/predictor.py", "start.isclose(next_end, 1 * u.ms)", "start.isclose(next_end, 1 * u.min)", ["C08"]),
    "c08-ncoeff-floor": ("pulsarbat/pulsar/predictor.py", "for _ in range(-(int(ncoeff) // -3)):", "for _ in range(int(ncoeff) // 3):", ["C08"]),
    "c08-d2e": ("pulsarbat/pulsar/predictor.py", 'd2e = str.maketrans("Dd", "ee")', 'd2e = str.maketrans("D", "e")', ["C08"]),
    "c08-phasepol-floor": ("pulsarbat/pulsar/predictor.py", "a = int(polynomial(0) // 1)", "a = int(polynomial(0))", ["C08"]),
    "c08-range-any": ("pulsarbat/pulsar/predictor.py", "        if not np.all(check):\n            raise ValueError(\"Some timestamps", "        if not np.any(check):\n            raise ValueError(\"Some timestamps", ["C08"]),
}

# behaviour-preserving edits: no check may fire
NEUTRAL = {
    "n-c11-contains-edge": ("pulsarbat/readers/_base.py", "        return edge & (t0 <= t) & (t < t1)", "        return edge & (t0 <= t) & (t <= t1)", ["C11"]),
    "n-c08-merge-min": ("pulsarbat/pulsar/predictor.py", "                    start = min(start, next_start)\n", "                    start = next_start\n", ["C08"]),
    "n-c19-mix-sign": ("pulsarbat/utils.py", "z *= np.exp(-1j * np.pi / 2 * np.arange(N))[tuple(ind)]", "z *= np.exp(+1j * np.pi / 2 * np.arange(N))[tuple(ind)]", ["C19"]),
    "n-c19-slice-plus1": ("pulsarbat/utils.py", "    h[1 : N // 2] = 2", "    h[1 : N // 2 + 1] = 2", ["C19"]),
    "n-stft-scale-fresh": ("pulsarbat/contrib/misc.py", "    x = x.reshape(out_shape)\n    x /= nperseg\n", "    x = x.reshape(out_shape)\n    x = x / nperseg\n", ["C14", "C20"]),
    "n-array-nodtype": ("pulsarbat/core.py", "        x = np.asanyarray(self.data, dtype=dtype)\n", "        x = np.asanyarray(self.data)\n", ["C17"]),
    "n-c13-distribute": ("pulsarbat/core.py", "            Y = 1j * (L - R)\n", "            Y = 1j * L - 1j * R\n", ["C13"]),
    "n-c13-stokes-regroup": ("pulsarbat/core.py", "            i = XX + YY\n            Q = XX - YY\n",
                             "            i = YY + XX\n            Q = -(YY - XX)\n", ["C13"]),
    "n-c05-reordered-form": ("pulsarbat/transforms/dedispersion.py", "phase = coeff * f * u.cycle * (1 / ref_freq - 1 / f) ** 2",
                            "phase = u.cycle * f * (1 / f - 1 / ref_freq) ** 2 * coeff", ["C05"]),
    "n-c06-common-denominator": ("pulsarbat/transforms/dedispersion.py", "delay = coeff * (1 / f ** 2 - 1 / ref_freq ** 2)",
                                 "delay = coeff / f ** 2 - coeff / ref_freq ** 2", ["C06"]),
    "n-c02-reordered-ids": ("pulsarbat/core.py", "chan_ids = np.arange(self.nchan) + _align - self.nchan / 2",
                            "chan_ids = _align - self.nchan / 2 + np.arange(self.nchan)", ["C02"]),
    "n-c02-maxfreq-expanded": ("pulsarbat/core.py", "return self.center_freq + self.bandwidth / 2",
                               "return self.center_freq + self.chan_bw * self.nchan / 2", ["C02"]),
    "n-c01-stop-expanded": ("pulsarbat/core.py", "        return self.start_time + self.time_length",
                            "        return self.time_length + self.start_time", ["C01"]),
    "n-c12-start-regrouped": ("pulsarbat/transforms/transforms.py", "new_start = z.start_time - shift * z.dt",
                              "new_start = z.start_time + (-shift) * z.dt", ["C01", "C12"]),
    "n-c20-keep-floordiv": ("pulsarbat/contrib/misc.py", "z = z[: len(z) - len(z) % nperseg, :]",
                            "z = z[: len(z) // nperseg * nperseg, :]", ["C20"]),
    "n-c10-centre-halves": ("pulsarbat/transforms/transforms.py", 'kw["center_freq"] = (f0 + f1) / 2', 'kw["center_freq"] = f0 / 2 + f1 / 2', ["C10"]),
    "n-c03-branches-swapped": ("pulsarbat/transforms/transforms.py",
                               "        if a < 0:\n            a = int(np.floor(a))\n            ix = (np.s_[a:],) + it.multi_index\n            stop = min(stop, a)\n        else:\n            a = int(np.ceil(a))\n            ix = (np.s_[:a],) + it.multi_index\n            start = max(start, a)\n",
                               "        if a >= 0:\n            a = int(np.ceil(a))\n            ix = (np.s_[:a],) + it.multi_index\n            start = max(start, a)\n        else:\n            a = int(np.floor(a))\n            ix = (np.s_[a:],) + it.multi_index\n            stop = min(stop, a)\n", ["C03"]),
    "n-dt-mul": ("pulsarbat/core.py", "self.start_time + s.start / self.sample_rate",
                 "self.start_time + s.start * (1 / self.sample_rate)", ["C01"]),
    "n-guess-1.5N": ("pulsarbat/utils.py", "    f7, guess = 1, 2 * N\n", "    f7, guess = 1, N + N // 2 + 1\n", ["C18"]),
}


def run_one(name, spec, tier="quick"):
    file, old, new, props = spec
    wt = tempfile.mkdtemp(prefix="pbmut-", dir="/tmp")
    os.rmdir(wt)
    subprocess.run(["git", "-C", "/repo", "worktree", "add", "-f", "--detach", wt, "HEAD"],
                   check=True, capture_output=True)
    res = {}
    try:
        p = Path(wt) / file
        s = p.read_text()
        if old not in s:
            return {"error": "anchor not found"}
        p.write_text(s.replace(old, new, 1))
        for pid in props:
            env = dict(os.environ, PBVERIF_REPO=wt, PBVERIF_SEARCH_S="20", PBVERIF_OUT=str(VERIF / ".work" / "selftest"))
            r = subprocess.run([str(VERIF / "bin" / "check"), pid, tier], cwd=VERIF, env=env,
                               capture_output=True, text=True)
            viol = [l for l in r.stdout.splitlines() if l.startswith("VIOLATION")]
            res[pid] = dict(rc=r.returncode, line=viol[0] if viol else r.stdout.strip().splitlines()[-1:] )
    finally:
        subprocess.run(["git", "-C", "/repo", "worktree", "remove", "--force", wt], capture_output=True)
        # restore generated files / evidence from the real tree
    return res


def main(argv):
    names = argv or list(MUTANTS) + list(NEUTRAL)
    out = {}
    for n in names:
        spec = MUTANTS.get(n) or NEUTRAL[n]
        r = run_one(n, spec)
        out[n] = r
        print(n, json.dumps(r))
    return 0


if __name__ == "__main__":
    sys.exit(main(sys.argv[1:]))
