"""C17 — elementwise NumPy operations on signals equal the same operations on their data."""

from .base import PropBase, err_name
from .. import sigs

MANIFEST = dict(
    technique="Lean 4 proof about a model of Signal.__array_ufunc__ whose guard atoms (accepted method, refused ufuncs, re-wrap expression) are regenerated from core.py by the translator + differential correspondence over every NumPy ufunc with <=2 inputs/outputs x operand arrangements x classes x out forms",
    level_text="proved on the model: refusal of reduce/accumulate/reduceat/outer/at/matmul, one result per ufunc output, out=/in-place identity, re-wrap in the dispatched operand's class (= first signal operand when classes agree), result exists iff the class admits the dtype (else ValueError); the guard table theorem is about the translator's output; every NumPy ufunc is run on signals and on raw data and compared (values, class, metadata, identity, exceptions); np.asarray/np.array with dtype/copy",
    level_note="Trusted: Lean kernel (+3 std axioms), translator (guard atoms), hand model PbModel/Ufunc.lean tied by correspondence, NumPy's __array_ufunc__ override order (subclass first, then left to right) as an external rule, NumPy's ufunc values themselves",
)

CLASSES = ["Signal", "RadioSignal", "IntensitySignal", "FullStokesSignal", "BasebandSignal", "DualPolarizationSignal"]
REQ = {"Signal": None, "RadioSignal": None, "IntensitySignal": ["float64", "float32"], "FullStokesSignal": ["float64", "float32"],
       "BasebandSignal": ["complex128", "complex64"], "DualPolarizationSignal": ["complex128", "complex64"]}
PARENT = {"Signal": None, "RadioSignal": "Signal", "IntensitySignal": "RadioSignal", "FullStokesSignal": "IntensitySignal",
          "BasebandSignal": "RadioSignal", "DualPolarizationSignal": "BasebandSignal"}


def is_sub(a, b):
    while a is not None:
        if a == b:
            return True
        a = PARENT[a]
    return False


class Prop(PropBase):
    id = "C17"
    lean_targets = ["PbProps.C17"]
    theorems = ["Pb.C17." + t for t in ("C17_guard_table", "C17_refusals", "C17_nout", "C17_out_identity",
                                        "C17_no_out_all_wrapped", "C17_wrap_first", "C17_result_contract", "C17_asarray")]
    trusted_base = ["PbModel/Ufunc.lean (hand model) + Gen/Ufunc.lean (translator output)",
                    "NumPy override order and ufunc semantics (external)"]
    assumptions = []
    rule = ("every ufunc in numpy's namespace with nin<=2, nout<=2 x arrangements {sig; sig,arr; arr,sig; sig,scalar; scalar,sig; "
            "sig,sig; sig,Quantity; Quantity,sig; mixed classes} x out forms {none, out=sig, out=(sig,), out=ndarray, in-place "
            "operator, (None,sig)} x 6 classes (dtype sets respected) x NumPy/Dask; methods reduce/accumulate/reduceat/outer/at "
            "and matmul; np.asarray/np.array with dtype/copy. Non-trivial: raw ufunc call valid for the dtype; distinct by case.")
    explanation = "dispatch/wrap logic proved in Lean; guard atoms from source; all ufuncs exercised differentially"

    def __init__(self):
        import pulsarbat as pb
        import numpy as np
        import astropy.units as u
        import dask.array as da

        self.pb, self.np, self.u, self.da = pb, np, u, da
        self.ufuncs = sorted(n for n in dir(np) if isinstance(getattr(np, n), np.ufunc)
                             and getattr(np, n).nin <= 2 and getattr(np, n).nout <= 2 and n != "matmul"
                             and getattr(np, n).signature is None)

    # ------------------------------------------------------------------ generation
    def cases(self, rng, tier):
        quick = tier == "quick"
        ufs = self.ufuncs
        arr1 = [["s"]]
        arr2 = [["s", "a"], ["a", "s"], ["s", "k"], ["k", "s"], ["s", "s"], ["s", "q"], ["q", "s"], ["s", "m"], ["m", "s"],
                # NumPy scalars of several types (bool_, float32, int8, complex64), 0-d arrays, Python bool/float/complex, lists
                ["s", "n"], ["n", "s"], ["s", "n"], ["n", "s"]]
        outs = ["none", "none", "none", "sig", "sigtuple", "ndarray", "inplace", "partial"]
        reps = 1 if quick else 12
        for _ in range(reps):
            for name in ufs:
                uf = getattr(self.np, name)
                for _ in range(3 if quick else 4):
                    cls = rng.choice(CLASSES)
                    arrange = rng.choice(arr1 if uf.nin == 1 else arr2)
                    out = rng.choice(outs)
                    dask = rng.random() < 0.15
                    if dask:      # Dask refuses NumPy out= targets and defers unit errors to compute time (C09)
                        out = "none"
                        if "q" in arrange or "n" in arrange:
                            arrange = ["s", "a"]
                    yield {"op": "call", "ufunc": name, "method": "__call__", "cls": cls, "arr": arrange, "out": out,
                           "dtype": rng.choice(["f8", "f4", "i8", "i2", "i2"] if REQ[cls] is None else
                                               (["f8", "f4"] if REQ[cls][0] == "float64" else ["c16", "c8"])),
                           "dask": dask, "where": rng.random() < 0.35, "nidx": rng.choice([0, 1, 0, 1, rng.randrange(100)]),
                           # the Quantity operand: physical unit, or a *scaled* dimensionless one (value != the number it stands for)
                           "q": rng.choice(["m", "percent", "ratio", "percent_arr", "one"])}
        # scalar operands of every kind with the common arithmetic ufuncs, on data types whose promotion they can change
        k = 0
        for name in ("power", "multiply", "add", "subtract", "true_divide", "minimum", "floor_divide"):
            if name not in ufs:
                continue
            for nidx in range(15):
                k += 1
                yield {"op": "call", "ufunc": name, "method": "__call__", "cls": ["Signal", "RadioSignal"][k % 2],
                       "arr": ["s", "n"] if (k // 2) % 3 else ["n", "s"], "out": "none", "dtype": ["i2", "f4", "i8", "f8"][k % 4],
                       "dask": False, "where": False, "nidx": nidx, "q": "m"}
        # long records (hundreds of thousands of elements, lengths not divisible by small block counts)
        for name, L, cls_ in (("add", 262145, "Signal"), ("multiply", 65537, "RadioSignal"), ("negative", 300007, "Signal"),
                              ("subtract", 131075, "IntensitySignal")):
            if name in ufs:
                uf = getattr(self.np, name)
                yield {"op": "call", "ufunc": name, "method": "__call__", "cls": cls_, "arr": ["s"] if uf.nin == 1 else ["s", "a"],
                       "out": "none", "dtype": "f8", "dask": False, "where": False, "nidx": 0, "q": "m", "L": L}
        for m in ("reduce", "accumulate", "reduceat", "outer", "at"):
            for name in ("add", "multiply", "maximum", "logical_and"):
                for cls in (CLASSES if not quick else rng.sample(CLASSES, 3)):
                    yield {"op": "call", "ufunc": name, "method": m, "cls": cls, "arr": ["s", "s"] if m == "outer" else ["s"],
                           "out": "none", "dtype": "f8" if REQ[cls] is None or REQ[cls][0] == "float64" else "c16", "dask": False}
        # chains of in-place operations on one signal (operators and out=self), mixed with a where= mask
        for _ in range(40 if quick else 1500):
            cls = rng.choice(CLASSES)
            cplx = not (REQ[cls] is None or REQ[cls][0] == "float64")
            pool = ["imul2", "iadd1", "isub_self_half", "neg_out", "square_out", "mul_where", "itruediv4", "conj_out", "add_sig_out"]
            if not cplx:
                pool += ["abs_out", "sqrt_abs_out", "maximum_out"]
            yield {"op": "chain", "cls": cls, "dtype": "c16" if cplx else "f8", "steps": [rng.choice(pool) for _ in range(rng.randint(2, 6))],
                   "dask": False}
        for cls in CLASSES:
            yield {"op": "call", "ufunc": "matmul", "method": "__call__", "cls": cls, "arr": ["s", "s"], "out": "none",
                   "dtype": "f8" if REQ[cls] is None or REQ[cls][0] == "float64" else "c16", "dask": False}
            for how in ("asarray", "asarray_dtype", "array", "array_copy", "array_dtype", "asanyarray"):
                yield {"op": "conv", "cls": cls, "how": how, "dask": rng.random() < 0.2,
                       "dtype": "f8" if REQ[cls] is None or REQ[cls][0] == "float64" else "c16"}

    # ------------------------------------------------------------------ real code
    def _mk(self, cls, dtype, idx, dask, shape_n=2, L=4):
        pb, np, u = self.pb, self.np, self.u
        shape = (L,) + sigs.sample_shape(cls, shape_n)
        base = (np.arange(int(np.prod(shape))).reshape(shape) % 5 + 1 + idx).astype({"f8": "f8", "f4": "f4", "i8": "i8", "i2": "i2", "c16": "c16", "c8": "c8"}[dtype])
        if dtype == "i2":
            base = base * 50          # squares no longer fit 16 bits: the result type matters
        if dtype in ("c16", "c8"):
            base = base + 1j * (base.real % 3)
        data = self.da.from_array(base, chunks=(2,) + shape[1:]) if dask else base
        return sigs.make(pb, cls, L, (idx + 1) * u.kHz, sigs.T0S[idx % 3], nchan=shape_n, data=data,
                         meta={"id": idx}, **({"pol_type": "linear"} if cls == "DualPolarizationSignal" else {}))

    def _other_cls(self, cls):
        return {"Signal": "Signal", "RadioSignal": "IntensitySignal", "IntensitySignal": "RadioSignal",
                "FullStokesSignal": "IntensitySignal", "BasebandSignal": "RadioSignal",
                "DualPolarizationSignal": "BasebandSignal"}[cls]

    def run_code(self, case):
        pb, np, u = self.pb, self.np, self.u
        if case["op"] == "conv":
            z = self._mk(case["cls"], case["dtype"], 0, case["dask"])
            raw = np.asarray(z.data)
            try:
                how = case["how"]
                y = {"asarray": lambda: np.asarray(z), "asarray_dtype": lambda: np.asarray(z, dtype=np.complex128),
                     "array": lambda: np.array(z), "array_copy": lambda: np.array(z, copy=True),
                     "array_dtype": lambda: np.array(z, dtype=np.complex64), "asanyarray": lambda: np.asanyarray(z)}[how]()
                want = {"asarray_dtype": "complex128", "array_dtype": "complex64"}.get(how, str(raw.dtype))
                # history: convert, change the signal in place, convert again -- the second conversion shows the new values
                z2 = self._mk(case["cls"], case["dtype"], 0, case["dask"])
                first = np.array(np.asarray(z2), copy=True)
                z2 += 1
                np.multiply(z2, 2, out=z2)
                second = np.asarray(z2)
                hist_ok = bool(np.array_equal(second, (first + 1) * 2) and np.array_equal(np.asarray(z2.data), second))
                return {"conv": {"hist_ok": hist_ok, "is_array": isinstance(y, np.ndarray), "dtype": str(y.dtype), "want": want,
                                 "values": bool(np.array_equal(y, raw.astype(want))),
                                 "copied": bool(not np.shares_memory(y, raw)) if not case["dask"] else True}}
            except Exception as e:
                return {"err": err_name(e)}
        if case["op"] == "chain":
            z = self._mk(case["cls"], case["dtype"], 0, False)
            other = self._mk(case["cls"], case["dtype"], 1, False)
            raw = np.array(np.asarray(z.data), copy=True)
            oraw = np.asarray(other.data)
            ident, trace = id(z), []
            rate0, meta0, t0 = z.sample_rate, dict(z.meta), z.start_time
            mask = (np.arange(raw.size).reshape(raw.shape) % 2 == 0)
            try:
                for st in case["steps"]:
                    if st == "imul2":
                        z *= 2; raw *= 2
                    elif st == "iadd1":
                        z += 1; raw += 1
                    elif st == "itruediv4":
                        z /= 4; raw /= 4
                    elif st == "isub_self_half":
                        z -= z * 0.5; raw -= raw * 0.5
                    elif st == "neg_out":
                        r = np.negative(z, out=z); raw = np.negative(raw, out=raw); trace.append(r is z)
                    elif st == "square_out":
                        r = np.square(z, out=z); np.square(raw, out=raw); trace.append(r is z)
                    elif st == "conj_out":
                        r = np.conjugate(z, out=z); np.conjugate(raw, out=raw); trace.append(r is z)
                    elif st == "abs_out":
                        r = np.absolute(z, out=z); np.absolute(raw, out=raw); trace.append(r is z)
                    elif st == "sqrt_abs_out":
                        np.absolute(z, out=z); r = np.sqrt(z, out=z); np.absolute(raw, out=raw); np.sqrt(raw, out=raw); trace.append(r is z)
                    elif st == "maximum_out":
                        r = np.maximum(z, 3, out=z); np.maximum(raw, 3, out=raw); trace.append(r is z)
                    elif st == "mul_where":
                        r = np.multiply(z, 3, out=z, where=mask); np.multiply(raw, 3, out=raw, where=mask); trace.append(r is z)
                    elif st == "add_sig_out":
                        r = np.add(z, other, out=z); np.add(raw, oraw, out=raw); trace.append(r is z)
                    trace.append(id(z) == ident)
            except Exception as e:
                return {"chain_err": err_name(e)}
            return {"chain": {"values": bool(np.array_equal(np.asarray(z.data), raw, equal_nan=True)), "same_object": bool(all(trace)),
                              "meta": bool(z.sample_rate == rate0 and z.meta == meta0 and bool(z.start_time == t0)
                                           and type(z).__name__ == case["cls"]),
                              "other_untouched": bool(np.array_equal(np.asarray(other.data), oraw))}}
        uf = getattr(np, case["ufunc"])
        ops, desc, sig_ids = [], [], []
        nsig = 0
        for a in case["arr"]:
            if a in ("s", "m"):
                cls = case["cls"] if a == "s" else self._other_cls(case["cls"])
                dt = case["dtype"] if a == "s" else ("f8" if REQ[cls] is None or REQ[cls][0] == "float64" else "c16")
                z = self._mk(cls, dt, nsig, case["dask"], L=case.get("L", 4))
                if a == "m" and z.shape != ops[0].shape if ops and hasattr(ops[0], "shape") else False:
                    pass
                ops.append(z)
                desc.append(f"s{nsig}:{cls}")
                sig_ids.append(nsig)
                nsig += 1
            elif a == "a":
                shape = (case.get("L", 4),) + sigs.sample_shape(case["cls"], 2)
                ops.append(np.full(shape, 2, dtype="f8" if case["dtype"] not in ("i8", "i2") else case["dtype"]))
                desc.append("o")
            elif a == "k":
                ops.append(2)
                desc.append("o")
            elif a == "n":
                pool = [2.0, np.float64(2), np.True_, np.False_, np.float32(2), np.int8(3), np.uint16(2), np.complex64(2), np.array(2.0), np.array(True),
                        True, 2.5, np.float64(0.5), np.int64(2), np.longdouble(2)]
                ops.append(pool[case.get("nidx", len(case["ufunc"]) + len(case["cls"])) % len(pool)])
                desc.append("o")
            elif a == "q":
                qk = case.get("q", "m")
                ops.append({"m": 2.0 * u.m, "percent": 50 * u.percent, "ratio": (3 * u.mV) / (2 * u.V), "one": 2.0 * u.dimensionless_unscaled,
                            "percent_arr": np.full((4,) + sigs.sample_shape(case["cls"], 2), 30.0) * u.percent}[qk])
                desc.append("o")
        # mixed classes need equal shapes: only keep when shapes agree
        sigs_in = [o for o in ops if isinstance(o, pb.Signal)]
        if len({o.shape for o in sigs_in}) > 1:
            return {"skip": "shape mismatch between mixed classes"}
        raw_ops = [np.asarray(o.data) if isinstance(o, pb.Signal) else o for o in ops]
        method = case["method"]
        fn = uf if method == "__call__" else getattr(uf, method)
        extra = {"reduceat": ([0, 2],), "at": ([0], 1)}.get(method, ())
        # reference on raw data
        try:
            raw_res = fn(*raw_ops, *extra) if method != "at" else None
        except Exception as e:
            raw_res = e
        out_kind = case["out"] if method == "__call__" else "none"
        out_desc = "-"
        out_obj = None
        kw = {}
        ref_outs = None
        if not isinstance(raw_res, Exception) and raw_res is not None and out_kind != "none":
            rr = raw_res if isinstance(raw_res, tuple) else (raw_res,)
            first_cls = sigs_in[0].__class__.__name__
            if any(isinstance(r, u.Quantity) for r in rr):
                out_kind = "none"
            elif out_kind in ("sig", "sigtuple", "inplace", "partial"):
                tgt_cls = first_cls
                okdt = REQ[tgt_cls] is None or str(rr[-1].dtype) in REQ[tgt_cls]
                if not okdt or (out_kind == "inplace" and (uf.nin != 2 or uf.nout != 1 or desc[0] == "o"
                                                           or rr[0].dtype != np.asarray(sigs_in[0].data).dtype)):
                    out_kind = "none"
                elif out_kind == "inplace":
                    out_obj = sigs_in[0]
                    out_desc = desc[0]
                    kw["out"] = (out_obj,)
                else:
                    tgt = sigs.make(pb, tgt_cls, 4, 77 * u.kHz, None, nchan=2, data=np.zeros(rr[-1].shape, rr[-1].dtype),
                                    meta={"id": 99}, no_swap=True, **({"pol_type": "circular"} if tgt_cls == "DualPolarizationSignal" else {}))
                    if tgt.shape != rr[-1].shape:
                        out_kind = "none"
                    else:
                        out_obj = tgt
                        d = f"s99:{tgt_cls}"
                        if uf.nout == 1:
                            kw["out"] = out_obj if out_kind == "sig" else (out_obj,)
                            out_desc = d
                        else:
                            kw["out"] = (None, out_obj)
                            out_desc = "n," + d
            elif out_kind == "ndarray":
                out_obj = np.zeros(rr[-1].shape, rr[-1].dtype)
                if uf.nout == 1:
                    kw["out"] = out_obj
                    out_desc = "o"
                else:
                    kw["out"] = (None, out_obj)
                    out_desc = "n,o"
        else:
            out_kind = "none"
        # dtype verdict per output for the wrapping class (C16 rule), measured
        oks = "1"
        if not isinstance(raw_res, Exception) and raw_res is not None:
            rr = raw_res if isinstance(raw_res, tuple) else (raw_res,)
            disp = self._dispatch([(d, o) for d, o in zip(desc, ops) if d != "o"] +
                                  ([(out_desc.split(",")[-1], out_obj)] if out_obj is not None and isinstance(out_obj, pb.Signal) and out_kind != "inplace" else []))
            wcls = disp[1].__class__.__name__ if disp else "Signal"
            okl = []
            for r in rr:
                req = REQ[wcls]
                ok = req is None or str(r.dtype) in req or bool(np.can_cast(r.dtype, np.dtype(req[0]), "safe"))
                okl.append("1" if ok else "0")
            oks = ",".join(okl)
        # a `where=` mask (plain boolean array) together with an out= target: masked-off elements keep the target's old values
        if case.get("where") and method == "__call__" and "out" in kw and uf.nout == 1 and not isinstance(raw_res, Exception) \
                and not case["dask"]:
            mask = (np.arange(int(np.prod(raw_res.shape))).reshape(raw_res.shape) % 3 != 0)
            if out_kind == "inplace":
                start = np.array(raw_ops[0], copy=True)
            else:
                start = np.full(raw_res.shape, 7, dtype=raw_res.dtype)
                tgt0 = out_obj.data if isinstance(out_obj, pb.Signal) else out_obj
                tgt0[...] = 7
            try:
                raw_res = fn(*raw_ops, out=start, where=mask)
                kw["where"] = mask
            except Exception:
                pass
        res = {"desc": desc, "out_desc": out_desc, "oks": oks, "out_kind": out_kind, "nout": uf.nout,
               "raw_err": err_name(raw_res) if isinstance(raw_res, Exception) else None}
        before_rates = {id(o): o.sample_rate for o in ops if isinstance(o, pb.Signal)}
        try:
            y = fn(*ops, *extra, **kw)
        except Exception as e:
            res["err"] = err_name(e)
            return res
        ys = y if isinstance(y, tuple) else (y,)
        rr = raw_res if isinstance(raw_res, tuple) else (raw_res,)
        items = []
        for k, yy in enumerate(ys):
            it = {}
            if out_obj is not None and yy is out_obj:
                it["given"] = out_desc.split(",")[-1]
                it["meta_kept"] = bool(getattr(yy, "meta", None) in ({"id": 99}, {"id": 0}) or not isinstance(yy, pb.Signal))
                val = np.asarray(yy.data) if isinstance(yy, pb.Signal) else yy
            elif isinstance(yy, pb.Signal):
                it["cls"] = type(yy).__name__
                it["meta_of"] = yy.meta.get("id") if isinstance(yy.meta, dict) else None
                it["rate_of"] = int(round(float(yy.sample_rate.to_value(u.kHz)))) - 1
                it["dask"] = isinstance(yy.data, self.da.Array)
                val = np.asarray(yy.data)
            else:
                it["plain"] = type(yy).__name__
                val = np.asarray(yy)
            if method != "at" and k < len(rr) and not isinstance(raw_res, Exception):
                ref = np.asarray(rr[k])
                unit_of = lambda v: str(v.unit) if isinstance(v, u.Quantity) else None
                # same values AND the same result type as the operation on the bare arrays, unless the wrapping class has to cast
                rcls = type(yy).__name__ if isinstance(yy, pb.Signal) else None
                must_cast = rcls is not None and REQ[rcls] is not None and str(ref.dtype) not in REQ[rcls]
                # (a result that had to be cast has to have landed in the class's dtype set)
                it["dtype_same"] = bool(str(val.dtype) in REQ[rcls] if must_cast else sigs.same_dtype(val.dtype, ref.dtype))
                it["values"] = bool(it["dtype_same"] and unit_of(getattr(yy, "data", yy)) == unit_of(rr[k]) and val.shape == ref.shape and np.array_equal(val.astype(np.result_type(val, ref)),
                                                                                ref.astype(np.result_type(val, ref)), equal_nan=True))
            items.append(it)
        res["items"] = items
        res["is_tuple"] = isinstance(y, tuple)
        return res

    def _dispatch(self, pairs):
        """NumPy's rule (independent restatement): first argument not strictly refined by another"""
        for d, o in pairs:
            c = type(o).__name__
            if all(not (type(o2).__name__ != c and is_sub(type(o2).__name__, c)) for _, o2 in pairs):
                return d, o
        return None

    # ------------------------------------------------------------------ model
    def model_requests(self, case, code):
        if case["op"] in ("conv", "chain") or "skip" in code:
            return []
        return [f"c17 call {case['ufunc']} {case['method']} {code['nout']} {','.join(code['desc'])} {code['out_desc']} {code['oks']}"]

    def model_result(self, case, replies):
        if not replies:
            return None
        r = replies[0].split()
        if r[0] == "notimpl":
            return {"err": "TypeError"}
        if r[0] == "raises":
            return {"err": r[1]}
        return {"items": r[1].split(",")}

    def agree(self, case, code, model):
        if model is None:
            return True
        if code.get("raw_err"):
            return True     # the ufunc itself rejects these operands; nothing for the signal layer to decide
        if "err" in code or "err" in model:
            return code.get("err") == model.get("err")
        if len(code["items"]) != len(model["items"]):
            return False
        for it, m in zip(code["items"], model["items"]):
            if m.startswith("g"):
                if it.get("given") != m[1:]:
                    return False
            else:
                i, cls = m[1:].split(":")
                if it.get("cls") != cls or it.get("meta_of") != int(i) or it.get("rate_of") != int(i):
                    return False
        return True

    # ------------------------------------------------------------------ property oracle
    def spec_violation(self, case, code):
        if "skip" in code:
            return None
        if case["op"] == "chain":
            if "chain_err" in code:
                return f"a chain of in-place operations {case['steps']} raised {code['chain_err']}"
            c = code["chain"]
            if not (c["values"] and c["same_object"] and c["meta"] and c["other_untouched"]):
                return f"chain of in-place operations {case['steps']} on a {case['cls']}: {c}"
            return None
        if case["op"] == "conv":
            if "err" in code:
                return f"array conversion raised {code['err']}"
            c = code["conv"]
            if not (c["is_array"] and c["dtype"] == c["want"] and c["values"]):
                return f"array conversion returned {c}"
            if c.get("hist_ok") is False:
                return "np.asarray(z) after an in-place operation on z does not show the new values (stale conversion)"
            if case["how"] == "array_copy" and not c["copied"]:
                return "np.array(z, copy=True) shares memory with the signal"
            return None
        refuse = case["method"] != "__call__" or case["ufunc"] == "matmul"
        if refuse:
            return None if code.get("err") == "TypeError" else f"{case['ufunc']}.{case['method']} was not refused (got {code.get('err', 'a result')})"
        if code["raw_err"]:
            if "err" not in code:
                return f"raw ufunc raises {code['raw_err']} but the signal call returned"
            return None
        if "err" in code:
            if code["err"] == "ValueError" and "0" in code["oks"]:
                return None       # result dtype not admitted by the class: refused (ties to C16)
            return f"valid elementwise call raised {code['err']}"
        if "0" in code["oks"] and code["out_kind"] == "none":
            return "a result whose dtype the class does not admit was wrapped"
        if len(code["items"]) != code["nout"] or (code["nout"] > 1) != code["is_tuple"]:
            return "wrong number of results"
        sig_descs = [d for d in code["desc"] if d != "o"]
        first = sig_descs[0]
        for k, it in enumerate(code["items"]):
            if "values" in it and not it["values"]:
                return f"output {k}: values differ from the ufunc applied to .data"
            if "given" in it:
                if not it["meta_kept"]:
                    return "out= object lost its own metadata"
                continue
            if "plain" in it:
                return f"output {k} is a plain {it['plain']}, not a signal"
            fi, fcls = first[1:].split(":")
            if it["cls"] != fcls or it["meta_of"] != int(fi) or it["rate_of"] != int(fi):
                return (f"output {k} is {it['cls']} with metadata of operand {it['meta_of']}, expected type and "
                        f"metadata of the first signal operand {first}")
            if case["dask"] and not it["dask"]:
                return "Dask-backed operand gave a non-Dask result"
        # out= positions must be the given objects
        if code["out_kind"] in ("sig", "sigtuple", "inplace", "ndarray", "partial"):
            last = code["items"][-1]
            if "given" not in last:
                return "out= object was not returned"
        return None

    def classify(self, case, why):
        if "m" in case.get("arr", []) and "expected type and metadata of the first signal operand" in why:
            return "mixed-class-dispatch"
        return None

    def nontrivial_key(self, case, code):
        if "skip" in code or code.get("raw_err"):
            return None
        return case

    def tags(self, case, code):
        if case["op"] == "chain":
            return ["chain"] + ["step:" + s for s in case["steps"]]
        if case["op"] == "conv":
            return ["conv:" + case["how"]]
        t = [case["cls"], "arr:" + "".join(case["arr"]), "method:" + case["method"]]
        if "skip" in code:
            return t + ["skipped"]
        t.append("out:" + code.get("out_kind", "none"))
        if code.get("raw_err"):
            t.append("raw-invalid")
        if "err" in code:
            t.append("err:" + code["err"])
        if case["dask"]:
            t.append("dask")
        return t
