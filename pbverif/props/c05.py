"""C05 — coherent dedispersion applies the cold-plasma chirp and crops to valid times."""

from fractions import Fraction as F
import math

from .base import PropBase, err_name
from .. import exact as X
from .. import sigs
from .c01 import tol_time

MANIFEST = dict(
    technique="Lean 4 proof: chirp phase law with the constant regenerated from the source, |H|=1 and H(DM)H(-DM)=1 over C, filter inversion on ZMod N, group-delay derivative identity over R (Mathlib calculus), crop validity/tightness over Q + differential correspondence of chirp_function/chirp_from_signal (every bin against the exact-rational phase reduced mod 1) and coherent_dedispersion (crop, stamps, data vs a complex128 oracle, supplied chirp, DM then -DM)",
    level_text="proved: the expression assigned to `phase` in _transfer_function, translated symbolically on every run, equals the model's law for all non-zero f, ref, in cycles, applied as exp(-i phase) (C05_source_formula); phase = K*DM*f*(1/ref-1/f)^2 cycles with K=1/2.41e-4 from the source, unit modulus, exact inverse for -DM, d(phase)/df = -time_delay(f, ref) (sign/exponent/reference pinned), kept samples read only in-range input for every in-band frequency and the crop is the tightest such, negative stop gives an empty result; tied: every chirp sample compared with the rational phase, dedispersed length/start via the C01 ledger model, data against an independent oracle",
    level_note="PARTIAL on numerics: float64 phase evaluation, complex64 chirp storage and SciPy FFT are outside the model (validated at 2pi*|phase|*2^-50 + 2^-21 per chirp sample and 1e-5*log2 N on data). Trusted: Lean kernel + Mathlib, translator (constant), hand model PbModel/Disp.lean tied by correspondence; the delay doubles from the public sample_delay are given to the crop model exactly",
)

K_HZ = F(10**18, 241)


class Prop(PropBase):
    id = "C05"
    lean_targets = ["PbProps.C05"]
    theorems = ["Pb.C05." + t for t in ("C05_constant", "C05_phase_law", "C05_phase_neg", "C05_unit_modulus",
                                        "C05_inverse_pointwise", "C05_inverse", "C05_group_delay", "C05_model_matches_real",
                                        "C05_crop_valid", "C05_crop_tight", "C05_crop_impl", "C05_infinite_reference",
                                        "C05_source_formula")]
    trusted_base = ["pbverif/extract.py: symbolic evaluation of the method bodies into PbModel/Gen/Disp.lean (trusted to render the source expressions faithfully; tied to the hand model by the C05_source_* theorem)", "PbModel/Disp.lean + Gen/Disp.lean", "numpy.fft complex128 oracle"]
    assumptions = ["band entirely at positive frequencies"]
    rule = ("DM +-1e-4..1e2 scaled so band-edge delays span 0..>N samples; centre 0.15-1.4 GHz, rate 1 kHz-16 MHz, nchan 1-4 x 3 "
            "alignments, ref inside / at both edges / outside, N in {8..192} incl. non powers of two, extra dims, complex64/128, "
            "NumPy and Dask; chirp arrays and dedispersed signals. Non-trivial: non-zero DM; distinct by case.")
    explanation = "chirp law/inverse/group delay/crop proved in Lean; chirps and dedispersed signals compared with exact-phase oracle"

    def __init__(self):
        import pulsarbat as pb
        import numpy as np
        import astropy.units as u

        self.pb, self.np, self.u = pb, np, u

    def cases(self, rng, tier):
        quick = tier == "quick"
        for _ in range(160 if quick else 5000):
            N = rng.choice([8, 12, 16, 31, 64, 100, 128, 192])
            cls = rng.choice(["BasebandSignal", "DualPolarizationSignal"])
            yield {"op": "coh", "cls": cls, "N": N, "n": rng.choice([1, 2, 3, 4]), "al": rng.choice(["bottom", "center", "top"]),
                   "cf": rng.choice([150e6, 400e6, 800e6, 1.4e9]), "rate": rng.choice([1e3, 1e5, 1e6, 16e6]),
                   "ref": rng.choice(["none", "top", "bottom", "above", "below", "inside", "inf"]),
                   "target": rng.choice([0.3, 1.0, 2.5, 7.75, N / 4, N / 2, N - 1, N + 2.5, 2 * N, rng.uniform(0, N)]),
                   "sign": rng.choice([1, -1]), "dtype": rng.choice(["c8", "c16"]), "extra": rng.choice([0, 0, 2]),
                   "dask": rng.random() < 0.2, "t0": rng.choice(sigs.T0S + [None]), "seed": rng.randrange(1 << 30)}

    def _mk(self, case):
        pb, np, u = self.pb, self.np, self.u
        g = np.random.default_rng(case["seed"])
        shape = (case["N"],) + sigs.sample_shape(case["cls"], case["n"]) + ((case["extra"],) if case["extra"] else ())
        x = (g.standard_normal(shape) + 1j * g.standard_normal(shape))
        if case["seed"] % 5 == 0:
            x = x * [1e-9, 1e-12][case["seed"] % 2]          # weak signals: the filter is linear (no absolute tolerances)
        x = x.astype({"c8": "c8", "c16": "c16"}[case["dtype"]])
        if case["dask"]:
            import dask.array as da
            x = da.from_array(x, chunks=(-1,) + (1,) * (len(shape) - 1))
        kw = {"pol_type": "linear"} if case["cls"] == "DualPolarizationSignal" else {}
        return sigs.make(pb, case["cls"], case["N"], case["rate"] * u.Hz, case["t0"], nchan=case["n"], data=x,
                         center_freq=case["cf"] * u.Hz, freq_align=case["al"], **kw)

    def _ref(self, case, z):
        r = {"none": None, "top": z.max_freq, "bottom": z.min_freq, "above": z.max_freq + 2 * z.bandwidth,
                "below": z.min_freq * 0.8, "inside": z.center_freq + 0.25 * z.chan_bw,
                "inf": self.np.inf * self.u.MHz}[case["ref"]]     # the customary infinite reference frequency
        if r is not None and case["ref"] != "inf" and case.get("seed", len(str(case))) % 5 == 2:
            r = r.to(self.u.GHz if case.get("seed", 0) % 2 else self.u.Hz)      # the same reference frequency in another unit
        return r

    def run_code(self, case):
        pb, np, u = self.pb, self.np, self.u
        z = self._mk(case)
        ref = self._ref(case, z)
        r = z.center_freq if ref is None else ref
        unit_top = float(pb.DM(1.0).sample_delay(z.max_freq, r, z.sample_rate))
        unit_bot = float(pb.DM(1.0).sample_delay(z.min_freq, r, z.sample_rate))
        span = max(abs(unit_top), abs(unit_bot)) or 1.0
        dmv = case["sign"] * case["target"] / span
        DM = pb.DM(dmv)
        # the same dispersion measure held in another unit (every third case): results must not depend on it
        if case.get("seed", 0) % 3 == 1:
            DM = DM.to(u.pc / u.m**3) if case.get("seed", 0) % 2 else DM.si
        dtop = float(DM.sample_delay(z.max_freq, r, z.sample_rate))
        dbot = float(DM.sample_delay(z.min_freq, r, z.sample_rate))
        out = {"dm": X.rat(X.frac(dmv)), "dtop": X.rat(X.frac(dtop)), "dbot": X.rat(X.frac(dbot)),
               "ref_hz": "inf" if case["ref"] == "inf" else X.rat(X.q_value(r, u.Hz)),
               "labels": [X.rat(X.q_value(f, u.Hz)) for f in z.channel_freqs]}
        rej = []
        inten = z.to_intensity()
        for lab, fn in (("coherent_dedispersion(IntensitySignal)", lambda: pb.coherent_dedispersion(inten, DM)),
                        ("coherent_dedispersion(ndarray)", lambda: pb.coherent_dedispersion(np.asarray(z.data), DM)),
                        ("coherent_dedispersion(Signal)", lambda: pb.coherent_dedispersion(pb.Signal(np.asarray(z.data), sample_rate=z.sample_rate), DM))):
            try:
                fn()
                rej.append(lab + " accepted")
            except TypeError:
                pass
            except Exception as e:      # noqa
                rej.append(f"{lab}: {err_name(e)} instead of TypeError")
        out["rejects"] = rej
        try:
            kw = {} if ref is None else {"ref_freq": ref}
            chirp = DM.chirp_from_signal(z, **kw)
            out["chirp_lazy"] = bool(type(chirp).__module__.startswith("dask")) == case["dask"]
            ch = np.asarray(chirp)
            out["chirp_shape"] = list(ch.shape)
            out["chirp_dtype"] = str(ch.dtype)
            chm = ch.reshape(case["N"], case["n"]).astype(np.complex128)
            out["chirp_phase"] = [[float((-np.angle(v) / (2 * np.pi)) % 1.0) for v in chm[:, c]] for c in range(case["n"])]
            out["chirp_moddev"] = float(np.max(np.abs(np.abs(chm) - 1.0)))
            y = pb.coherent_dedispersion(z, DM, **kw)
            y2 = pb.coherent_dedispersion(z, DM, chirp=chirp.reshape(chirp.shape[:2]), **kw)
        except Exception as e:
            out["err"] = err_name(e)
            return out
        out["len"] = len(y)
        out["meta"] = bool(type(y) is type(z) and y.sample_rate == z.sample_rate and y.sample_shape == z.sample_shape
                           and y.dtype == z.dtype and y.center_freq == z.center_freq and y.freq_align == z.freq_align)
        out["start"] = None if y.start_time is None else ("acquired" if z.start_time is None else
                                                          X.rat(X.time_offset_s(y.start_time, z.start_time)))
        out["supplied_same"] = bool(len(y2) == len(y) and np.array_equal(np.asarray(y2.data), np.asarray(y.data)))
        # two dedispersions of one Dask-backed signal that differ only in the reference frequency (and two that differ only
        # in DM), evaluated in ONE graph, must each equal the result computed alone
        if case["seed"] % 3 == 0:
            try:
                import dask
                import dask.array as da
                zd = type(z).like(z, da.from_array(np.asarray(z.data), chunks=(-1,) + (1,) * (z.ndim - 1)))
                r2 = z.max_freq if (ref is None or bool(r != z.max_freq)) else z.center_freq
                ls = [pb.coherent_dedispersion(zd, DM, ref_freq=r), pb.coherent_dedispersion(zd, DM, ref_freq=r2),
                      pb.coherent_dedispersion(zd, pb.DM(dmv * 0.5), ref_freq=r)]
                alone = [l.data.compute(scheduler="synchronous") for l in ls]
                joint = dask.compute(*[l.data for l in ls], scheduler="synchronous")
                out["joint_same"] = bool(all(a.shape == b.shape and np.array_equal(a, b) for a, b in zip(alone, joint)))
                out["joint_stack"] = True
                if alone[0].shape == alone[2].shape and alone[0].size:
                    both = da.stack([ls[0].data, ls[2].data]).compute(scheduler="synchronous")
                    out["joint_stack"] = bool(np.array_equal(both[0], alone[0]) and np.array_equal(both[1], alone[2]))
            except Exception as e:  # noqa
                out["joint_err"] = err_name(e)
            # a Dask-backed input whose chunks are uneven along the sample axes (time in one chunk) obeys the same law; with the
            # time axis in several chunks the transform may refuse (observed) — if it answers, the answer is the same
            from .. import lazy
            for how in ("freq", "all"):
                try:
                    yu = pb.coherent_dedispersion(lazy.dask_copy(np, z, uneven=how), DM, ref_freq=r)
                    au = np.asarray(yu.data)
                    sc = float(np.max(np.abs(np.asarray(y.data)))) if len(y) else 1.0
                    out["uneven_" + how] = bool(au.shape == np.asarray(y.data).shape and (au.size == 0 or float(
                        np.max(np.abs(au - np.asarray(y.data)))) <= 1e-4 * (sc or 1.0)))
                except Exception as e:  # noqa
                    out["uneven_" + how] = "refused:" + err_name(e)
        # the signal the request describes: the labels the object carries are the requested ones (the chirp is evaluated at them)
        want_al = case["al"] if case["n"] % 2 == 0 else "center"
        if z.freq_align != want_al or abs(float(z.center_freq.to_value(u.Hz)) - float(case["cf"])) > 1e-6 * abs(float(case["cf"])):
            out["labels_not_requested"] = f"freq_align={z.freq_align!r} center_freq={z.center_freq} for the request {want_al!r}, {case['cf']} Hz"
        out["lazy"] = bool((type(y.data).__module__.startswith("dask")) == case["dask"])
        yd = np.asarray(y.data)
        xd = np.asarray(z.data)
        # independent exact-phase oracle (Fraction arithmetic)
        N = case["N"]
        inf_ref = case["ref"] == "inf"
        dmF, refF, rateF = X.frac(dmv), (None if inf_ref else X.q_value(r, u.Hz)), X.frac(case["rate"])
        irF = F(0) if inf_ref else 1 / refF
        Hs, ratios, directs, tolmax = [], [], [], []
        for c, f_c in enumerate(z.channel_freqs):
            fc = X.q_value(f_c, u.Hz)
            ph, tolk = [], []
            for k in range(N):
                b = k if k < (N + 1) // 2 else k - N
                f = fc + F(b) * rateF / N
                p = K_HZ * dmF * f * (irF - 1 / f) ** 2
                ph.append(float(p - math.floor(p)))
                # float64 evaluation of K*DM*f*(1/ref - 1/f)^2: a few ulp of the phase, plus the cancellation in
                # (1/ref - 1/f), whose relative error is 2^-52 * f/|f - ref| and enters squared (x2)
                canc = 0.0 if inf_ref or f == refF else float(f / abs(f - refF))
                tolk.append(2 * math.pi * (abs(float(p)) + 1.0) * (2.0 ** -42 + 2.0 ** -50 * canc) + 2.0 ** -21)
            want = np.exp(-2j * np.pi * np.array(ph))
            Hs.append(want)
            ratios.append(float(np.max(np.abs(chm[:, c] - want) / np.array(tolk))))
            tolmax.append(max(tolk) / (2 * math.pi))
            # the public chirp_function called directly, with the sample spacing, channel centre and reference frequency
            # written in other (legal) units: the same transfer function
            if c in (0, case["n"] - 1):
                sd = case["seed"] + c
                dtq = [z.dt.to(u.us), z.dt.to(u.ns), z.dt.to(u.ms), 1 / z.sample_rate, 1 / z.sample_rate.to(u.MHz), z.dt][sd % 6]
                fq = [f_c, f_c.to(u.GHz), f_c.to(u.Hz)][(sd // 6) % 3]
                rq = r if inf_ref else [r, r.to(u.GHz), r.to(u.kHz)][(sd // 18) % 3]
                try:
                    d = np.asarray(DM.chirp_function(N, dtq, fq, rq, use_dask=bool(sd % 2))).astype(np.complex128)
                    directs.append(float(np.max(np.abs(d - want) / np.array(tolk))) / 2 if d.shape == (N,) else float("inf"))
                except Exception as e:  # noqa
                    out["direct_err"] = err_name(e)
        out["chirp_ratio"] = max(ratios)
        out["direct_ratio"] = max(directs) if directs else 0.0
        out["chirp_tol_turns"] = [float((abs(float(K_HZ * dmF * X.q_value(f_c, u.Hz) * (irF - 1 / X.q_value(f_c, u.Hz)) ** 2)) + 1.0)
                                        * 2.0 ** -48 * 160 + 2.0 ** -20 / (2 * math.pi)) + tolmax[c]   # (never tighter than the oracle)
                                  for c, f_c in enumerate(z.channel_freqs)]
        start = math.ceil(-min(0, F(float(dtop)), F(float(dbot))))
        if len(y) > 0:
            Hm = np.stack(Hs, axis=1).reshape((N, case["n"]) + (1,) * (xd.ndim - 2))
            refy = np.fft.ifft(np.fft.fft(xd.astype(np.complex128), axis=0) * Hm, axis=0)[start:start + len(y)]
            scale = float(np.max(np.abs(xd))) or 1.0
            out["data_err"] = float(np.max(np.abs(yd - refy)) / scale) if refy.shape == yd.shape else -1.0
        # DM then -DM on a compactly supported input
        L = case["N"]
        w = np.zeros_like(xd)
        mid = slice(L // 2 - 1, L // 2 + 1)
        w[mid] = xd[mid]
        zz = type(z).like(z, w)
        try:
            a = pb.coherent_dedispersion(zz, DM, **kw)
            b = pb.coherent_dedispersion(a, pb.DM(-dmv), **kw) if len(a) > 0 else None
            if b is not None and len(b) > 0 and zz.start_time is not None:
                k0 = int(round(float((b.start_time - zz.start_time).to_value(u.s)) * case["rate"]))
                refseg = w[k0:k0 + len(b)]
                scale = float(np.max(np.abs(w))) or 1.0
                out["roundtrip_err"] = float(np.max(np.abs(np.asarray(b.data) - refseg)) / scale) if refseg.shape == b.shape else -1.0
                out["roundtrip_support"] = bool(k0 <= L // 2 - 1 and k0 + len(b) >= L // 2 + 1)
        except Exception as e:
            out["roundtrip_exc"] = err_name(e)
        return out

    # --------------------------------------------------------------- model
    def model_requests(self, case, code):
        reqs = [f"c01 pipe {'none' if case['t0'] is None else '0'} {X.rat(X.frac(case['rate']))} {case['N']} "
                f"cc:{code['dtop']}:{code['dbot']}"]
        for lab in code["labels"]:
            reqs.append(f"c05 chirp {code['dm']} {code['ref_hz']} {lab} {X.rat(X.frac(case['rate']))} {case['N']}")
        return reqs

    def model_result(self, case, replies):
        r = replies[0].split()
        out = {"pipe": r, "phases": [[float(F(p)) for p in rep.split(",")] for rep in replies[1:]]}
        return out

    def agree(self, case, code, model):
        if "err" in code:
            return False
        r = model["pipe"]
        if r[0] != "ok":
            return False
        if code["len"] != int(r[3]):
            return False
        if (code["start"] is None) != (r[1] == "none"):
            return False
        if code["start"] is not None and (code["start"] == "acquired" or
                                          not X.close(F(code["start"]), F(r[1]), atol=tol_time(2, F(r[1])))):
            return False
        # every chirp sample's phase against the Lean model's exact rational phase (mod 1 turn)
        for c, (got, want) in enumerate(zip(code["chirp_phase"], model["phases"])):
            tol = code["chirp_tol_turns"][c]
            for g, w in zip(got, want):
                d = abs(g - float(w)) % 1.0
                if min(d, 1.0 - d) > tol:
                    return False
        return code["chirp_moddev"] < 2.0 ** -21

    # --------------------------------------------------------------- property oracle
    def spec_violation(self, case, code):
        np = self.np
        # (argument checks that the property does not state are observed in `rejects` for the evidence, not judged)
        if "err" in code:
            return f"raised {code['err']}"
        N = case["N"]
        if code["chirp_shape"][:2] != [N, case["n"]] or code["chirp_dtype"] != "complex64" or not code["chirp_lazy"]:
            return f"chirp has shape/dtype/container {code['chirp_shape']} {code['chirp_dtype']}"
        if code.get("direct_err") or code.get("direct_ratio", 0.0) > 1.0:
            return (f"DM.chirp_function called directly with the spacing/frequencies in other units: "
                    f"{code.get('direct_err') or code.get('direct_ratio')} (x tolerance)")
        if code["chirp_ratio"] > 1.0 or code["chirp_moddev"] >= 2.0 ** -21:
            return (f"chirp deviates from exp(-2 pi i K DM f (1/ref-1/f)^2): {code['chirp_ratio']:.3g} x tolerance, "
                    f"| |H|-1 | = {code['chirp_moddev']:.3g}")
        rate = X.frac(case["rate"])
        # crop by the property: front/back cropped by the ceilings of the band-edge delays
        dtop, dbot = F(code["dtop"]), F(code["dbot"])
        start = math.ceil(-min(0, dtop, dbot))
        stop = N - math.ceil(max(0, dtop, dbot))
        n = max(min(stop, N) - min(start, N), 0)
        if code["len"] != n:
            return f"returned {code['len']} samples, valid range [{start},{stop}) has {n}"
        if not code["meta"] or not code["lazy"]:
            return "type/metadata/container changed"
        if case["t0"] is None:
            if code["start"] is not None:
                return "acquired a start time"
        else:
            es = F(min(start, N)) / rate
            if code["start"] is None or not X.close(F(code["start"]), es, atol=tol_time(2, es)):
                return f"start advanced by {code['start']} s, expected {min(start, N)} samples"
        if n > 0:
            lim = 1e-5 * max(1.0, math.log2(N + 1))
            if not (0 <= code.get("data_err", -1.0) <= lim):
                return f"dedispersed data differ from ifft(fft(x)*H)[start:stop] by {code.get('data_err')} (limit {lim:.3g})"
        if code.get("labels_not_requested"):
            return ("the signal built for this request does not carry the requested channel frequencies, so the chirp is applied at "
                    f"other frequencies than asked for: {code['labels_not_requested']}")
        for how in ("freq", "all"):
            if code.get("uneven_" + how) is False or (how == "freq" and str(code.get("uneven_freq", "")).startswith("refused")):
                return (f"dedispersion of a Dask-backed copy with uneven chunks ({how}) is not the dedispersion of the same samples "
                        f"({code.get('uneven_' + how)})")
        if code.get("joint_same") is False or code.get("joint_stack") is False:
            return ("dedispersions of one Dask-backed signal that differ only in ref_freq or only in DM, evaluated in one graph, "
                    "differ from the results computed alone")
        if "joint_err" in code:
            return f"dedispersing the Dask-backed copy raised {code['joint_err']}"
        if not code["supplied_same"]:
            return "a supplied chirp gives a different result from the internal one"
        # band-limited fractional delays have 1/n sidelobes that the edge crops cut off, so exact restoration is
        # only approached when the smearing is small against the record: checked for |delay| <= N/8, N >= 64 at 15%
        # (5% was too tight: N=64, 3 channels, 1-sample delay reaches 5.5% from truncated sidelobes alone)
        # (a wrong sign/conjugate leaves an O(1) error)
        if "roundtrip_err" in code and code.get("roundtrip_support") and N >= 64 \
                and max(abs(dtop), abs(dbot)) <= F(N, 8):
            if not (0 <= code["roundtrip_err"] <= 0.15):
                return f"DM then -DM does not restore a compactly supported input (error {code['roundtrip_err']:.3g})"
        return None

    def nontrivial_key(self, case, code):
        return case

    def tags(self, case, code):
        t = [case["cls"], "ref:" + case["ref"], case["dtype"], "dask" if case["dask"] else "numpy"]
        if "len" in code:
            t.append("empty" if code["len"] == 0 else "nonempty")
        if "roundtrip_err" in code:
            t.append("roundtrip")
        return t
