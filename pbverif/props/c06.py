"""C06 — dispersion delays obey the f^-2 law; incoherent dedispersion realigns by them."""

from fractions import Fraction as F

from .base import PropBase, err_name
from .. import exact as X
from .. import sigs
from .c01 import tol_time

MANIFEST = dict(
    technique="Lean 4 proof over Q (delay-law algebra, monotonicity, round-half-even, index map of the per-channel realignment) with the dispersion constant regenerated from dedispersion.py by the translator + differential correspondence of DispersionMeasure.time_delay/sample_delay and incoherent_dedispersion (provenance of every output sample)",
    level_text="the expression assigned to `delay` in time_delay, translated symbolically on every run, equals the model's law (C06_source_formula); law K*DM*(f^-2 - r^-2) with K read from the source, antisymmetry, additivity, monotonicity in f (end channels bound all), np.round model, and for EVERY length/channel list/delay list: in-range sources k+round(d_i)+crop_before, start advance crop_before/rate, time statement T_out + round(d_i)/rate, empty result when no valid sample; real functions compared with the model and each output sample traced to its source",
    level_note="Trusted: Lean kernel (+3 std axioms); translator (constant literal + unit exponents); hand model PbModel/Disp.lean tied by correspondence; float evaluation of the law by astropy (validated at 16 ulp of K|DM|(f^-2+r^-2)); the doubles returned by the public sample_delay are given to the model exactly",
)

K_HZ = F(10**18, 241)
FCLASSES = ["RadioSignal", "IntensitySignal", "FullStokesSignal", "BasebandSignal", "DualPolarizationSignal"]


class Prop(PropBase):
    id = "C06"
    lean_targets = ["PbProps.C06"]
    theorems = ["Pb.C06." + t for t in ("C06_law", "C06_antisym", "C06_additive", "C06_monotone", "C06_round",
                                        "C06_ends_bound", "C06_incoh", "C06_incoh_empty", "C06_source_formula")]
    trusted_base = ["pbverif/extract.py: symbolic evaluation of the method bodies into PbModel/Gen/Disp.lean (trusted to render the source expressions faithfully; tied to the hand model by the C06_source_* theorem)", "PbModel/Disp.lean (hand model) + Gen/Disp.lean (translator output)",
                    "astropy Quantity arithmetic evaluating the law (validated, not proved)"]
    assumptions = ["channel labels positive (the law is singular at 0)"]
    rule = ("law: DM of both signs over 1e-3..1e3, frequency pairs in Hz..GHz units incl. f==r; incoh: 5 radio classes, "
            "nchan 1..9, 3 alignments, len 1..300, rates kHz..MHz, reference inside/at edges/outside the band, DM chosen so "
            "that delays span 0..>len and land next to half-integers, with/without start, trailing dims. Non-trivial: "
            "some channel delay rounds to non-zero; distinct by case.")
    explanation = "delay law + realignment index map proved in Lean; constant from source; API differential with provenance"

    def __init__(self):
        import pulsarbat as pb
        import numpy as np
        import astropy.units as u

        self.pb, self.np, self.u = pb, np, u

    # ------------------------------------------------------------------ generation
    def cases(self, rng, tier):
        quick = tier == "quick"
        for _ in range(300 if quick else 8000):
            dm = rng.choice([1, -1]) * 10 ** rng.uniform(-3, 3)
            fu, ru, su = rng.choice(["MHz", "GHz", "kHz", "Hz"]), rng.choice(["MHz", "GHz"]), rng.choice(["Hz", "kHz", "MHz"])
            scale = {"Hz": 1e9, "kHz": 1e6, "MHz": 1e3, "GHz": 1.0}
            f = round(rng.uniform(0.1, 10) * scale[fu], 6)
            r = f if rng.random() < 0.1 and fu == ru else round(rng.uniform(0.1, 10) * scale[ru], 6)
            yield {"op": "law", "DM": dm, "f": [f, fu], "r": [r, ru], "rate": [round(rng.uniform(1, 1000), 3), su],
                   "dmunit": rng.choice(["default", "default", "pc/m3", "si"])}
        for _ in range(350 if quick else 9000):
            cls = rng.choice(FCLASSES)
            n = rng.choice([1, 2, 3, 4, 5, 8, 9])
            L = rng.choice([1, 2, 5, 16, 64, 100, rng.randint(1, 300)])
            rate_hz = rng.choice([1e3, 1e4, 1e5, 1e6, 3e6, 32e6, 7e6])     # also sample periods that are no whole number of ns
            cf_hz = rng.choice([150e6, 400e6, 800e6, 1.4e9])
            bw_hz = rate_hz if sigs.is_complex(cls) else rng.choice([rate_hz, 1e5, 1e6, 5e6])
            if cf_hz - n * bw_hz <= 1e6:
                cf_hz = 1.4e9
            ref = rng.choice(["none", "top", "bottom", "above", "below", "inside", "inf"])
            # choose DM so that the largest |delay| is about `target` samples (either sign)
            target = rng.choice([0.4, 0.5, 1.5, 2.5, 3.0, L / 3, L - 1, L, L + 3.5, rng.uniform(0, L + 5)])
            if rng.random() < 0.06:
                target = rng.choice([2.0**31 + 7.3, 3.1e9, 2.0**33 + 0.4])      # sweeps far longer than the record (32-bit sample counts overflow)
            yield {"op": "incoh", "cls": cls, "n": n, "L": L, "rate": rate_hz, "cf": cf_hz, "bw": bw_hz,
                   "al": rng.choice(["bottom", "center", "top"]), "ref": ref, "target": target,
                   "sign": rng.choice([1, -1]), "t0": rng.choice(sigs.T0S + [None]), "extra": rng.choice([0, 0, 2]),
                   "dmunit": rng.choice(["default", "default", "default", "pc/m3", "si"])}

    # ------------------------------------------------------------------ real code
    def _signal(self, case):
        pb, u = self.pb, self.u
        kw = dict(center_freq=case["cf"] * u.Hz, freq_align=case["al"], nchan=case["n"],
                  extra=(case["extra"],) if case["extra"] else ())
        if not sigs.is_complex(case["cls"]):
            kw["chan_bw"] = case["bw"] * u.Hz
        return sigs.make(pb, case["cls"], case["L"], case["rate"] * u.Hz, case["t0"], **kw)

    def _ref(self, case, z):
        u = self.u
        r = {"none": None, "top": z.max_freq, "bottom": z.min_freq, "above": z.max_freq + 3 * z.bandwidth,
                "below": z.min_freq * 0.75, "inside": z.center_freq + 0.3 * z.chan_bw,
                "inf": self.np.inf * u.MHz}[case["ref"]]        # the customary infinite reference frequency
        if r is not None and case["ref"] != "inf" and case.get("seed", len(str(case))) % 5 == 2:
            r = r.to(self.u.GHz if case.get("seed", 0) % 2 else self.u.Hz)      # the same reference frequency in another unit
        return r

    def _dm(self, case, z, ref):
        pb, np = self.pb, self.np
        r = z.center_freq if ref is None else ref
        unit = pb.DM(1.0).sample_delay(z.channel_freqs, r, z.sample_rate)
        span = float(np.max(np.abs(unit)))
        if span == 0:
            span = abs(float(pb.DM(1.0).sample_delay(z.min_freq, z.max_freq, z.sample_rate))) or 1.0
        return case["sign"] * case["target"] / span

    def _DM(self, value, case):
        """the same physical dispersion measure, held in the default unit, in pc/m^3 or in SI units"""
        pb, u = self.pb, self.u
        DM = pb.DM(value)
        how = case.get("dmunit", "default")
        if how == "pc/m3":
            return DM.to(u.pc / u.m**3)
        if how == "si":
            return DM.si
        return DM

    def run_code(self, case):
        pb, np, u = self.pb, self.np, self.u
        if case["op"] == "law":
            DM = self._DM(case["DM"], case)
            f = case["f"][0] * u.Unit(case["f"][1])
            r = case["r"][0] * u.Unit(case["r"][1])
            rate = case["rate"][0] * u.Unit(case["rate"][1])
            try:
                td = DM.time_delay(f, r)
                sd = DM.sample_delay(f, r, rate)
                td2 = DM.time_delay(r, f)
                # "for all frequencies": arrays on either side (either one the larger), broadcast against each other
                arr_bad = []
                band = np.array([1.0, 1.25, 1.5]) * f
                want = [float(DM.time_delay(b, r).to_value(u.s)) for b in band]
                for lab, got, exp in (
                        ("time_delay(array, scalar)", DM.time_delay(band, r), np.array(want)),
                        ("time_delay(scalar, array)", DM.time_delay(r, band), -np.array(want)),
                        ("time_delay(array, column)", DM.time_delay(band, band[:, None]),
                         np.array([[float(DM.time_delay(b, c).to_value(u.s)) for b in band] for c in band])),
                        ("sample_delay(scalar, array)", DM.sample_delay(r, band, rate) / float((1 * rate).to_value(u.Hz)), -np.array(want))):
                    g_ = np.asarray(got.to_value(u.s) if hasattr(got, "unit") and got.unit.is_equivalent(u.s) else got, dtype=float)
                    if g_.shape != exp.shape or not np.allclose(g_, exp, rtol=1e-9, atol=1e-300):
                        arr_bad.append(lab)
                return {"td": X.rat(X.q_value(td, u.s)), "sd": X.rat(X.frac(float(sd))), "unit": str(td.unit),
                        "td_rev": X.rat(X.q_value(td2, u.s)), "arr_bad": arr_bad}
            except Exception as e:
                return {"err": err_name(e)}
        z = self._signal(case)
        ref = self._ref(case, z)
        dmv = self._dm(case, z, ref)
        DM = self._DM(dmv, case)
        delays = DM.sample_delay(z.channel_freqs, z.center_freq if ref is None else ref, z.sample_rate)
        out = {"delays": [X.rat(X.frac(float(d))) for d in np.atleast_1d(delays)], "dm": dmv}
        rej = []
        for lab, fn in (("incoherent_dedispersion(Signal)", lambda: pb.incoherent_dedispersion(pb.Signal(np.asarray(z.data), sample_rate=z.sample_rate), DM)),
                        ("incoherent_dedispersion(ndarray)", lambda: pb.incoherent_dedispersion(np.asarray(z.data), DM))):
            try:
                fn()
                rej.append(lab + " accepted")
            except TypeError:
                pass
            except Exception as e:      # noqa
                rej.append(f"{lab}: {err_name(e)} instead of TypeError")
        out["rejects"] = rej
        try:
            y = pb.incoherent_dedispersion(z, DM, ref_freq=ref) if ref is not None else pb.incoherent_dedispersion(z, DM)
        except Exception as e:
            out["err"] = err_name(e)
            return out
        out["len"] = len(y)
        if len(str(case)) % 3 == 0:
            # lazily, on Dask-backed copies (also with the time axis in several chunks), alone and in one graph
            try:
                from .. import lazy
                zd, zd3 = lazy.dask_copy(np, z), lazy.dask_copy(np, z, time_chunks=3)
                zo = lazy.dask_copy(np, z, data=np.asarray(z.data) * 2 + 1)
                kw = {"ref_freq": ref} if ref is not None else {}
                ls = [pb.incoherent_dedispersion(zd, DM, **kw), pb.incoherent_dedispersion(zd3, DM, **kw),
                      pb.incoherent_dedispersion(zd, self._DM(dmv * 0.5, case), **kw), pb.incoherent_dedispersion(zo, DM, **kw),
                      # uneven chunks along the channel (and time) axes, as a lazily sliced sub-band has them
                      pb.incoherent_dedispersion(lazy.dask_copy(np, z, uneven="freq"), DM, **kw),
                      pb.incoherent_dedispersion(lazy.dask_copy(np, z, uneven="all"), DM, **kw)]
                ok, alone = lazy.joint_equal(np, [l.data for l in ls])
                out["lazy_ok"] = bool(ok and np.array_equal(alone[0], np.asarray(y.data)) and np.array_equal(alone[1], np.asarray(y.data))
                                      and np.array_equal(alone[4], np.asarray(y.data)) and np.array_equal(alone[5], np.asarray(y.data))
                                      and all(type(l.data).__module__.startswith("dask") for l in ls))
            except Exception as e:  # noqa
                out["lazy_err"] = err_name(e)
        out["meta_same"] = bool(type(y) is type(z) and y.sample_rate == z.sample_rate and y.sample_shape == z.sample_shape
                                and np.array_equal(y.channel_freqs.value, z.channel_freqs.value)
                                and y.freq_align == z.freq_align and sigs.same_dtype(y.dtype, z.dtype))
        if z.start_time is None:
            out["start"] = None if y.start_time is None else "acquired"
        else:
            out["start"] = None if y.start_time is None else X.rat(X.time_offset_s(y.start_time, z.start_time))
        # per-channel source offset decoded from the data: value = k + 1e6*flat
        yd, zd = np.asarray(y.data).real, np.asarray(z.data).real
        if len(y) > 0:
            off = (yd - yd[0:1]) - np.arange(len(y)).reshape((-1,) + (1,) * (yd.ndim - 1))
            out["contiguous"] = bool(np.all(off == 0))
            first = yd[0] - zd[0]          # = source index of output sample 0, per element
            per_chan = first.reshape(first.shape[0], -1)
            out["elem_consistent"] = bool(np.all(per_chan == per_chan[:, :1]))
            out["src0"] = [int(round(float(v))) for v in per_chan[:, 0]]
        return out

    # ------------------------------------------------------------------ model
    def model_requests(self, case, code):
        u = self.u
        if case["op"] == "law":
            hz = lambda p: X.frac(p[0]) * X.unit_scale(u.Unit(p[1]), u.Hz)
            return [f"c06 delay {X.rat(X.frac(case['DM']))} {X.rat(hz(case['f']))} {X.rat(hz(case['r']))} {X.rat(hz(case['rate']))}"]
        t0 = "none" if case["t0"] is None else "0"
        return [f"c06 incoh {t0} {X.rat(X.frac(case['rate']))} {case['L']} " + ",".join(code["delays"])]

    def model_result(self, case, replies):
        r = replies[0].split()
        if case["op"] == "law":
            return {"td": r[0], "sd": r[1]}
        if r[0] == "err":
            return {"err": r[1]}
        return {"crop": int(r[1]), "shifted": [int(x) for x in r[2].split(",")], "len": int(r[3]),
                "start": None if r[4] == "none" else r[4]}

    def _law_tol(self, case):
        u = self.u
        hz = lambda p: X.frac(p[0]) * X.unit_scale(u.Unit(p[1]), u.Hz)
        f, r = hz(case["f"]), hz(case["r"])
        return F(16, 2**52) * K_HZ * abs(X.frac(case["DM"])) * (1 / f**2 + 1 / r**2), hz(case["rate"])

    def agree(self, case, code, model):
        if case["op"] == "law":
            if "err" in code:
                return False
            tol, rate = self._law_tol(case)
            return X.close(F(code["td"]), F(model["td"]), atol=tol) and X.close(F(code["sd"]), F(model["sd"]), atol=tol * rate * 2)
        if "err" in code or "err" in model:
            return code.get("err") == model.get("err")
        if code["len"] != model["len"]:
            return False
        if (code["start"] is None) != (model["start"] is None):
            return False
        if code["start"] is not None:
            if code["start"] == "acquired" or not X.close(F(code["start"]), F(model["start"]), atol=tol_time(2, F(model["start"]))):
                return False
        if code["len"] > 0 and code["src0"] != model["shifted"]:
            return False
        return True

    # ------------------------------------------------------------------ property oracle
    def spec_violation(self, case, code):
        u = self.u
        if case["op"] == "law":
            if "err" in code:
                return f"raised {code['err']}"
            hz = lambda p: X.frac(p[0]) * X.unit_scale(u.Unit(p[1]), u.Hz)
            f, r, rate = hz(case["f"]), hz(case["r"]), hz(case["rate"])
            exact = K_HZ * X.frac(case["DM"]) * (1 / f**2 - 1 / r**2)
            tol, _ = self._law_tol(case)
            if not X.close(F(code["td"]), exact, atol=tol):
                return f"time_delay = {float(F(code['td']))} s, law gives {float(exact)} s"
            if not X.close(F(code["sd"]), exact * rate, atol=2 * tol * rate):
                return f"sample_delay = {float(F(code['sd']))}, law gives {float(exact * rate)}"
            if not X.close(F(code["td_rev"]), -exact, atol=tol):
                return "time_delay not antisymmetric"
            if code.get("arr_bad"):
                return "array arguments: " + ", ".join(code["arr_bad"]) + " differ from the element-wise law"
            return None
        # (argument checks that the property does not state are observed in `rejects` for the evidence, not judged)
        if "err" in code:
            return f"raised {code['err']} (a request with no valid sample must give an empty signal)"
        if code.get("lazy_ok") is False or "lazy_err" in code:
            return ("incoherent dedispersion of Dask-backed copies (one or several time chunks; alone and evaluated in one graph) "
                    f"differs from the NumPy-backed result or is not lazy ({code.get('lazy_err', 'values')})")
        if not code["meta_same"]:
            return "type / labels / sample shape / dtype changed"
        ds = [round(float(F(d))) if abs(F(d) - round(F(d))) != F(1, 2) else int(2 * round(F(d) / 2)) for d in code["delays"]]
        rate = X.frac(case["rate"])
        if case["t0"] is None:
            if code["start"] is not None:
                return "acquired a start time"
            k0 = None
        else:
            if code["start"] is None:
                return "lost its start time"
            k0f = F(code["start"]) * rate
            k0 = round(k0f)
            if abs(k0f - k0) > F(1, 1000):
                return f"start advanced by a non-integer number of samples ({float(k0f)})"
        if code["len"] > 0:
            if not code["contiguous"] or not code["elem_consistent"]:
                return "output samples are not consecutive input samples / trailing elements disagree"
            for i, (s0, d) in enumerate(zip(code["src0"], ds)):
                if k0 is not None and s0 != k0 + d:
                    return (f"channel {i}: output sample at T reads input sample at T + {s0 - k0} samples, "
                            f"expected round(delay)={d}")
            if k0 is None:
                # without a start time only relative alignment is observable
                base = code["src0"][0] - ds[0]
                if any(s0 - d != base for s0, d in zip(code["src0"], ds)):
                    return f"relative channel offsets {code['src0']} do not follow rounded delays {ds}"
            if min(code["src0"]) < 0 or max(code["src0"]) + code["len"] > case["L"]:
                return "sources out of range"
        return None

    def nontrivial_key(self, case, code):
        if case["op"] == "law":
            return case
        return case if any(abs(F(d)) >= F(1, 2) for d in code.get("delays", [])) else None

    def tags(self, case, code):
        if case["op"] == "law":
            return ["law", "DM>0" if case["DM"] > 0 else "DM<0"]
        t = ["incoh", case["cls"], "ref:" + case["ref"], "nostart" if case["t0"] is None else "start"]
        if "err" in code:
            t.append("err:" + code["err"])
        elif code["len"] == 0:
            t.append("empty-result")
        if any(abs(abs(F(d)) % 1 - F(1, 2)) < F(1, 10**9) for d in code.get("delays", [])):
            t.append("near-half")
        return t
