"""C16 — every signal object satisfies its class contract; copies reproduce it faithfully."""

import pickle

from .base import PropBase, err_name
from .. import sigs, invariant

MANIFEST = dict(
    technique="Lean 4 proof about a constructor model driven by the class table that the translator regenerates from core.py on every run (decide over the finite table + generic lemmas) + constructor fuzz and an invariant checker applied to the outputs of library operations, like(), pickling and the Dask helpers",
    level_text="for every class descriptor: construct = ok s implies the class contract (rank, fixed axes, non-empty samples, allowed dtype, alignment rule, chan_bw=sample_rate for baseband, pol_type); every listed violation yields ValueError and no object; every keyword-only constructor parameter of every class is a readable property (like() faithful); no constructor drops a parameter (C16_ctor_forwards over the parameter flow of every __init__, regenerated from core.py on every run) — the table theorems are about the translator's output; real constructors fuzzed against the model over shapes x dtypes x argument kinds, and every signal produced by library operations checked against an independent Python statement of the contract",
    level_note="Trusted: Lean kernel (+3 std axioms), translator (class tables), hand model PbModel/Contract.lean (tied by constructor fuzz), numpy can_cast(...,'safe') taken as a measured parameter per request, astropy unit/Time validation inside the setters",
)

DTYPES = ["bool", "int8", "int32", "int64", "uint8", "uint64", "float16", "float32", "float64", "longdouble",
          "complex64", "complex128", "clongdouble",
          # non-native byte order: the same scalar types, but not the dtypes the classes list
          ">f4", ">f8", ">c8", ">c16", ">i2"]
CAN = {">f4": ">f4", ">f8": ">f8", ">c8": ">c8", ">c16": ">c16", ">i2": ">i2",
       "bool": "bool", "int8": "int8", "int32": "int32", "int64": "int64", "uint8": "uint8", "uint64": "uint64",
       "float16": "float16", "float32": "float32", "float64": "float64", "longdouble": "float128",
       "complex64": "complex64", "complex128": "complex128", "clongdouble": "complex256"}
REQ0 = {"Signal": None, "RadioSignal": None, "IntensitySignal": "float64", "FullStokesSignal": "float64",
        "BasebandSignal": "complex128", "DualPolarizationSignal": "complex128"}
QK = ["pos", "zero", "neg", "nan", "string", "nonScalar", "nonScalar1", "nonScalar11", "wrongUnit", "notQuantity"]
OPS = ["slice", "slice2", "fslice", "fast_len", "time_shift", "to_intensity", "to_stokes", "to_circular", "to_linear",
       "stokesI", "concat", "incoh", "coh", "freq_shift", "stft", "ufunc", "snippet", "like", "dask"]


class Prop(PropBase):
    id = "C16"
    lean_targets = ["PbProps.C16"]
    theorems = ["Pb.C16." + t for t in ("C16_class_table", "C16_construct_inv", "C16_errors_are_value_errors",
                                        "C16_reject", "C16_like_faithful", "C16_ctor_forwards")]
    trusted_base = ["PbModel/Contract.lean (hand model) + Gen/Classes.lean, Gen/Align.lean, Gen/Ctor.lean (translator output)",
                    "numpy safe-cast relation measured per request; astropy validation of Quantity/Time inside setters"]
    assumptions = []
    rule = ("constructor fuzz: 6 classes x NumPy/Dask x shapes of rank 0..4 (incl. zero-size and wrong fixed axes) x 13 dtypes x "
            "one possibly-invalid metadata argument per case drawn from the kinds each setter distinguishes; ops: random chains "
            "of 1-4 library operations from 19 kinds on valid signals of every class, every produced object checked; copies via "
            "like/pickle/cloudpickle/compute/persist/to_dask_array/rechunk. Non-trivial: a rejection or a dtype cast or an op "
            "chain; distinct by case.")
    explanation = "constructor contract proved on the table-driven Lean model; API fuzz + invariant checker on op outputs"

    def __init__(self):
        import pulsarbat as pb
        import numpy as np
        import astropy.units as u
        from astropy.time import Time
        import dask.array as da

        self.pb, self.np, self.u, self.Time, self.da = pb, np, u, Time, da

    # ----------------------------------------------------------------- generation
    def cases(self, rng, tier):
        quick = tier == "quick"
        for _ in range(700 if quick else 25000):
            cls = rng.choice(sigs.CLASSES)
            good = list((8,) + sigs.sample_shape(cls, rng.choice([1, 2, 3])))
            r = rng.random()
            if r < 0.6:
                shape = good + ([rng.choice([1, 3])] if rng.random() < 0.2 else [])
            elif r < 0.75:
                shape = good[:-1] if good else []
            elif r < 0.9:
                shape = list(good)
                if len(shape) > 1:
                    shape[rng.randrange(1, len(shape))] = rng.choice([0, 1, 3, 5])
                else:
                    shape = [0]
                if rng.random() < 0.3:
                    shape = shape + [0]             # an extra, empty trailing axis
                if rng.random() < 0.35:
                    shape[0] = 0                    # ... also with no time samples at all: the sample shape is still empty
            else:
                shape = [] if rng.random() < 0.3 else [rng.choice([0, 1, 4])] + good[1:]
            pref = [d for d in DTYPES if REQ0[cls] is None or d[0] == REQ0[cls][0]]
            dtype = rng.choice(pref if rng.random() < 0.6 else DTYPES)
            args = dict(rate="pos", start=rng.choice(["none", "scalarTime", "isoString"]), meta=rng.choice(["none", "dict", "pairs"]),
                        cf=rng.choice(["pos", "pos", "zero", "neg"]), bw="pos",
                        align=rng.choice(["bottom", "center", "top"]), pol=rng.choice(["linear", "circular"]))
            if rng.random() < 0.5:
                k = rng.choice(["rate", "start", "meta", "cf", "bw", "align", "pol"])
                args[k] = {"rate": rng.choice(QK + ["zero", "nan"]), "cf": rng.choice(QK), "bw": rng.choice(QK + ["zero", "zero", "nan", "nan"]),
                           "start": rng.choice(["arrayTime", "garbage", "number"]), "meta": "notMapping",
                           "align": rng.choice(["middle", "", "Center", "TOP"]),
                           "pol": rng.choice(["", "elliptical", "Linear"])}[k]
            # ... and, on the object if one results, one attribute assignment (valid or invalid value)
            attr = rng.choice(["rate", "start", "meta", "cf", "bw", "align", "pol"])
            kind = {"rate": rng.choice(QK + ["nan"]), "cf": rng.choice(QK), "bw": rng.choice(QK + ["nan"]),
                    "start": rng.choice(["none", "scalarTime", "isoString", "arrayTime", "garbage", "number"]),
                    "meta": rng.choice(["none", "dict", "pairs", "notMapping"]),
                    "align": rng.choice(["bottom", "center", "top", "middle", "", "Center", "TOP"]),
                    "pol": rng.choice(["linear", "circular", "", "elliptical", "Linear"])}[attr]
            yield {"op": "new", "cls": cls, "shape": shape, "dtype": dtype, "dask": rng.random() < 0.3, "args": args,
                   "assign": [attr, kind]}
        # Dask arrays whose sample axes have UNKNOWN lengths (boolean-mask selection): the contract cannot be verified, so no
        # object may result, valid metadata or not
        for cls in sigs.CLASSES[1:]:
            for keep in ([True, False, True, True], [False, False, False, False]):
                yield {"op": "nanaxis", "cls": cls, "keep": keep, "dtype": "complex128" if sigs.is_complex(cls) else "float64"}
        for _ in range(250 if quick else 6000):
            cls = rng.choice(sigs.CLASSES)
            ops = [rng.choice(OPS) for _ in range(rng.choice([1, 1, 2, 3, 4]))]
            yield {"op": "ops", "cls": cls, "ops": ops, "n": rng.choice([1, 2, 3, 4]), "L": rng.choice([16, 17, 64]),
                   "al": rng.choice(["bottom", "center", "top"]), "t0": rng.choice(sigs.T0S + [None]),
                   "dask": rng.random() < 0.25, "seed": rng.randrange(1 << 30)}

    # ----------------------------------------------------------------- real code
    def _val(self, kind, what):
        u, Time, np = self.u, self.Time, self.np
        if what in ("rate", "cf", "bw"):
            # (3.2 MHz does not survive a conversion to Hz and back bit for bit: 3.2e6 * 1e-6 != 3.2)
            return {"pos": 3.2 * u.MHz if what != "cf" else 400 * u.MHz, "zero": 0 * u.Hz, "neg": -3 * u.MHz,
                    "nan": float("nan") * u.MHz,      # a scalar frequency, but not a positive one
                    "string": "400 MHz",              # parseable text is still not a Quantity
                    "nonScalar": np.array([1.0, 2.0]) * u.kHz, "nonScalar1": np.array([4.0]) * u.MHz,
                    "nonScalar11": np.array([[4.0]]) * u.MHz, "wrongUnit": 1 * u.s, "notQuantity": 5.0}[kind]
        if what == "start":
            return {"none": None, "scalarTime": Time("2020-02-03T04:05:06.789"), "isoString": "2020-02-03T04:05:06",
                    "arrayTime": Time(["2020-02-03T04:05:06", "2020-02-03T04:05:07"]), "garbage": "yesterday",
                    "number": 5}[kind]
        if what == "meta":
            return {"none": None, "dict": {"a": 1, "b": [1, 2]}, "pairs": [("a", 1)], "notMapping": 5}[kind]
        return kind

    def _describe(self, z):
        u = self.u
        d = {"cls": type(z).__name__, "shape": list(z.shape), "dtype": str(z.dtype),
             "dask": isinstance(z.data, self.da.Array)}
        if isinstance(z, self.pb.RadioSignal):
            d["align"] = z.freq_align
            d["bw_is_rate"] = bool(z.chan_bw == z.sample_rate)
            d["nchan"] = int(z.nchan)
        if isinstance(z, self.pb.DualPolarizationSignal):
            d["pol"] = z.pol_type
        d["inv"] = invariant.violations(z)
        return d

    def run_code(self, case):
        pb, np, u = self.pb, self.np, self.u
        if case["op"] == "nanaxis":
            cls = case["cls"]
            shape = (8, 4) + sigs.sample_shape(cls, 4)[1:]
            x = self.da.from_array(np.ones(shape, dtype=case["dtype"]), chunks=-1)
            x = x[:, self.da.from_array(np.array(case["keep"]), chunks=-1)]           # channel axis of unknown length
            kw = dict(sample_rate=1 * u.MHz, center_freq=1 * u.GHz)
            if not sigs.is_complex(cls):
                kw["chan_bw"] = 1 * u.MHz
            if cls == "DualPolarizationSignal":
                kw["pol_type"] = "linear"
            try:
                z = getattr(pb, cls)(x, **kw)
                return {"ok": {"shape": [None if s != s else int(s) for s in z.shape], "computed": list(np.asarray(z.data).shape)}}
            except Exception as e:
                return {"err": err_name(e)}
        if case["op"] == "new":
            cls = case["cls"]
            C = getattr(pb, cls)
            a = case["args"]
            dt = np.dtype(case["dtype"]) if case["dtype"].startswith(">") else np.dtype(getattr(np, case["dtype"]))
            x = np.zeros(case["shape"], dtype=dt)
            if case["dask"]:
                x = self.da.from_array(x, chunks=-1)
            kw = dict(sample_rate=self._val(a["rate"], "rate"), start_time=self._val(a["start"], "start"),
                      meta=self._val(a["meta"], "meta"))
            for k in ("start_time", "meta"):       # None is the documented default: left out in every second case
                if kw[k] is None and len(case["shape"]) % 2 == 0:
                    del kw[k]
            if cls != "Signal":
                kw.update(center_freq=self._val(a["cf"], "cf"), freq_align=a["align"])
                if a["align"] == "center" and sum(case["shape"]) % 2 == 0:
                    del kw["freq_align"]            # the documented default
                if not sigs.is_complex(cls):
                    kw["chan_bw"] = self._val(a["bw"], "bw")
            if cls == "DualPolarizationSignal":
                kw["pol_type"] = a["pol"]
            req0 = REQ0[cls]
            safe = bool(req0 is not None and np.can_cast(dt, getattr(np, req0), "safe"))
            try:
                z = C(x, **kw)
            except Exception as e:
                return {"err": err_name(e), "safe": safe}
            d = self._describe(z)
            d["safe"] = safe
            d["meta_is_copy"] = bool(z.meta is None or (isinstance(z.meta, dict) and z.meta is not kw.get("meta")))
            if case.get("assign"):
                attr, kind = case["assign"]
                name = {"rate": "sample_rate", "start": "start_time", "meta": "meta", "cf": "center_freq", "bw": "chan_bw",
                        "align": "freq_align", "pol": "pol_type"}[attr]
                if hasattr(z, name) and not (sigs.is_complex(cls) and attr in ("rate", "bw")):
                    # (rate / chan_bw of a baseband signal are tied to each other only at creation: not assigned here)
                    try:
                        setattr(z, name, self._val(kind, attr))
                        d["assign"] = "ok"
                    except Exception as e:
                        d["assign"] = err_name(e)
                    d["assign_inv"] = invariant.violations(z)
                    d["assign_align"] = getattr(z, "freq_align", None)
            return {"ok": d}
        return self._run_ops(case)

    def _apply(self, z, op, rng):
        pb, np, u = self.pb, self.np, self.u
        radio = isinstance(z, pb.RadioSignal)
        bb = isinstance(z, pb.BasebandSignal)
        dp = isinstance(z, pb.DualPolarizationSignal)
        if op in ("time_shift", "coh", "freq_shift", "stft", "snippet") and isinstance(z.data, self.da.Array):
            z = z.rechunk()        # FFT-based transforms need the time axis in one chunk (C09)
        if op == "slice":
            return [z[rng.randrange(0, 4):len(z) - rng.randrange(0, 4)]]
        if op == "slice2":
            return [z[::rng.choice([2, 3])]]
        if op == "fslice" and radio and z.nchan > 1:
            a = rng.randrange(0, z.nchan - 1)
            return [z[:, a:rng.randrange(a + 1, z.nchan + 1)]]
        if op == "fast_len":
            return [pb.fast_len(z)]
        if op == "time_shift" and len(z) > 2:
            return [pb.time_shift(z, rng.choice([1, -2, 0.5, 2.25]), crop=rng.random() < 0.5)]
        if op == "to_intensity" and bb:
            return [z.to_intensity()]
        if op == "to_stokes" and dp:
            return [z.to_stokes()]
        if op == "to_circular" and dp:
            return [z.to_circular()]
        if op == "to_linear" and dp:
            return [z.to_linear()]
        if op == "stokesI" and isinstance(z, pb.FullStokesSignal):
            return [z[rng.choice("IQUV")]]
        if op == "concat" and len(z) > 2:
            k = rng.randrange(1, len(z))
            return [pb.concatenate([z[:k], z[k:]])]
        if op == "incoh" and radio and float(z.min_freq.to_value(u.Hz)) > 0:
            return [pb.incoherent_dedispersion(z, pb.DM(1e-4 * rng.choice([1, -1])))]
        if op == "coh" and bb and len(z) > 4 and float(z.min_freq.to_value(u.Hz)) > 0:
            return [pb.coherent_dedispersion(z, pb.DM(1e-5))]
        if op == "freq_shift" and bb and len(z) > 1:
            return [pb.freq_shift(z, 0.1 * z.sample_rate)]
        if op == "stft" and bb and len(z) >= 8:
            y = pb.contrib.stft(z, nperseg=rng.choice([2, 4]))
            return [y, pb.contrib.istft(type(y).like(y, np.array(y.data)), nperseg=2)]
        if op == "ufunc":
            res = [z * 2, np.negative(z), z + z]
            # results whose natural dtype is not the class's (magnitudes, truth values, exponents): either refused or brought into
            # the class's dtype set — whatever comes back is a signal of the class and has to satisfy the class's contract
            for f in (lambda: np.abs(z), lambda: np.isfinite(z), lambda: z > 0, lambda: np.frexp(z)[1], lambda: z * 1j, lambda: z == z):
                try:
                    r = f()
                    if isinstance(r, pb.Signal):
                        res.append(r)
                except Exception:       # noqa  (a refusal is fine)
                    pass
            return res
        if op == "snippet" and len(z) > 4:
            return [pb.snippet(z, rng.choice([1, 1.5]), 2)]
        if op == "like":
            return [type(z).like(z), type(z).like(z, z.data[:max(len(z) // 2, 1)])]
        if op == "dask":
            y = z.to_dask_array()
            return [y, y.rechunk(), y.compute(), y.persist(), z.compute()]
        return []

    def _run_ops(self, case):
        import random
        pb, np, u = self.pb, self.np, self.u
        rng = random.Random(case["seed"])
        g = np.random.default_rng(case["seed"])
        cls = case["cls"]
        shape = (case["L"],) + sigs.sample_shape(cls, case["n"])
        data = g.standard_normal(shape)
        if sigs.is_complex(cls):
            data = data + 1j * g.standard_normal(shape)
        if case["dask"]:
            data = self.da.from_array(data, chunks=(-1,) + (1,) * (len(shape) - 1))
        z = sigs.make(pb, cls, case["L"], 1 * u.MHz, case["t0"], nchan=case["n"], freq_align=case["al"], data=data,
                      meta={"k": 1}, **({"pol_type": rng.choice(["linear", "circular"])} if cls == "DualPolarizationSignal" else {}))
        seen = [self._describe(z)]
        copies_ok = True
        for op in case["ops"]:
            try:
                outs = self._apply(z, op, rng)
            except Exception as e:
                return {"err": f"{op}:{err_name(e)}", "seen": seen}
            for y in outs:
                seen.append(self._describe(y))
            if outs:
                z = outs[0]
        # copies of the final signal
        zc = z.compute()
        try:
            import cloudpickle
            copies = [type(zc).like(zc), pickle.loads(pickle.dumps(zc)), cloudpickle.loads(cloudpickle.dumps(zc)),
                      zc.to_dask_array().compute(), zc.persist()]
            if zc.data.size:      # dask cannot 'auto'-chunk a zero-size array (ZeroDivisionError inside dask)
                copies.append(zc.rechunk().compute())
            copies_ok = all(invariant.same_attrs(zc, c) and bool(np.array_equal(np.asarray(c.data), np.asarray(zc.data)))
                            for c in copies)
        except Exception as e:
            return {"err": f"copy:{err_name(e)}", "seen": seen}
        return {"seen": seen, "copies_ok": copies_ok}

    # ----------------------------------------------------------------- model
    def _req(self, cls, shape, dtype, safe, a):
        start = {"isoString": "scalarTime", "number": "garbage"}.get(a["start"], a["start"])
        a = dict(a)
        for k in ("rate", "cf", "bw"):
            if a[k].startswith("nonScalar"):
                a[k] = "nonScalar"
            if a[k] == "string":
                a[k] = "notQuantity"
        sh = ",".join(str(s) for s in shape) if shape else "-"
        return (f"c16 new {cls} {sh} {CAN.get(dtype, dtype)} {int(safe)} {a['rate']} {start} {a['meta']} {a['cf']} {a['bw']} "
                f"{a['align'] or 'EMPTY'} {a['pol'] or 'EMPTY'}")

    def model_requests(self, case, code):
        if case["op"] == "nanaxis":
            return []
        if case["op"] == "new":
            safe = code.get("safe", code.get("ok", {}).get("safe", False))
            return [self._req(case["cls"], case["shape"], case["dtype"], safe, case["args"]), f"c16 like {case['cls']}"]
        reqs = []
        for d in code.get("seen", []):
            a = dict(rate="pos", start="none", meta="dict", cf="pos", bw="pos", align=d.get("align", "center"),
                     pol=d.get("pol", "linear"))
            reqs.append(self._req(d["cls"], d["shape"], d["dtype"], False, a))
        return reqs

    def model_result(self, case, replies):
        if case["op"] == "nanaxis":
            return {}

        def parse(r):
            r = r.split()
            if r[0] == "err":
                return {"err": r[1]}
            return {"cls": r[1], "shape": [] if r[2] == "-" else [int(x) for x in r[2].split(",")], "dtype": r[3],
                    "bw_is_rate": r[4] == "1", "align": "" if r[5] == "EMPTY" else r[5], "pol": "" if r[6] == "EMPTY" else r[6]}
        if case["op"] == "new":
            m = parse(replies[0])
            m["like"] = replies[1] == "1"
            return m
        return [parse(r) for r in replies]

    def _match(self, d, m):
        if "err" in m:
            return False
        if d["cls"] != m["cls"] or d["shape"] != m["shape"] or CAN.get(d["dtype"], d["dtype"]) != m["dtype"]:
            return False
        if "align" in d and (d["align"] != m["align"]):
            return False
        if d["cls"] in ("BasebandSignal", "DualPolarizationSignal") and (d["bw_is_rate"] != m["bw_is_rate"]):
            return False
        if "pol" in d and d["pol"] != m["pol"]:
            return False
        return True

    def agree(self, case, code, model):
        if case["op"] == "nanaxis":
            return True
        if case["op"] == "new":
            if not model.get("like", False):
                return False
            if "err" in code or "err" in model:
                return code.get("err") == model.get("err")
            return self._match(code["ok"], model)
        if "err" in code:
            return False
        return len(model) == len(code["seen"]) and all(self._match(d, m) for d, m in zip(code["seen"], model))

    # ----------------------------------------------------------------- property oracle
    def _valid_request(self, case):
        """does the property's contract admit this construction? (independent of the Lean model)"""
        cls, shape, a = case["cls"], case["shape"], case["args"]
        c = invariant.CONTRACT[cls]
        if len(shape) < c["ndim"]:
            return False
        if any(len(shape) > ax and shape[ax] != n for ax, n in c["fixed"].items()):
            return False
        prod = 1
        for s in shape[1:]:
            prod *= s
        if prod == 0:
            return False
        if a["rate"] != "pos" or a["start"] in ("arrayTime", "garbage", "number") or a["meta"] == "notMapping":
            return False
        if cls != "Signal":
            if a["cf"] not in ("pos", "zero", "neg", "nan") or a["align"] not in ("bottom", "center", "top"):
                return False
            if not sigs.is_complex(cls) and a["bw"] != "pos":
                return False
        if cls == "DualPolarizationSignal" and a["pol"] not in ("linear", "circular"):
            return False
        return None  # dtype decides

    def spec_violation(self, case, code):
        np = self.np
        if case["op"] == "nanaxis":
            if "ok" in code:
                return (f"{case['cls']} built from a Dask array with an axis of unknown length: object of shape {code['ok']['shape']} "
                        f"(computes to {code['ok']['computed']}) — the class contract was never checked")
            return None if code["err"] == "ValueError" else f"raised {code['err']}, expected ValueError"
        if case["op"] == "new":
            v = self._valid_request(case)
            if "ok" in code:
                d = code["ok"]
                if d["inv"]:
                    return f"constructed object violates its contract: {d['inv']}"
                if v is False:
                    return "an invalid construction yielded an object"
                if not d["meta_is_copy"]:
                    return "meta stored without copying"
                if "assign" in d:
                    attr, kind = case["assign"]
                    good = {"rate": kind == "pos", "bw": kind == "pos", "cf": kind in ("pos", "zero", "neg", "nan"),
                            "start": kind in ("none", "scalarTime", "isoString"), "meta": kind in ("none", "dict", "pairs"),
                            "align": kind in ("bottom", "center", "top"), "pol": kind in ("linear", "circular")}[attr]
                    if d["assign_inv"]:
                        return f"after assigning {attr} := {kind} the object violates its contract: {d['assign_inv']}"
                    if good and d["assign"] != "ok":
                        return f"assigning a valid {attr} ({kind}) raised {d['assign']}"
                    if not good and d["assign"] != "ValueError":
                        return f"assigning an invalid {attr} ({kind}) gave {d['assign']}, expected ValueError"
                allowed = invariant.CONTRACT[case["cls"]]["dtypes"]
                if allowed is not None and CAN[case["dtype"]] not in allowed and not d["safe"]:
                    return f"dtype {case['dtype']} cannot be cast safely to the class's dtype, yet an object was created"
                return None
            if code["err"] != "ValueError":
                return f"invalid construction raised {code['err']}, expected ValueError"
            if v is None:
                allowed = invariant.CONTRACT[case["cls"]]["dtypes"]
                name = CAN[case["dtype"]]
                if allowed is None or name in allowed:
                    return "valid construction refused"
                if code["safe"]:
                    return "safely castable dtype refused"
            return None
        for d in code.get("seen", []):
            if d["inv"]:
                return f"{d['cls']} produced by the library violates its contract: {d['inv']}"
        if "err" in code:
            return f"operation failed: {code['err']}"
        if not code["copies_ok"]:
            return "like/pickle/dask helpers did not reproduce every attribute"
        return None

    def nontrivial_key(self, case, code):
        return case

    def tags(self, case, code):
        if case["op"] == "nanaxis":
            return ["nanaxis", case["cls"]]
        if case["op"] == "new":
            t = ["new", case["cls"], "dask" if case["dask"] else "numpy", "ok" if "ok" in code else "rejected"]
            if "ok" in code and CAN[case["dtype"]] != code["ok"]["dtype"]:
                t.append("cast")
            return t
        return ["ops", case["cls"]] + ["op:" + o for o in case["ops"]]
