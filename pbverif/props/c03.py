"""C03 — time_shift is a band-limited delay with exact zero-fill and no wrap-around."""

from fractions import Fraction as F
import math

from .base import PropBase, err_name
from .. import exact as X
from .. import sigs, dft
from .c01 import tol_time

MANIFEST = dict(
    technique="Lean 4 proof: DFT shift theorem and tone spectrum on ZMod N (Mathlib), zero-fill rule and crop-complement theorem over Q with floor/ceil, broadcasting model + differential correspondence of transforms.time_shift (exact zero pattern per sample element, crop vs uncropped, metadata, values against a float64 DFT oracle)",
    level_text="the zero-fill loop body and the phase factor of time_shift, translated symbolically from the source on every run, are the model's (C03_source_loop); proved: ifft(ramp*fft(x)) is the circular delay for every N and whole shift, the tone factor, position n is zero-filled iff its source n-a lies outside the input (all a, all N), |a|>=N zeroes everything, crop=True keeps exactly the positions zero-filled for no element; tied: per-element zero intervals under every broadcastable shift shape compared exactly with the model, crop result bitwise equal to the uncropped result minus the edges, stamps via the C01 ledger model",
    level_note="PARTIAL on numerics: SciPy's FFT and the complex64 phase ramp are floating point and outside the model; values are validated against an O(N log N) float64 oracle at 4e-6*log2(N) (2e-5 for 32-bit data), not proved. Trusted: Lean kernel + Mathlib (3 std axioms), hand model PbModel/Shift.lean tied by correspondence, NumPy broadcasting/nditer order",
)


class Prop(PropBase):
    id = "C03"
    lean_targets = ["PbProps.C03"]
    theorems = ["Pb.C03." + t for t in ("C03_shift_theorem", "C03_ramp", "C03_tone", "C03_tone_spectrum", "C03_zero_fill",
                                        "C03_zero_counts", "C03_every_element", "C03_full_shift", "C03_crop_eq", "C03_source_loop")]
    trusted_base = ["pbverif/extract.py: symbolic evaluation of the method bodies into PbModel/Gen/Shift.lean (trusted to render the source expressions faithfully; tied to the hand model by the C03_source_* theorem)", "PbModel/Shift.lean + Crop.lean (hand models)", "numpy.fft complex128 oracle; NumPy broadcasting"]
    assumptions = ["0 < |s| <= 1e-8 excluded (the code's allclose early return); finite shifts"]
    rule = ("N in {1,2,3,5,7,8,16,17,31,64,96,1023}; real/complex x 32/64-bit; sample shapes up to rank 3; every shift-array "
            "shape that broadcasts (0-d, full, missing trailing axes, length-1 axes), time Quantities; shifts from "
            "{0,+-1/2,+-1,+-(N-1),+-N,+-(N+3), random fractional}, mixed signs; crop on/off. Non-trivial: some shift non-zero; "
            "distinct by case.")
    explanation = "shift theorem + zero-fill/crop logic proved in Lean; exact zero patterns and oracle values compared"

    def __init__(self):
        import pulsarbat as pb
        import numpy as np
        import astropy.units as u

        self.pb, self.np, self.u = pb, np, u

    def cases(self, rng, tier):
        quick = tier == "quick"
        Ns = [1, 2, 3, 5, 7, 8, 16, 17, 31, 64, 96] + ([] if quick else [1023])
        for i_case in range(450 if quick else 12000):
            N = rng.choice(Ns)
            if i_case % 110 == 5:
                N = rng.choice([4096, 10007, 65536])          # long records
            cls = rng.choice(["Signal", "Signal", "BasebandSignal", "DualPolarizationSignal", "IntensitySignal"])
            dtype = rng.choice(["f4", "f8"]) if not sigs.is_complex(cls) else rng.choice(["c8", "c16"])
            if cls == "Signal":
                sshape = rng.choice([[], [2], [3, 2], [2, 1, 3]])
            else:
                sshape = list(sigs.sample_shape(cls, rng.choice([1, 2, 3]))) + rng.choice([[], [], [2]])
            # a shift shape that broadcasts: take a prefix of the sample shape, some axes set to 1
            r = rng.random()
            if r < 0.3 or not sshape:
                shp = []
            else:
                k = rng.randint(1, len(sshape))
                shp = [d if rng.random() < 0.6 else 1 for d in sshape[:k]]
            n = 1
            for d in shp:
                n *= d
            def val():
                t = rng.random()
                if t < 0.45:
                    return float(rng.choice([0, 0.5, -0.5, 1, -1, N - 1, -(N - 1), N, -N, N + 3, -(N + 3), 2, -3]))
                return round(rng.uniform(-N - 2, N + 2), 3)
            vals = [val() for _ in range(n)]
            if rng.random() < 0.15:
                vals = [abs(v) for v in vals] if rng.random() < 0.5 else [-abs(v) for v in vals]
            yield {"op": "shift", "cls": cls, "N": N, "dtype": dtype, "sshape": sshape, "shp": shp, "vals": vals,
                   "crop": rng.random() < 0.5, "quantity": rng.random() < 0.3, "seed": rng.randrange(1 << 30),
                   # sample rate and the unit a Quantity shift is written in: a few samples at 1 GHz are ~1e-9 in seconds
                   "rate_hz": rng.choice([1e3, 1e3, 1e6, 1e9]), "qunit": rng.choice(["s", "ms", "us", "ns"]),
                   "t0": rng.choice(sigs.T0S + [None])}

        # whole-sample shifts written as times, at rates whose sample period is no exact double (n/rate*rate must come back as n:
        # a conversion through the rounded period 1/rate lands an ulp off for some n, and ceil/floor then moves an edge)
        for rate in ([1e7, 3e3] if tier == "quick" else [1e7, 3e3, 2.5e6, 1.6e9, 44100.0]):
            for nsh in range(-40, 41):
                yield {"op": "shift", "cls": "Signal", "N": 64, "dtype": "f8", "sshape": [], "shp": [], "vals": [float(nsh)],
                       "crop": nsh % 2 == 0, "quantity": True, "seed": 1000 + nsh, "rate_hz": rate,
                       "qunit": ["s", "us", "ms"][nsh % 3], "t0": sigs.T0S[0]}

    # ------------------------------------------------------------- real code
    def _mk(self, case):
        pb, np, u = self.pb, self.np, self.u
        g = np.random.default_rng(case["seed"])
        shape = (case["N"],) + tuple(case["sshape"])
        x = g.standard_normal(shape) + 2.0
        if case["dtype"] in ("c8", "c16"):
            x = x + 1j * (g.standard_normal(shape) + 2.0)
        if case["seed"] % 5 == 0:
            x = x * [1e-9, 1e-12][case["seed"] % 2]          # weak signals: the operation is linear (no absolute tolerances)
        x = x.astype({"f4": "f4", "f8": "f8", "c8": "c8", "c16": "c16"}[case["dtype"]])
        if case["seed"] % 3 == 1 and x.ndim > 1:
            x = np.asfortranarray(x)                 # same values, column-major buffer
        elif case["seed"] % 3 == 2:
            x = np.repeat(x, 2, axis=0)[::2]          # same values through a strided view
        kw = {"pol_type": "linear"} if case["cls"] == "DualPolarizationSignal" else {}
        nchan = case["sshape"][0] if case["cls"] != "Signal" else 1
        return sigs.make(pb, case["cls"], case["N"], case.get("rate_hz", 1e3) * u.Hz, case["t0"], nchan=nchan, data=x, **kw)

    def _shift_arg(self, case, z):
        np, u = self.np, self.u
        arr = np.array(case["vals"], dtype=float).reshape(case["shp"]) if case["shp"] else float(case["vals"][0])
        if case["shp"] and len(case["shp"]) >= 2 and case["seed"] % 2:
            arr = np.asfortranarray(arr) if case["seed"] % 4 == 1 else np.ascontiguousarray(arr.T).T      # other memory layout
        if case["quantity"]:
            q = (arr / z.sample_rate).to(getattr(u, case.get("qunit", "ms")))
            seen = np.asarray((q * z.sample_rate).to_value(u.one), dtype=float)
            return q, seen
        # equivalent spellings of a plain-number shift: ndarray / nested list / tuple / NumPy scalar / Python number
        k = case["seed"] % 5
        if case["shp"]:
            arg = (arr, arr.tolist(), tuple(arr.tolist()) if arr.ndim == 1 else arr, arr, arr)[k]
        else:
            v = float(arr)
            narrow = np.int16(int(v)) if v.is_integer() and abs(v) < 30000 else (np.float32(v) if float(np.float32(v)) == v else arr)
            arg = (arr, np.float64(arr), np.array(arr), int(arr) if v.is_integer() else arr, narrow)[k]
        return arg, np.asarray(arr, dtype=float)

    def run_code(self, case):
        pb, np, u = self.pb, self.np, self.u
        z = self._mk(case)
        arg, seen = self._shift_arg(case, z)
        out = {"seen": [X.rat(X.frac(float(v))) for v in np.atleast_1d(seen).ravel()]}
        # a shift with as many (or more) axes as the signal cannot be broadcast over the sample shape: refused, for zero and
        # non-zero values alike
        rej = []
        for extra in (0, 1):
            for fill in (0.0, 1.5):
                bad = np.full((1,) * (z.ndim + extra), fill)
                try:
                    pb.time_shift(z, bad)
                    rej.append(f"shift of shape {bad.shape} (value {fill}) accepted for a {z.ndim}-dimensional signal")
                except ValueError:
                    pass
                except Exception as e:      # noqa
                    rej.append(f"shift of shape {bad.shape}: {err_name(e)}")
        out["rejects"] = rej
        try:
            y0 = pb.time_shift(z, arg)
            y = pb.time_shift(z, arg, crop=True) if case["crop"] else y0
        except Exception as e:
            out["err"] = err_name(e)
            return out
        N = case["N"]
        # history / joint evaluation (every 4th case): the same call repeated after a decoy call with other metadata must give
        # the same values, and two different shifts of one Dask-backed signal evaluated in ONE graph must each equal the
        # result computed alone
        if case["seed"] % 4 == 0 and not np.allclose(seen, 0):
            try:
                import dask
                import dask.array as da
                zz = type(z).like(z, sample_rate=z.sample_rate * 2) if type(z).__name__ not in ("BasebandSignal", "DualPolarizationSignal") \
                    else type(z).like(z, start_time=None)
                d = pb.time_shift(zz, arg)
                again = pb.time_shift(z, arg)
                out["repeat_same"] = bool(np.array_equal(np.asarray(again.data), np.asarray(y0.data)))
                if case["quantity"] and zz.sample_rate != z.sample_rate:
                    # a time Quantity spans twice as many samples at twice the rate
                    twice = pb.time_shift(z, 2 * seen)
                    out["repeat_same"] = out["repeat_same"] and bool(np.allclose(np.asarray(d.data), np.asarray(twice.data), rtol=1e-5,
                                                                                 atol=1e-5 * float(np.max(np.abs(np.asarray(z.data))))))
                elif zz.sample_rate == z.sample_rate or not case["quantity"]:
                    out["repeat_same"] = out["repeat_same"] and bool(np.array_equal(np.asarray(d.data), np.asarray(y0.data)))
                zd = type(z).like(z, da.from_array(np.asarray(z.data), chunks=(-1,) + (1,) * (z.ndim - 1)))
                arg2 = arg * 0.5 if isinstance(arg, u.Quantity) else np.asarray(arg, dtype=float) * 0.5
                l1, l2 = pb.time_shift(zd, arg), pb.time_shift(zd, arg2)
                a1, a2 = l1.data.compute(scheduler="synchronous"), l2.data.compute(scheduler="synchronous")
                j1, j2 = dask.compute(l1.data, l2.data, scheduler="synchronous")
                out["joint_same"] = bool(np.array_equal(j1, a1) and np.array_equal(j2, a2))
                out["lazy_close"] = bool(np.allclose(a1, np.asarray(y0.data), rtol=1e-4, atol=1e-4 * float(np.max(np.abs(np.asarray(z.data))))))
            except Exception as e:  # noqa
                out["joint_err"] = err_name(e)
        out["same_object"] = bool(y0 is z)
        out["meta"] = bool(type(y0) is type(z) and y0.sample_rate == z.sample_rate and y0.shape == z.shape
                           and sigs.same_dtype(y0.dtype, z.dtype)
                           and ((y0.start_time is None and z.start_time is None) or
                                (y0.start_time is not None and z.start_time is not None and bool(y0.start_time == z.start_time))))
        d0 = np.asarray(y0.data).reshape(N, -1)
        zeros = []
        for e in range(d0.shape[1]):
            zz = np.flatnonzero(d0[:, e] == 0)
            if len(zz) == 0:
                zeros.append([0, 0, 0])
            else:
                zeros.append([int(zz[0]), int(zz[-1]) + 1, int(len(zz))])
        out["zeros"] = zeros
        # values on the non-zeroed region against the oracle
        full = np.broadcast_to(np.asarray(seen, dtype=float).reshape(tuple(case["shp"]) + (1,) * (len(case["sshape"]) - len(case["shp"]))),
                               tuple(case["sshape"])) if case["sshape"] else np.asarray(seen, dtype=float).reshape(())
        ref = dft.delay(np.asarray(z.data).astype(np.complex128 if np.iscomplexobj(z.data) else np.float64), full)
        ref = ref.reshape(N, -1)
        mask = d0 != 0
        scale = float(np.max(np.abs(np.asarray(z.data)))) or 1.0
        out["val_err"] = float(np.max(np.abs(d0 - ref)[mask]) / scale) if mask.any() else 0.0
        if case["crop"]:
            out["crop_len"] = len(y)
            out["crop_start"] = None if y.start_time is None else X.rat(X.time_offset_s(y.start_time, z.start_time))
            # bitwise equality with the uncropped result minus the edges, found by matching content
            yc = np.asarray(y.data)
            k0 = None
            if len(y) > 0 and not out["same_object"]:
                for k in range(0, N - len(y) + 1):
                    if np.array_equal(np.asarray(y0.data)[k:k + len(y)], yc):
                        k0 = k
                        break
            out["crop_at"] = k0
            out["crop_rate_same"] = bool(y.sample_rate == z.sample_rate)
        return out

    # ------------------------------------------------------------- model
    def model_requests(self, case, code):
        def ls(l):
            return ",".join(str(x) for x in l) if l else "-"
        return [f"c03 zero {case['N']} {ls(case['sshape'])} {ls(case['shp'])} {','.join(code['seen'])}"]

    def model_result(self, case, replies):
        r = replies[0].split()
        iv = [[int(a) for a in t.split(":")] for t in r[0].split(",")]
        return {"iv": iv, "start": int(r[1]), "stop": int(r[2])}

    def _allclose0(self, code):
        return all(abs(F(v)) <= F(1, 10**8) for v in code["seen"])

    def agree(self, case, code, model):
        if "err" in code:
            return False
        if self._allclose0(code):
            return code["same_object"]
        for z, (lo, hi) in zip(code["zeros"], model["iv"]):
            if z[2] != hi - lo or (z[2] > 0 and (z[0] != lo or z[1] != hi)):
                return False
        if case["crop"]:
            N = case["N"]
            start = min(model["start"], N)
            stop = max(N + model["stop"], 0)
            n = max(stop - start, 0)
            if code["crop_len"] != n:
                return False
            if n > 0 and code["crop_at"] != start:
                return False
        return True

    # ------------------------------------------------------------- property oracle
    def spec_violation(self, case, code):
        np = self.np
        # (argument checks that the property does not state are observed in `rejects` for the evidence, not judged)
        if "err" in code:
            return f"raised {code['err']}"
        N = case["N"]
        seen = [F(v) for v in code["seen"]]
        if self._allclose0(code):
            if any(v != 0 for v in seen):
                return None            # excluded zone 0 < |s| <= 1e-8
            return None if code["meta"] else "zero shift changed the signal"
        if any(0 < abs(v) <= F(1, 10**8) for v in seen):
            return None                # mixed: some elements inside the excluded zone
        if not code["meta"]:
            return "type / sample_rate / start_time / shape / dtype changed by an uncropped shift"
        if code.get("repeat_same") is False:
            return "the same time_shift call repeated after a call on a signal with other metadata returned different values"
        if code.get("joint_same") is False or code.get("lazy_close") is False:
            return ("two different shifts of one Dask-backed signal evaluated in one graph differ from the results computed alone"
                    if code.get("joint_same") is False else "the Dask-backed result differs from the NumPy-backed one")
        if "joint_err" in code:
            return f"time_shift on the Dask-backed copy raised {code['joint_err']}"
        shp = tuple(case["shp"]) + (1,) * (len(case["sshape"]) - len(case["shp"]))
        arr = np.array([float(v) for v in seen], dtype=object).reshape(shp) if case["sshape"] else None
        per = []
        if case["sshape"]:
            full = np.broadcast_to(np.array(seen, dtype=object).reshape(shp), tuple(case["sshape"])).reshape(-1)
            per = list(full)
        else:
            per = [seen[0]]
        for e, (s, z) in enumerate(zip(per, code["zeros"])):
            if s > 0:
                lo, hi = 0, min(math.ceil(s), N)
            elif s < 0:
                lo, hi = max(N - math.ceil(-s), 0), N
            else:
                lo, hi = 0, 0
            if z[2] != hi - lo or (z[2] > 0 and (z[0] != lo or z[1] != hi)):
                return (f"element {e} (shift {float(s)}): zero-filled positions {z[:2] if z[2] else 'none'} "
                        f"({z[2]} zeros), expected exactly [{lo},{hi})")
        lim = (2e-5 if case["dtype"] in ("f4", "c8") else 4e-6) * max(1.0, math.log2(N + 1))
        if code["val_err"] > lim:
            return f"values differ from the DFT delay by {code['val_err']:.3g} (limit {lim:.3g})"
        if case["crop"]:
            start = min(max([0] + [math.ceil(s) for s in per if s >= 0]), N)
            back = max([0] + [math.ceil(-s) for s in per if s < 0])
            n = max(N - back - start, 0)
            if code["crop_len"] != n:
                return f"cropped length {code['crop_len']}, expected {n}"
            if n > 0 and code["crop_at"] != start:
                return f"cropped data are not the uncropped samples [{start},{start + n})"
            if not code["crop_rate_same"]:
                return "crop changed sample_rate"
            if case["t0"] is not None:
                es = F(start) / F(case.get("rate_hz", 1e3))
                if code["crop_start"] is None or not X.close(F(code["crop_start"]), es, atol=tol_time(2, es)):
                    return f"cropped start advanced by {code['crop_start']} s, expected {start} samples"
            elif code["crop_start"] is not None:
                return "acquired a start time"
        return None

    def nontrivial_key(self, case, code):
        return case if any(v != 0 for v in case["vals"]) else None

    def tags(self, case, code):
        t = [case["cls"], case["dtype"], f"rank={len(case['sshape'])}",
             "shape:" + ("scalar" if not case["shp"] else "full" if case["shp"] == case["sshape"] else "broadcast"),
             "crop" if case["crop"] else "nocrop"]
        if any(abs(v) >= case["N"] for v in case["vals"]):
            t.append("|s|>=N")
        if case["quantity"]:
            t.append("quantity")
        return t
