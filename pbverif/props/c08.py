"""C08 — polyco prediction equals the tempo formula on every entry's span."""

from fractions import Fraction as F
import io
import math

from .base import PropBase, err_name
from .. import exact as X
from .c07 import hx, unhx

MANIFEST = dict(
    technique="Lean 4 proof over Q (polynomial lists: evaluation, minutes->seconds conversion, formal derivative = analytic derivative (Mathlib HasDerivAt), Taylor shift, searchsorted selection on sorted span ends, merge loop covers every span and is tight: intervals run span start to span end, contain only spans and gaps <= tol, and are separated by > tol; range errors) + differential correspondence of PhasePredictor.from_polyco/__call__/f0/phasepol/time_at/intervals on generated tempo-style polyco texts against the model and an exact-Fraction evaluation of the tempo formula on the file's decimal strings",
    level_text="proved: parsed entry evaluates to RPHASE + 60*DT*F0 + sum COEFF(i) DT^(i-1) for every coefficient count and sign; f0 and its derivatives are exact derivatives and commute with the minutes->seconds substitution; phasepol re-centring reproduces the prediction for all x; the searchsorted entry contains the time whenever any entry does (sorted equal spans); a right-sided search does not (C08_right_search_fails: the closing edge before a gap), so the side literal regenerated from the source is pinned; every span is covered by a merged interval and the merged intervals contain nothing but spans and sub-tolerance gaps (exact characterisation); outside all intervals -> ValueError; tied: generated files (1-12 entries, 3-15 coefficients, D/E exponents, RPHASE to 1e12, gaps/overlaps/touching spans) parsed by the real code and compared at 1e-8 cycle",
    level_note="PARTIAL: float polynomial evaluation (validated at 1e-8 cycle) and scipy.optimize.root_scalar inside time_at are outside the model. Trusted: Lean kernel + Mathlib, hand model PbModel/Polyco.lean, astropy Time differences (the double dt the code derives is given to the model exactly)",
)


class Prop(PropBase):
    id = "C08"
    lean_targets = ["PbProps.C08"]
    theorems = ["Pb.C08." + t for t in ("C08_parse_eval", "C08_deriv", "C08_phasepol", "C08_index_contains",
                                        "C08_intervals_cover", "C08_intervals_exact", "C08_range_errors", "C08_source_literals",
                                        "C08_right_search_fails")]
    trusted_base = ["PbModel/Polyco.lean (hand model)", "numpy.polynomial Polynomial.convert/deriv (values validated)",
                    "scipy.optimize.root_scalar (time_at)"]
    assumptions = ["non-negative RPHASE (the parser builds np.int64('0' + digits))", "times at least 2 microseconds from span edges (entry selection runs on double MJDs, 0.6 us resolution)"]
    rule = ("polyco texts with 1-12 entries, span 5..1440 min, 3-15 coefficients (count not a multiple of 3 included), signed "
            "coefficients in D/E notation, F0 0.5-700 Hz, RPHASE up to 1e12 with 4-10 fraction digits; contiguous, overlapping "
            "and gapped spans, random subsets of entries; scalar and array times inside / outside spans; f0 n=0,1; phasepol; "
            "time_at; intervals. Non-trivial: every case; distinct by case.")
    explanation = "polyco algebra proved in Lean; real parser/evaluator compared on generated files"

    def __init__(self):
        import pulsarbat as pb
        import numpy as np
        import astropy.units as u
        from astropy.time import Time

        self.pb, self.np, self.u, self.Time = pb, np, u, Time

    # ------------------------------------------------------------------ generation
    def _coef(self, rng, k, small=False):
        mant = rng.uniform(-9.99, 9.99)
        exp = (rng.randint(-6, 1) if not small else rng.randint(-8, -2)) - 3 * k
        return f"{mant:+.15f}".rstrip("0") + f"{rng.choice(['D', 'e', 'E', 'd'])}{exp:+03d}"

    def cases(self, rng, tier):
        quick = tier == "quick"
        for _ in range(60 if quick else 1600):
            nent = rng.choice([1, 1, 2, 3, 5, 8, 12])
            span = rng.choice([5, 30, 60, 90, 240, 1440])
            ncoef = rng.choice([3, 4, 5, 8, 9, 12, 15])
            f0 = f"{rng.uniform(0.5, 700):.12f}"
            mjd0 = 56499 + rng.randint(0, 300)
            layout = rng.choice(["contiguous", "contiguous", "gaps", "overlap", "mixed", "smallgap"])
            coherent = rng.random() < 0.5
            rph0 = rng.randint(0, 10**rng.choice([3, 9, 12]))
            entries = []
            pos = F(0)
            for k in range(nent):
                step = {"contiguous": F(span), "gaps": F(span) * rng.choice([1, 2, 3]),
                        "overlap": F(span) * F(rng.choice([1, 2, 3]), 4) * 2 if rng.random() < 0.5 else F(span),
                        "mixed": F(span) * rng.choice([1, 1, 2]),
                        # gaps around the 1 ms merge tolerance (file resolution is 0.86 us)
                        "smallgap": F(span) + F(rng.choice([0, 0.0005, 0.0009, 0.0012, 0.002, 1.0, 30.0, -0.0005])) / 60}[layout]
                tmid_min = pos + F(span, 2)
                pos += step
                mjd = F(mjd0) + tmid_min / 1440
                mjd_s = f"{float(mjd):.11f}"
                if coherent:
                    # reference phases follow F0 exactly (6 decimals), coefficients tiny: phase is increasing across entries
                    val = F(rph0) + F(f0) * (F(mjd_s) - mjd0) * 86400
                    rph = f"{int(val)}.{int((val - int(val)) * 10**6):06d}"
                else:
                    # fractions next to 0 and 1 included: integer and fractional digits are parsed separately
                    fr = rng.choice([f"{rng.randint(0, 10**rng.choice([4, 6, 10])):06d}"] * 2
                                    + ["999999", "000001", "9999999999", "0000000001", "5", "0", "499999", "500001"])
                    rph = f"{rng.randint(0, 10**rng.choice([3, 9, 12]))}.{fr}"
                coeffs = [self._coef(rng, i, small=coherent) for i in range(ncoef)]
                entries.append({"mjd": mjd_s, "rphase": rph, "coeffs": coeffs})
            if rng.random() < 0.2 and nent > 2:
                entries = rng.sample(entries, rng.randint(1, nent))
            queries = []
            for _ in range(6):
                k = rng.randrange(len(entries))
                r = rng.random()
                if r < 0.7:
                    off = rng.uniform(-span * 30 + 1e-3, span * 30 - 1e-3)
                elif r < 0.85:
                    off = rng.choice([-1, 1]) * (span * 30 + rng.choice([1e-3, 1.0, 600.0, span * 200.0]))
                else:
                    off = rng.choice([0.0, 1.0, -1.0, span * 30.0, -span * 30.0, span * 30.0])      # also exactly on the span's edges
                queries.append([k, off])
            # instants where the predicted phase is just short of (or past) a half-integer: there the count/fraction split of a large
            # reference phase spills into the next count, and the rounding error of RPHASE + poly must survive the renormalisation
            for _ in range(3):
                k = rng.randrange(len(entries))
                e = entries[k]
                cs = [F(c.lower().replace("d", "e")) for c in e["coeffs"]]

                def total(off_s):
                    DT = F(off_s) / 60
                    return F(e["rphase"]) + 60 * DT * F(f0) + sum(c * DT**i for i, c in enumerate(cs))
                off = rng.uniform(-span * 20.0, span * 20.0)
                target = F(1, 2) + F(rng.choice([-3, -1, 2, -6, 5]), 10**5)
                finst = F(f0) + (cs[1] / 60 if len(cs) > 1 else 0)
                for _it in range(3):
                    ph = total(off)
                    miss = (target - (ph - (ph.numerator // ph.denominator))) % 1
                    if miss > F(1, 2):
                        miss -= 1
                    off = float(F(off) + miss / finst) if finst != 0 else off
                if abs(off) < span * 30 - 1e-3:
                    queries.append([k, off])
            pp = [[rng.randrange(len(entries)), rng.uniform(-span * 30 + 1, span * 30 - 1)] for _ in range(40)]
            # reference times just inside a power of two seconds from TMID: there 1 - dt and -1 - dt fall into different
            # binades, which is where re-centring by shifting the polynomial's domain loses the scale (F17)
            k = 4
            while 2 ** k < span * 30 - 2:
                for sgn in (1, -1):
                    pp += [[rng.randrange(len(entries)), sgn * (2 ** k - rng.random())] for _ in range(3)]
                k += 1
            subset = sorted(rng.sample(range(len(entries)), rng.randint(1, len(entries)))) if len(entries) > 1 else [0]
            yield {"op": "polyco", "coherent": coherent, "pp": pp, "subset": subset, "f0": f0, "span": span, "ncoef": ncoef, "entries": entries, "queries": queries}

    def _text(self, case):
        lines = []
        for e in case["entries"]:
            lines.append(f"{'0531+21':<10} 17-Jan-16   000000.00   {e['mjd']:>19}{71.0:>21.6f}  0.000  -6.000")
            lines.append(f"{e['rphase']:>20}{case['f0']:>18}{'8':>5}{case['span']:>6}{case['ncoef']:>5}{1400.0:>10.3f}")
            cs = e["coeffs"]
            for i in range(0, len(cs), 3):
                lines.append("".join(f"{c:>25}" for c in cs[i:i + 3]))
        return "\n".join(lines) + "\n"

    # ------------------------------------------------------------------ real code
    def run_code(self, case):
        pb, np, u, Time = self.pb, self.np, self.u, self.Time
        try:
            p = pb.PhasePredictor.from_polyco(io.StringIO(self._text(case)))
        except Exception as e:
            return {"parse_err": err_name(e)}
        out = {"n": len(p)}
        # table order = sorted by tmid; map to the case's entries through the mjd strings
        order = sorted(range(len(case["entries"])), key=lambda i: F(case["entries"][i]["mjd"]))
        out["order"] = order
        t_first = p["tmid"][0]
        ivs = p.intervals
        out["intervals"] = [[X.rat(X.time_offset_s(a, t_first)), X.rat(X.time_offset_s(b, t_first))] for a, b in ivs]
        ends = [float((tm + p["span"][0] / 2 - t_first).to_value(u.s)) for tm in p["tmid"]]

        def pick_x(t):
            """offset for the phasepol comparison that keeps t + x in the same entry (no span end in between)"""
            tr = float((t - t_first).to_value(u.s))
            for x in (0.37, -0.37, 0.011, -0.011):
                lo, hi = min(tr, tr + x) - 1e-5, max(tr, tr + x) + 1e-5
                if not any(lo <= e <= hi for e in ends):
                    return x
            return None

        res = []
        for k, off in case["queries"]:
            row_pos = order.index(k)
            # the probe instant is built from the file's decimal TMID text (parsed exactly by astropy), not from the predictor's
            # own idea of TMID: DT is then known independently of how the library parsed the entry
            t = Time(case["entries"][k]["mjd"], format="mjd", precision=9) + off * u.s
            q = {"t_rel": X.rat(X.time_offset_s(t, t_first)), "off": hx(float(off))}
            try:
                idx, dt = p._get_index_and_dt(t)
                q["idx"], q["dt"] = int(idx), hx(float(dt))
                q["own_entry"] = bool(int(idx) == row_pos)       # the probe was evaluated from the entry it was built around
                ph = p(t)
                v = ph.view(np.ndarray)
                q["phase"] = [hx(float(v["int"])), hx(float(v["frac"]))]
                q["type"] = type(ph).__name__
                q["f0"] = [hx(float(p.f0(t).to_value(u.cycle / u.s))), hx(float(p.f0(t, 1).to_value(u.cycle / u.s**2)))]
                pol, ref = p.phasepol(t)
                x = pick_x(t)
                lhs = (ref + pol(x) * u.cycle) - p(t + x * u.s) if x is not None else 0 * u.cycle
                q["phasepol_err"] = abs(float(lhs.value))
                q["phasepol_a"] = float(pol(0.0))
                if case.get("coherent") and abs(off) < case["span"] * 30 - 0.1:
                    tt = p.time_at(ph, guess=t + 0.01 * u.s)
                    q["time_at_err_cycles"] = abs(float((p(tt) - ph).value))
                    q["time_at_dt"] = abs(float((tt - t).to_value(u.s)))
                arr = p(Time([t, t]))
                q["array_same"] = bool(np.all(arr == ph))
                # the same instant expressed on other time scales
                worst_ph, worst_f = 0.0, 0.0
                for tt_ in (t.tai, t.tt):       # (not TDB: elapsed TDB differs physically from elapsed UTC)
                    worst_ph = max(worst_ph, abs(float((p(tt_) - ph).value)))
                    f_ref = float(p.f0(t).to_value(u.cycle / u.s))
                    worst_f = max(worst_f, abs(float(p.f0(tt_).to_value(u.cycle / u.s)) - f_ref) / abs(f_ref))
                    _, ref2 = p.phasepol(tt_)
                q["scale_phase_err"], q["scale_f0_err"] = worst_ph, worst_f
            except Exception as e:
                q["err"] = err_name(e)
            res.append(q)
        out["q"] = res
        # a subset of the entries taken by indexing the table (rows in sorted order), after p.intervals was computed
        try:
            sub = case.get("subset")
            if sub and len(sub) <= len(p):
                q = p[np.array(sub)]
                out["sub_intervals"] = [[X.rat(X.time_offset_s(a, t_first)), X.rat(X.time_offset_s(b, t_first))] for a, b in q.intervals]
                tq = q["tmid"][len(q) // 2] + 0.75 * u.s
                out["sub_same"] = bool(q(tq) == p(tq)) and bool(q.f0(tq) == p.f0(tq))
                out["sub_n"] = len(q)
        except Exception as e:
            out["sub_err"] = err_name(e)
        # phasepol scan: many reference times, worst deviation from the prediction at x = +-0.37 s
        worst = [0.0, None, None]
        try:
            for k, off in case.get("pp", []):
                row_pos = order.index(k)
                t = p["tmid"][row_pos] + off * u.s
                pol, ref = p.phasepol(t)
                x = pick_x(t)
                if x is None:
                    continue
                err = abs(float(((ref + pol(x) * u.cycle) - p(t + x * u.s)).value))
                if err > worst[0]:
                    worst = [err, row_pos, off]
            out["pp_worst"] = worst
        except Exception as e:
            out["pp_worst"] = [err_name(e), None, None]
        # an array mixing one time inside and one outside every span must raise
        try:
            far = ivs[-1][1] + 7 * u.day
            p(Time([p["tmid"][0], far]))
            out["mixed_array"] = "returned"
        except Exception as e:
            out["mixed_array"] = err_name(e)
        try:
            arr_ph = p(p["tmid"] + 1.5 * u.s)
            out["array_multi"] = all(bool(arr_ph[i] == p(tm + 1.5 * u.s)) for i, tm in enumerate(p["tmid"]))
            f_arr = p.f0(p["tmid"] + 1.5 * u.s, 1)
            out["array_f0"] = bool(np.all(f_arr == u.Quantity([p.f0(tm + 1.5 * u.s, 1) for tm in p["tmid"]])))
            # arrays in arbitrary order: first and last element from one entry, other entries in between, descending runs,
            # repeated entries, and a 2-D shape
            k = len(p)
            rows = [0] + list(range(k - 1, -1, -1)) + [0, k // 2, 0]
            offs = [(-1) ** j * (0.5 + j) for j in range(len(rows))]
            ts = [p["tmid"][r] + o * u.s for r, o in zip(rows, offs)]
            tarr = Time(ts)
            ph_a = p(tarr)
            out["array_multi"] = out["array_multi"] and all(bool(ph_a[i] == p(t)) for i, t in enumerate(ts))
            for nn in (0, 1):
                fa = p.f0(tarr, nn)
                out["array_f0"] = out["array_f0"] and bool(np.all(fa == u.Quantity([p.f0(t, nn) for t in ts])))
            if len(ts) % 2 == 0:
                t2 = tarr.reshape(2, -1)
                ph2 = p(t2)
                out["array_multi"] = out["array_multi"] and ph2.shape == t2.shape and \
                    all(bool(ph2.ravel()[i] == p(t)) for i, t in enumerate(ts))
        except Exception as e:
            out["array_multi"] = err_name(e)
        if case.get("coherent"):
            try:
                a, b = ivs[0][0], ivs[-1][1]
                for nm, ph in (("above", p(b) + 1000 * u.cycle), ("below", p(a) - 1000 * u.cycle)):
                    try:
                        p.time_at(ph, guess=p["tmid"][0])
                        out["time_at_" + nm] = "returned"
                    except Exception as e:
                        out["time_at_" + nm] = err_name(e)
                if len(ivs) == 1:
                    t = p["tmid"][len(p) // 2] + 1.234 * u.s
                    ph = p(t)
                    tt = p.time_at(ph)
                    out["time_at_noguess"] = [abs(float((p(tt) - ph).value)), abs(float((tt - t).to_value(u.s)))]
            except Exception as e:
                out["time_at_range_err"] = err_name(e)
        return out

    # ------------------------------------------------------------------ model
    def _entries_rel(self, case, order):
        """(tmid, span) in seconds relative to the first (sorted) entry, exact from the decimal strings"""
        mj = [F(case["entries"][i]["mjd"]) for i in order]
        return [((m - mj[0]) * 86400, F(case["span"]) * 60) for m in mj]

    def model_requests(self, case, code):
        if "parse_err" in code:
            return []
        ents = self._entries_rel(case, code["order"])
        es = ",".join(f"{X.rat(a)}:{X.rat(b)}" for a, b in ents)
        reqs = [f"c08 intervals 1/1000 {es}"]
        for q in code["q"]:
            reqs.append(f"c08 index 1/1000 {es} {q['t_rel']}")
            if "idx" in q:
                e = case["entries"][code["order"][q["idx"]]]
                ri, _, rf = e["rphase"].partition(".")
                cs = ",".join(X.rat(F(c.lower().replace("d", "e"))) for c in e["coeffs"])
                dt = X.rat(X.frac(unhx(q["dt"])))
                reqs.append(f"c08 eval {int(ri)} {X.rat(F('0.' + rf))} {X.rat(F(case['f0']))} {cs} {dt} 0")
                reqs.append(f"c08 eval {int(ri)} {X.rat(F('0.' + rf))} {X.rat(F(case['f0']))} {cs} {dt} 1")
        return reqs

    def model_result(self, case, replies):
        out = {"intervals": [t.split(":") for t in replies[0].split(",")] if replies and replies[0] != "-" else [],
               "rest": replies[1:]}
        return out

    def agree(self, case, code, model):
        if "parse_err" in code:
            return False
        if len(code["intervals"]) != len(model["intervals"]):
            return False
        for (a, b), (ma, mb) in zip(code["intervals"], model["intervals"]):
            if abs(F(a) - F(ma)) > F(1, 10**6) or abs(F(b) - F(mb)) > F(1, 10**6):
                return False
        it = iter(model["rest"])
        ents = self._entries_rel(case, code["order"])
        edges = [a - b / 2 for a, b in ents] + [a + b / 2 for a, b in ents]
        for q in code["q"]:
            r = next(it).split()
            e0 = next(it).split() if "idx" in q else None
            e1 = next(it).split() if "idx" in q else None
            # the code selects entries on double MJDs (0.6 us resolution): within 2 us of a span edge either neighbour is acceptable
            if min(abs(F(q["t_rel"]) - e) for e in edges) < F(2, 10**6):
                continue
            if r[0] == "err":
                if q.get("err") != "ValueError":
                    return False
                continue
            if "err" in q or int(r[1]) != q["idx"]:
                return False
            got = F(unhx(q["phase"][0])) + F(unhx(q["phase"][1]))
            if abs(got - F(e0[0])) > F(1, 10**8):
                return False
            f0 = F(e0[1])
            if abs(F(unhx(q["f0"][0])) - f0) > abs(f0) * F(1, 10**10) + F(1, 10**12):
                return False
            f1 = F(e1[1])
            if abs(F(unhx(q["f0"][1])) - f1) > abs(f1) * F(1, 10**8) + F(1, 10**14):
                return False
        return True

    # ------------------------------------------------------------------ property oracle
    def spec_violation(self, case, code):
        if "parse_err" in code:
            return f"from_polyco raised {code['parse_err']}"
        if code["n"] != len(case["entries"]):
            return "number of entries"
        ents = self._entries_rel(case, code["order"])
        # expected intervals: union of spans merged where they touch/overlap (1 ms)
        spans = sorted((a - b / 2, a + b / 2) for a, b in ents)
        merged = []
        for s, e in spans:
            if merged and s <= merged[-1][1] + F(1, 1000):
                merged[-1][1] = max(merged[-1][1], e)
            else:
                merged.append([s, e])
        if len(merged) != len(code["intervals"]) or any(
                abs(F(a) - m[0]) > F(1, 10**6) or abs(F(b) - m[1]) > F(1, 10**6) for (a, b), m in zip(code["intervals"], merged)):
            return f"intervals {[(float(F(a)), float(F(b))) for a, b in code['intervals']]} != merged spans {[(float(a), float(b)) for a, b in merged]}"
        for k in ("time_at_above", "time_at_below"):
            if code.get(k, "ValueError") != "ValueError":
                return f"time_at for a phase {k[8:]} every span: {code[k]} instead of ValueError"
        if "time_at_range_err" in code:
            return f"time_at (no guess) raised {code['time_at_range_err']}"
        if "time_at_noguess" in code and (code["time_at_noguess"][0] > 1e-6 or code["time_at_noguess"][1] > 1e-3):
            return f"time_at without a guess does not invert the prediction {code['time_at_noguess']}"
        if code.get("mixed_array") != "ValueError":
            return f"array with a time outside every span: {code.get('mixed_array')} instead of ValueError"
        if code.get("array_multi") is not True or code.get("array_f0") is not True:
            return f"array-valued call over several entries differs from scalar calls ({code.get('array_multi')}, {code.get('array_f0')})"
        if "sub_err" in code:
            return f"indexing a subset of the entries raised {code['sub_err']}"
        if "sub_intervals" in code:
            sub_spans = sorted((ents[i][0] - ents[i][1] / 2, ents[i][0] + ents[i][1] / 2) for i in case["subset"])
            sm = []
            for s_, e_ in sub_spans:
                if sm and s_ <= sm[-1][1] + F(1, 1000):
                    sm[-1][1] = max(sm[-1][1], e_)
                else:
                    sm.append([s_, e_])
            got = code["sub_intervals"]
            if len(got) != len(sm) or any(abs(F(a) - m[0]) > F(1, 10**6) or abs(F(b) - m[1]) > F(1, 10**6) for (a, b), m in zip(got, sm)):
                return f"intervals of the subset {case['subset']} are {[(float(F(a)), float(F(b))) for a, b in got]}, expected {[(float(a), float(b)) for a, b in sm]}"
            if not code.get("sub_same"):
                return "a predictor restricted to a subset of entries predicts differently inside one of its entries"
        f0 = F(case["f0"])
        w = code.get("pp_worst")
        if w and w[1] is not None:
            if isinstance(w[0], str):
                return f"phasepol raised {w[0]} inside a span"
            mag = abs(float(f0) * w[2])
            if w[0] > 1e-8 and mag >= 2**23 and w[0] <= mag / 2**50:
                return (f"float64 evaluation above 2^23 cycles: phasepol at dt={w[2]} s, F0={float(f0)} Hz differs from the "
                        f"prediction by {w[0]:.3g} cycle (<= 2^-50 of the {mag:.3g}-cycle F0 term)")
            if w[0] > 1e-8:
                return f"phasepol does not reproduce the prediction (error {w[0]:.3g} at dt={w[2]} s in entry {w[1]})"
        for q in code["q"]:
            t = F(q["t_rel"])
            margin = min(min(abs(t - s), abs(t - e)) for s, e in spans)
            if margin < F(2, 10**6):
                # on (or within the MJD resolution of) a span edge either neighbour or a refusal is acceptable — but an entry that
                # is used has to be one whose span reaches the instant (the entry beyond a gap does not)
                if "err" not in q and "idx" in q:
                    s_i, e_i = ents[q["idx"]][0] - ents[q["idx"]][1] / 2, ents[q["idx"]][0] + ents[q["idx"]][1] / 2
                    if not (s_i - F(3, 10**6) <= t <= e_i + F(3, 10**6)):
                        return f"entry {q['idx']} used for t={float(t)} s (a span edge) does not contain it"
                continue
            inside = any(s <= t <= e for s, e in spans)
            if not inside and any(a <= t <= b for a, b in merged):
                continue  # inside a sub-millisecond gap that the 1 ms tolerance merges: either behaviour is acceptable
            if not inside:
                if q.get("err") != "ValueError":
                    return f"time {float(t)} s outside every span gave {q.get('err', 'a phase')}"
                continue
            if "err" in q:
                return f"time {float(t)} s inside a span raised {q['err']}"
            s_i, e_i = ents[q["idx"]][0] - ents[q["idx"]][1] / 2, ents[q["idx"]][0] + ents[q["idx"]][1] / 2
            if not (s_i - F(1, 10**6) <= t <= e_i + F(1, 10**6)):
                return f"entry {q['idx']} used for t={float(t)} s does not contain it"
            e = case["entries"][code["order"][q["idx"]]]
            DT = X.frac(unhx(q["dt"])) / 60
            cs = [F(c.lower().replace("d", "e")) for c in e["coeffs"]]
            want = F(e["rphase"]) + 60 * DT * f0 + sum(c * DT**i for i, c in enumerate(cs))
            got = F(unhx(q["phase"][0])) + F(unhx(q["phase"][1]))
            mag = abs(60 * DT * f0)
            big = mag >= 2**23
            if q["type"] == "Phase" and big and F(1, 10**8) < abs(got - want) <= mag / 2**50:
                return (f"float64 evaluation above 2^23 cycles: phase at DT={float(DT)} min, F0={float(f0)} Hz differs from the "
                        f"tempo formula by {float(got - want):.3g} cycle (<= 2^-50 of the {float(mag):.3g}-cycle F0 term)")
            if q["type"] != "Phase" or abs(got - want) > F(1, 10**8):
                return f"phase at DT={float(DT)} min is {float(got)!r}, tempo formula gives {float(want)!r} (diff {float(got - want):.3g})"
            if "off" in q and code["order"][q["idx"]] == q.get("k", code["order"][q["idx"]]) and not big:
                # the same with DT taken from the file's decimal TMID and the probe offset (independent of the library's parsing
                # of TMID; astropy's own time arithmetic adds < 1e-9 cycle here, hence the wider bound)
                DT2 = X.frac(unhx(q["off"])) / 60
                want2 = F(e["rphase"]) + 60 * DT2 * f0 + sum(c * DT2**i for i, c in enumerate(cs))
                if q.get("own_entry") and abs(got - want2) > F(1, 10**7):
                    return (f"phase {float(abs(got - want2)):.3g} cycle away from the tempo formula evaluated at DT = t - TMID with TMID "
                            f"as written in the file (entry {q['idx']})")
            wf = f0 + sum(i * c * DT**(i - 1) for i, c in enumerate(cs) if i >= 1) / 60
            if abs(F(unhx(q["f0"][0])) - wf) > abs(wf) * F(1, 10**10):
                return f"f0 = {unhx(q['f0'][0])!r}, derivative of the formula = {float(wf)!r}"
            wf1 = sum(i * (i - 1) * c * DT**(i - 2) for i, c in enumerate(cs) if i >= 2) / 3600
            if abs(F(unhx(q["f0"][1])) - wf1) > abs(wf1) * F(1, 10**8) + F(1, 10**14):
                return f"f0(n=1) = {unhx(q['f0'][1])!r}, second derivative = {float(wf1)!r}"
            if big and 1e-8 < q["phasepol_err"] <= float(mag) / 2**50 and 0 <= q["phasepol_a"] < 1:
                return (f"float64 evaluation above 2^23 cycles: phasepol at DT={float(DT)} min, F0={float(f0)} Hz differs from the "
                        f"prediction by {q['phasepol_err']:.3g} cycle (<= 2^-50 of the {float(mag):.3g}-cycle F0 term)")
            if q["phasepol_err"] > 1e-8 or not (0 <= q["phasepol_a"] < 1):
                return f"phasepol does not reproduce the prediction (error {q['phasepol_err']:.3g})"
            if q.get("time_at_err_cycles", 0) > 1e-6 or q.get("time_at_dt", 0) > 1e-3:
                return f"time_at does not invert the prediction ({q['time_at_err_cycles']:.3g} cycles, {q['time_at_dt']:.3g} s)"
            if not q["array_same"]:
                return "array-valued call differs from the scalar call"
            if q.get("scale_phase_err", 0) > 1e-6 or q.get("scale_f0_err", 0) > 1e-9:
                return (f"the same instant given on the TAI/TT scale predicts a phase {q['scale_phase_err']:.3g} cycles away "
                        f"(f0 relative {q['scale_f0_err']:.3g}) from the UTC call")
        return None

    def classify(self, case, why):
        if why.startswith("float64 evaluation above 2^23 cycles"):
            return "float64-eval-above-2^23-cycles"
        return None

    def nontrivial_key(self, case, code):
        return case

    def tags(self, case, code):
        t = [f"entries={len(case['entries'])}", f"ncoef={case['ncoef']}", f"span={case['span']}"]
        if "q" in code:
            t += ["outside" if q.get("err") == "ValueError" else "inside" for q in code["q"]]
        return t
