"""C15 — Phase ordering, reductions and decimal I/O use the full two-part value."""

from fractions import Fraction as F
import math
import struct

from .base import PropBase, err_name
from .. import exact as X
from .c07 import hx, unhx

MANIFEST = dict(
    technique="Lean 4 proof: comparison difference has the exact sign for normalised phases under the standard model of binary64 (with a kernel-decided witness that the hypothesis is needed); digit-moving exponent handling preserves the decimal value for every digit string and exponent; the parsed parts add up to the string's value with the fraction in [0,1); fixed-precision rendering is the exact value rounded to the digits shown for every precision + differential correspondence of _parse_string/from_string/to_string/format and of comparisons/min/max/argmin/argmax/sort/argsort/ptp against the model and exact rational oracles",
    level_text="proved: C15_compare_exact, C15_shift_value, C15_parse_value, C15_format_digits, C15_roundtrip; tied: every generated string's (count, frac) compared bit-exactly with float() of the model's digit strings, every to_string(precision=p) compared character for character with the model's rendering, every pairwise comparison compared with the rn53 evaluation of the model's difference; reductions (argsort/sort/min/max/argmin/argmax/ptp): their source expressions are regenerated on every run and tied (C15_source_reductions), the flat-index round trip is proved (C15_unravel), the values are validated against exact rational ordering (also on transposed and axis-swapped views)",
    level_note="PARTIAL: ordering theorem is conditional on the standard model (IEEE hardware assumed to satisfy it); the (count, fraction) sort key of argsort/sort is proved exact for normalised parts (C15_sort_key); argmin/argmax/ptp and the default repr-based to_string() are validated only; Python float()/'%.Nf' are taken as correctly rounded. Trusted: Lean kernel + Mathlib, hand model PbModel/PhaseStr.lean",
)

TWO52 = F(2) ** 52
EPS = F(1, 2 ** 52)


class Prop(PropBase):
    id = "C15"
    lean_targets = ["PbProps.C15"]
    theorems = ["Pb.C15." + t for t in ("C15_compare_exact", "C15_unnormalised_witness", "C15_shift_value",
                                        "C15_parse_value", "C15_format_digits", "C15_roundtrip", "C15_sort_key", "C15_sort_key_list",
                                        "C15_unravel", "C15_source_reductions")]
    trusted_base = ["PbModel/PhaseStr.lean (hand model)", "CPython float(str) and '%.Nf' correctly rounded",
                    "standard model of binary64 (hypothesis of the ordering theorem)"]
    assumptions = ["counts |n| <= 2^52"]
    rule = ("strings: sign x integer digits (0-18, leading zeros) x optional '.' x fraction digits (0-30) x exponent E/e/D/d with "
            "sign and 0-25 x optional j x surrounding blanks, plus malformed strings; formatting: phases with counts to 2^52, "
            "precision 0..20 and default, real and imaginary, negative; ordering: arrays (1-D, 2-D, every axis) with exact ties, "
            "near-ties of 1e-18..1e-12 cycle at counts up to 2^52, mixed signs. Non-trivial: every case; distinct by case.")
    explanation = "string and ordering theorems in Lean; bit-exact / character-exact correspondence; exact oracles"

    def __init__(self):
        import numpy as np
        import astropy.units as u
        from pulsarbat.pulsar import phase as ph

        self.np, self.u, self.ph = np, u, ph

    # ------------------------------------------------------------------ generation
    def _digits(self, rng, lo, hi):
        n = rng.randint(lo, hi)
        return "".join(rng.choice("0123456789") for _ in range(n))

    def _string(self, rng):
        ip = self._digits(rng, 0, 16)
        if rng.random() < 0.3:
            ip = rng.choice(["0", "00", "", "5", "12"]) if rng.random() < 0.7 else "0" * rng.randint(1, 3) + ip
        fp = self._digits(rng, 0, 30) if rng.random() < 0.8 else ""
        dot = "." if fp or rng.random() < 0.3 else ""
        if not ip and not fp:
            ip = "7"
            dot = ""
        s = ip + dot + fp
        if rng.random() < 0.45:
            e = rng.randint(-25, 25) if rng.random() < 0.6 else rng.choice([0, 1, -1, len(fp), -len(ip), -len(ip) - 2, len(fp) + 3])
            s += rng.choice("eEdD") + rng.choice(["", "+"] if e >= 0 else [""]) + str(e)
        s = rng.choice(["", "", "-", "+"]) + s
        if rng.random() < 0.15:
            s += rng.choice("jJ")
        if rng.random() < 0.1:
            s = " " + s + "  "
        return s

    def cases(self, rng, tier):
        quick = tier == "quick"
        for s in ["0.5", "5", "5.0", "1e3", "-0.18e-2", "0.0", "0", ".5", "5.", "0.5j", "9876543210.0123456789",
                  "9876543210.0123456789e-3", "1.5D2", "-0", "+.25e1", "12345678901234.56789012345678901234"]:
            yield {"op": "parse", "s": s}
        for _ in range(900 if quick else 40000):
            yield {"op": "parse", "s": self._string(rng)}
        for s in ["", "j", "+", "1.2.3", "abc", "1e", "--5", "1e1.5", ".", "e5", "0x10"]:
            yield {"op": "parse", "s": s, "malformed": True}
        for _ in range(500 if quick else 20000):
            c = float(rng.choice([0, 1, 3, -3, 9876543210, rng.randint(-10**6, 10**6), rng.randint(-2**52, 2**52)]))
            f = rng.choice([0.0, 0.2, -0.2, 0.0123456789, 0.05, -0.05, 0.45, -0.5, 0.96, 0.25, 0.249999999, 1e-17, 0.999e-3,
                            rng.uniform(-0.5, 0.5), rng.uniform(-0.5, 0.5),
                            # short decimal fractions (the default rendering special-cases 1-2 digit strings)
                            rng.randint(-5, 5) / 10, rng.randint(-50, 50) / 100, rng.randint(-50, 50) / 100, rng.randint(-500, 500) / 1000,
                            rng.randint(-24, 24) / 100, rng.choice([1, -1]) * 10.0 ** -rng.randint(3, 20)])
            yield {"op": "fmt", "c": hx(c), "f": hx(f), "p": rng.choice([None, None, None, 0, 1, 2, 3, 5, 9, 12, 15, 18, 20, rng.randint(0, 20)]),
                   "imag": rng.random() < 0.1}
        for _ in range(300 if quick else 12000):
            n = rng.choice([2, 3, 5, 8])
            base = float(rng.choice([0, 1, -7, 10**6, 2**40, 2**52 - 3, -(2**51)]))
            vals = []
            for _ in range(n):
                r = rng.random()
                if r < 0.3 and vals:
                    v = list(rng.choice(vals))                      # exact tie
                elif r < 0.7 and vals:
                    b = rng.choice(vals)
                    v = [b[0], b[1] + rng.choice([1, -1]) * 10 ** rng.uniform(-18, -12)]   # near-tie below 1 ulp of the count
                else:
                    v = [base + rng.randint(-2, 2), rng.uniform(-0.5, 0.5)]
                vals.append([float(v[0]), float(v[1])])
            shape2 = rng.random() < 0.3 and n % 2 == 0
            if shape2 and rng.random() < 0.5:
                shape2 = "T3" if n % 4 == 0 and rng.random() < 0.4 else "T"      # views in another memory order
            yield {"op": "order", "vals": [[hx(a), hx(b)] for a, b in vals], "shape2": shape2, "axis": rng.choice([0, -1, None])}

    # ------------------------------------------------------------------ real code
    def run_code(self, case):
        np, ph = self.np, self.ph
        if case["op"] == "parse":
            s = case["s"]
            out = {}
            try:
                c, f = ph._parse_string(s)
                out["parts"] = [hx(complex(c).real), hx(complex(c).imag), hx(complex(f).real), hx(complex(f).imag)]
            except Exception as e:
                out["parse_err"] = err_name(e)
            try:
                p = ph.Phase.from_string(s)
                v = p.view(np.ndarray)
                out["phase"] = [hx(float(v["int"])), hx(float(v["frac"])), bool(p.imaginary)]
            except Exception as e:
                out["from_err"] = err_name(e)
            return out
        if case["op"] == "fmt":
            c, f = unhx(case["c"]), unhx(case["f"])
            P = ph.Phase(1j * c, 1j * f) if case["imag"] else ph.Phase(c, f)
            v = P.view(np.ndarray)
            out = {"pair": [hx(float(v["int"])), hx(float(v["frac"]))]}
            try:
                # the unit left out, or named explicitly in one of its equal spellings (the object, the string, a product)
                uk = [{}, {}, {"unit": self.u.cycle}, {"unit": "cycle"}, {"unit": (1 * self.u.cycle / self.u.s * self.u.s).unit}][int(unhx(case["f"]).hex()[-2:], 16) % 5]
                s = P.to_string(**uk) if case["p"] is None else P.to_string(precision=case["p"], **uk)
                out["s"] = str(s)
                if case["p"] is not None and not case["imag"]:
                    out["fmt"] = format(P, f".{case['p']}f")
                back = ph.Phase.from_string(str(s))
                out["back_equal"] = bool(back == P)
                bv = back.view(np.ndarray)
                out["back"] = [hx(float(bv["int"])), hx(float(bv["frac"])), bool(back.imaginary)]
            except Exception as e:
                out["err"] = err_name(e)
            return out
        vals = [(unhx(a), unhx(b)) for a, b in case["vals"]]
        P = ph.Phase(np.array([a for a, _ in vals]), np.array([b for _, b in vals]))
        v = P.view(np.ndarray)
        pairs = [[hx(float(a)), hx(float(b))] for a, b in zip(v["int"].ravel(), v["frac"].ravel())]
        if case["shape2"] == "T":
            # a transposed view (not C-contiguous): element [i, j] is element j*2+i of the buffer
            m = len(pairs) // 2
            P = P.reshape(m, 2).T
            pairs = [pairs[j * 2 + i] for i in range(2) for j in range(m)]        # logical (row-major) order of the view
        elif case["shape2"] == "T3":
            # a 3-D array with its first and last axes swapped (a view as well)
            m = len(pairs) // 4
            P = P.reshape(2, m, 2).swapaxes(0, 2)
            pairs = [pairs[k * (m * 2) + j * 2 + i] for i in range(2) for j in range(m) for k in range(2)]
        elif case["shape2"]:
            P = P.reshape(2, -1)
        ax = case["axis"]
        out = {"pairs": pairs}
        try:
            n = len(pairs)
            flat = P.ravel()
            cmp = []
            for i in range(n):
                for j in range(n):
                    a, b = flat[i], flat[j]
                    cmp.append([bool(a < b), bool(a <= b), bool(a == b), bool(a != b), bool(a >= b), bool(a > b)])
            out["cmp"] = cmp
            # a Phase compared with a plain number / Quantity / array, in both operand orders, by operator and by explicit
            # ufunc call: decided on the exact value of the Phase against the exact value of the double
            import operator as _op
            ufs = {"lt": (np.less, _op.lt), "le": (np.less_equal, _op.le), "gt": (np.greater, _op.gt), "ge": (np.greater_equal, _op.ge),
                   "eq": (np.equal, _op.eq), "ne": (np.not_equal, _op.ne)}
            bad = []
            vv = flat.view(np.ndarray)
            for i in range(min(n, 2) if int(vv["frac"][0].view(np.int64)) % 3 == 0 else 0):
                pi = flat[i]
                Pi = F(float(vv["int"][i])) + F(float(vv["frac"][i]))
                for j in range(min(n, 3)):
                    xj = float(vv["int"][j]) + float(vv["frac"][j])          # a double near (or equal to) another element
                    for x in (xj, np.float64(xj), xj * self.u.cycle, np.array(xj)):
                        for name, (uf, opf) in ufs.items():
                            want_px = {"lt": Pi < F(xj), "le": Pi <= F(xj), "gt": Pi > F(xj), "ge": Pi >= F(xj), "eq": Pi == F(xj), "ne": Pi != F(xj)}[name]
                            want_xp = {"lt": F(xj) < Pi, "le": F(xj) <= Pi, "gt": F(xj) > Pi, "ge": F(xj) >= Pi, "eq": Pi == F(xj), "ne": Pi != F(xj)}[name]
                            for lab, got, want in ((f"np.{uf.__name__}(phase, {type(x).__name__})", uf(pi, x), want_px),
                                                   (f"np.{uf.__name__}({type(x).__name__}, phase)", uf(x, pi), want_xp),
                                                   (f"phase {name} {type(x).__name__}", opf(pi, x), want_px),
                                                   (f"{type(x).__name__} {name} phase", opf(x, pi), want_xp)):
                                if bool(got) != want:
                                    bad.append(lab)
            out["mixed_bad"] = sorted(set(bad))[:6]

            def pr(x):
                xv = np.atleast_1d(x.view(np.ndarray))
                return [[hx(float(a)), hx(float(b))] for a, b in zip(xv["int"].ravel(), xv["frac"].ravel())]
            axk = {} if ax is None and False else {"axis": ax}
            out["argmin"] = np.atleast_1d(P.argmin(axis=ax)).ravel().tolist()
            out["argmax"] = np.atleast_1d(P.argmax(axis=ax)).ravel().tolist()
            out["min"] = pr(P.min(axis=ax))
            out["max"] = pr(P.max(axis=ax))
            out["ptp"] = pr(P.ptp(axis=ax))
            out["argsort"] = np.atleast_1d(P.argsort(axis=ax)).ravel().tolist()
            out["sort"] = pr(P.sort(axis=ax))
            out["shape"] = list(P.shape)
            out["types"] = [type(P.min(axis=ax)).__name__, type(P.sort(axis=ax)).__name__, type(P.ptp(axis=ax)).__name__]
            # result shapes follow NumPy's reductions on a plain array of the same shape (default and keepdims=True)
            ref = np.zeros(P.shape)
            shp = []
            for name in ("min", "max", "ptp"):
                shp.append(np.shape(getattr(P, name)(axis=ax)) == np.shape(getattr(np, name)(ref, axis=ax)))
                if ax is not None:
                    shp.append(np.shape(getattr(P, name)(axis=ax, keepdims=True)) == np.shape(getattr(np, name)(ref, axis=ax, keepdims=True)))
            shp.append(np.shape(P.argmin(axis=ax)) == np.shape(ref.argmin(axis=ax)) and np.shape(P.argmax(axis=ax)) == np.shape(ref.argmax(axis=ax)))
            shp.append(np.shape(P.sort(axis=ax)) == np.shape(np.sort(ref, axis=ax)) and np.shape(P.argsort(axis=ax)) == np.shape(np.argsort(ref, axis=ax)))
            shp.append(np.shape(P.min()) == () and np.shape(P.max()) == () and P.min() == P.ravel().min(axis=0))
            # default axis of sort / argsort is the last one (as for NumPy arrays)
            shp.append(bool(np.array_equal(P.argsort(), P.argsort(axis=-1)) and np.all(P.sort() == P.sort(axis=-1))))
            out["shapes_ok"] = bool(all(shp))
        except Exception as e:
            out["err"] = err_name(e)
        return out

    # ------------------------------------------------------------------ model
    def model_requests(self, case, code):
        if case["op"] == "parse":
            tok = case["s"].replace(" ", "%20") or "%20"
            if any(ch in tok for ch in "\t\n") or " " in tok:
                tok = "%20"
            return [f"c15 parse {tok}"]
        if case["op"] == "fmt":
            if case["p"] is None or "pair" not in code:
                return []
            return [f"c15 fmt {code['pair'][0]} {code['pair'][1]} {case['p']}"]
        reqs = []
        prs = code["pairs"]
        for i in range(len(prs)):
            for j in range(len(prs)):
                reqs.append(f"c15 cmp {prs[i][0]} {prs[i][1]} {prs[j][0]} {prs[j][1]}")
        return reqs

    def model_result(self, case, replies):
        if case["op"] == "parse":
            r = replies[0].split()
            if r[0] == "err":
                return {"err": True}
            return {"neg": r[1] == "1", "imag": r[2] == "1", "cd": "" if r[3] == "-" else r[3], "fd": "" if r[4] == "-" else r[4]}
        if case["op"] == "fmt":
            if not replies:
                return None
            r = replies[0].split()
            return {"neg": r[0] == "1", "int": int(r[1]), "fr": int(r[2])}
        return {"signs": [int(r) for r in replies]}

    def agree(self, case, code, model):
        if case["op"] == "parse":
            if model.get("err"):
                return "parse_err" in code
            if "parts" not in code:
                return False
            sign = -1.0 if model["neg"] else 1.0
            cnt = float("0" + model["cd"]) * sign
            fr = float("0." + model["fd"]) * sign
            want = [hx(0.0 * sign if model["imag"] else cnt), hx(cnt if model["imag"] else 0.0),
                    hx(0.0 * sign if model["imag"] else fr), hx(fr if model["imag"] else 0.0)]
            got = code["parts"]
            # compare values (sign of zero in the unused component is irrelevant)
            return all(unhx(a) == unhx(b) for a, b in zip(got, want))
        if case["op"] == "fmt":
            if model is None:
                return "err" not in code
            if "err" in code:
                return False
            p = case["p"]
            body = f"{model['int']}" + (("." + str(model["fr"]).zfill(p)) if p > 0 else "")
            want = ("-" if model["neg"] else "") + body + ("j" if case["imag"] else "")
            return code["s"] == want
        if "err" in code:
            return False
        for row, s in zip(code["cmp"], model["signs"]):
            want = [s < 0, s <= 0, s == 0, s != 0, s >= 0, s > 0]
            if row != want:
                return False
        return True

    # ------------------------------------------------------------------ property oracle
    @staticmethod
    def _dec_value(s):
        t = s.strip().lower().replace("d", "e")
        imag = t.endswith("j")
        if imag:
            t = t[:-1]
        return F(t), imag

    def spec_violation(self, case, code):
        np = self.np
        if case["op"] == "parse":
            if case.get("malformed"):
                return None if "from_err" in code else "malformed string was parsed"
            try:
                val, imag = self._dec_value(case["s"])
            except Exception:
                return None
            if "from_err" in code:
                return f"from_string({case['s']!r}) raised {code['from_err']}"
            i, f, im = unhx(code["phase"][0]), unhx(code["phase"][1]), code["phase"][2]
            if im != imag and val != 0:
                return f"from_string({case['s']!r}) is {'imaginary' if im else 'real'}"
            if not imag and im:
                return f"real string {case['s']!r} gave an imaginary phase"
            if abs(val) <= TWO52 and (F(i).denominator != 1 or abs(F(f)) > F(1, 2)):
                return f"from_string({case['s']!r}) not normalised: ({i}, {f})"
            if abs(val) <= TWO52 and abs(F(i) + F(f) - val) > EPS:
                return f"from_string({case['s']!r}) = {i}+{f}, off by {float(abs(F(i) + F(f) - val)):.3g} cycles"
            return None
        if case["op"] == "fmt":
            if "err" in code:
                return f"to_string raised {code['err']}"
            exact = F(unhx(code["pair"][0])) + F(unhx(code["pair"][1]))
            s = code["s"]
            if case["imag"] != s.endswith("j"):
                return f"to_string = {s!r}: wrong imaginary marker"
            try:
                printed = F(s.rstrip("j"))
            except Exception:
                return f"to_string(precision={case['p']}) = {s!r} is not a decimal number"
            p = case["p"]
            if p is None:
                if abs(printed - exact) > F(1, 10 ** 16):
                    return f"to_string() = {s!r} differs from the exact value by {float(abs(printed - exact)):.3g}"
            else:
                digits = len(s.rstrip("j").partition(".")[2])
                if digits != p:
                    return f"to_string(precision={p}) = {s!r} shows {digits} decimals"
                if abs(printed - exact) > F(1, 2 * 10 ** p) + EPS:
                    return f"to_string(precision={p}) = {s!r} is not the exact value {float(exact)!r} rounded to {p} decimals"
                if "fmt" in code and p > 0 and code["fmt"] != s:
                    return f"format(.{p}f) = {code['fmt']!r} differs from to_string {s!r}"
            # round trip: the property's own parsing tolerance (2^-52 cycle); `frac += 1` inside do_format rounds
            # a negative fraction to the 2^-53 grid, so bit-for-bit equality is not attainable for every phase
            if (p is None or p >= 17) and abs(exact) <= TWO52:
                back = F(unhx(code["back"][0])) + F(unhx(code["back"][1]))
                # (a parse result that is exactly zero carries no real/imaginary information: '0.0j' for a 1e-17j phase)
                if abs(back - exact) > EPS or code["back"][2] != case["imag"] and exact != 0 and back != 0:
                    return f"from_string(to_string(p)) differs from p by {float(abs(back - exact)):.3g} for {s!r}"
            return None
        if "err" in code:
            return f"ordering operation raised {code['err']}"
        vals = [F(unhx(a)) + F(unhx(b)) for a, b in code["pairs"]]
        n = len(vals)
        k = 0
        for i in range(n):
            for j in range(n):
                a, b = vals[i], vals[j]
                want = [a < b, a <= b, a == b, a != b, a >= b, a > b]
                if code["cmp"][k] != want:
                    return f"comparison of elements {i},{j} ({float(a)!r} vs {float(b)!r}, diff {float(a - b):.3g}) gave {code['cmp'][k]}"
                k += 1
        if code["types"] != ["Phase", "Phase", "Phase"]:
            return f"min/sort/ptp returned {code['types']}"
        shape = code["shape"]
        arr = np.empty(n, dtype=object)
        arr[:] = vals
        arr = arr.reshape(shape)
        ax = case["axis"]
        lanes = [arr.ravel()] if ax is None else [lane for lane in np.moveaxis(arr, ax, -1).reshape(-1, arr.shape[ax])]
        def val(pair):
            return F(unhx(pair[0])) + F(unhx(pair[1]))
        if code.get("mixed_bad"):
            return "comparison of a Phase with a plain number/Quantity/array decided wrongly: " + ", ".join(code["mixed_bad"])
        if code.get("shapes_ok") is False:
            return f"min/max/ptp/arg*/sort along axis {ax}: result shape differs from NumPy's for the same reduction"
        mins, maxs, ptps = [val(p) for p in code["min"]], [val(p) for p in code["max"]], [val(p) for p in code["ptp"]]
        for li, lane in enumerate(lanes):
            lane = list(lane)
            if mins[li] != min(lane) or maxs[li] != max(lane):
                return f"min/max along axis {ax} wrong in lane {li}"
            if lane[code["argmin"][li]] != min(lane) or lane[code["argmax"][li]] != max(lane):
                return f"argmin/argmax along axis {ax} wrong in lane {li}"
            if abs(ptps[li] - (max(lane) - min(lane))) > EPS:
                return f"ptp wrong in lane {li}"
        srt = [val(p) for p in code["sort"]]
        m = len(lanes[0])
        if ax is None:
            sl, ag = [srt], [code["argsort"]]
        else:
            # sort/argsort keep the array shape; lanes run along `ax`
            s_arr = np.empty(n, dtype=object); s_arr[:] = srt; s_arr = s_arr.reshape(shape)
            a_arr = np.array(code["argsort"]).reshape(shape)
            sl = [list(x) for x in np.moveaxis(s_arr, ax, -1).reshape(-1, m)]
            ag = [list(x) for x in np.moveaxis(a_arr, ax, -1).reshape(-1, m)]
        for li, lane in enumerate(lanes):
            lane = list(lane)
            if sl[li] != sorted(lane):
                return f"sort along axis {ax} not sorted / not a permutation in lane {li}"
            if sorted(ag[li]) != list(range(m)) or [lane[t] for t in ag[li]] != sorted(lane):
                return f"argsort along axis {ax} does not sort lane {li}"
        return None

    def nontrivial_key(self, case, code):
        return case

    def tags(self, case, code):
        if case["op"] == "parse":
            s = case["s"].lower()
            t = ["parse"]
            if case.get("malformed"):
                return t + ["malformed"]
            if "e" in s or "d" in s:
                t.append("exp")
            if "." not in s:
                t.append("nodot")
            if s.strip().endswith("j"):
                t.append("imag")
            return t
        if case["op"] == "fmt":
            return ["fmt", f"p={case['p']}"]
        return ["order", f"axis={case['axis']}", "2d" if case["shape2"] else "1d"]
