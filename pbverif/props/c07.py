"""C07 — Phase arithmetic keeps two-double precision for every operand kind."""

from fractions import Fraction as F
import math
import struct

from .base import PropBase, err_name
from .. import exact as X

MANIFEST = dict(
    technique="Lean 4 proof about ONE generic transliteration of day_frac/two_sum/two_product/split: (a) under the standard model of binary64 and astropy's error-free two_sum contract, the add/subtract/construct path returns an integer count, |count+frac-(v1+v2)| <= 2^-52 and |frac| <= 1/2+2^-49; (b) exact refinement for rn=id; (c) the real/imaginary axis algebra of from_angles (i*i=-1); (d) trig/exp depend on the fraction only — tied by BIT-EXACT comparison of the same Lean definitions run at hardware Float (and at an exact rational rn53 rounding model, cross-checked) with NumPy on every generated case, plus an exact-Fraction property oracle on every Phase operation and operand kind",
    level_text="kernel theorem for add/sub/neg/construct under explicit hypotheses (standard model, EFT contract); axis algebra and fraction-only trig fully proved; the multiply and divide paths are proved too (C07_dayfrac_mul: within 2^-51 of the exact product; C07_dayfrac_div: within 2^-50 of the exact quotient, for results up to 2^52-2, adding the error-free two_product contract) and validated bit-for-bit against the Lean Float/rn53 instances and against exact rational arithmetic at the property's 2^-52 bound on every case; operand-kind dispatch (never degrading to a single double) is validated on the full kind matrix, not proved",
    level_note="PARTIAL: (1) IEEE-754 hardware satisfying the standard model and astropy's two_sum/two_product being error-free are hypotheses, validated on every run by the exact rn53 instance; (2) the proved mul/div constants (2^-51, 2^-50) are worst-case term-by-term bounds, looser than the 2^-52 the harness validates; floor-division/remainder: only the final exact settle step is proved (C07_floordiv_settle: an estimate within one of the true quotient is corrected to exactly floor(A/B)); that the rounded estimates are within one, and the ufunc dispatch table, are validated, not proved. Trusted: Lean kernel + Mathlib, Lean compiler (Float ops = C doubles), hand model PbModel/DayFrac.lean tied bit-exactly",
)


def hx(x):
    return struct.pack(">d", float(x)).hex()


def unhx(s):
    return struct.unpack(">d", bytes.fromhex(s))[0]


TWO52 = F(2) ** 52
EPS = F(1, 2 ** 52)


class Prop(PropBase):
    id = "C07"
    lean_targets = ["PbProps.C07"]
    theorems = ["Pb.C07." + t for t in ("C07_dayfrac_add", "C07_dayfrac_mul", "C07_dayfrac_div", "C07_floordiv_settle", "C07_exact_two_product", "C07_exact_refines", "C07_axis_mul", "C07_axis_div",
                                        "C07_trig_frac_only")]
    trusted_base = ["PbModel/DayFrac.lean (generic transliteration; Float instance bit-compared with NumPy, rn53 instance "
                    "cross-checked)", "IEEE-754 binary64 round-to-nearest-even satisfies the standard model (hypothesis)",
                    "astropy two_sum/two_product error-free contract (hypothesis, validated exactly on every case)"]
    assumptions = ["counts |n| <= 2^52; no overflow/underflow in the generated ranges"]
    rule = ("kernel: day_frac(v1, v2[, factor | divisor]) with counts up to 2^52, fractions incl. +-1/2, +-(1/2-2^-53), tiny, "
            "unnormalised pairs, factors/divisors over 1e-6..1e6 and exact powers of two; phase: every op in {construct1, construct2, "
            "add, radd, sub, rsub, neg, pos, abs, mul, rmul, div, floordiv, mod, divmod, sin/cos/exp} x operand kinds {py int, py "
            "float, np.float64, np.float32, np.int64, 0-d, n-d, list, dimensionless Quantity, Phase, imaginary} x real/imaginary "
            "phases. Non-trivial: count != 0 and frac != 0; distinct by case.")
    explanation = "day_frac kernel proved (add path) and bit-compared; Phase ops checked against exact rational arithmetic"

    def __init__(self):
        import numpy as np
        import astropy.units as u
        from pulsarbat.pulsar import phase as ph

        self.np, self.u, self.ph = np, u, ph

    # ------------------------------------------------------------------ generation
    def _count(self, rng):
        r = rng.random()
        if r < 0.2:
            return float(rng.choice([0, 1, -1, 2, 10]))
        if r < 0.5:
            return float(rng.randint(-10**6, 10**6))
        if r < 0.8:
            return float(rng.randint(-2**52, 2**52))
        return float(rng.choice([2**52, -2**52, 2**52 - 1, 2**51, 2**51 + 1, -(2**51)]))

    def _frac(self, rng):
        r = rng.random()
        if r < 0.25:
            return rng.choice([0.5, -0.5, 0.5 - 2**-53, -(0.5 - 2**-53), 0.0, 0.25, 2**-60, -2**-1000, 5e-324])
        if r < 0.85:
            return rng.uniform(-0.5, 0.5)
        return rng.uniform(-3, 3)          # unnormalised input

    def _factor(self, rng):
        r = rng.random()
        if r < 0.3:
            return float(rng.choice([1, -1, 2, 0.5, 3, 1 / 3, 10, 0.1, 1024, 2**-20, 7]))
        e = rng.uniform(-6, 6)
        return rng.choice([1, -1]) * 10 ** e

    def cases(self, rng, tier):
        quick = tier == "quick"
        for _ in range(3000 if quick else 200000):
            kind = rng.choice(["add", "add", "mul", "div"])
            v1, v2 = self._count(rng), self._frac(rng)
            if kind == "add" and rng.random() < 0.4:
                v2 = self._count(rng) * rng.choice([1.0, 2**-10]) + self._frac(rng)
                if abs(F(v1) + F(v2)) > TWO52:        # the property (and the theorem) speak about counts up to 2^52
                    v2 = v2 / 4 if abs(v2) > abs(v1) else v2
                    v1 = v1 / 4 if abs(F(v1) + F(v2)) > TWO52 else v1
            c = {"op": "kernel", "kind": kind, "v1": hx(v1), "v2": hx(v2), "f": None, "d": None}
            if kind == "mul":
                f = self._factor(rng)
                if abs(F(v1) + F(v2)) * abs(F(f)) > TWO52:
                    f = 1.0 / max(abs(v1), 1.0)
                c["f"] = hx(f)
            elif kind == "div":
                d = self._factor(rng)
                if abs(F(v1) + F(v2)) / abs(F(d)) > TWO52:
                    d = max(abs(v1), 1.0)
                c["d"] = hx(d)
            yield c
        # the error-free-transformation contracts (hypotheses of the theorems) on concrete operands
        for _ in range(600 if quick else 40000):
            r = rng.random()
            if r < 0.4:
                a, b = self._count(rng) + self._frac(rng), self._factor(rng)
            elif r < 0.7:
                a, b = rng.uniform(-1, 1) * 2.0 ** rng.randint(-40, 52), rng.uniform(-1, 1) * 2.0 ** rng.randint(-40, 40)
            else:
                a, b = float(rng.randint(-2**52, 2**52)), rng.choice([0.5, -0.5, 1.0, 3.0, 1e-3, 2.0 ** -30, rng.uniform(-0.5, 0.5)])
            yield {"op": "eft", "a": hx(a), "b": hx(b)}
        # results written into an existing Phase (in-place operators, out=), of either kind
        for _ in range(300 if quick else 20000):
            yield {"op": "outform", "form": rng.choice(["imul", "idiv", "mul_out", "div_out", "add_out", "sub_out", "neg_out", "abs_out"]),
                   "a": [hx(float(rng.randint(-10**6, 10**6))), hx(rng.uniform(-0.5, 0.5))], "imag_a": rng.random() < 0.4,
                   "f": hx(rng.choice([2.0, -3.0, 0.5, 7.0, -0.25])), "imag_f": rng.random() < 0.4, "imag_q": rng.random() < 0.5,
                   "b": [hx(float(rng.randint(-1000, 1000))), hx(rng.uniform(-0.5, 0.5))]}
        # argument forms of the constructor, conversions and out= targets (each result against exact rationals)
        for _ in range(60 if quick else 3000):
            yield {"op": "forms", "a": [hx(float(rng.randint(-10**6, 10**6))), hx(rng.uniform(-0.5, 0.5))],
                   "b": [hx(float(rng.randint(1, 1000))), hx(rng.uniform(-0.5, 0.5))]}
        ops = ["construct1", "construct2", "add", "radd", "sub", "rsub", "neg", "pos", "abs", "mul", "rmul", "div",
               "floordiv", "mod", "divmod", "trig"]
        kinds = ["pyint", "pyfloat", "npfloat64", "npfloat32", "npint64", "zerod", "nd", "list", "quantity", "phase", "imag"]
        for _ in range(700 if quick else 30000):
            op = rng.choice(ops)
            # (fractions of exactly +-1/2 and 0 included: a half-integer phase has two representations, and an operation must not
            # re-wrap one into the other a whole cycle away)
            c = {"op": "phase", "fn": op, "a": [hx(self._count(rng) * rng.choice([1, 1, 2**-30])),
                                                hx(rng.uniform(-0.5, 0.5) if rng.random() < 0.7 else rng.choice([0.5, -0.5, 0.0, 0.5, -0.5, 0.25]))],
                 "imag_a": rng.random() < 0.2, "bkind": rng.choice(kinds)}
            if op in ("add", "radd", "sub", "rsub"):
                c["bkind"] = rng.choice(["phase", "pyfloat", "pyint", "npfloat64", "nd", "quantity_cycle"])
                c["b"] = [hx(self._count(rng) * rng.choice([1, 2**-30])), hx(rng.uniform(-0.5, 0.5))]
            elif op in ("mul", "rmul", "div"):
                v = self._factor(rng)
                if c["bkind"] in ("pyint", "npint64"):
                    v = float(rng.choice([1, -1, 2, 3, 7, -12, 1000]))
                if c["bkind"] == "npfloat32":
                    v = float(self.np.float32(v))
                if c["bkind"] == "phase":
                    c["bkind"] = "pyfloat"
                a_abs = abs(F(unhx(c["a"][0])) + F(unhx(c["a"][1])))
                if (op != "div" and a_abs * abs(F(v)) > TWO52 / 4) or (op == "div" and a_abs / abs(F(v)) > TWO52 / 4):
                    c["a"][0] = hx(float(rng.randint(-1000, 1000)))
                c["b"] = [hx(v)]
            elif op in ("floordiv", "mod", "divmod"):
                c["bkind"] = rng.choice(["phase", "quantity_cycle"])
                c["imag_a"] = False
                c["a"][0] = hx(float(rng.randint(-10**6, 10**6)))
                c["b"] = [hx(float(rng.choice([1, 2, 3, 7, 0]))), hx(rng.choice([0.0, 0.25, -0.3, 0.5, rng.uniform(0.01, 0.5)]))]
                if rng.random() < 0.5:
                    # divisors that need both doubles, dividends at / next to an exact multiple (the quotient estimate
                    # on rounded values is then off by one and has to be settled exactly)
                    bc = rng.choice([1, 3, 7, 1000, 13377583, 2**30 + 1, 2**40]) * rng.choice([1, 1, -1])
                    bf = rng.uniform(-0.5, 0.5)
                    if c["bkind"] == "quantity_cycle":
                        Bx = F(float(bc + bf))
                        c["b"] = [hx(float(bc + bf)), hx(0.0)]
                    else:
                        Bx = F(float(bc)) + F(bf)
                        c["b"] = [hx(float(bc)), hx(bf)]
                    kmax = max(1, min(10**6, int(2**50 // abs(Bx))))
                    Ax = rng.randint(-kmax, kmax) * Bx + F(rng.choice([0, 1, -1, 3, -3])) * F(2) ** rng.choice([-20, -30, -40, -45, -50])
                    ai = round(Ax)
                    c["a"] = [hx(float(ai)), hx(float(Ax - ai))]
            elif op == "construct2":
                c["b"] = [hx(self._frac(rng))]
            yield c

    # ------------------------------------------------------------------ real code
    def _pair(self, p):
        np = self.np
        v = p.view(np.ndarray)
        return [hx(float(np.atleast_1d(v["int"]).ravel()[0])), hx(float(np.atleast_1d(v["frac"]).ravel()[0]))]

    def _operand(self, kind, vals, imag=False):
        np, u, ph = self.np, self.u, self.ph
        x = unhx(vals[0])
        if kind == "pyint":
            return int(x)
        if kind == "pyfloat":
            return float(x)
        if kind == "npfloat64":
            return np.float64(x)
        if kind == "npfloat32":
            return np.float32(x)
        if kind == "npint64":
            return np.int64(int(x))
        if kind == "zerod":
            return np.array(x)
        if kind == "nd":
            return np.array([x, x])
        if kind == "list":
            return [x, x]
        if kind == "quantity":
            return x * u.dimensionless_unscaled
        if kind == "imag":
            return 1j * x
        if kind == "quantity_cycle":
            return x * u.cycle          # a single double (the second value is not used for this kind)
        if kind == "phase":
            return ph.Phase(x, unhx(vals[1]) if len(vals) > 1 else 0.0)
        raise KeyError(kind)

    def run_code(self, case):
        np, u, ph = self.np, self.u, self.ph
        if case["op"] == "eft":
            from astropy.time.utils import two_sum, two_product
            a, b = np.float64(unhx(case["a"])), np.float64(unhx(case["b"]))
            with np.errstate(all="ignore"):
                s1, s2 = two_sum(a, b)
                p1, p2 = two_product(a, b)
            return {"sum": [hx(float(s1)), hx(float(s2))], "prod": [hx(float(p1)), hx(float(p2))]}
        if case["op"] == "forms":
            return self._run_forms(case)
        if case["op"] == "outform":
            a0, a1, f = unhx(case["a"][0]), unhx(case["a"][1]), unhx(case["f"])
            b0, b1 = unhx(case["b"][0]), unhx(case["b"][1])
            mk = lambda x, y, im: ph.Phase(1j * x, 1j * y) if im else ph.Phase(x, y)       # noqa: E731
            p = mk(a0, a1, case["imag_a"])
            q = mk(5.0, 0.125, case["imag_q"])
            fac = 1j * f if case["imag_f"] else f
            form = case["form"]
            try:
                if form == "imul":
                    tgt = p
                    p *= fac
                    r = p
                elif form == "idiv":
                    tgt = p
                    p /= fac
                    r = p
                elif form == "mul_out":
                    tgt, r = q, np.multiply(p, fac, out=q)
                elif form == "div_out":
                    tgt, r = q, np.divide(p, fac, out=q)
                elif form in ("add_out", "sub_out"):
                    other = mk(b0, b1, case["imag_a"])
                    tgt, r = q, (np.add if form == "add_out" else np.subtract)(p, other, out=q)
                elif form == "neg_out":
                    tgt, r = q, np.negative(p, out=q)
                else:
                    tgt, r = q, np.absolute(p, out=q)
            except Exception as e:
                return {"err": err_name(e)}
            return {"same_object": bool(r is tgt), "type": type(r).__name__, "R": self._pair(r), "R_imag": bool(r.imaginary)}
        if case["op"] == "kernel":
            v1, v2 = np.float64(unhx(case["v1"])), np.float64(unhx(case["v2"]))
            f = None if case["f"] is None else np.float64(unhx(case["f"]))
            d = None if case["d"] is None else np.float64(unhx(case["d"]))
            try:
                with np.errstate(all="ignore"):
                    day, frac = ph.day_frac(v1, v2, factor=f, divisor=d)
                return {"day": hx(day), "frac": hx(frac)}
            except Exception as e:
                return {"err": err_name(e)}
        fn = case["fn"]
        a0, a1 = unhx(case["a"][0]), unhx(case["a"][1])
        try:
            A = ph.Phase(1j * a0, 1j * a1) if case["imag_a"] else ph.Phase(a0, a1)
            out = {"A": self._pair(A), "A_imag": bool(A.imaginary)}
            if fn == "construct1":
                R = ph.Phase(a0 + a1) if not case["imag_a"] else ph.Phase(1j * (a0 + a1))
                out["in"] = [hx(a0 + a1), hx(0.0)]
            elif fn == "construct2":
                b = unhx(case["b"][0])
                R = ph.Phase(a0, b)
                out["in"] = [hx(a0), hx(b)]
            elif fn in ("add", "radd", "sub", "rsub"):
                B = self._operand(case["bkind"], case["b"])
                if case["imag_a"]:
                    B = ph.Phase(1j * unhx(case["b"][0]), 1j * unhx(case["b"][1]))
                R = {"add": lambda: A + B, "radd": lambda: B + A, "sub": lambda: A - B, "rsub": lambda: B - A}[fn]()
                Bp = B if isinstance(B, ph.Phase) else ph.Phase(B)
                out["B"] = self._pair(Bp)
            elif fn == "neg":
                R = -A
            elif fn == "pos":
                R = +A
            elif fn == "abs":
                R = abs(A)
            elif fn in ("mul", "rmul", "div"):
                B = self._operand(case["bkind"], case["b"])
                R = {"mul": lambda: A * B, "rmul": lambda: B * A, "div": lambda: A / B}[fn]()
            elif fn in ("floordiv", "mod", "divmod"):
                B = self._operand(case["bkind"], case["b"])
                if fn == "floordiv":
                    q = A // B
                    out["q"] = X.rat(X.frac(float(np.atleast_1d(getattr(q, "value", q)).ravel()[0])))
                    out["qtype"] = type(q).__name__
                    return out
                if fn == "mod":
                    R = A % B
                else:
                    q, R = divmod(A, B)
                    out["q"] = X.rat(X.frac(float(np.atleast_1d(getattr(q, "value", q)).ravel()[0])))
            elif fn == "trig":
                n = float(int(a0))
                P0, P1 = ph.Phase(0.0, a1), ph.Phase(n, a1)
                same = bool(np.sin(P0) == np.sin(P1) and np.cos(P0) == np.cos(P1) and np.tan(P0) == np.tan(P1))
                e0, e1 = np.exp(ph.Phase(0j, 1j * a1)), np.exp(ph.Phase(1j * n, 1j * a1))
                ref = complex(math.cos(2 * math.pi * a1), math.sin(2 * math.pi * a1))
                out["trig_same"] = same and bool(e0 == e1)
                out["exp_err"] = abs(complex(e0.value if hasattr(e0, "value") else e0) - ref)
                out["sin_err"] = abs(float(np.sin(P1).value) - math.sin(2 * math.pi * float(P1.frac.value)))
                return out
            out["type"] = type(R).__name__
            if isinstance(R, ph.Phase):
                out["R"] = self._pair(R)
                out["R_imag"] = bool(R.imaginary)
                out["R_shape"] = list(R.shape)
            else:
                out["R_value"] = repr(R)[:80]
            return out
        except ZeroDivisionError:
            return {"err": "ZeroDivisionError"}
        except Exception as e:
            return {"err": err_name(e)}

    def _run_forms(self, case):
        np, u, ph = self.np, self.u, self.ph
        Phase = ph.Phase
        a0, a1, b0, b1 = (unhx(x) for x in case["a"] + case["b"])
        A, B = F(a0) + F(a1), F(b0) + F(b1)
        bad = []

        def val(p):
            v = p.view(np.ndarray)
            return F(float(v["int"])) + F(float(v["frac"]))

        def is_phase(p, want, lab, tol=F(1, 2**50)):
            if type(p) is not Phase:
                bad.append(f"{lab}: {type(p).__name__}")
            elif abs(val(p) - want) > tol * max(1, abs(want)):
                bad.append(f"{lab}: value off by {float(abs(val(p) - want)):.3g}")
            elif not (abs(float(p.view(np.ndarray)['frac'])) <= 0.5 and float(p.view(np.ndarray)['int']).is_integer()):
                bad.append(f"{lab}: not normalised")

        def raises(fn, lab):
            try:
                fn()
                bad.append(f"{lab}: accepted")
            except ValueError:
                pass
            except Exception as e:      # noqa
                bad.append(f"{lab}: {type(e).__name__} instead of ValueError")
        try:
            pa, pb_ = Phase(a0, a1), Phase(b0, b1)
            is_phase(Phase(a0, pb_), F(a0) + B, "Phase(float, Phase)")
            is_phase(Phase(pa, b0), A + F(b0), "Phase(Phase, float)")
            is_phase(Phase(pa, pb_), A + B, "Phase(Phase, Phase)")
            is_phase(Phase(a0 * u.cycle, b1 * u.cycle), F(a0) + F(b1), "Phase(Quantity, Quantity)")
            is_phase(Phase((a0 * 360.0) * u.deg), F(a0), "Phase(degrees)", F(1, 2**40))
            is_phase(Phase(pa), A, "Phase(Phase)", F(0))
            # complex numbers with one part zero are real resp. imaginary numbers
            is_phase(Phase(complex(a0, 0.0)), F(a0), "Phase(complex(x, 0))")
            is_phase(Phase(np.array([complex(a0, 0.0), complex(b0, 0.0)]))[1], F(b0), "Phase(array of complex(x, 0))[1]")
            pi_ = Phase(complex(0.0, b0), complex(0.0, b1))
            if not pi_.imaginary or abs(val(pi_) - B) > F(1, 2**50) * max(1, abs(B)):
                bad.append("Phase(complex(0, x), complex(0, y)) is not the imaginary phase x + y")
            # elements of an imaginary phase array stay imaginary, with their own values
            arr_i = Phase(1j * np.array([a0, b0]), 1j * np.array([a1, b1]))
            e1 = arr_i[1]
            if not e1.imaginary or type(e1) is not Phase or abs(val(e1) - B) > F(1, 2**50) * max(1, abs(B)):
                bad.append("element of an imaginary Phase array lost its value or its imaginary kind")
            arr_r = Phase(np.array([a0, b0]), np.array([a1, b1]))
            is_phase(arr_r[1], B, "phase_array[1]", F(0))
            is_phase(list(arr_r)[0], A, "next(iter(phase_array))", F(0))
            # factors / divisors that broadcast to a larger shape than the phase (extra axis, stretched length-1 axis)
            for lab, res, wants in (
                    ("phase(2,) * factor(3,1)", arr_r * np.array([[2.0], [0.5], [3.0]]), [[2 * A, 2 * B], [A / 2, B / 2], [3 * A, 3 * B]]),
                    ("factor(2,1) * phase(2,)", np.array([[2.0], [4.0]]) * arr_r, [[2 * A, 2 * B], [4 * A, 4 * B]]),
                    ("phase(1,) * factor(3,)", arr_r[:1] * np.array([1.0, 2.0, 4.0]), [A, 2 * A, 4 * A]),
                    ("phase(2,) / divisor(2,1)", arr_r / np.array([[2.0], [4.0]]), [[A / 2, B / 2], [A / 4, B / 4]])):
                w = np.array(wants, dtype=object)
                if type(res) is not Phase or res.shape != w.shape:
                    bad.append(f"{lab}: {type(res).__name__} of shape {getattr(res, 'shape', None)}")
                    continue
                rv = res.view(np.ndarray)
                for idx in np.ndindex(w.shape):
                    got = F(float(rv["int"][idx])) + F(float(rv["frac"][idx]))
                    if abs(got - w[idx]) > F(1, 2**50) * max(1, abs(w[idx])):
                        bad.append(f"{lab}: element {idx} off by {float(abs(got - w[idx])):.3g}")
                        break
            # dimensionless factors are numbers whatever unit they are written in: 50 % is a half, 1500 m/km... a pure number
            for fq, fx in ((50 * u.percent, F(1, 2)), ((1000 * u.ms) / (2 * u.s), F(1, 2)), ((3 * u.km) / (2 * u.m), F(1500)),
                           (2 * u.one, F(2)), (u.Quantity(4.0), F(4)), (u.Quantity(np.float32(0.25)), F(1, 4))):
                is_phase(pa * fq, A * fx, f"phase * ({fq})", F(1, 2**48))
                is_phase(fq * pa, A * fx, f"({fq}) * phase", F(1, 2**48))
                is_phase(pa / fq, A / fx, f"phase / ({fq})", F(1, 2**48))
            # angles in other units are angles all the same: 90 deg is a quarter cycle, as an operand, a divisor or an argument
            for ang in (90 * u.deg, (np.pi / 2) * u.rad, 6 * u.hourangle):
                dq = F(float(ang.to_value(u.cycle)))
                is_phase(Phase.from_angles(ang), dq, f"from_angles({ang.unit})", F(1, 2**48))
                is_phase(Phase(ang), dq, f"Phase({ang.unit})", F(1, 2**48))
                is_phase(pa + ang, A + dq, f"phase + {ang.unit}", F(1, 2**48))
                qx2 = A // dq
                if abs(A - qx2 * dq) > F(1, 10**6) and abs(A - (qx2 + 1) * dq) > F(1, 10**6):     # away from a multiple
                    qq, rr = divmod(pa, ang)
                    if F(float(getattr(qq, "value", qq))) != qx2:
                        bad.append(f"divmod(phase, {ang.unit}): quotient {float(getattr(qq, 'value', qq))}, exact {float(qx2)}")
                    is_phase(rr, A - qx2 * dq, f"divmod(phase, {ang.unit}) remainder", F(1, 2**40))
                    is_phase(pa % ang, A - qx2 * dq, f"phase % {ang.unit}", F(1, 2**40))
            raises(lambda: Phase(a0, 1j * b1), "Phase(real, imaginary)")
            raises(lambda: Phase(1j * a0, b1), "Phase(imaginary, real)")
            raises(lambda: Phase(b0 + 1j * b0), "Phase(mixed complex)")
            raises(lambda: Phase(np.array([1j * b0, b0])), "Phase([imaginary, real])")
            raises(lambda: Phase.from_angles(a0 * u.cycle, (1j * b1) * u.cycle), "from_angles(real, imaginary)")
            # conversions
            is_phase(pa.to(u.cycle), A, "to(cycle)", F(0))          # stays a two-part Phase with the exact value
            # a Phase used only as the out= target
            tgt = Phase(7.0, 0.125)
            r = np.add(a0 * u.cycle, b1 * u.cycle, out=(tgt,))
            if r is not tgt:
                bad.append("np.add(q, q, out=phase) did not return the target")
            is_phase(tgt, F(a0) + F(b1), "np.add(q, q, out=phase)")
            qa, rp = np.zeros(()), Phase(0.0, 0.0)
            r = np.divmod(pa, pb_, out=(qa, rp))
            qx = A // B
            if r[0] is not qa or r[1] is not rp or F(float(qa)) != qx:
                bad.append(f"np.divmod(p, d, out=(q, r)): quotient {float(qa)} (exact {float(qx)}) or identities")
            is_phase(rp, A - qx * B, "np.divmod(..., out=) remainder")
            qa2 = np.zeros(())
            if np.floor_divide(pa, pb_, out=(qa2,)) is not qa2 or F(float(qa2)) != qx:
                bad.append("np.floor_divide(p, d, out=q)")
            rp2 = Phase(0.0, 0.0)
            if np.remainder(pa, pb_, out=(rp2,)) is not rp2:
                bad.append("np.remainder(p, d, out=phase) identity")
            is_phase(rp2, A - qx * B, "np.remainder(..., out=)")
        except Exception as e:      # noqa
            import traceback
            bad.append("unexpected " + err_name(e) + " @ " + traceback.format_exc().strip().splitlines()[-3].strip()[:80])
        return {"bad": bad}

    # ------------------------------------------------------------------ model
    def _kernel_call(self, case, code):
        """the day_frac call the Phase operation performs (mirror of the __array_ufunc__/__new__ branch)"""
        fn = case["fn"]
        if "A" not in code:
            return None
        a0, a1 = unhx(code["A"][0]), unhx(code["A"][1])
        if fn in ("construct1", "construct2"):
            if case["imag_a"]:
                return None
            return (code["in"][0], code["in"][1], "_", "_")
        if fn in ("add", "radd"):
            b0, b1 = unhx(code["B"][0]), unhx(code["B"][1])
            return (hx(a0 + b0), hx(a1 + b1), "_", "_") if fn == "add" else (hx(b0 + a0), hx(b1 + a1), "_", "_")
        if fn in ("sub", "rsub"):
            b0, b1 = unhx(code["B"][0]), unhx(code["B"][1])
            return (hx(a0 - b0), hx(a1 - b1), "_", "_") if fn == "sub" else (hx(b0 - a0), hx(b1 - a1), "_", "_")
        if fn == "neg":
            return (hx(-a0), hx(-a1), "_", "_")
        if fn == "pos":
            return (hx(a0), hx(a1), "_", "_")
        if fn == "abs":
            s = float(self.np.sign(a0 + a1))
            return (hx(a0), hx(a1), hx(s), "_")
        if fn in ("mul", "rmul", "div"):
            v = unhx(case["b"][0])
            if case["bkind"] in ("pyint", "npint64"):
                v = float(int(v))
            if case["bkind"] == "imag":
                # sign bookkeeping of from_angles (checked against the Lean axis model separately)
                if fn == "div":
                    v = -v if not case["imag_a"] else v
                else:
                    v = -v if case["imag_a"] else v
            return (hx(a0), hx(a1), hx(v), "_") if fn != "div" else (hx(a0), hx(a1), "_", hx(v))
        return None

    def model_requests(self, case, code):
        if case["op"] in ("outform", "forms"):
            return []
        if case["op"] == "eft":
            return [f"c07 eft {case['a']} {case['b']}"]
        if case["op"] == "kernel":
            return [f"c07 dayfrac {case['v1']} {case['v2']} {case['f'] or '_'} {case['d'] or '_'}"]
        k = self._kernel_call(case, code)
        reqs = []
        if k is not None and "err" not in code:
            reqs.append("c07 dayfrac " + " ".join(k))
        if case["fn"] in ("mul", "rmul", "div") and case["bkind"] in ("imag", "pyfloat") and "A" in code:
            A = F(unhx(code["A"][0])) + F(unhx(code["A"][1]))
            op = "div" if case["fn"] == "div" else "mul"
            reqs.append(f"c07 axis {op} {int(case['imag_a'])} {X.rat(A)} {int(case['bkind'] == 'imag')} {X.rat(X.frac(unhx(case['b'][0])))}")
        return reqs

    def model_result(self, case, replies):
        if case["op"] == "eft":
            t = replies[0].split()
            return {"sum": t[0:2], "prod": t[2:4], "sum_exact": t[4] == "1", "prod_exact": t[5] == "1", "rn53_agrees": t[6] == "1"}
        out = {}
        for r in replies:
            t = r.split()
            if len(t) == 3 and len(t[0]) == 16:
                out["day"], out["frac"], out["rn53_agrees"] = t[0], t[1], t[2] == "1"
            elif t[0] in ("0", "1"):
                out["axis_imag"], out["axis_val"] = t[0] == "1", t[1]
        return out

    def agree(self, case, code, model):
        if case["op"] in ("outform", "forms"):
            return True
        if case["op"] == "eft":
            # astropy's two_sum / two_product = the generic transliteration at hardware Float, bit for bit; the rational rn53
            # instance agrees and satisfies the error-free contracts exactly (x + y = a + b, x + y = a * b over Q)
            same = model["sum"] == code["sum"] and model["prod"] == code["prod"]
            if not self._normal_range(case["a"], case["b"]) or not self._normal_range(*code["prod"]):
                return same
            return same and model["sum_exact"] and model["prod_exact"] and model["rn53_agrees"]
        if case["op"] == "phase" and case["fn"] in ("floordiv", "mod", "divmod") and self._bval(case) == 0:
            return True                     # zero divisor: NumPy inf/nan semantics, outside the model
        if "err" in code:
            return case["op"] != "kernel" and code["err"] == "ZeroDivisionError"
        if case["op"] == "kernel":
            # the rational rn53 instance has no subnormals/overflow: cross-check it on normal-range operands only
            rn_ok = model.get("rn53_agrees") or not self._normal_range(case["v1"], case["v2"], case["f"], case["d"])
            return bool(rn_ok) and model["day"] == code["day"] and model["frac"] == code["frac"]
        if "day" in model:
            if "R" not in code:
                return False
            if [model["day"], model["frac"]] != code["R"]:
                # -0.0 vs 0.0 day is the same value
                if not (unhx(model["day"]) == unhx(code["R"][0]) and unhx(model["frac"]) == unhx(code["R"][1])):
                    return False
        if "axis_imag" in model and "R" in code:
            if model["axis_imag"] != code["R_imag"]:
                return False
            got = F(unhx(code["R"][0])) + F(unhx(code["R"][1]))
            if abs(got - F(model["axis_val"])) > 2 * EPS * max(1, abs(got)):
                return False
        return True

    # ------------------------------------------------------------------ property oracle
    @staticmethod
    def _bval(case):
        if case["bkind"] == "quantity_cycle":
            return F(unhx(case["b"][0]))
        return F(unhx(case["b"][0])) + F(unhx(case["b"][1]))

    @staticmethod
    def _normal_range(*hexes):
        for h in hexes:
            if h in (None, "_"):
                continue
            v = abs(unhx(h))
            if v != 0 and not (2.0 ** -500 <= v <= 2.0 ** 600):
                return False
        return True

    def _check_pair(self, day, frac, exact, what):
        d, f = F(day), F(frac)
        if d.denominator != 1:
            return f"{what}: count {float(d)} is not an integer"
        if abs(f) > F(1, 2) and abs(exact) <= TWO52:       # (beyond 2^52 cycles a double count cannot always absorb the carry: out of the stated range)
            return f"{what}: fraction {float(f)} outside [-1/2, 1/2]"
        if abs(exact) <= TWO52 and abs(d + f - exact) > EPS:
            return f"{what}: count+frac differs from the exact value by {float(abs(d + f - exact)):.3g} cycles (> 2^-52)"
        return None

    def spec_violation(self, case, code):
        if case["op"] == "forms":
            return "; ".join(code["bad"][:4]) or None
        if case["op"] == "outform":
            form = case["form"]
            A = F(unhx(case["a"][0])) + F(unhx(case["a"][1]))
            B = F(unhx(case["b"][0])) + F(unhx(case["b"][1]))
            f = F(unhx(case["f"]))
            ia, i_f = case["imag_a"], case["imag_f"]
            if form in ("imul", "mul_out"):
                exact, imag = A * f * (-1 if (ia and i_f) else 1), ia != i_f
            elif form in ("idiv", "div_out"):
                # (i^a A) / (i^f f): a=0,f=1 -> -i A/f ; a=1,f=1 -> A/f ; a=1,f=0 -> i A/f
                exact, imag = (A / f) * (-1 if (i_f and not ia) else 1), ia != i_f
            elif form == "add_out":
                exact, imag = A + B, ia
            elif form == "sub_out":
                exact, imag = A - B, ia
            elif form == "neg_out":
                exact, imag = -A, ia
            else:
                exact, imag = abs(A), False
            if "err" in code:
                return f"{form} into an existing Phase raised {code['err']}"
            if code["type"] != "Phase" or not code["same_object"]:
                return f"{form}: result is a {code['type']}, returned the target object: {code['same_object']}"
            if code["R_imag"] != imag and exact != 0:
                return (f"{form} (phase {'imaginary' if ia else 'real'}, factor {'imaginary' if i_f else 'real'}, target previously "
                        f"{'imaginary' if case['imag_q'] else 'real'}): result flagged {'imaginary' if code['R_imag'] else 'real'}")
            return self._check_pair(unhx(code["R"][0]), unhx(code["R"][1]), exact, f"Phase {form}")
        if case["op"] == "eft":
            a, b = F(unhx(case["a"])), F(unhx(case["b"]))
            s1, s2 = (F(unhx(h)) for h in code["sum"])
            p1, p2 = (F(unhx(h)) for h in code["prod"])
            if s1 + s2 != a + b:
                return f"two_sum({unhx(case['a'])!r}, {unhx(case['b'])!r}) is not error-free"
            if self._normal_range(case["a"], case["b"]) and self._normal_range(*code["prod"]) and p1 + p2 != a * b:
                return f"two_product({unhx(case['a'])!r}, {unhx(case['b'])!r}) is not error-free"
            return None
        if case["op"] == "kernel":
            if "err" in code:
                return f"day_frac raised {code['err']}"
            v = F(unhx(case["v1"])) + F(unhx(case["v2"]))
            if case["f"] is not None:
                v = v * F(unhx(case["f"]))
            if case["d"] is not None:
                v = v / F(unhx(case["d"]))
            return self._check_pair(unhx(code["day"]), unhx(code["frac"]), v, f"day_frac {case['kind']}")
        fn = case["fn"]
        if "err" in code:
            if code["err"] == "ZeroDivisionError" or (fn in ("floordiv", "mod", "divmod") and self._bval(case) == 0):
                return None
            return f"Phase {fn} with {case['bkind']} operand raised {code['err']}"
        if fn == "trig":
            if not code["trig_same"]:
                return "sin/cos/tan/exp changed when a whole number of cycles was added"
            if code["exp_err"] > 1e-14 or code["sin_err"] > 1e-14:
                return "sin/exp of the fraction is wrong"
            return None
        A = F(unhx(code["A"][0])) + F(unhx(code["A"][1]))
        if fn in ("floordiv", "mod", "divmod") and self._bval(case) == 0:
            return None                     # division by zero: NumPy semantics (inf/nan), outside the property
        if fn == "floordiv":
            B = self._bval(case)
            want = math.floor(A / B)
            return None if F(code["q"]) == want else f"floor_divide gave {code['q']}, exact floor(A/B) = {want}"
        if code.get("type") != "Phase":
            return f"Phase {fn} with a {case['bkind']} operand returned {code.get('type')} (single double), not a Phase"
        R0, R1 = unhx(code["R"][0]), unhx(code["R"][1])
        imag_expected = case["imag_a"]
        if fn in ("construct1",):
            exact = F(unhx(code["in"][0]))
        elif fn == "construct2":
            exact = F(unhx(code["in"][0])) + F(unhx(code["in"][1]))
            imag_expected = False
        elif fn in ("add", "radd", "sub", "rsub"):
            B = F(unhx(code["B"][0])) + F(unhx(code["B"][1]))
            exact = {"add": A + B, "radd": B + A, "sub": A - B, "rsub": B - A}[fn]
        elif fn == "neg":
            exact = -A
        elif fn == "pos":
            exact = A
        elif fn == "abs":
            exact = abs(A)
            imag_expected = False        # |i x| = |x| is real
        elif fn in ("mul", "rmul", "div"):
            v = F(unhx(case["b"][0]))
            if case["bkind"] in ("pyint", "npint64"):
                v = F(int(unhx(case["b"][0])))
            if case["bkind"] == "imag":
                # (i^a A) * (i v): axis flips; sign -1 when both imaginary. division: A/(i v) = -i A/v ; (iA)/(iv) = A/v
                if fn == "div":
                    exact = (A / v) * (1 if case["imag_a"] else -1)
                else:
                    exact = (A * v) * (-1 if case["imag_a"] else 1)
                imag_expected = not case["imag_a"]
            else:
                exact = A / v if fn == "div" else A * v
        elif fn in ("mod", "divmod"):
            B = self._bval(case)
            q = math.floor(A / B)
            exact = A - q * B
            if fn == "divmod" and F(code["q"]) != q:
                return f"divmod quotient {code['q']}, exact {q}"
        else:
            return None
        if code["R_imag"] != imag_expected:
            return f"{fn}: result is {'imaginary' if code['R_imag'] else 'real'}, expected {'imaginary' if imag_expected else 'real'}"
        return self._check_pair(R0, R1, exact, f"Phase {fn} ({case['bkind']})")

    def classify(self, case, why):
        if case.get("fn") in ("floordiv", "mod", "divmod") and case.get("bkind") == "phase" and "RecursionError" in why:
            return "phase-floordiv-phase-divisor-recursion"
        return None

    def nontrivial_key(self, case, code):
        return case

    def tags(self, case, code):
        if case["op"] == "forms":
            return ["forms"]
        if case["op"] == "outform":
            return ["outform:" + case["form"]]
        if case["op"] == "eft":
            return ["eft"]
        if case["op"] == "kernel":
            return ["kernel:" + case["kind"]]
        return ["phase:" + case["fn"], "b:" + case["bkind"], "imag" if case["imag_a"] else "real"]
