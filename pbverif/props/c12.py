"""C12 — snippet returns exactly n samples starting exactly at the requested time."""

from fractions import Fraction as F
import math

from .base import PropBase, err_name
from .. import exact as X
from .. import sigs, dft
from .c01 import tol_time

MANIFEST = dict(
    technique="Lean 4 proof over Q of snippet's bound/crop arithmetic (floor, residual shift, time_shift crop, final slice) + differential correspondence of transforms.snippet in its three argument forms against the compiled Lean model and a float64 DFT-interpolation oracle",
    level_text="proved for every length, every 0<=t, n>=0, t+n<=len (whole or fractional): exactly n samples, stride 1, sample 0 at input position exactly t, start_time = start + t/rate, whole t = z[t:t+n], all out-of-range / negative n / Time-without-start requests raise ValueError, the three forms of t agree; real snippet compared on lengths, stamps, provenance (whole t) and interpolated values (fractional t)",
    level_note="Trusted: Lean kernel (+3 std axioms); PbModel/Crop.lean (opSel .snippet) tied by correspondence; astropy unit/Time conversion of t (the double the code sees is reproduced with the same public expression and given to the model exactly); FFT interpolation numerics validated at 4e-6 relative (complex64 phase ramp), not proved",
)


class Prop(PropBase):
    id = "C12"
    lean_targets = ["PbProps.C12"]
    theorems = ["Pb.C12." + t for t in ("C12_len_start", "C12_start_time", "C12_whole", "C12_rejects", "C12_forms_agree")]
    trusted_base = ["PbModel/Crop.lean snippet model (hand transliteration, tied by correspondence)",
                    "numpy.fft in complex128 as the interpolation oracle; astropy unit conversion of t"]
    assumptions = ["requests within 1e-6 sample of a bound after unit conversion are don't-care for the property oracle "
                   "(still compared with the model on the exact double)"]
    rule = ("signals of all six classes (real and complex), len 1..128, with/without start time; t as int, float, Quantity "
            "(s/ms/us) or Time; whole and fractional t incl. t+n==len, n in {0,1,len,...}, t within 1e-9 of an integer; "
            "out-of-range / negative n / Time-without-start requests. Non-trivial: n>0 and (t>0 or error); distinct by case.")
    explanation = "snippet arithmetic proved in Lean; API differential incl. interpolated values"

    def __init__(self):
        import pulsarbat as pb
        import numpy as np
        import astropy.units as u
        from astropy.time import Time

        self.pb, self.np, self.u, self.Time = pb, np, u, Time

    def cases(self, rng, tier):
        quick = tier == "quick"
        for i in range(500 if quick else 12000):
            cls = rng.choice(sigs.CLASSES)
            L = rng.choice([1, 2, 3, 8, 16, 17, 31, 64, 100, rng.randint(1, 128)])
            rate = rng.choice([("1", "Hz"), ("1", "kHz"), ("16", "MHz"), ("1", "GHz"), ("250", "Hz"), ("10", "Hz"), ("10", "Hz"),
                               ("44100", "Hz"), ("1000000", "Hz"), ("49", "Hz")])
            t0 = rng.choice(sigs.T0S + ([None] if rng.random() < 0.25 else []))
            n = rng.choice([0, 1, L, max(L - 1, 0), rng.randint(0, L), rng.randint(0, L), -1 if rng.random() < 0.3 else 1])
            r = rng.random()
            room = max(L - max(n, 0), 0)
            if r < 0.35:
                t = float(rng.choice([0, room, rng.randint(0, room)]))
            elif r < 0.75:
                t = rng.choice([0.5, room - 0.5 if room >= 1 else 0.25, rng.uniform(0, max(room, 0.5)),
                                rng.randint(0, max(room - 1, 0)) + rng.choice([1e-9, 1 - 1e-9, 0.25, 1e-3])])
            else:
                t = rng.choice([-1.0, -0.5, room + 1.0, room + 0.5, float(L), L + 2.0])
            form = rng.choice(["int" if float(t).is_integer() else "float", "float", "duration", "duration", "time"])
            unit = rng.choice(["s", "ms", "us"])
            yield {"op": "snip", "cls": cls, "L": L, "rate": rate, "t0": t0, "t": t, "n": n, "form": form,
                   "unit": unit, "seed": rng.randrange(1 << 30)}
        # every whole-sample offset of a short record, at rates where k / rate * rate is not k in floating point: a whole
        # offset is a plain slice, bit for bit, whatever arithmetic the request goes through
        for rate in (("1000000", "Hz"), ("44100", "Hz"), ("49", "Hz"), ("800", "MHz")):
            for k in range(0, 64, 1 if not quick else 2):
                yield {"op": "snip", "cls": "Signal" if k % 2 else "BasebandSignal", "L": 64, "rate": rate, "t0": sigs.T0S[k % len(sigs.T0S)],
                       "t": float(k), "n": rng.choice([64 - k, 1, (64 - k) // 2]), "form": "int" if k % 3 else "float", "unit": "s",
                       "seed": rng.randrange(1 << 30)}
        # long signals, fractional offsets far from both ends: the interpolation is over the WHOLE signal (a windowed
        # approximation differs by 1e-4..1e-3 of the rms there)
        for j in range(8 if quick else 60):
            L = rng.choice([9001, 12000, 16384])
            n = rng.choice([1, 7, 64])
            t = rng.randint(4200, L - n - 4200) + rng.choice([0.5, 0.25, 0.731])
            # (seed % 4 picks the form n is passed in: every form occurs, the 8-bit NumPy scalar — whose arithmetic with the offset
            # must not stay 8 bits wide — in every other case)
            yield {"op": "snip", "cls": rng.choice(["Signal", "BasebandSignal"]), "L": L, "rate": ("1", "kHz"), "t0": sigs.T0S[0],
                   "t": t if j % 4 else float(int(t)), "n": n, "form": "float", "unit": "s",
                   "seed": rng.randrange(1 << 28) * 4 + (3 if j % 2 else (j // 2) % 4)}

    # ------------------------------------------------------------- real code
    def _mk(self, case):
        pb, np, u = self.pb, self.np, self.u
        rate = float(case["rate"][0]) * u.Unit(case["rate"][1])
        shape = sigs.sample_shape(case["cls"], 2)
        g = np.random.default_rng(case["seed"])
        layout = None
        if sigs.is_complex(case["cls"]):
            data = (g.standard_normal((case["L"],) + shape) + 1j * g.standard_normal((case["L"],) + shape))
        else:
            data = g.standard_normal((case["L"],) + shape)
            if case["seed"] % 5 == 1:
                data = data * [1e-9, 1e-12][case["seed"] % 2]     # weak signals: interpolation is linear
            if case["cls"] in ("Signal", "RadioSignal") and case["seed"] % 4 == 2:
                # classes without a dtype requirement hold complex samples as well (of either precision)
                data = (data + 1j * g.standard_normal(data.shape)).astype([np.complex128, np.complex64][(case["seed"] // 4) % 2])
                layout = ["swapped", "c", "swapped", "fortran"][(case["seed"] // 8) % 4]        # also dumps in the other byte order
            if case["cls"] in ("Signal", "RadioSignal") and case["seed"] % 4 == 0:
                # classes without a dtype requirement also hold integer samples (raw counts); interpolated values are not integers
                data = np.round(data * 20).astype([np.int16, np.int64, np.int8, np.uint8][(case["seed"] // 4) % 4])
        return sigs.make(pb, case["cls"], case["L"], rate, case["t0"], nchan=2, data=data, layout=layout)

    def _targ(self, case, z):
        """the argument passed to snippet, and the double (as exact rational) the code derives from it"""
        u = self.u
        t = case["t"]
        k = case.get("seed", 0) % 4
        if case["form"] == "int":
            return (int(t), self.np.int64(int(t)), self.np.int32(int(t)), self.np.uint8(int(t)) if 0 <= int(t) < 256 else int(t))[k], F(int(t))
        if case["form"] == "float":
            return (float(t), self.np.float64(t), float(t), self.np.array(float(t)))[k], X.frac(float(t))
        if case["form"] == "duration":
            q = (float(t) / z.sample_rate).to(u.Unit(case["unit"]))
            seen = (q * z.sample_rate).to_value(u.one)
            return q, X.frac(float(seen))
        if z.start_time is None:
            return self.Time(sigs.T0S[0], precision=9), None
        tt = z.start_time + float(t) * z.dt
        if case.get("seed", 0) % 3 == 1:
            tt = tt.tai if case.get("seed", 0) % 2 else tt.tt      # the same instant on another time scale
        seen = ((tt - z.start_time).to(u.s) * z.sample_rate).to_value(u.one)
        return tt, X.frac(float(seen))

    def run_code(self, case):
        pb, np, u = self.pb, self.np, self.u
        z = self._mk(case)
        arg, seen = self._targ(case, z)
        out = {"seen": None if seen is None else X.rat(seen)}
        try:
            n_arg = (case["n"], np.int64(case["n"]), case["n"], np.uint8(case["n"]) if 0 <= case["n"] < 200 else case["n"])[case.get("seed", 0) % 4]
            y = pb.snippet(z, arg, n_arg)
            if case.get("seed", 0) % 3 == 0 and len(z) > 0:
                try:
                    from .. import lazy
                    zd = lazy.dask_copy(np, z)
                    zo = lazy.dask_copy(np, z, data=np.asarray(z.data) * 2 + 1)
                    ls = [pb.snippet(zd, arg, n_arg), pb.snippet(zo, arg, n_arg)]
                    if case["n"] >= 1:
                        ls.append(pb.snippet(zd, arg, case["n"] - 1))
                    ok, alone = lazy.joint_equal(np, [l.data for l in ls])
                    scale = float(np.max(np.abs(np.asarray(z.data)))) or 1.0
                    out["lazy_ok"] = bool(ok and alone[0].shape == np.asarray(y.data).shape
                                          and np.allclose(alone[0], np.asarray(y.data), rtol=1e-4, atol=1e-4 * scale)
                                          and bool(ls[0].start_time == y.start_time if y.start_time is not None else ls[0].start_time is None))
                except Exception as e:  # noqa
                    out["lazy_err"] = err_name(e)
        except Exception as e:
            out["err"] = err_name(e)
            return out
        out["len"] = len(y)
        out["cls"] = type(y).__name__
        out["rate_same"] = bool(y.sample_rate == z.sample_rate)
        out["start"] = None if y.start_time is None else X.rat(X.time_offset_s(y.start_time, z.start_time)) \
            if z.start_time is not None else "acquired"
        # data against the independent oracle
        if seen is not None and len(y) > 0:
            i = math.floor(seen)
            fr = float(seen - i)
            x = np.asarray(z.data)
            if fr == 0:
                ref = x[i:i + len(y)]
                out["data_err"] = float(np.max(np.abs(np.asarray(y.data) - ref))) if ref.shape == y.shape else -1.0
            else:
                ref = dft.delay(x, -fr)[i:i + len(y)]
                scale = float(np.max(np.abs(x))) or 1.0
                out["data_err"] = float(np.max(np.abs(np.asarray(y.data) - ref)) / scale) if ref.shape == y.shape else -1.0
            out["frac"] = fr
        return out

    # ------------------------------------------------------------- model
    def model_requests(self, case, code):
        u = self.u
        rate = F(case["rate"][0]) * X.unit_scale(u.Unit(case["rate"][1]), u.Hz)
        t0 = "none" if case["t0"] is None else "0"
        if code["seen"] is None:
            # Time form on a signal without start time: value irrelevant
            return [f"c12 snip {t0} {X.rat(rate)} {case['L']} time 0 {case['n']}"]
        # the model is given the value in samples exactly as the code sees it
        return [f"c12 snip {t0} {X.rat(rate)} {case['L']} samples {code['seen']} {case['n']}"]

    def model_result(self, case, replies):
        r = replies[0].split()
        if r[0] == "err":
            return {"err": r[1]}
        return {"start": None if r[1] == "none" else r[1], "rate": r[2], "len": int(r[3]), "first": int(r[4]), "off": r[5]}

    @staticmethod
    def _bound_rounding(case, code):
        """`len(z) < t + n` is evaluated by the code in floating point; when the rounded sum and the
        exact sum fall on different sides of len the case is a declared don't-care"""
        if code.get("seen") is None:
            return False
        seen = F(code["seen"])
        fl = float(seen) + case["n"]
        return (fl <= case["L"]) != (seen + case["n"] <= case["L"])

    def agree(self, case, code, model):
        if self._bound_rounding(case, code):
            return True
        if "err" in code or "err" in model:
            return code.get("err") == model.get("err")
        if code["len"] != model["len"] or not code["rate_same"]:
            return False
        if (code["start"] is None) != (model["start"] is None):
            return False
        if code["start"] is not None:
            if code["start"] == "acquired":
                return False
            ms = F(model["start"])
            if not X.close(F(code["start"]), ms, atol=tol_time(3, ms)):
                return False
        return True

    # ------------------------------------------------------------- property oracle
    def spec_violation(self, case, code):
        n, L = case["n"], case["L"]
        if "err" not in code and (code.get("lazy_ok") is False or "lazy_err" in code):
            return ("snippet on Dask-backed copies of the signal (alone and evaluated in one graph) differs from the NumPy-backed "
                    f"result ({code.get('lazy_err', 'values/stamp')})")
        if n < 0:
            return None if code.get("err") == "ValueError" else f"negative n gave {code.get('err', 'a result')}"
        if case["form"] == "time" and case["t0"] is None:
            return None if code.get("err") == "ValueError" else "Time for a signal without start time must raise ValueError"
        seen = F(code["seen"])
        t = X.frac(float(case["t"]))
        # conversion noise next to a bound: don't-care
        near = min(abs(seen), abs(seen + n - L)) < F(1, 10**6) and seen != t
        if near:
            # next to a bound the request may be taken either way (refused, or served as the whole-sample request it is within
            # rounding of) — but never answered with another number of samples
            if "err" not in code and code["len"] != n:
                return f"returned {code['len']} samples, requested {n} (t within rounding of a bound)"
            return None
        valid = (0 <= seen) and (seen + n <= L)
        if not valid:
            return None if code.get("err") == "ValueError" else f"out-of-range request gave {code.get('err', 'a result')}"
        if "err" in code:
            return f"valid request (t={float(seen)}, n={n}, len={L}) raised {code['err']}"
        if code["len"] != n:
            return f"returned {code['len']} samples, requested {n}"
        if code["cls"] != case["cls"] or not code["rate_same"]:
            return "class or sample_rate changed"
        u = self.u
        rate = F(case["rate"][0]) * X.unit_scale(u.Unit(case["rate"][1]), u.Hz)
        if case["t0"] is None:
            if code["start"] is not None:
                return "acquired a start time"
        else:
            es = seen / rate
            if code["start"] is None or not X.close(F(code["start"]), es, atol=tol_time(3, es)):
                return f"start_time offset {code['start']} s, expected t/rate = {float(es)} s"
        if n > 0:
            lim = 1e-12 if code["frac"] == 0 else 4e-6 * max(1.0, math.log2(L + 1))
            if not (0 <= code["data_err"] <= lim):
                return f"data differ from {'z[t:t+n]' if code['frac'] == 0 else 'DFT interpolation'} by {code['data_err']}"
        return None

    def nontrivial_key(self, case, code):
        return case if (case["n"] > 0 and (case["t"] > 0 or "err" in code)) else None

    def tags(self, case, code):
        t = [case["cls"], "form:" + case["form"], "nostart" if case["t0"] is None else "start"]
        if self._bound_rounding(case, code):
            t.append("dontcare:bound-rounding")
        if "err" in code:
            t.append("err:" + code["err"])
        else:
            t.append("whole" if code.get("frac", 0) == 0 else ("near-int" if min(code["frac"], 1 - code["frac"]) < 1e-6 else "frac"))
            if case["n"] == 0:
                t.append("n=0")
            if code["seen"] is not None and F(code["seen"]) + case["n"] == case["L"]:
                t.append("t+n==len")
        return t
