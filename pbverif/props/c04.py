"""C04 — freq_shift moves the spectrum by the given amount, zeroing what leaves the band."""

from fractions import Fraction as F
import math

from .base import PropBase, err_name
from .. import exact as X
from .. import sigs

MANIFEST = dict(
    technique="Lean 4 proof: DFT modulation theorem on ZMod N (Mathlib), fftshift index lemma, zeroed-bin rule over Q, broadcasting model + differential correspondence of transforms.freq_shift (per-element zeroed bins of the output spectrum, moved content against a complex128 oracle, metadata)",
    level_text="the zero-fill loop body and the phase factor of freq_shift, translated symbolically from the source on every run, are the model's (C04_source_loop); proved: mixing moves bin k-b to k for every N and whole-bin b, index j of the fftshifted spectrum is signed bin j-floor(N/2), index j is zeroed iff j-b lies outside the band, |b|>=N zeroes every bin; tied: for every broadcastable shift shape the output's spectrum is compared per element — exact-zero bins where the model says so, moved content elsewhere — plus dtype/class/labels/start/rate unchanged",
    level_note="PARTIAL on numerics: FFT and the mixing phasor (cast to the signal dtype) are floating point; validated against a complex128 oracle at 1e-5 (complex64) / 1e-10 (complex128) relative, not proved. Trusted: Lean kernel + Mathlib, PbModel/Shift.lean tied by correspondence; the doubles ft*N the code derives are reproduced with the same astropy expression and given to the model exactly",
)


class Prop(PropBase):
    id = "C04"
    lean_targets = ["PbProps.C04"]
    theorems = ["Pb.C04." + t for t in ("C04_modulation", "C04_tone", "C04_fftshift_index", "C04_zero_bins",
                                        "C04_full_band", "C04_every_element", "C04_roundtrip", "C04_source_loop")]
    trusted_base = ["pbverif/extract.py: symbolic evaluation of the method bodies into PbModel/Gen/Shift.lean (trusted to render the source expressions faithfully; tied to the hand model by the C04_source_* theorem)", "PbModel/Shift.lean (hand model)", "numpy.fft complex128 oracle; NumPy broadcasting"]
    assumptions = ["the boundary bin is decided on the double ft*N exactly as the code computes it"]
    rule = ("BasebandSignal/DualPolarizationSignal, N in {1,2,3,5,8,16,17,31,64}, complex64/128, nchan 1-3, extra dims; shift "
            "scalar / per-channel / per-pol / (nchan,1) / (1,npol) / full; |df| up to 3 bandwidths, whole and fractional bins, both "
            "signs, Hz/kHz units. Non-trivial: some shift non-zero; distinct by case.")
    explanation = "modulation theorem + zeroed-bin logic proved in Lean; spectrum of the real output compared per element"

    def __init__(self):
        import pulsarbat as pb
        import numpy as np
        import astropy.units as u

        self.pb, self.np, self.u = pb, np, u

    def cases(self, rng, tier):
        quick = tier == "quick"
        for i in range(450 if quick else 12000):
            N = rng.choice([1, 2, 3, 5, 8, 16, 17, 31, 64])
            if i < (3 if quick else 60):
                N = rng.choice([16384, 65536, 100003 if not quick else 65536])     # long signals: phasor accuracy
            cls = rng.choice(["BasebandSignal", "DualPolarizationSignal"])
            sshape = list(sigs.sample_shape(cls, rng.choice([1, 2, 3]))) + rng.choice([[], [], [2]])
            if rng.random() < 0.35:
                shp = []
            else:
                k = rng.randint(1, len(sshape))
                shp = [d if rng.random() < 0.6 else 1 for d in sshape[:k]]
            n = 1
            for d in shp:
                n *= d
            def val():
                t = rng.random()
                if t < 0.08:
                    # a tiny but non-zero shift (|df| below 1e-8 of the sample rate): still a shift — its edge bin is emptied
                    return rng.choice([1, -1]) * N * 10 ** rng.uniform(-13, -8.2)
                if t < 0.5:
                    return float(rng.choice([0, 1, -1, 2, -3, N - 1, -(N - 1), N, -N, N + 2, -(2 * N), 0.5, -0.5]))
                return round(rng.uniform(-N - 2, N + 2), 3)
            bins = [val() for _ in range(n)]
            if N > 1000:
                sshape, shp = [1] if cls == "BasebandSignal" else [1, 2], []
                bins = [rng.choice([N / 4, -N / 3.7, N / 2.5])]
            yield {"op": "fshift", "cls": cls, "N": N, "dtype": rng.choice(["c8", "c16"]) if N <= 1000 else "c8", "sshape": sshape, "shp": shp,
                   "bins": bins, "rate": rng.choice([1000.0, 1e6, 16e6]), "unit": rng.choice(["Hz", "kHz"]),
                   "seed": rng.randrange(1 << 30)}

    def _mk(self, case):
        pb, np, u = self.pb, self.np, self.u
        g = np.random.default_rng(case["seed"])
        shape = (case["N"],) + tuple(case["sshape"])
        x = (g.standard_normal(shape) + 1j * g.standard_normal(shape))
        if case["seed"] % 5 == 0:
            x = x * [1e-9, 1e-12][case["seed"] % 2]          # weak signals: the operation is linear (no absolute tolerances)
        x = x.astype({"c8": "c8", "c16": "c16"}[case["dtype"]])
        kw = {"pol_type": "linear"} if case["cls"] == "DualPolarizationSignal" else {}
        return sigs.make(pb, case["cls"], case["N"], case["rate"] * u.Hz, sigs.T0S[0], nchan=case["sshape"][0], data=x,
                         center_freq=400 * u.MHz, freq_align="bottom", **kw)

    def _arg(self, case, z):
        np, u = self.np, self.u
        N = case["N"]
        b = np.array(case["bins"], dtype=float).reshape(case["shp"]) if case["shp"] else float(case["bins"][0])
        if case["shp"] and len(case["shp"]) >= 2 and case["seed"] % 2:
            # same values, other memory layout: Fortran order, or a transposed view of the transposed copy
            b = np.asfortranarray(b) if case["seed"] % 4 == 1 else np.ascontiguousarray(b.T).T
        q = (b * (case["rate"] / N) * u.Hz).to(u.Unit(case["unit"]))
        if case["seed"] % 7 == 3:
            q = q.astype(np.float32)          # a single-precision Quantity: its values are what they are, the arithmetic stays double
        # the doubles the code derives: ft = (shift[ix] * z.dt).to_value(one); a = ft * len(x)
        sh = q.to(u.Hz)
        if sh.isscalar:
            sh = sh[None]
        ix = (slice(None),) * sh.ndim + (None,) * (z.ndim - sh.ndim - 1)
        dt_own = (1 / (case["rate"] * u.Hz)).to(u.s)       # (not the library's z.dt: the sample period is part of what is checked)
        ft = (sh[ix] * dt_own).to_value(u.one)
        return q, np.asarray(ft * N, dtype=float), np.asarray(ft, dtype=float)

    def run_code(self, case):
        pb, np, u = self.pb, self.np, self.u
        z = self._mk(case)
        q, seen, ft = self._arg(case, z)
        out = {"seen": [X.rat(X.frac(float(v))) for v in seen.ravel()], "seen_shape": list(seen.shape)}
        # argument checks: only baseband signals (TypeError), only frequency Quantities, no more axes than the sample shape
        rej = []
        real = pb.Signal(np.zeros((8, 2)), sample_rate=z.sample_rate)
        inten = pb.IntensitySignal(np.zeros((8, 2)), sample_rate=z.sample_rate, center_freq=z.center_freq, chan_bw=z.sample_rate)
        for lab, fn, exc in (("freq_shift(Signal)", lambda: pb.freq_shift(real, 1 * u.Hz), TypeError),
                             ("freq_shift(IntensitySignal)", lambda: pb.freq_shift(inten, 1 * u.Hz), TypeError),
                             ("a bare number as shift", lambda: pb.freq_shift(z, 1.0), ValueError),
                             ("a time Quantity as shift", lambda: pb.freq_shift(z, 1.0 * u.s), ValueError),
                             ("a shift with as many axes as the signal", lambda: pb.freq_shift(z, np.ones((1,) * z.ndim) * u.Hz), ValueError),
                             ("a zero shift with as many axes as the signal", lambda: pb.freq_shift(z, np.zeros((1,) * z.ndim) * u.Hz), ValueError)):
            try:
                fn()
                rej.append(lab + " accepted")
            except exc:
                pass
            except Exception as e:      # noqa
                rej.append(f"{lab}: {err_name(e)} instead of {exc.__name__}")
        out["rejects"] = rej
        try:
            y = pb.freq_shift(z, q)
        except Exception as e:
            out["err"] = err_name(e)
            return out
        N = case["N"]
        if case["seed"] % 3 == 0:
            # history / joint evaluation: repeat the call after a decoy call on a signal that differs only in its sample rate
            # (same shapes, dtypes and shift in Hz); evaluate two shifts of one Dask-backed signal in ONE graph
            try:
                import dask
                import dask.array as da
                decoy = type(z).like(z, sample_rate=z.sample_rate * 2)
                d = pb.freq_shift(decoy, q)                 # same data, shapes and shift in Hz, twice the rate: half the bins
                half = pb.freq_shift(z, q * 0.5)            # ... which is what q/2 does at the original rate (same ft bit for bit)
                again = pb.freq_shift(z, q)
                out["repeat_same"] = bool(np.array_equal(np.asarray(again.data), np.asarray(y.data))
                                          and np.array_equal(np.asarray(d.data), np.asarray(half.data)))
                zd = type(z).like(z, da.from_array(np.asarray(z.data), chunks=(-1,) + (1,) * (z.ndim - 1)))
                l1, l2 = pb.freq_shift(zd, q), pb.freq_shift(zd, q * 0.5)
                a1, a2 = l1.data.compute(scheduler="synchronous"), l2.data.compute(scheduler="synchronous")
                j1, j2 = dask.compute(l1.data, l2.data, scheduler="synchronous")
                out["joint_same"] = bool(np.array_equal(j1, a1) and np.array_equal(j2, a2))
                out["lazy_close"] = bool(np.allclose(a1, np.asarray(y.data), rtol=1e-4, atol=1e-4 * float(np.max(np.abs(np.asarray(z.data))))))
            except Exception as e:  # noqa
                out["joint_err"] = err_name(e)
        out["meta"] = bool(type(y) is type(z) and y.dtype == z.dtype and y.shape == z.shape and y.sample_rate == z.sample_rate
                           and bool(y.start_time == z.start_time) and y.center_freq == z.center_freq
                           and y.freq_align == z.freq_align and getattr(y, "pol_type", None) == getattr(z, "pol_type", None))
        Y = np.fft.fftshift(np.fft.fft(np.asarray(y.data).astype(np.complex128), axis=0), axes=0).reshape(N, -1)
        # oracle: mix in complex128, zero per the property, per element
        ftb = np.broadcast_to(ft, (1,) + tuple(case["sshape"]))
        nn = np.arange(N).reshape((N,) + (1,) * len(case["sshape"]))
        mixed = np.asarray(z.data).astype(np.complex128) * np.exp(2j * np.pi * ftb * nn)
        R = np.fft.fftshift(np.fft.fft(mixed, axis=0), axes=0).reshape(N, -1)
        scale = float(np.max(np.abs(R))) or 1.0
        tiny = (2e-6 if case["dtype"] == "c8" else 1e-11) * max(1.0, math.log2(N + 1))
        zeros = []
        for e in range(Y.shape[1]):
            zz = np.flatnonzero(np.abs(Y[:, e]) <= tiny * scale)
            zeros.append([int(zz[0]), int(zz[-1]) + 1, int(len(zz))] if len(zz) else [0, 0, 0])
        out["zeros"] = zeros
        out["Y"] = None
        self._last = (Y, R, scale)
        per = np.broadcast_to(seen, (1,) + tuple(case["sshape"])).reshape(-1)
        errs = 0.0
        for e, b in enumerate(per):
            lo, hi = (0, min(math.ceil(b), N)) if b >= 0 else (max(N + math.floor(b), 0), N)
            keep = np.ones(N, bool)
            keep[lo:hi] = False
            if keep.any():
                errs = max(errs, float(np.max(np.abs(Y[keep, e] - R[keep, e])) / scale))
        out["val_err"] = errs
        return out

    def model_requests(self, case, code):
        def ls(l):
            return ",".join(str(x) for x in l) if l else "-"
        return [f"c03 zero {case['N']} {ls(case['sshape'])} {ls(code['seen_shape'])} {','.join(code['seen'])}"]

    def model_result(self, case, replies):
        r = replies[0].split()
        return {"iv": [[int(a) for a in t.split(":")] for t in r[0].split(",")]}

    def agree(self, case, code, model):
        if "err" in code:
            return False
        for z, (lo, hi) in zip(code["zeros"], model["iv"]):
            if z[2] != hi - lo or (z[2] > 0 and (z[0] != lo or z[1] != hi)):
                return False
        return True

    def spec_violation(self, case, code):
        np = self.np
        # (argument checks that the property does not state are observed in `rejects` for the evidence, not judged)
        if "err" in code:
            return f"raised {code['err']}"
        if not code["meta"]:
            return "type / dtype / shape / sample_rate / start_time / frequency labels changed"
        if code.get("repeat_same") is False:
            return ("the same freq_shift call repeated after a call on a signal with another sample rate (same shapes, same shift in Hz) "
                    "returned different values")
        if code.get("joint_same") is False:
            return "two different shifts of one Dask-backed signal evaluated in one graph differ from the results computed alone"
        if code.get("lazy_close") is False:
            return "the Dask-backed result differs from the NumPy-backed one"
        if "joint_err" in code:
            return f"freq_shift on the Dask-backed copy / decoy raised {code['joint_err']}"
        N = case["N"]
        seen = np.array([float(F(v)) for v in code["seen"]]).reshape(code["seen_shape"])
        per = np.broadcast_to(seen, (1,) + tuple(case["sshape"])).reshape(-1)
        for e, (b, z) in enumerate(zip(per, code["zeros"])):
            b = F(float(b))
            lo, hi = (0, min(math.ceil(b), N)) if b >= 0 else (max(N + math.floor(b), 0), N)
            if z[2] != hi - lo or (z[2] > 0 and (z[0] != lo or z[1] != hi)):
                return (f"element {e} (shift {float(b)} bins): zero bins of the output spectrum {z[:2] if z[2] else 'none'} "
                        f"({z[2]}), expected exactly [{lo},{hi})")
        lim = (1e-5 if case["dtype"] == "c8" else 1e-10) * max(1.0, math.log2(N + 1))
        if code["val_err"] > lim:
            return f"moved spectral content differs from the oracle by {code['val_err']:.3g} (limit {lim:.3g})"
        return None

    def nontrivial_key(self, case, code):
        return case if any(b != 0 for b in case["bins"]) else None

    def tags(self, case, code):
        t = [case["cls"], case["dtype"],
             "shape:" + ("scalar" if not case["shp"] else "full" if case["shp"] == case["sshape"] else "broadcast")]
        if any(abs(b) >= case["N"] for b in case["bins"]):
            t.append("|b|>=N")
        return t
