"""C19 — real_to_complex is the exact analytic-baseband conversion along any axis."""

import math

from .base import PropBase, err_name
from .. import dft

MANIFEST = dict(
    technique="Lean 4 proof: closed form and symmetry h(k)+h(-k)=2 of the analytic-signal weights for every N (the weight assignments are regenerated from utils.py by the translator), Re(ifft(h*fft x)) = x for real x on ZMod N (Mathlib DFT), even-sample identity, output length, linearity, dtype rule + differential correspondence of utils.real_to_complex against the executed specification built from the Lean weights",
    level_text="proved for every N>=1: weights h0=1, 2 on positive bins, Nyquist 1 (even N), h(k)+h(-k)=2; hence the filtered signal's real part is the input and (-1)^m Re(out[m]) = x[2m]; ceil(N/2) samples; linear; a real tone at a positive bin w becomes the complex tone at w (C19_tone) and, after mixing and decimation, at w - N/4 (C19_tone_mixed); complex refused, complex64 iff float32; tied: output values for every N<=48 and selected N to 4096, ranks 1-4, every axis, every real dtype, random and tone inputs, compared with ifft(h*fft x)*exp(-i pi n/2)[::2] computed with the model's weights",
    level_note="PARTIAL on numerics: SciPy FFT rounding outside the model (validated at 1e-5 for 32-bit, 1e-11 for 64-bit, times log2 N). Trusted: Lean kernel + Mathlib, translator (weight assignments), hand model PbModel/Hilbert.lean",
)

DTYPES = ["float32", "float64", "int8", "int16", "int32", "int64", "uint8", "float16", "bool"]


class Prop(PropBase):
    id = "C19"
    lean_targets = ["PbProps.C19"]
    theorems = ["Pb.C19." + t for t in ("C19_weights_closed", "C19_weights", "C19_real_part", "C19_real_part_re", "C19_tone", "C19_tone_mixed",
                                        "C19_even_samples", "mix_factor_even", "C19_len", "C19_linear", "C19_dtype")]
    trusted_base = ["PbModel/Hilbert.lean + Gen/Hilbert.lean (translator output)", "numpy.fft complex128 oracle"]
    assumptions = []
    rule = ("N = 0..48 and {63,64,65,127,128,511,512,1000,4096}; rank 1-4; every axis incl. negative; 9 real dtypes + complex "
            "(refused); random data and pure tones at every bin 0<w<N/2. Non-trivial: N>=2; distinct by case.")
    explanation = "analytic-signal identities proved in Lean; weights from source; outputs compared with the executed spec"

    def __init__(self):
        import pulsarbat as pb
        import numpy as np

        self.pb, self.np = pb, np

    def cases(self, rng, tier):
        quick = tier == "quick"
        Ns = list(range(0, 49)) + [63, 64, 65, 127, 128, 511, 512, 1000] + ([] if quick else [4096])
        for N in Ns:
            for _ in range(3 if quick else 30):
                rank = rng.choice([1, 1, 2, 3, 4]) if N <= 128 else 1
                axis = rng.randrange(-rank, rank)
                yield {"op": "r2c", "N": N, "rank": rank, "axis": axis, "dtype": rng.choice(DTYPES),
                       "kind": rng.choice(["random", "random", "tone"]), "w": rng.randint(1, max(1, (N - 1) // 2)),
                       "seed": rng.randrange(1 << 30)}
        for N in ([65536, 100003] if quick else [65536, 100003, 262144, 2**20]):
            for dt in ("float32", "float64"):
                yield {"op": "r2c", "N": N, "rank": 1, "axis": 0, "dtype": dt, "kind": rng.choice(["random", "tone"]),
                       "w": rng.randint(1, N // 2 - 1), "seed": rng.randrange(1 << 30)}
        for N in (0, 1, 5, 8):
            yield {"op": "r2c", "N": N, "rank": 1, "axis": 0, "dtype": "complex128", "kind": "random", "w": 1, "seed": N}
        for N, rank, axis in ((8, 2, 0), (7, 3, 2), (16, 2, 1), (1, 2, 0)):
            yield {"op": "r2c", "N": N, "rank": rank, "axis": axis, "dtype": "float64", "kind": "random", "w": 1, "seed": N + rank, "hollow": True}
        # wide inputs: several million elements, series counts that are not multiples of a power of two
        for N, wide, axis, dt in ((4096, 1030, 0, "float32"), (8192, 600, 0, "float64"), (2048, 2051, 1, "float32")):
            yield {"op": "r2c", "N": N, "rank": 2, "axis": axis, "dtype": dt, "kind": "random", "w": 1, "seed": N + wide, "wide": wide}
            yield {"op": "r2c", "N": N, "rank": 2, "axis": 1, "dtype": "complex64", "kind": "random", "w": 1, "seed": N}

    def _input(self, case):
        np = self.np
        g = np.random.default_rng(case["seed"])
        N, rank = case["N"], case["rank"]
        ax = case["axis"] % rank
        shape = [g.integers(1, 4) for _ in range(rank)]
        if case.get("wide"):
            shape = [case["wide"]] * rank           # many series side by side (millions of elements)
        if case.get("hollow") and rank > 1:
            shape = [0 if i != ax else shape[i] for i in range(rank)]      # no series at all: the shape rule still holds
        shape[ax] = N
        if case["kind"] == "tone" and N >= 3:
            n = np.arange(N).reshape([-1 if i == ax else 1 for i in range(rank)])
            x = 50 * np.cos(2 * np.pi * case["w"] * n / N + 0.3) * np.ones(shape)
        else:
            x = g.standard_normal(shape) * 40
        dt = case["dtype"]
        if dt.startswith("float") or dt in ("longdouble", "half"):
            x = x * [1.0, 1.0, 1e-9, 1e-12][(case["seed"] // 3) % 4]      # weak signals too: the conversion is linear
        if dt.startswith("complex"):
            return (x + 1j).astype(dt), ax
        if dt == "bool":
            return x > 0, ax
        if dt.startswith("uint"):
            return np.abs(x).astype(dt), ax
        y = x.astype(dt)
        if case["seed"] % 3 == 1 and y.ndim > 1:
            y = np.asfortranarray(y)                 # same values, column-major buffer
        elif case["seed"] % 3 == 2:
            y = np.repeat(y, 2, axis=0)[::2]          # same values through a strided view
        if case["seed"] % 7 in (1, 4) and y.dtype.itemsize > 1:
            y = y.astype(y.dtype.newbyteorder("S"))  # same values in the other byte order (big-endian dumps, FITS)
        elif case["seed"] % 7 == 2:
            y = np.ascontiguousarray(y[::-1])[::-1]   # same values through a negative stride
        return y, ax

    def run_code(self, case):
        pb, np = self.pb, self.np
        x, ax = self._input(case)
        try:
            # the default axis (0) by omission where it applies
            y = pb.utils.real_to_complex(x) if case["axis"] == 0 and x.size % 2 == 0 else pb.utils.real_to_complex(x, axis=case["axis"])
        except Exception as e:
            return {"err": err_name(e)}
        N = case["N"]
        out = {"dtype": str(y.dtype), "shape": list(y.shape), "in_shape": list(x.shape)}
        if N == 0 or x.size == 0:
            return out
        xm = np.moveaxis(x.astype(np.float64), ax, 0)
        ym = np.moveaxis(np.asarray(y).astype(np.complex128), ax, 0)
        self_scale = float(np.max(np.abs(xm))) or 1.0
        M = ym.shape[0]
        m = np.arange(M).reshape((-1,) + (1,) * (xm.ndim - 1))
        out["even_err"] = float(np.max(np.abs(((-1.0) ** m) * ym.real - xm[::2])) / self_scale)
        X = np.fft.fft(xm, axis=0)
        out["_X"] = None
        # per-weight-vector error is computed in agree/spec from these sufficient statistics
        # (store the spectrum-side projection: y_full = ifft(h X) needs h; keep x and y small enough to return)
        if xm.size <= 4096 or xm.ndim == 1:
            out["x"] = [float(v) for v in xm.reshape(N, -1)[:, 0]]
            out["y"] = [[float(v.real), float(v.imag)] for v in ym.reshape(M, -1)[:, 0]]
        out["scale"] = self_scale
        if case["kind"] == "tone" and N >= 3 and case["dtype"] in ("float32", "float64"):
            w = case["w"]
            amp = 50 * [1.0, 1.0, 1e-9, 1e-12][(case["seed"] // 3) % 4]        # the amplitude _input gave the tone
            ph = np.exp(1j * 0.3) * amp * np.exp(2j * np.pi * (w - N / 4.0) * (2 * m) / N)
            out["tone_err"] = float(np.max(np.abs(ym - ph * np.ones(ym.shape))) / amp)
        return out

    def model_requests(self, case, code):
        kind = "complex" if case["dtype"].startswith("complex") else case["dtype"]
        return [f"c19 weights {case['N']}", f"c19 dtype {kind}"]

    def model_result(self, case, replies):
        w, n = replies[0].split()
        return {"w": [] if w == "-" else [int(t) for t in w.split(",")], "len": int(n),
                "dtype": replies[1]}

    def _spec_out(self, x, h):
        np = self.np
        N = len(x)
        a = np.fft.ifft(np.fft.fft(np.asarray(x, dtype=np.float64)) * np.asarray(h, dtype=np.float64))
        return (a * np.exp(-1j * np.pi / 2 * np.arange(N)))[::2]

    def _lim(self, case):
        return (1e-5 if case["dtype"] in ("float32", "float16") else 1e-11) * max(1.0, math.log2(case["N"] + 2))

    def agree(self, case, code, model):
        if model["dtype"].startswith("err"):
            return code.get("err") == model["dtype"].split()[1]
        if "err" in code:
            return False
        if code["dtype"] != model["dtype"]:
            return False
        ax = case["axis"] % case["rank"]
        if code["shape"][ax] != model["len"]:
            return False
        if "x" in code and case["N"] > 0:
            np = self.np
            ref = self._spec_out(code["x"], model["w"])
            got = np.array([complex(a, b) for a, b in code["y"]])
            if float(np.max(np.abs(got - ref))) / code["scale"] > self._lim(case):
                return False
        return True

    def spec_violation(self, case, code):
        np = self.np
        N = case["N"]
        if case["dtype"].startswith("complex"):
            return None if code.get("err") == "ValueError" else f"complex input gave {code.get('err', 'a result')}"
        if "err" in code:
            return f"raised {code['err']}"
        want_dt = "complex64" if case["dtype"] == "float32" else "complex128"
        if code["dtype"] != want_dt:
            return f"output dtype {code['dtype']}, expected {want_dt}"
        ax = case["axis"] % case["rank"]
        exp_shape = list(code["in_shape"])
        exp_shape[ax] = (N + 1) // 2
        if code["shape"] != exp_shape:
            return f"output shape {code['shape']}, expected {exp_shape}"
        if N == 0 or "even_err" not in code:          # nothing to compare for empty inputs beyond shape and dtype
            return None
        lim = self._lim(case)
        if code["even_err"] > lim:
            return f"(-1)^m Re(out[m]) differs from x[2m] by {code['even_err']:.3g}"
        if "x" in code:
            h = [0.0] * N
            h[0] = 1.0
            for k in range(1, N):
                if 2 * k < N:
                    h[k] = 2.0
                elif 2 * k == N:
                    h[k] = 1.0
            ref = self._spec_out(code["x"], h)
            got = np.array([complex(a, b) for a, b in code["y"]])
            err = float(np.max(np.abs(got - ref))) / code["scale"]
            if err > lim:
                return f"output differs from the analytic-signal definition by {err:.3g} (limit {lim:.3g})"
        if "tone_err" in code and code["tone_err"] > max(lim, 1e-5 if case["dtype"] == "float32" else 1e-11) * 4:
            return f"real tone at bin {case['w']} did not become the complex tone at w - N/4 (error {code['tone_err']:.3g})"
        return None

    def nontrivial_key(self, case, code):
        return case if case["N"] >= 2 else None

    def tags(self, case, code):
        return [f"rank={case['rank']}", case["dtype"], case["kind"], "even" if case["N"] % 2 == 0 else "odd",
                "axis0" if case["axis"] % case["rank"] == 0 else "axis>0"]
