"""C20 — pb.fft equals the reference DFT on both backends; STFT/ISTFT invert and label right."""

from fractions import Fraction as F
import math

from .base import PropBase, err_name
from .. import exact as X
from .. import sigs, dft

MANIFEST = dict(
    technique="Lean 4 proof: the fourteen names and their delegate regenerated from fft.py by the translator; STFT/ISTFT label algebra over Q for every channel count, alignment and nperseg; reshape index map; per-segment inversion on ZMod P (Mathlib DFT) + differential correspondence of pulsarbat.fft.<name> against numpy.fft and a direct DFT matrix (NumPy and lazy Dask), and of contrib.stft/istft (labels, tone peak bins, reconstruction)",
    level_text="the relabelling arithmetic of stft/istft, translated symbolically from the source on every run, is what the model's stft/istft compute (C20_source_formulas); proved: name table exact (each name -> same-named scipy.fft function, anything else AttributeError); STFT sub-channel c*P+k is labelled label_c + (k - floor(P/2))*bw/P with rate/P, unchanged start, floor(len/P) samples; ISTFT of an STFT restores labels, rate, start and truncated length; ifft(P * (1/P) * fft x) = x per segment; tied: all 14 names x ranks x axes x n/s x norm vs independent references (distinguishes fft/ifft, fft2/fftn), Dask results lazy and equal, unknown names, STFT labels vs model and vs tone peaks at known absolute frequency, istft(stft(z)) vs z",
    level_note="PARTIAL on numerics: SciPy FFT values validated against numpy.fft/direct DFT at 1e-10 (1e-4 for 32-bit), not proved. Trusted: Lean kernel + Mathlib, translator (name list/delegate), hand model PbModel/Stft.lean tied by correspondence",
)

NAMES = ["fft", "fft2", "fftn", "ifft", "ifft2", "ifftn", "rfft", "rfft2", "rfftn", "irfft", "irfft2", "irfftn", "hfft", "ihfft"]


class Prop(PropBase):
    id = "C20"
    lean_targets = ["PbProps.C20"]
    theorems = ["Pb.C20." + t for t in ("C20_names", "C20_stft_labels", "C20_index_map", "C20_istft_labels", "C20_istft_inverse", "C20_source_formulas")]
    trusted_base = ["pbverif/extract.py: symbolic evaluation of the method bodies into PbModel/Gen/Stft.lean (trusted to render the source expressions faithfully; tied to the hand model by the C20_source_* theorem)", "PbModel/Stft.lean + Gen/Fft.lean (translator)", "numpy.fft and a longdouble DFT matrix as references"]
    assumptions = []
    rule = ("names: 14 transforms x rank 1-3 x axis/axes x optional n/s x norm in {None,'ortho','forward'} x float/complex input x "
            "NumPy/Dask + unknown names; stft: BasebandSignal/DualPol, nchan 1-4, 3 alignments, nperseg in {1,2,3,4,5,8,len}, "
            "len not a multiple of nperseg, random data and a pure tone at a known absolute frequency. Non-trivial: every case; "
            "distinct by case.")
    explanation = "name table/labels/inversion proved in Lean; all names and STFT behaviour compared differentially"

    def __init__(self):
        import pulsarbat as pb
        import numpy as np
        import astropy.units as u
        import dask.array as da

        self.pb, self.np, self.u, self.da = pb, np, u, da

    def cases(self, rng, tier):
        quick = tier == "quick"
        for _ in range(2 if quick else 40):
            for name in NAMES:
                for _ in range(2):
                    rank = rng.choice([1, 2, 3]) if not name.endswith("2") else rng.choice([2, 3])
                    if name.endswith("n"):
                        rank = rng.choice([2, 3, 3])
                    yield {"op": "fft", "name": name, "rank": rank, "seed": rng.randrange(1 << 30),
                           "norm": rng.choice([None, None, "ortho", "forward"]), "use_n": rng.random() < 0.4,
                           "axis": rng.randrange(-rank, rank), "dask": rng.random() < 0.3,
                           "cplx": rng.random() < 0.5, "f32": rng.random() < 0.2,
                           # raw-sample dtypes: SciPy promotes every integer to double precision
                           "idtype": rng.choice([None, None, "int8", "uint8", "int16", "int32", "float16"])}
        for nm in ("dct", "fftfreq", "next_fast_len", "FFT", "", "__wrapped__", "ifft3"):
            yield {"op": "name", "name": nm}
        for _ in range(120 if quick else 4000):
            P = rng.choice([1, 2, 3, 4, 5, 8, 8, 256])      # 256 = the default nperseg (then the argument is left out)
            L = rng.choice([P, 2 * P, 3 * P + 1, 4 * P + P - 1, 32])
            yield {"op": "stft", "cls": rng.choice(["BasebandSignal", "DualPolarizationSignal"]), "n": rng.choice([1, 2, 3, 4]),
                   "al": rng.choice(["bottom", "center", "top"]), "P": P, "L": max(L, P), "rate": rng.choice([1e3, 1e6, 8e6, 3.2e6, 1e4]),
                   "cf": rng.choice([400e6, 1.4e9, 1420.405751e6, 8.4123e9]), "tone": [rng.randrange(0, 4), rng.randrange(0, 8)],
                   "t0": rng.choice(sigs.T0S + [None]), "seed": rng.randrange(1 << 30)}

    # ------------------------------------------------------------------ fft names
    def _fft_case(self, case):
        pb, np = self.pb, self.np
        import scipy.fft
        g = np.random.default_rng(case["seed"])
        name, rank = case["name"], case["rank"]
        shape = tuple(int(g.integers(2, 7)) for _ in range(rank))
        x = g.standard_normal(shape)
        real_in = name in ("rfft", "rfft2", "rfftn", "ihfft")
        if case["cplx"] and not real_in:
            x = x + 1j * g.standard_normal(shape)
        if case["f32"]:
            x = x.astype(np.complex64 if np.iscomplexobj(x) else np.float32)
        if case.get("idtype") and not np.iscomplexobj(x):
            x = (x * 20).astype(case["idtype"])
        kw = {}
        if case["norm"]:
            kw["norm"] = case["norm"]
        multi = name.endswith("2") or name.endswith("n")
        if name.endswith("2"):
            axes = (-2, -1)
            if case["use_n"]:
                kw["s"] = (shape[-2] + 1, shape[-1] - 1) if shape[-1] > 2 else None
                if kw["s"] is None:
                    kw.pop("s")
            if not (rank == 3 and case["axis"] % 2 == 0):     # rank 3 with default axes separates fft2 from fftn
                kw["axes"] = axes
        elif name.endswith("n") and not case["dask"] and rank == 3 and case["seed"] % 2 == 0:
            # lengths given for two axes, axes left out: the reference transforms the LAST len(s) axes
            axes = (1, 2)
            kw["s"] = (shape[1] + 1, shape[2] if name.startswith("i") or name.startswith("r") else shape[2] + 2)
        elif name.endswith("n"):
            axes = tuple(range(rank)) if rank < 3 else (0, 2)
            kw["axes"] = axes
            if case["use_n"]:
                kw["s"] = tuple(shape[a] + 1 for a in axes)
        else:
            kw["axis"] = case["axis"]
            if case["use_n"]:
                kw["n"] = shape[case["axis"]] + 2
        import warnings
        with warnings.catch_warnings():
            warnings.simplefilter("ignore")
            ref_np = getattr(np.fft, name)(np.asarray(x, dtype=np.complex128 if np.iscomplexobj(x) else np.float64),
                                           **(dict(kw, axes=tuple(range(rank - len(kw["s"]), rank))) if "s" in kw and "axes" not in kw and multi else kw))
        ref_sp = getattr(scipy.fft, name)(x, **kw)
        if case["dask"]:
            tr = set(a % rank for a in (kw.get("axes") or ((kw["axis"],) if "axis" in kw else (-2, -1))))
            chunks = tuple(-1 if i in tr else 1 for i in range(rank))
            xin = self.da.from_array(x, chunks=chunks)
        else:
            xin = x
        y = getattr(pb.fft, name)(xin, **kw)
        lazy = isinstance(y, self.da.Array)
        lazy_dtype = str(y.dtype)
        yv = np.asarray(y)
        scale = float(np.max(np.abs(ref_np))) or 1.0
        out = {"shape": list(yv.shape), "ref_shape": list(ref_np.shape), "dtype": str(yv.dtype), "sp_dtype": str(ref_sp.dtype),
               "lazy": lazy, "lazy_dtype": lazy_dtype, "err_np": float(np.max(np.abs(yv - ref_np)) / scale) if yv.shape == ref_np.shape else -1.0,
               "same_as_scipy": bool(yv.shape == ref_sp.shape and np.array_equal(yv, ref_sp)) if not case["dask"] else
               bool(yv.shape == ref_sp.shape and np.allclose(yv, ref_sp, rtol=1e-5, atol=1e-6 * scale))}
        if name in ("fft", "ifft") and not case["use_n"] and not case["norm"]:
            ax = case["axis"] % rank
            xm = np.moveaxis(x, ax, 0)
            d = dft.direct_dft(xm, sign=-1 if name == "fft" else +1)
            if name == "ifft":
                d = d / xm.shape[0]
            out["err_direct"] = float(np.max(np.abs(np.moveaxis(yv, ax, 0) - d)) / scale)
        return out

    def run_code(self, case):
        pb, np, u = self.pb, self.np, self.u
        if case["op"] == "name":
            try:
                f = getattr(pb.fft, case["name"])
                return {"ok": getattr(f, "__name__", "?")}
            except AttributeError:
                return {"err": "AttributeError"}
            except Exception as e:
                return {"err": err_name(e)}
        if case["op"] == "fft":
            try:
                out = self._fft_case(case)
                out["dir_ok"] = bool(sorted(dir(pb.fft)) == sorted(NAMES))
                f = getattr(pb.fft, case["name"])
                out["fname"] = f.__name__
                return out
            except Exception as e:
                return {"err": err_name(e)}
        # stft / istft
        g = np.random.default_rng(case["seed"])
        n, P, L = case["n"], case["P"], case["L"]
        # further sample axes after the channel (and polarisation) axis: none, one or two
        ext = tuple([[], [], [2], [2, 3], [3, 2]][case["seed"] % 5])
        shape = (L,) + sigs.sample_shape(case["cls"], n) + ext
        x = g.standard_normal(shape) + 1j * g.standard_normal(shape)
        if case["seed"] % 5 == 0:
            x = x * [1e-9, 1e-12][case["seed"] % 2]              # weak signals: the transforms are linear
        kw = {"pol_type": "linear"} if case["cls"] == "DualPolarizationSignal" else {}
        # the same rate / centre written in Hz or (every second case) in MHz, where the values are no longer whole numbers
        rq, cq = (case["rate"] * u.Hz, case["cf"] * u.Hz) if case["seed"] % 2 else ((case["rate"] / 1e6) * u.MHz, (case["cf"] / 1e6) * u.MHz)
        z = sigs.make(pb, case["cls"], L, rq, case["t0"], nchan=n, data=x, center_freq=cq,
                      freq_align=case["al"], **kw)
        try:
            # the segment length as a Python int or a NumPy integer; the default (256) by omission
            Pf = [P, np.int64(P), P, np.int32(P)][case["seed"] % 4]
            y = pb.contrib.stft(z) if P == 256 else pb.contrib.stft(z, nperseg=Pf)
            y_before = np.array(np.asarray(y.data), copy=True)
            w = pb.contrib.istft(y) if P == 256 else pb.contrib.istft(y, nperseg=Pf)
            w_again = pb.contrib.istft(y, nperseg=P)           # the STFT object is reused: same answer, object unchanged
            y_again = pb.contrib.stft(z, nperseg=P)
            repeat_ok = bool(np.array_equal(np.asarray(w_again.data), np.asarray(w.data))
                             and np.array_equal(np.asarray(y.data), y_before)
                             and np.array_equal(np.asarray(y_again.data), y_before))
            lazy_ok = None
            if case["seed"] % 3 == 0:
                from .. import lazy
                zd, zo = lazy.dask_copy(np, z), lazy.dask_copy(np, z, data=np.asarray(z.data) * (1 + 0.5j) + 2)
                P2 = max(1, P // 2)
                ls = [pb.contrib.stft(zd, nperseg=P), pb.contrib.stft(zo, nperseg=P), pb.contrib.stft(zd, nperseg=P2),
                      pb.contrib.istft(pb.contrib.stft(zd, nperseg=P), nperseg=P)]
                ok, alone = lazy.joint_equal(np, [l.data for l in ls])
                scale = float(np.max(np.abs(np.asarray(z.data)))) or 1.0
                lazy_ok = bool(ok and alone[0].shape == y_before.shape and np.allclose(alone[0], y_before, rtol=1e-6, atol=1e-6 * scale)
                               and np.allclose(alone[3], np.asarray(w.data), rtol=1e-6, atol=1e-6 * scale)
                               and all(type(l.data).__module__.startswith("dask") for l in ls)
                               and ls[0].freq_align == y.freq_align and bool(np.all(ls[0].channel_freqs == y.channel_freqs)))
        except Exception as e:
            return {"err": err_name(e)}

        def desc(s):
            return {"cls": type(s).__name__, "len": len(s), "rate": X.rat(X.q_value(s.sample_rate, u.Hz)),
                    "t0": None if s.start_time is None else X.rat(X.time_offset_s(s.start_time, z.start_time)),
                    "n": int(s.nchan), "al": s.freq_align, "bw": X.rat(X.q_value(s.chan_bw, u.Hz)),
                    "labels": [X.rat(X.q_value(f, u.Hz)) for f in s.channel_freqs],
                    "shape": list(s.shape)}
        # anything that is not a baseband signal is refused (ValueError), unsupported window/overlap settings give NotImplemented
        rej = []
        inten = pb.IntensitySignal(np.abs(x) ** 2, sample_rate=z.sample_rate, center_freq=z.center_freq, chan_bw=z.chan_bw) \
            if case["cls"] == "BasebandSignal" else z.to_stokes()
        for lab, fn in (("stft(IntensitySignal)", lambda: pb.contrib.stft(inten, nperseg=P)),
                        ("istft(IntensitySignal)", lambda: pb.contrib.istft(inten, nperseg=P)),
                        ("stft(ndarray)", lambda: pb.contrib.stft(x, nperseg=P)),
                        ("stft(Signal)", lambda: pb.contrib.stft(pb.Signal(x, sample_rate=z.sample_rate), nperseg=P))):
            try:
                fn()
                rej.append(lab + " accepted")
            except ValueError:
                pass
            except Exception as e:      # noqa
                rej.append(f"{lab}: {type(e).__name__}")
        if pb.contrib.stft(z, nperseg=P, noverlap=1) is not NotImplemented or pb.contrib.istft(y, nperseg=P, window="hann") is not NotImplemented:
            rej.append("unsupported window/noverlap not answered with NotImplemented")
        out = {"rejects": rej, "repeat_ok": repeat_ok, "lazy_ok": lazy_ok, "stft": desc(y), "istft": desc(w), "orig_labels": [X.rat(X.q_value(f, u.Hz)) for f in z.channel_freqs]}
        Lt = (L // P) * P
        scale = float(np.max(np.abs(x)))
        # the STFT values themselves: sub-channel c*P + k of segment s is bin k (centred order) of the P-point DFT of that segment
        if Lt:
            xs = x[:Lt].reshape((Lt // P, P) + shape[1:])
            ref = np.fft.fftshift(np.fft.fft(xs, axis=1), axes=1) / P
            ref = np.moveaxis(ref, 1, 2).reshape((Lt // P, n * P) + shape[2:])
            yv = np.asarray(y.data)
            out_stft_err = float(np.max(np.abs(yv - ref)) / scale) if yv.shape == ref.shape else -1.0
        else:
            out_stft_err = 0.0
        out["recon_err"] = float(np.max(np.abs(np.asarray(w.data) - x[:Lt])) / scale) if w.shape == x[:Lt].shape else -1.0
        out["stft_err"] = out_stft_err
        # tone at a known absolute frequency: channel c, bin kb of the P-point DFT
        c = case["tone"][0] % n
        kb = case["tone"][1] % P - P // 2            # signed bin in [-P/2, P/2)
        t = np.arange(L)
        tone = np.zeros(shape, dtype=complex)
        sel = (slice(None), c) + (0,) * (len(shape) - 2)
        tone[sel] = np.exp(2j * np.pi * kb * t / P)
        zt = type(z).like(z, tone)
        yt = pb.contrib.stft(zt, nperseg=P)
        pw = np.abs(np.asarray(yt.data)) ** 2
        pw = pw.reshape(pw.shape[0], pw.shape[1], -1)[:, :, 0].sum(axis=0)
        jmax = int(np.argmax(pw))
        f_abs = X.q_value(z.channel_freqs[c], u.Hz) + F(kb) * X.frac(case["rate"]) / P
        out["tone"] = {"peak_label": X.rat(X.q_value(yt.channel_freqs[jmax], u.Hz)), "true_freq": X.rat(f_abs),
                       "purity": float(pw[jmax] / (pw.sum() or 1.0))}
        return out

    # ------------------------------------------------------------------ model
    def model_requests(self, case, code):
        if case["op"] in ("name", "fft"):
            return [f"c20 name {case['name'] or 'EMPTY'}"]
        t0 = "none" if case["t0"] is None else "0"
        args = f"{t0} {X.rat(X.frac(case['rate']))} {case['L']} {X.rat(X.frac(case['cf']))} {case['n']} {case['al']} {case['P']}"
        return [f"c20 stft {args}", f"c20 roundtrip {args}"]

    def model_result(self, case, replies):
        def sig(r):
            r = r.split()
            if r[0] == "err":
                return {"err": r[1]}
            return {"t0": None if r[1] == "none" else r[1], "rate": r[2], "len": int(r[3]), "cf": r[4], "bw": r[5],
                    "n": int(r[6]), "al": r[7], "labels": r[8].split(",")}
        if case["op"] in ("name", "fft"):
            r = replies[0].split()
            return {"ok": r[1]} if r[0] == "ok" else {"err": r[1]}
        return {"stft": sig(replies[0]), "istft": sig(replies[1])}

    def _sig_close(self, case, d, m):
        if "err" in m:
            return False
        tol = F(64, 2**52) * (abs(X.frac(case["cf"])) + case["n"] * X.frac(case["rate"]))
        if d["len"] != m["len"] or d["n"] != m["n"] or d["al"] != m["al"]:
            return False
        if not X.close(F(d["rate"]), F(m["rate"]), rtol=F(1, 10**14)) or not X.close(F(d["bw"]), F(m["bw"]), rtol=F(1, 10**14)):
            return False
        if (d["t0"] is None) != (m["t0"] is None) or (d["t0"] is not None and abs(F(d["t0"])) > F(1, 10**10)):
            return False
        return len(d["labels"]) == len(m["labels"]) and all(X.close(F(a), F(b), atol=tol) for a, b in zip(d["labels"], m["labels"]))

    def agree(self, case, code, model):
        if case["op"] == "name":
            return ("err" in code) == ("err" in model) and code.get("err") == model.get("err")
        if case["op"] == "fft":
            return "err" not in code and model.get("ok") == "scipy.fft." + case["name"] and code["fname"] == case["name"] \
                and code["same_as_scipy"]
        if "err" in code:
            return False
        return self._sig_close(case, code["stft"], model["stft"]) and self._sig_close(case, code["istft"], model["istft"])

    # ------------------------------------------------------------------ property oracle
    def spec_violation(self, case, code):
        if case["op"] == "name":
            if case["name"] in NAMES:
                return None if "ok" in code else "known name raised"
            return None if code.get("err") == "AttributeError" else f"unknown name gave {code}"
        if case["op"] == "fft":
            if "err" in code:
                return f"raised {code['err']}"
            lim = (2e-4 if (case["f32"] or code.get("sp_dtype") in ("complex64", "float32")) else 1e-10) * 8
            if code["shape"] != code["ref_shape"]:
                return f"shape {code['shape']} != reference {code['ref_shape']}"
            if not (0 <= code["err_np"] <= lim):
                return f"values differ from numpy.fft.{case['name']} by {code['err_np']:.3g}"
            if "err_direct" in code and code["err_direct"] > lim:
                return f"values differ from the direct DFT by {code['err_direct']:.3g}"
            if code["dtype"] != code["sp_dtype"]:
                return f"dtype {code['dtype']} != reference {code['sp_dtype']}"
            if code.get("lazy_dtype", code["dtype"]) != code["sp_dtype"]:
                return (f"the lazy result declares dtype {code['lazy_dtype']} but computes to {code['dtype']} "
                        f"(input dtype {case.get('idtype') or 'float'})")
            if code["lazy"] != case["dask"]:
                return "Dask input must give a lazy Dask result (and NumPy input a NumPy result)"
            if not code["dir_ok"]:
                return "dir(pulsarbat.fft) is not the fourteen names"
            return None
        if "err" in code:
            return f"raised {code['err']}"
        n, P, L = case["n"], case["P"], case["L"]
        rate = X.frac(case["rate"])
        tol = F(64, 2**52) * (abs(X.frac(case["cf"])) + n * rate)
        s = code["stft"]
        if s["cls"] != case["cls"] or s["len"] != L // P or s["n"] != n * P:
            return f"stft class/len/nchan = {s['cls']},{s['len']},{s['n']}"
        # one division: correct to an ulp (a difference of band edges divided by the channel count is not)
        if not X.close(F(s["rate"]), rate / P, rtol=F(1, 2**51)) or not X.close(F(s["bw"]), rate / P, rtol=F(1, 2**51)):
            return "stft sample_rate/chan_bw is not rate/nperseg"
        if case["t0"] is not None and (s["t0"] is None or abs(F(s["t0"])) > F(1, 10**10)):
            return "stft changed the start time"
        for c, lab in enumerate(code["orig_labels"]):
            for k in range(P):
                want = F(lab) + F(k - P // 2) * rate / P
                if not X.close(F(s["labels"][c * P + k]), want, atol=tol):
                    return (f"sub-channel {c * P + k} labelled {float(F(s['labels'][c * P + k]))}, true frequency of bin "
                            f"{k - P // 2} of channel {c} is {float(want)}")
        t = code["tone"]
        if t["purity"] < 0.999 or not X.close(F(t["peak_label"]), F(t["true_freq"]), atol=tol):
            return f"tone at {float(F(t['true_freq']))} Hz peaks in the sub-channel labelled {float(F(t['peak_label']))} Hz"
        if code.get("lazy_ok") is False:
            return "stft/istft of Dask-backed copies (alone and evaluated in one graph) differ from the NumPy-backed results or are not lazy"
        # (argument checks that the property does not state are observed in `rejects` for the evidence, not judged)
        if code.get("stft_err", 0.0) < 0 or code.get("stft_err", 0.0) > 1e-5:
            return f"STFT values differ from the per-segment DFT of the input (relative error {code['stft_err']:.3g}; -1 = shape)"
        if code.get("repeat_ok") is False:
            return "istft (or stft) called a second time on the same object gives a different answer, or changed its argument"
        w = code["istft"]
        if w["cls"] != case["cls"] or w["len"] != (L // P) * P or w["n"] != n or not X.close(F(w["rate"]), rate, rtol=F(1, 2**50)):
            return f"istft(stft(z)) class/len/nchan/rate = {w['cls']},{w['len']},{w['n']},{w['rate']}"
        if any(not X.close(F(a), F(b), atol=tol) for a, b in zip(w["labels"], code["orig_labels"])):
            return "istft(stft(z)) channel labels differ from the original"
        if case["t0"] is not None and (w["t0"] is None or abs(F(w["t0"])) > F(1, 10**10)):
            return "istft(stft(z)) changed the start time"
        if not (0 <= code["recon_err"] <= 1e-10):
            return f"istft(stft(z)) differs from z by {code['recon_err']:.3g}"
        return None

    def nontrivial_key(self, case, code):
        return case

    def tags(self, case, code):
        if case["op"] == "fft":
            return ["fft:" + case["name"], "dask" if case["dask"] else "numpy"]
        if case["op"] == "name":
            return ["name"]
        return ["stft", f"P={case['P']}", "al:" + case["al"], "trunc" if case["L"] % case["P"] else "exact"]
