"""C02 — channel frequency labels follow the band model and survive frequency slicing."""

from fractions import Fraction as F

from .base import PropBase, err_name
from .. import exact as X
from .. import sigs

MANIFEST = dict(
    technique="Lean 4 proof over Q (label algebra, slice composition by induction) with the alignment table, allowed set, odd rule and _stokes_ids regenerated from core.py by the translator on every run + differential correspondence on constructed/sliced radio signals of all five classes",
    level_text="the label, band-edge and slice-centre expressions translated symbolically from the source on every run are the model's functions (C02_source_formulas); label formula, spacing, band bounds, frequency-slice and nested-slice label invariance, rejection of empty/stepped ranges, combined time+frequency slices and Stokes component access proved for every band, alignment, channel count and slice list; the alignment table theorem is about the translator's output, so a changed literal breaks the build; real objects compared with the model and with the exact rational formula",
    level_note="Trusted: Lean kernel (+3 std axioms), translator pbverif/extract.py (literal tables), hand model PbModel/Freq.lean (tied by correspondence), float evaluation of labels by astropy Quantity (validated within 16 ulp of |cf|+n*bw per slice depth)",
)

ALIGN = {"bottom": F(0), "center": F(1, 2), "top": F(1)}
FCLASSES = ["RadioSignal", "IntensitySignal", "FullStokesSignal", "BasebandSignal", "DualPolarizationSignal"]
UNITS = ["Hz", "kHz", "MHz", "GHz"]


class Prop(PropBase):
    id = "C02"
    lean_targets = ["PbProps.C02"]
    theorems = ["Pb.C02." + t for t in (
        "C02_align_table", "C02_label_formula", "C02_spacing", "C02_in_band", "C02_freq_slice",
        "C02_freq_slice_rejects", "C02_nested", "C02_time_freq", "C02_time_only",
        "C02_baseband_rescale_witness", "C02_component_keeps_labels", "C02_source_formulas")]
    trusted_base = ["pbverif/extract.py: symbolic evaluation of the method bodies into PbModel/Gen/Align.lean (trusted to render the source expressions faithfully; tied to the hand model by the C02_source_* theorem)", 
        "PbModel/Freq.lean hand model of RadioSignal label/slice logic; Gen/Align.lean, Gen/Classes.lean "
        "produced by pbverif/extract.py from core.py on every run",
        "astropy Quantity float arithmetic for labels (validated, not proved)",
    ]
    assumptions = ["center_freq / chan_bw <= 1e9 so half a channel exceeds the float tolerance"]
    rule = ("radio signals of 5 classes, nchan 1..65 (both parities), 3 alignments (+invalid names), cf/bw over "
            "decades in Hz..GHz; 0-6 nested frequency slices with bounds from {None,0,+-1,+-n,+-(n+-1),random}, "
            "exhaustive a:b for n<=7 (thorough n<=9), steps {None,1,2,0,-1}, combined time+frequency slices, Stokes keys. "
            "Non-trivial: even nchan with bottom/top, or at least one slice/selection, or an error; distinct by "
            "(cls,n,align,ops).")
    explanation = "label algebra proved in Lean over Q; tables regenerated from source; API differential"

    def __init__(self):
        import pulsarbat as pb
        import numpy as np
        import astropy.units as u

        self.pb, self.np, self.u = pb, np, u

    def _bound(self, rng, n):
        r = rng.random()
        if r < 0.25:
            return None
        if r < 0.55:
            return rng.choice([0, 1, -1, n, -n, n + 1, -(n + 1), n - 1, 1 - n, 10**6, -10**6])
        return rng.randint(-n - 2, n + 2)

    def _band(self, rng, n=None):
        n = n or rng.choice([1, 2, 3, 4, 5, 7, 8, 9, 16, 31, 32, 64, 65, rng.randint(1, 65), rng.choice([129, 257, 1024, 2049, 4097, 16385])])
        bw_val = rng.choice(["1", "0.5", "2", "3.125", "0.001", "12.5", "100", "0.2"])
        bw_unit = rng.choice(UNITS)
        bw_hz = F(bw_val) * X.unit_scale(self.u.Unit(bw_unit), self.u.Hz)
        while True:
            cf_val = rng.choice(["0", "1", "400", "1.4", "327.5", "1234.5678", "-3", "8000", "0.0625"])
            cf_unit = rng.choice(UNITS)
            cf_hz = F(cf_val) * X.unit_scale(self.u.Unit(cf_unit), self.u.Hz)
            if abs(cf_hz) <= bw_hz * 10**9:
                break
        al = rng.choice(["bottom", "center", "top"])
        return n, [cf_val, cf_unit], [bw_val, bw_unit], al

    def cases(self, rng, tier):
        quick = tier == "quick"
        for i in range(700 if quick else 20000):
            cls = rng.choice(FCLASSES)
            n, cf, bw, al = self._band(rng)
            if rng.random() < 0.04:
                al = rng.choice(["middle", "Center", "", "upper"])
            ops, cur = [], n
            for _ in range(rng.choice([0, 1, 1, 2, 3, rng.randint(0, 6)])):
                r = rng.random()
                if r < 0.7:
                    st = rng.choice([None, None, None, 1, 1] + ([2, 0, -1] if rng.random() < 0.2 else []))
                    ops.append(["fs", self._bound(rng, cur), self._bound(rng, cur), st])
                    e = self._sel(list(range(cur)), ops[-1][1:])
                    if e is None:
                        break
                    cur = len(e)
                elif r < 0.85:
                    ops.append(["tfs", [rng.choice([None, 0, 1]), rng.choice([None, 3, -1]), rng.choice([None, 1, 2])],
                                [self._bound(rng, cur), self._bound(rng, cur), None]])
                    e = self._sel(list(range(cur)), ops[-1][2])
                    if e is None:
                        break
                    cur = len(e)
                elif cls == "FullStokesSignal":
                    ops.append(["stokes", rng.choice(["I", "Q", "U", "V", "X" if rng.random() < 0.2 else "I"])])
                    break
            yield {"op": "band", "cls": cls, "n": n, "cf": cf, "bw": bw, "al": al, "ops": ops}
        # exhaustive single slices for small n, every alignment
        for n in range(1, (7 if quick else 9) + 1):
            for al in ("bottom", "center", "top"):
                bs = [None] + list(range(-n - 1, n + 2))
                for a in bs:
                    for b in bs:
                        if quick and hash((n, al, a, b)) % 4:
                            continue
                        yield {"op": "band", "cls": "RadioSignal", "n": n, "cf": ["400", "MHz"], "bw": ["1", "MHz"],
                               "al": al, "ops": [["fs", a, b, None]]}

    @staticmethod
    def _sel(idx, abc):
        a, b, c = abc
        if c == 0 or (c is not None and c != 1):
            return None
        r = idx[slice(a, b, None)]
        return r if r else None

    # ------------------------------------------------------------------ real code
    def _q(self, pair):
        return float(pair[0]) * self.u.Unit(pair[1])

    def _chan_ids(self, z):
        np = self.np
        x = np.asarray(z.data)
        if x.shape[0] == 0:
            return None
        rest = int(np.prod(x.shape[2:])) if x.ndim > 2 else 1
        row = x[0].reshape(x.shape[1], -1)[:, 0].real
        return [int(round(float(v) / 1.0e6)) // rest for v in row]

    def run_code(self, case):
        pb, u = self.pb, self.u
        cls = case["cls"]
        bwq = self._q(case["bw"])
        kw = dict(center_freq=self._q(case["cf"]), freq_align=case["al"])
        # every third case reaches the same band through the attribute setters: built with another centre / alignment,
        # then `z.center_freq = ...; z.freq_align = ...` (the labels must be those of the band constructed directly)
        via_setter = (case["n"] + len(case["ops"]) + len(case["al"])) % 3 == 0
        if via_setter:
            kw = dict(center_freq=self._q(case["cf"]) + 3 * bwq, freq_align={"bottom": "top", "center": "bottom"}.get(case["al"], "center"))
        try:
            if sigs.is_complex(cls):
                z = sigs.make(pb, cls, 256 if case["n"] <= 1024 else 8, bwq, sigs.T0S[len(str(case)) % len(sigs.T0S)], nchan=case["n"], **kw)
            else:
                z = sigs.make(pb, cls, 256 if case["n"] <= 1024 else 8, 1 * u.kHz, sigs.T0S[len(str(case)) % len(sigs.T0S)], nchan=case["n"], chan_bw=bwq, **kw)
            if via_setter:
                z.center_freq = self._q(case["cf"])
                z.freq_align = case["al"]
        except Exception as e:
            return {"err": [err_name(e), -1]}
        z0 = z
        rest0 = None
        comp = None
        for i, op in enumerate(case["ops"]):
            try:
                if op[0] == "fs":
                    y = z[:, slice(*op[1:])]
                    # (adding zero seconds to a UTC time goes through TAI and back in astropy: the start may move by ~1e-13 s)
                    same_time = (len(y) == len(z) and abs((y.start_time - z.start_time).to_value(u.s)) < 1e-12
                                 and y.start_time.scale == z.start_time.scale and y.sample_rate == z.sample_rate)
                elif op[0] == "tfs":
                    y = z[slice(*op[1]), slice(*op[2])]
                    yt = z[slice(*op[1])]
                    same_time = (len(y) == len(yt) and abs((y.start_time - yt.start_time).to_value(u.s)) < 1e-12
                                 and y.sample_rate == yt.sample_rate)
                elif op[0] == "stokes":
                    y = z[op[1]]
                    same_time = (len(y) == len(z) and abs((y.start_time - z.start_time).to_value(u.s)) < 1e-12
                                 and y.start_time.scale == z.start_time.scale and y.sample_rate == z.sample_rate
                                 and type(y).__name__ == "IntensitySignal"
                                 and bool(self.np.array_equal(self.np.asarray(y.data),
                                                              self.np.asarray(z.data)[:, :, "IQUV".index(op[1])])))
                    comp = op[1]
                if not same_time:
                    return {"err": ["time-labels-changed", i]}
                z = y
            except Exception as e:
                return {"err": [err_name(e), i]}
        hz = u.Hz
        if comp is not None:
            ids = None
        else:
            ids = self._chan_ids(z)
        return {"ok": {
            "n": int(z.nchan), "al": z.freq_align, "cf": X.rat(X.q_value(z.center_freq, hz)),
            "bw": X.rat(X.q_value(z.chan_bw, hz)), "min": X.rat(X.q_value(z.min_freq, hz)),
            "max": X.rat(X.q_value(z.max_freq, hz)), "bwtot": X.rat(X.q_value(z.bandwidth, hz)),
            "labels": [X.rat(X.q_value(f, hz)) for f in z.channel_freqs], "ids": ids,
            "cls": type(z).__name__}}

    # ------------------------------------------------------------------ model
    def _hz(self, pair):
        return F(pair[0]) * X.unit_scale(self.u.Unit(pair[1]), self.u.Hz)

    def model_requests(self, case, code_out):
        def b(v):
            return "_" if v is None else str(int(v))
        toks = []
        for op in case["ops"]:
            if op[0] == "fs":
                toks.append(f"fs:{b(op[1])}:{b(op[2])}:{b(op[3])}")
            elif op[0] == "tfs":
                k = op[1][2] or 1
                toks.append(f"tfs:{k}:{b(op[2][0])}:{b(op[2][1])}:{b(op[2][2])}")
        al = case["al"] if case["al"] else "EMPTY"
        kind = "bb" if sigs.is_complex(case["cls"]) else "rf"
        return [f"c02 band {X.rat(self._hz(case['cf']))} {X.rat(self._hz(case['bw']))} {case['n']} {al} {kind} " + " ".join(toks)]

    def model_result(self, case, replies):
        r = replies[0].split()
        if r[0] == "err":
            # model op index counts only frequency ops; map back to the case's op index
            i = int(r[2])
            if i >= 0:
                fidx = [j for j, o in enumerate(case["ops"]) if o[0] in ("fs", "tfs")]
                i = fidx[i]
            return {"err": [r[1], i]}
        stokes = [o for o in case["ops"] if o[0] == "stokes"]
        if stokes and stokes[0][1] not in "IQUV":
            return {"err": ["KeyError", len(case["ops"]) - 1]}
        return {"ok": {"cf": r[1], "bw": r[2], "n": int(r[3]), "al": r[4], "off": int(r[5]), "min": r[6],
                       "max": r[7], "bwtot": r[8], "l0": r[9], "l1": r[10]}}

    def _tol(self, case):
        cf, bw = self._hz(case["cf"]), self._hz(case["bw"])
        return F(16, 2**52) * (abs(cf) + case["n"] * bw) * (len(case["ops"]) + 1)

    def agree(self, case, code, model):
        if "err" in code or "err" in model:
            return code == model
        c, m = code["ok"], model["ok"]
        tol = self._tol(case)
        if c["n"] != m["n"] or c["al"] != m["al"]:
            return False
        if c["ids"] is not None and c["ids"][0] != m["off"]:
            return False
        for a, b in (("cf", "cf"), ("bw", "bw"), ("min", "min"), ("max", "max"), ("bwtot", "bwtot")):
            if not X.close(F(c[a]), F(m[b]), atol=tol):
                return False
        return X.close(F(c["labels"][0]), F(m["l0"]), atol=tol) and X.close(F(c["labels"][-1]), F(m["l1"]), atol=tol)

    # ------------------------------------------------------------------ property oracle
    def _expected(self, case):
        n, al = case["n"], case["al"]
        if al not in ALIGN:
            return ("err", "ValueError", -1)
        a = F(1, 2) if n % 2 else ALIGN[al]
        cf, bw = self._hz(case["cf"]), self._hz(case["bw"])
        labels = [cf + bw * (i + a - F(n, 2)) for i in range(n)]
        idx = list(range(n))
        for i, op in enumerate(case["ops"]):
            if op[0] in ("fs", "tfs"):
                abc = op[1:] if op[0] == "fs" else op[2]
                if abc[2] == 0:
                    return ("err", "ValueError", i)
                if abc[2] is not None and abc[2] != 1:
                    return ("err", "AssertionError", i)
                idx = idx[slice(abc[0], abc[1], None)]
                if not idx:
                    return ("err", "AssertionError", i)
            elif op[0] == "stokes" and op[1] not in "IQUV":
                return ("err", "KeyError", i)
        return ("ok", [labels[j] for j in idx], idx, bw)

    def spec_violation(self, case, code):
        exp = self._expected(case)
        if exp[0] == "err":
            if "err" not in code:
                return f"expected {exp[1]} at op {exp[2]}, got a signal"
            if code["err"] != [exp[1], exp[2]]:
                return f"expected {exp[1]} at op {exp[2]}, got {code['err']}"
            return None
        if "err" in code:
            return f"raised/failed {code['err']} on a valid request"
        _, labels, idx, bw = exp
        c = code["ok"]
        tol = self._tol(case)
        if c["n"] != len(idx):
            return f"nchan {c['n']}, expected {len(idx)}"
        if c["ids"] is not None and c["ids"] != idx:
            return f"selected channels {c['ids']}, expected {idx}"
        for j, (got, want) in enumerate(zip(c["labels"], labels)):
            if not X.close(F(got), want, atol=tol):
                return f"channel {j} labelled {float(F(got))} Hz, band model says {float(want)} Hz"
        if not X.close(F(c["bw"]), bw, atol=tol):
            return "chan_bw changed"
        lo, hi = F(c["min"]), F(c["max"])
        if not X.close(hi - lo, len(idx) * bw, atol=2 * tol) or not X.close(F(c["bwtot"]), len(idx) * bw, atol=tol):
            return "band width is not nchan*chan_bw"
        if any(F(l) < lo - tol or F(l) > hi + tol for l in c["labels"]):
            return "label outside [min_freq, max_freq]"
        if case["n"] % 2 == 1 and not case["ops"] and c["al"] != "center":
            return "odd channel count not forced to 'center'"
        return None

    def classify(self, case, why):
        # F02: baseband class + combined slice with time step > 1 (chan_bw re-derived from sample_rate)
        if sigs.is_complex(case["cls"]) and any(o[0] == "tfs" and (o[1][2] or 1) > 1 for o in case["ops"]) \
                and ("labelled" in why or "chan_bw changed" in why or "band width" in why):
            return "baseband-stepped-time-slice-rescales-channels"
        return None

    def nontrivial_key(self, case, code):
        if case["ops"] or "err" in code or (case["n"] % 2 == 0 and case["al"] != "center"):
            return [case["cls"], case["n"], case["al"], case["ops"]]
        return None

    def tags(self, case, code):
        t = [case["cls"], "odd" if case["n"] % 2 else "even", "al:" + (case["al"] if case["al"] in ALIGN else "invalid"),
             f"depth={len(case['ops'])}"] + ["op:" + o[0] for o in case["ops"]]
        if "err" in code:
            t.append("err:" + code["err"][0])
        return t

    def shrink(self, case, fails):
        cur = case
        changed = True
        while changed and cur["ops"]:
            changed = False
            for i in range(len(cur["ops"])):
                c2 = dict(cur, ops=cur["ops"][:i] + cur["ops"][i + 1:])
                if fails(c2):
                    cur, changed = c2, True
                    break
        return cur
