"""Base class for per-property modules."""


class PropBase:
    id = "C00"
    lean_targets = []
    theorems = []
    trusted_base = []
    assumptions = []
    rule = ""
    explanation = ""

    def cases(self, rng, tier):
        return []

    def run_code(self, case):
        raise NotImplementedError

    def model_requests(self, case, code_out):
        return []

    def model_result(self, case, replies):
        return None

    def agree(self, case, code_out, model_out):
        return code_out == model_out

    def spec_violation(self, case, code_out):
        """Property oracle on the real code's result, independent of the Impl model."""
        return None

    def classify(self, case, why):
        return None

    def nontrivial_key(self, case, code_out):
        return case

    def tags(self, case, code_out):
        return [case.get("op", "?")] if isinstance(case, dict) else []

    def search(self, rng, tier):
        while True:
            got = False
            for c in self.cases(rng, "thorough"):
                got = True
                yield c
            if not got:
                return

    def shrink(self, case, fails):
        return case


def err_name(e):
    """Map an exception to the small enum used in comparisons."""
    for cls, name in ((AssertionError, "AssertionError"), (IndexError, "IndexError"),
                      (KeyError, "KeyError"), (TypeError, "TypeError"),
                      (ValueError, "ValueError"), (AttributeError, "AttributeError"),
                      (ZeroDivisionError, "ZeroDivisionError"), (OverflowError, "OverflowError")):
        if isinstance(e, cls):
            return name
    return "Other:" + type(e).__name__
