"""C10 — concatenate is the exact inverse of splitting and refuses non-contiguous pieces."""

from fractions import Fraction as F

from .base import PropBase, err_name
from .. import exact as X
from .. import sigs
from .c01 import ALPHA, tol_time

MANIFEST = dict(
    technique="Lean 4 proof (induction over the contiguity loop and over piece lists; label algebra over Q) + differential correspondence of transforms.concatenate on real pieces produced by real slicing, including perturbed (gap/overlap/swap/rate/bandwidth/type/label) sequences",
    level_text="the arithmetic of concatenate (reference start, expected start of later pieces, new centre, contiguity difference, label tolerance), translated symbolically from the source on every run, is the model's (C10_source_formulas); concatenate model proved: split-then-concatenate along time (any cut points, empty pieces, any pattern of missing start times) and along frequency reproduces ledger and labels for EVERY signal and cut list; grouping-independence (associativity); rejection of gaps/overlaps/swaps beyond the Time tolerance, of type mixes and of rate mismatches; real concatenate compared with the model piece-for-piece and with the original signal",
    level_note="Trusted: Lean kernel (+3 std axioms); hand model PbModel/Concat.lean tied by correspondence; astropy u.isclose/u.allclose (rtol 1e-5) and Time.isclose (2 eps day) semantics taken as parameters; np.concatenate appends in order (checked on every case by comparing data with the original)",
)

NAMES = sigs.CLASSES


class Prop(PropBase):
    id = "C10"
    lean_targets = ["PbProps.C10"]
    theorems = ["Pb.C10." + t for t in (
        "C10_split_concat_time", "C10_assoc", "C10_split_concat_freq", "C10_rejects_empty",
        "C10_rejects_type_mix", "C10_rejects_rate", "C10_rejects_gap", "C10_rejects_labels",
        "C10_freq_needs_radio", "C10_axis_spellings", "C10_source_formulas")]
    trusted_base = ["pbverif/extract.py: symbolic evaluation of the method bodies into PbModel/Gen/Concat.lean (trusted to render the source expressions faithfully; tied to the hand model by the C10_source_* theorem)", 
        "PbModel/Concat.lean hand transliteration of transforms.concatenate (tied by correspondence)",
        "u.isclose / u.allclose / Time.isclose tolerances as documented by astropy (parameters of the model)",
    ]
    assumptions = ["sample period >= 1 ns; perturbations are >= 1 sample / 1 channel / 1e-3 relative"]
    rule = ("split a signal of every class (len 0..400, nchan 1..9, 3 alignments, rates Hz..GHz, with/without start) at "
            "random cut points incl. repeats and end points, drop start times from a random subset of pieces, optionally "
            "regroup (nested concatenate), join along time / frequency / a trailing axis; plus one perturbation per case "
            "from {shift start +-k samples, drop/duplicate/swap a piece, rate*(1+-1e-3), chan_bw*(1+-1e-3), type swap, "
            "center_freq +-k channels}. Non-trivial: >= 2 pieces; distinct by full case.")
    explanation = "split/concat identities and rejections proved on the Lean model; API differential on real pieces"

    def __init__(self):
        import pulsarbat as pb
        import numpy as np
        import astropy.units as u

        self.pb, self.np, self.u = pb, np, u

    # --------------------------------------------------------------- generation
    def cases(self, rng, tier):
        quick = tier == "quick"
        for i in range(500 if quick else 15000):
            cls = rng.choice(NAMES)
            axis = rng.choice(["time", "time", "time", "freq", "other"])
            if cls == "Signal" and axis == "freq" and rng.random() < 0.8:
                axis = "time"
            L = rng.choice([0, 1, 2, 3, 5, 16, 17, 64, rng.randint(1, 400)])     # "any signal": also one without time samples
            n = rng.choice([1, 2, 3, 4, 5, 8, 9])
            rate = rng.choice([("1", "Hz"), ("1", "kHz"), ("16", "MHz"), ("1", "GHz"), ("123.456", "MHz"), ("0.5", "Hz"),
                               ("4", "GHz"), ("2.5", "GHz")])
            cf = rng.choice([("400", "MHz"), ("1.4", "GHz"), ("0", "Hz"), ("327", "MHz"), ("8", "GHz")])
            bw = rng.choice([("1", "MHz"), ("1", "kHz"), ("3.125", "MHz"), ("250", "Hz")])
            al = rng.choice(["bottom", "center", "top"])
            t0 = rng.choice(sigs.T0S + ([None] if rng.random() < 0.3 else []))
            size = L if axis == "time" else (n if cls != "Signal" else 3) if axis == "freq" else 3
            k = rng.choice([1, 2, 2, 3, 4, rng.randint(1, 7)])
            if axis == "time":
                cuts = sorted(rng.choice([0, size, rng.randint(0, size)]) for _ in range(k - 1))
            elif axis == "freq":
                cuts = sorted(set(rng.randint(1, max(size - 1, 1)) for _ in range(k - 1))) if size > 1 else []
            else:
                cuts = sorted(set(rng.randint(1, 2) for _ in range(k - 1)))
            nopieces = len(cuts) + 1
            drop = [rng.random() < 0.25 for _ in range(nopieces)] if axis == "time" and rng.random() < 0.5 else [False] * nopieces
            group = rng.randint(1, nopieces - 1) if nopieces >= 3 and rng.random() < 0.4 else None
            pert = None
            if rng.random() < 0.45:
                pert = self._pert(rng, axis, nopieces, cls)
                drop = [False] * nopieces
                group = None
            yield {"op": "concat", "cls": cls, "axis": axis, "L": L, "n": n, "rate": rate, "cf": cf, "bw": bw,
                   "al": al, "t0": t0, "cuts": cuts, "drop": drop, "group": group, "pert": pert}

        # single-channel pieces whose channel bandwidth differs, joined along time or a trailing axis: the one label is the
        # centre frequency, so only the explicit chan_bw test can refuse them (always present, every run)
        for cls in ("RadioSignal", "IntensitySignal", "FullStokesSignal"):
            for axis in ("time", "other"):
                yield {"op": "concat", "cls": cls, "axis": axis, "L": 12, "n": 1, "rate": ("1", "kHz"), "cf": ("1.4", "GHz"),
                       "bw": ("1", "MHz"), "al": "center", "t0": sigs.T0S[0], "cuts": [5] if axis == "time" else [1],
                       "drop": [False, False], "group": None, "pert": ["cbw", rng.randrange(2), rng.choice([2.0, 0.5, 1.001])]}

    def _pert(self, rng, axis, k, cls):
        j = rng.randrange(k)
        radio = cls != "Signal"
        opts = [["rate", j, rng.choice([1.001, 0.999])], ["type", j]]
        if axis == "time":
            opts += [["tshift", j, rng.choice([1, -1, 2, -3])], ["dropp", j], ["dup", j], ["swap", j]] * 2
            if radio:
                opts += [["cfshift", j, rng.choice([1, -1, 2])]]
        elif axis == "freq":
            opts += [["tshift", j, rng.choice([1, -2])], ["swap", j], ["dropp", j]] * 2
            if radio:
                opts += [["cfshift", j, rng.choice([1, -1, 2])]] * 2
        else:
            opts += [["tshift", j, rng.choice([1, -1, 3])]] * 2
            if radio:
                opts += [["cfshift", j, rng.choice([1, -1, 2])]] * 2
        if radio and not sigs.is_complex(cls):
            # channel bandwidth of one piece changed (labels of a single channel do not reveal it: weight it up)
            opts += [["cbw", j, rng.choice([1.001, 0.999, 2.0, 0.5])]] * 3
        return rng.choice(opts)

    # --------------------------------------------------------------- real code
    def _q(self, pair):
        return float(pair[0]) * self.u.Unit(pair[1])

    def _build(self, case):
        pb, u, np = self.pb, self.u, self.np
        cls = case["cls"]
        rate = self._q(case["rate"])
        kw = {}
        if cls != "Signal":
            kw = dict(center_freq=self._q(case["cf"]), freq_align=case["al"], nchan=case["n"])
            if not sigs.is_complex(cls):
                kw["chan_bw"] = self._q(case["bw"])
        extra = (3,) if case["axis"] == "other" or (cls == "Signal" and case["axis"] == "freq") else ()
        z = sigs.make(pb, cls, case["L"], rate, case["t0"], extra=extra, **kw)
        ax = {"time": 0, "freq": 1, "other": z.ndim - 1}[case["axis"]]
        size = z.shape[ax]
        bounds = [0] + list(case["cuts"]) + [size]
        pieces = []
        # cut points spelled from the front, from the end (negative) or left open, as a user would write them
        spell = (case["L"] + len(case["cuts"]) + case["n"]) % 3

        def sp(v, is_stop):
            if spell == 1 and 0 < v < size:
                return v - size
            if spell == 2 and ((v == 0 and not is_stop) or (v == size and is_stop)):
                return None
            return v
        for a, b in zip(bounds, bounds[1:]):
            a, b = (a, b) if a == b else (sp(a, False), sp(b, True))
            if ax == 0:
                p = z[a:b]
            elif ax == 1 and cls != "Signal":
                p = z[:, a:b]
            elif ax == 1:
                p = type(z).like(z, z.data[:, a:b])
            else:
                ix = [slice(None)] * z.ndim
                ix[ax] = slice(a, b)
                p = type(z).like(z, z.data[tuple(ix)])
            pieces.append(p)
        for i, d in enumerate(case["drop"]):
            if d:
                pieces[i] = type(pieces[i]).like(pieces[i], None, start_time=None)
        return z, pieces, ax

    def _perturb(self, case, pieces):
        """returns (pieces', effective) — effective False when the perturbation is vacuous"""
        pb, u = self.pb, self.u
        pert = case["pert"]
        kind, j = pert[0], pert[1]
        p = pieces[j]
        T = type(p)
        if kind == "tshift":
            if p.start_time is None or len(pieces) < 2:
                return pieces, False
            pieces = list(pieces)
            pieces[j] = T.like(p, None, start_time=p.start_time + pert[2] * p.dt)
            return pieces, True
        if kind == "dropp":
            if not (0 < j < len(pieces) - 1) or p.shape[{"time": 0, "freq": 1}.get(case["axis"], 0)] == 0 \
                    or p.start_time is None and case["axis"] == "time":
                return pieces, False
            return pieces[:j] + pieces[j + 1:], True
        if kind == "dup":
            if len(p) == 0 or p.start_time is None:
                return pieces, False
            return pieces[:j] + [p] + pieces[j:], True
        if kind == "swap":
            if j + 1 >= len(pieces):
                return pieces, False
            a, b = pieces[j], pieces[j + 1]
            if case["axis"] == "time" and (len(a) == 0 or len(b) == 0 or a.start_time is None):
                return pieces, False
            return pieces[:j] + [b, a] + pieces[j + 2:], True
        if kind == "rate":
            if len(pieces) < 2:
                return pieces, False
            pieces = list(pieces)
            pieces[j] = T.like(p, None, sample_rate=p.sample_rate * pert[2])
            return pieces, True
        if kind == "cbw":
            if len(pieces) < 2:
                return pieces, False
            pieces = list(pieces)
            pieces[j] = T.like(p, None, chan_bw=p.chan_bw * pert[2])
            return pieces, True
        if kind == "cfshift":
            if len(pieces) < 2:
                return pieces, False
            pieces = list(pieces)
            pieces[j] = T.like(p, None, center_freq=p.center_freq + pert[2] * p.chan_bw)
            return pieces, True
        if kind == "type":
            if len(pieces) < 2:
                return pieces, False
            other = {"Signal": None, "RadioSignal": "IntensitySignal", "IntensitySignal": "RadioSignal",
                     "FullStokesSignal": "IntensitySignal", "BasebandSignal": "RadioSignal",
                     "DualPolarizationSignal": "BasebandSignal"}[case["cls"]]
            if other is None:
                return pieces, False
            O = getattr(pb, other)
            pieces = list(pieces)
            kw = dict(chan_bw=p.chan_bw) if other in ("RadioSignal", "IntensitySignal") else {}
            data = p.data.real if other == "IntensitySignal" and sigs.is_complex(case["cls"]) else p.data
            pieces[j] = O.like(p, data, **kw)
            return pieces, True
        raise KeyError(kind)

    def _describe(self, p, tref):
        u = self.u
        t0 = None if p.start_time is None else (X.rat(X.time_offset_s(p.start_time, tref)) if tref is not None else "0")
        d = {"cls": type(p).__name__, "t0": t0, "rate": X.rat(X.q_value(p.sample_rate, u.Hz)), "len": len(p)}
        if isinstance(p, self.pb.RadioSignal):
            d.update(cf=X.rat(X.q_value(p.center_freq, u.Hz)), bw=X.rat(X.q_value(p.chan_bw, u.Hz)),
                     n=int(p.nchan), al=p.freq_align,
                     l0=X.rat(X.q_value(p.channel_freqs[0], u.Hz)), l1=X.rat(X.q_value(p.channel_freqs[-1], u.Hz)))
        return d

    def run_code(self, case):
        pb, np, u = self.pb, self.np, self.u
        z, pieces, ax = self._build(case)
        tref = z.start_time
        effective = True
        if case["pert"]:
            pieces, effective = self._perturb(case, pieces)
        axis_arg = {"time": "time", "freq": "freq", "other": ax}[case["axis"]]
        # equivalent spellings of the axis: name, non-negative int, negative int, NumPy integer
        form = (len(case["cuts"]) + case["L"] + case["n"]) % 4
        if case["axis"] == "freq" and case["cls"] == "Signal":
            pass                                    # axis='freq' on a plain Signal must raise TypeError: keep the name
        elif form == 1:
            axis_arg = ax
        elif form == 2:
            axis_arg = ax - z.ndim
        elif form == 3:
            axis_arg = np.int64(ax - z.ndim)
        # the default axis (0 = time) by omission, for every second time-axis case
        omit = case["axis"] == "time" and (case["L"] + len(case["cuts"])) % 2 == 0

        def cat(ps):
            return pb.concatenate(ps) if omit else pb.concatenate(ps, axis=axis_arg)
        desc = [self._describe(p, tref) for p in pieces]
        spelling = f"n:{axis_arg}" if isinstance(axis_arg, str) else f"i:{int(axis_arg)}"
        cls_is_radio = isinstance(z, pb.RadioSignal)
        out = {"pieces": desc, "effective": effective, "spelling": spelling, "ndim": int(z.ndim), "radio": cls_is_radio}
        try:
            if case["group"]:
                g = case["group"]
                left = cat(pieces[:g])
                right = cat(pieces[g:])
                y = cat([left, right])
                yflat = cat(pieces)
                out["assoc_same"] = bool(
                    np.array_equal(np.asarray(y.data), np.asarray(yflat.data)) and len(y) == len(yflat)
                    and (y.start_time is None) == (yflat.start_time is None)
                    and (y.start_time is None or abs((y.start_time - yflat.start_time).to_value(u.s)) < 1e-10)
                    and (not isinstance(y, pb.RadioSignal) or bool(u.allclose(y.channel_freqs, yflat.channel_freqs, rtol=1e-12))))
            else:
                y = cat(pieces)
        except Exception as e:
            out["err"] = err_name(e)
            return out
        out["res"] = self._describe(y, tref)
        out["data_same"] = bool(y.shape == z.shape and np.array_equal(np.asarray(y.data), np.asarray(z.data)))
        out["orig"] = self._describe(z, tref)
        return out

    # --------------------------------------------------------------- model
    def model_requests(self, case, code):
        toks = []
        for d in code["pieces"]:
            base = f"{NAMES.index(d['cls'])}|{'none' if d['t0'] is None else d['t0']}|{d['rate']}|{d['len']}"
            if "cf" in d:
                toks.append(base + f"|{d['cf']}|{d['bw']}|{d['n']}|{d['al']}")
            else:
                toks.append(base + "|-")
        return [f"c10 {case['axis']} {X.rat(ALPHA)} " + " ".join(toks),
                f"c10 axis {code['ndim']} {int(code['radio'])} {code['spelling']}"]

    def model_result(self, case, replies):
        r = replies[0].split()
        if r[0] == "err":
            return {"err": r[1], "axis_read": replies[1]}
        out = {"cls": NAMES[int(r[1])], "t0": None if r[2] == "none" else r[2], "rate": r[3], "len": int(r[4])}
        if r[5] != "-":
            cf, bw, n, al = r[5].split("|")
            out.update(cf=cf, bw=bw, n=int(n), al=al, l0=r[6], l1=r[7])
        out["axis_read"] = replies[1]
        return out

    def _ftol(self, d):
        return F(32, 2**52) * (abs(F(d["cf"])) + d["n"] * F(d["bw"])) if "cf" in d else F(0)

    def agree(self, case, code, model):
        # the model reads the spelling of the axis the same way (name / non-negative / negative integer)
        want_axis = "none" if (case["axis"] == "freq" and not code.get("radio", True)) else case["axis"]
        if model.get("axis_read") != want_axis:
            return False
        if "err" in code or "err" in model:
            if case["axis"] == "other" and "err" in code and "err" not in model:
                # np.concatenate / allclose shape errors for mismatched trailing shapes are outside the label model
                return False
            return code.get("err") == model.get("err")
        c = code["res"]
        if c["cls"] != model["cls"] or c["len"] != model["len"] or F(c["rate"]) != F(model["rate"]):
            return False
        if (c["t0"] is None) != (model["t0"] is None):
            return False
        if c["t0"] is not None and not X.close(F(c["t0"]), F(model["t0"]), atol=tol_time(3, F(model["t0"]))):
            return False
        if ("cf" in c) != ("cf" in model):
            return False
        if "cf" in c:
            tol = self._ftol(c)
            if c["n"] != model["n"] or c["al"] != model["al"]:
                return False
            for k in ("cf", "bw", "l0", "l1"):
                if not X.close(F(c[k]), F(model[k]), atol=tol):
                    return False
        return True

    # --------------------------------------------------------------- property oracle
    def spec_violation(self, case, code):
        if case["pert"] and code["effective"]:
            if "err" not in code:
                return f"perturbation {case['pert']} was joined instead of being rejected"
            if code["err"] not in ("ValueError", "TypeError"):
                return f"perturbation {case['pert']} raised {code['err']}, expected ValueError/TypeError"
            return None
        if case["axis"] == "freq" and case["cls"] == "Signal":
            if code.get("err") != "TypeError":
                return "axis='freq' on a non-radio signal must raise TypeError"
            return None
        if "err" in code:
            return f"exact tiling rejected with {code['err']}"
        o, r = code["orig"], code["res"]
        if not code["data_same"]:
            return "concatenated data differ from the original"
        if case.get("group") and not code.get("assoc_same"):
            return "grouping changed the result (associativity)"
        if r["cls"] != o["cls"] or r["len"] != o["len"] or F(r["rate"]) != F(o["rate"]):
            return f"class/len/rate {r['cls']},{r['len']},{r['rate']} differ from original"
        any_start = any(d["t0"] is not None for d in code["pieces"])
        if any_start:
            if r["t0"] is None or not X.close(F(r["t0"]), F(o["t0"]), atol=tol_time(3, 0) + F(4, 10**16) * case["L"] / F(o["rate"])):
                return f"start_time offset {r['t0']} != original {o['t0']}"
        elif r["t0"] is not None:
            return "result acquired a start time"
        if "cf" in o:
            tol = self._ftol(o)
            if r["n"] != o["n"] or not X.close(F(r["bw"]), F(o["bw"]), atol=tol) \
                    or not X.close(F(r["l0"]), F(o["l0"]), atol=tol) or not X.close(F(r["l1"]), F(o["l1"]), atol=tol):
                return f"channel labels/bw differ from original: {r} vs {o}"
        return None

    def classify(self, case, why):
        return None

    def nontrivial_key(self, case, code):
        return case if len(code["pieces"]) >= 2 else None

    def tags(self, case, code):
        t = [case["cls"], "axis:" + case["axis"], f"pieces={min(len(code['pieces']), 8)}"]
        if case["pert"]:
            t.append("pert:" + case["pert"][0] + ("" if code["effective"] else ":vacuous"))
        if any(case["drop"]):
            t.append("some-start-dropped")
        if case["group"]:
            t.append("grouped")
        if any(d["len"] == 0 for d in code["pieces"]):
            t.append("empty-piece")
        if "err" in code:
            t.append("err:" + code["err"])
        return t
