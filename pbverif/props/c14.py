"""C14 — no operation modifies the signal or arguments it is given."""

import copy
import random

from .base import PropBase, err_name
from .. import sigs

MANIFEST = dict(
    technique="Lean 4 proof of soundness of a flow-sensitive may-alias/effect analysis (induction over programs and loop executions) applied by `decide` to effect programs that the translator regenerates from the five source files on every run + byte-wise before/after snapshots of every input around every public call (success or exception) and random call histories over shared inputs",
    level_text="ana_sound: no execution of an accepted effect program writes a buffer that existed before the call (all programs, all executions, all environments); C14_all_safe: every function/method/nested function of core.py, transforms.py, dedispersion.py, contrib/misc.py, utils.py, as translated NOW, is accepted (only the explicit out= of __array_ufunc__ is exempt); C14_history lifts this to call sequences; the translator's view/allocate tables are validated dynamically by snapshots on contiguous, strided, read-only and shared-buffer inputs",
    level_note="Trusted: Lean kernel (propext, Quot.sound only for the soundness proof), the translator pbverif/effects.py (syntax-directed; its NumPy view-vs-copy tables are a trusted parameter validated by the dynamic snapshots), NumPy/Dask/astropy themselves not mutating their arguments",
)

OPS = ["tslice", "fslice", "stokes_get", "to_intensity", "to_linear", "to_circular", "to_stokes", "like", "compute",
       "to_dask", "contains", "channel_freqs", "concat", "snippet_i", "snippet_f", "snippet_bad", "time_shift",
       "time_shift_crop", "time_shift_arr", "freq_shift", "fast_len", "coh", "coh_chirp", "chirp", "incoh", "stft",
       "istft", "r2c", "ufunc", "ufunc_q", "asarray", "transform", "concat_bad", "pickle", "str", "time_shift_tiny", "snippet_q",
       "snippet_tiny", "construct", "construct_bad"]
FUNCS = {"tslice": ["core:Signal.__getitem__", "core:Signal._time_slice", "core:Signal.like"],
         "istft": ["contrib.misc:istft"], "stft": ["contrib.misc:stft"], "r2c": ["utils:real_to_complex"],
         "time_shift": ["transforms.transforms:time_shift"], "time_shift_crop": ["transforms.transforms:time_shift"],
         "time_shift_arr": ["transforms.transforms:time_shift"], "freq_shift": ["transforms.transforms:freq_shift"],
         "coh": ["transforms.dedispersion:coherent_dedispersion"], "coh_chirp": ["transforms.dedispersion:coherent_dedispersion"],
         "incoh": ["transforms.dedispersion:incoherent_dedispersion"], "concat": ["transforms.transforms:concatenate"],
         "to_linear": ["core:DualPolarizationSignal.to_linear"], "to_circular": ["core:DualPolarizationSignal.to_circular"],
         "to_stokes": ["core:DualPolarizationSignal.to_stokes"], "to_intensity": ["core:BasebandSignal.to_intensity"],
         "snippet_i": ["transforms.transforms:snippet"], "time_shift_tiny": ["transforms.transforms:time_shift"],
         "snippet_q": ["transforms.transforms:snippet", "transforms.transforms:time_shift"],
         "snippet_tiny": ["transforms.transforms:snippet", "transforms.transforms:time_shift"], "snippet_f": ["transforms.transforms:snippet", "transforms.transforms:time_shift"],
         "ufunc": ["core:Signal.__array_ufunc__"], "fast_len": ["transforms.transforms:fast_len"],
         "construct": ["core:Signal.__init__", "core:Signal.like"], "construct_bad": ["core:Signal.__init__", "core:Signal.like"]}


class Prop(PropBase):
    id = "C14"
    lean_targets = ["PbProps.C14"]
    theorems = ["Pb.C14." + t for t in ("C14_safe_sound", "C14_all_safe", "C14_history", "C14_rejects_view_write",
                                        "C14_accepts_rebound")]
    trusted_base = ["pbverif/effects.py translator and its view/allocate tables (validated dynamically)",
                    "NumPy/SciPy/Dask/astropy functions do not mutate their array arguments unless asked (out=)"]
    assumptions = []
    rule = ("34 kinds of public calls on signals of every class; inputs contiguous / strided view / read-only / sharing one buffer; "
            "array and Quantity arguments (shift arrays, chirps); failing calls included; histories of 2-10 calls over a pool of "
            "3 signals sharing inputs. Every input and argument snapshotted byte-wise (buffer bytes, dtype, shape, strides, "
            "flags, all public attributes, deep-copied meta) before and after. Non-trivial: call executed (success or "
            "exception); distinct by case.")
    explanation = "alias analysis proved sound in Lean and applied to translator output; dynamic byte-wise snapshots"

    def __init__(self):
        import pulsarbat as pb
        import numpy as np
        import astropy.units as u
        from astropy.time import Time
        import dask.array as da

        self.pb, self.np, self.u, self.Time, self.da = pb, np, u, Time, da

    # ---------------------------------------------------------------- generation
    def cases(self, rng, tier):
        quick = tier == "quick"
        for _ in range(450 if quick else 12000):
            yield {"op": "one", "cls": rng.choice(sigs.CLASSES), "call": rng.choice(OPS),
                   "layout": rng.choice(["contig", "strided", "readonly", "fortran", "shared", "nonfinite", "lastmajor", "lastmajor"]),
                   "seed": rng.randrange(1 << 30)}
        for call in ("stft", "istft", "time_shift", "freq_shift", "coh", "to_intensity", "fast_len", "snippet_f", "ufunc", "tslice"):
            yield {"op": "one", "cls": "BasebandSignal", "call": call, "layout": "contig", "seed": rng.randrange(1 << 30),
                   "long": rng.choice([98304, 70001, 131072])}        # (well past 2^16 samples also after division into segments)
        # flagged (non-finite) samples and last-axis-major buffers through every operation of the baseband classes: "cleaning" or
        # working in place must not happen in the caller's buffer
        for call in OPS:
            for cls, layout in (("BasebandSignal", "nonfinite"), ("DualPolarizationSignal", "lastmajor"), ("DualPolarizationSignal", "nonfinite")):
                yield {"op": "one", "cls": cls, "call": call, "layout": layout, "seed": rng.randrange(1 << 30)}
        # extended-precision samples (complex256 / float128) in the classes without a dtype requirement through the FFT-based
        # operations: a dtype the FFT back end transforms natively must not be transformed in the caller's buffer
        for cls in ("Signal", "RadioSignal"):
            for call in ("time_shift", "time_shift_crop", "time_shift_arr", "time_shift_tiny", "snippet_f", "snippet_q", "snippet_tiny", "ufunc"):
                for var in (6, 8, 2):
                    yield {"op": "one", "cls": cls, "call": call, "layout": "contig", "seed": 12 * rng.randrange(1 << 20) + var}
        for _ in range(60 if quick else 1500):
            yield {"op": "history", "cls": rng.choice(sigs.CLASSES[1:]),
                   "calls": [rng.choice(OPS) for _ in range(rng.randint(2, 10))],
                   "layout": rng.choice(["contig", "strided", "shared"]), "seed": rng.randrange(1 << 30)}

    # ---------------------------------------------------------------- snapshots
    def snap(self, obj):
        np, u, pb = self.np, self.u, self.pb
        if isinstance(obj, pb.Signal):
            d = obj.data
            s = {"type": type(obj).__name__, "data": self.snap(d) if isinstance(d, np.ndarray) else ("dask", str(d.name)),
                 "attrs": {}}
            for k in ("sample_rate", "start_time", "center_freq", "chan_bw", "freq_align", "pol_type"):
                if hasattr(obj, k):
                    v = getattr(obj, k)
                    if isinstance(v, self.Time):
                        s["attrs"][k] = (float(v.jd1), float(v.jd2), v.scale)
                    elif isinstance(v, u.Quantity):
                        s["attrs"][k] = (np.asarray(v.value).tobytes().hex(), str(v.unit))
                    else:
                        s["attrs"][k] = v
            s["meta"] = copy.deepcopy(obj.meta)
            s["data_id"] = id(obj.data)
            return s
        if isinstance(obj, u.Quantity):
            return ("quantity", np.asarray(obj.value).tobytes().hex(), str(obj.unit), obj.shape)
        if isinstance(obj, np.ndarray):
            return ("ndarray", np.ascontiguousarray(obj).tobytes().hex(), str(obj.dtype), obj.shape, obj.strides,
                    bool(obj.flags.writeable))
        if isinstance(obj, (list, tuple)):
            return [self.snap(x) for x in obj]
        return ("other", repr(obj))

    # ---------------------------------------------------------------- real code
    def _mk(self, cls, layout, g, L=32, n=None, base=None, var=0):
        pb, np, u = self.pb, self.np, self.u
        # channel count and channel alignment vary with the case (even counts with 'bottom'/'top' labels included)
        n = n or (base.shape[1] if base is not None and base.ndim > 1 else [2, 3, 4, 2][var % 4])
        align = ["center", "bottom", "top"][(var // 4) % 3]
        shape = (L,) + sigs.sample_shape(cls, n)
        if base is None:
            big = g.standard_normal((2 * L,) + shape[1:])
            if sigs.is_complex(cls):
                big = big + 1j * g.standard_normal(big.shape)
            elif cls in ("Signal", "RadioSignal"):
                # the classes without a dtype requirement carry any dtype: complex, extended and single precision, raw counts
                kind = [None, "c16", None, "c32", "f16", "c8", None, "f4", "i2"][(var // 2) % 9]
                if kind in ("c16", "c32", "c8"):
                    big = (big + 1j * g.standard_normal(big.shape)).astype({"c16": np.complex128, "c32": np.clongdouble, "c8": np.complex64}[kind])
                elif kind:
                    big = (big * (100 if kind == "i2" else 1)).astype({"f16": np.longdouble, "f4": np.float32, "i2": np.int16}[kind])
        else:
            big = base
        if layout == "strided":
            data = big[::2]
        elif layout == "fortran":
            data = np.asfortranarray(big[:L])
        elif layout == "lastmajor":
            # the last sample axis slowest (polarisation-major buffers): data[..., k] is contiguous already, so a "make contiguous,
            # then work in place" shortcut writes into the caller's buffer
            data = sigs.relayout(np.ascontiguousarray(big[:L]), "lastmajor")
        else:
            data = np.ascontiguousarray(big[:L]) if base is None else big[:L]
        if layout == "nonfinite":
            # a few NaN / infinite samples (flagged data): "cleaning" them must not happen in the caller's buffer
            data[1, ...] = np.nan
            data[3, ...] = np.inf
            data[5, ...] = -np.inf
        if layout == "readonly":
            data.flags.writeable = False
        kw = {"pol_type": "circular"} if cls == "DualPolarizationSignal" else {}
        z = sigs.make(pb, cls, L, 1 * u.MHz, sigs.T0S[0], nchan=n, data=data, layout="keep",
                      center_freq=[400 * u.MHz, 0.4 * u.GHz, 4e8 * u.Hz, 400 * u.MHz][var % 4],       # any unit of the caller's choosing
                      freq_align=align, meta={"k": [1, 2], "s": "x"} if var % 3 else {}, **kw)
        return z, big

    def _call(self, call, z, others, g, rng):
        """returns (inputs_to_watch, thunk)"""
        pb, np, u = self.pb, self.np, self.u
        radio, bb = isinstance(z, pb.RadioSignal), isinstance(z, pb.BasebandSignal)
        dp, fs = isinstance(z, pb.DualPolarizationSignal), isinstance(z, pb.FullStokesSignal)
        L = len(z)
        if call == "tslice":
            return [z], lambda: z[3:L - 2:2]
        if call == "fslice" and radio:
            return [z], lambda: z[:, 1:]
        if call == "stokes_get" and fs:
            return [z], lambda: z["U"]
        if call == "to_intensity" and bb:
            return [z], lambda: z.to_intensity()
        if call == "to_linear" and dp:
            w = type(z).like(z, None, pol_type="linear")
            return [z, w], lambda: (z.to_linear(), w.to_linear(), z.to_circular())
        if call == "to_circular" and dp:
            w = type(z).like(z, None, pol_type="linear")
            return [z, w], lambda: w.to_circular()
        if call == "to_stokes" and dp:
            return [z], lambda: z.to_stokes()
        if call == "like":
            return [z], lambda: type(z).like(z, z.data[:4], meta={"new": 1})
        if call in ("construct", "construct_bad"):
            # a caller's writable buffer handed to a constructor, in the class's dtype, in a dtype that needs a cast, and in
            # non-native byte order (as read from big-endian files); also when the call goes on to raise
            base = np.array(np.asarray(z.data)[:6])
            cplx = np.iscomplexobj(base)
            kinds = (["c16", ">c16", ">c8", "c8"] if cplx else ["f8", ">f8", ">f4", "f4", "i2", ">i2"])
            arr = base.astype(np.dtype(kinds[int(g.integers(len(kinds)))]))
            generic = pb.Signal(arr, sample_rate=z.sample_rate)
            kwb = {"freq_align": "sideways"} if (call == "construct_bad" and radio) else {}

            def build():
                outs = []
                for f in (lambda: type(z).like(z, arr, **kwb), lambda: type(z).like(generic, **{k: getattr(z, k) for k in
                          ("center_freq", "chan_bw", "freq_align", "pol_type") if hasattr(z, k) and not (k == "chan_bw" and bb)}, **kwb)):
                    try:
                        outs.append(f())
                    except ValueError:
                        outs.append(None)
                return outs
            return [z, arr, generic], build
        if call == "compute":
            return [z], lambda: z.compute()
        if call == "to_dask":
            return [z], lambda: z.to_dask_array().rechunk().persist().compute()
        if call == "contains":
            return [z], lambda: z.contains(z.start_time + 3 * z.dt)
        if call == "channel_freqs" and radio:
            return [z], lambda: (z.channel_freqs, z.max_freq, z.min_freq, z.bandwidth)
        if call == "concat":
            a, b = z[:10], z[10:]
            return [z, a, b], lambda: pb.concatenate([a, b])
        if call == "concat_bad":
            a, b = z[:10], z[12:]
            return [z, a, b], lambda: pb.concatenate([a, b])
        if call == "snippet_i":
            return [z], lambda: pb.snippet(z, 3, 8)
        if call == "snippet_f":
            return [z], lambda: pb.snippet(z, 3.5 * z.dt, 8)
        if call == "snippet_bad":
            return [z], lambda: pb.snippet(z, L - 2.5, 8)
        if call == "time_shift":
            return [z], lambda: pb.time_shift(z, rng.choice([2, -1.5, 0.25]))
        if call == "time_shift_crop":
            q = 2.5 * z.dt
            return [z, q], lambda: pb.time_shift(z, q, crop=True)
        if call == "time_shift_arr" and z.ndim > 1:
            sh = g.uniform(-3, 3, size=z.sample_shape)
            return [z, sh], lambda: pb.time_shift(z, sh, crop=rng.random() < 0.5)
        if call == "freq_shift" and bb:
            vals = rng.choice([[0.1, -0.2], [1.3, -0.2], [-2.5, 0.4], [0.25, 3.0]])       # in band and beyond the bandwidth
            q = np.array(vals)[:z.shape[1]] * z.sample_rate if z.shape[1] == 2 else vals[0] * z.sample_rate
            q = q if z.ndim == 2 else vals[0] * z.sample_rate
            # the shift written in the unit the code converts to (Hz, 1/s: a conversion that may return a view) or another one
            q = q.to(rng.choice([u.Hz, 1 / u.s, u.kHz, u.MHz]))
            return [z, q], lambda: pb.freq_shift(z, q)
        if call == "fast_len":
            return [z], lambda: pb.fast_len(z)
        if call == "coh" and bb:
            # the reference frequency and the DM are the caller's Quantities too (in a unit of the caller's choosing), or left out
            rq = [None, z.max_freq, z.max_freq.to(u.GHz), z.center_freq.to(u.kHz)][int(g.integers(4))]
            dm = pb.DM(1e-3)
            return [z, dm] + ([rq] if rq is not None else []), \
                (lambda: pb.coherent_dedispersion(z, dm)) if rq is None else (lambda: pb.coherent_dedispersion(z, dm, ref_freq=rq))
        if call == "chirp" and bb:
            return [z], lambda: pb.DM(1e-3).chirp_from_signal(z)
        if call == "coh_chirp" and bb:
            ch = np.asarray(pb.DM(1e-3).chirp_from_signal(z))
            ch = ch.reshape(ch.shape[:2])
            return [z, ch], lambda: pb.coherent_dedispersion(z, pb.DM(1e-3), chirp=ch)
        if call == "incoh" and radio:
            rq = [None, z.center_freq, z.center_freq.to(u.GHz), z.max_freq.to(u.Hz)][int(g.integers(4))]
            dm = pb.DM(5e-2)
            return [z, dm] + ([rq] if rq is not None else []), \
                (lambda: pb.incoherent_dedispersion(z, dm)) if rq is None else (lambda: pb.incoherent_dedispersion(z, dm, ref_freq=rq))
        if call == "stft" and bb:
            return [z], lambda: pb.contrib.stft(z, nperseg=4)
        if call == "istft" and bb:
            return [z], lambda: pb.contrib.istft(z, nperseg=rng.choice([1, 2]))
        if call == "r2c" and not sigs.is_complex(type(z).__name__):
            x = np.asarray(z.data)
            return [z, x], lambda: pb.utils.real_to_complex(x, axis=rng.choice([0, -1]))
        if call == "ufunc":
            return [z] + others, lambda: (z * 2, np.exp(z), z + z, -z, np.modf(z) if not bb else None)
        if call == "ufunc_q":
            q = 2.0 * u.m
            return [z, q], lambda: z * q
        if call == "asarray":
            return [z], lambda: (np.asarray(z), np.array(z, dtype=complex))
        if call == "transform":
            f = pb.signal_transform(lambda x, k=1.0: x * k)
            return [z], lambda: f(z, k=3.0)
        if call == "time_shift_tiny":
            sh = rng.choice([1e-12, -3e-15, (0.3 - 0.2 - 0.1)])
            if z.ndim > 1 and rng.random() < 0.5:
                sh = np.full(z.sample_shape, sh)
                sh.flat[0] = 0.0
            return [z], lambda: pb.time_shift(z, sh, crop=rng.random() < 0.5)
        if call == "snippet_q":
            return [z], lambda: pb.snippet(z, (7 * 1e-6 + 1e-21) * u.s, 8)
        if call == "snippet_tiny":
            # a start location a hair (<= 1e-8 sample) after a sample, on a slowly sampled signal so that even that hair is
            # far above Time's resolution: the input's start_time must not move
            zl = type(z).like(z, sample_rate=1 * u.Hz)
            form = rng.choice(["float", "time", "quantity"])
            t = {"float": 3 + 4e-9, "time": zl.start_time + (5 + 6e-9) * zl.dt, "quantity": (7 + 2e-9) * zl.dt}[form]
            return [zl, z], lambda: (pb.snippet(zl, t, 8), pb.snippet(zl, t, 4))
        if call == "str":
            return [z], lambda: (str(z), repr(z))
        if call == "pickle":
            import pickle
            return [z], lambda: pickle.loads(pickle.dumps(z))
        return [z], None

    def run_code(self, case):
        np = self.np
        g = np.random.default_rng(case["seed"])
        rng = random.Random(case["seed"])
        cls = case["cls"]
        if case["op"] == "one":
            if case.get("long"):       # a long single-channel record (blocked / overwrite-in-place code paths)
                z, big = self._mk(cls, case["layout"], g, L=case["long"], n=1, var=0)
            else:
                z, big = self._mk(cls, case["layout"], g, var=case["seed"] % 12)
            others = []
            if case["layout"] == "shared":
                z2, _ = self._mk(cls, "shared", g, base=big, var=case["seed"] % 12)
                others = [z2]
            watch, thunk = self._call(case["call"], z, others, g, rng)
            if thunk is None:
                return {"skipped": True}
            watch = watch + others + [big]
            before = [self.snap(w) for w in watch]
            try:
                res = thunk()
                outcome = "ok"
            except Exception as e:
                res = None
                outcome = err_name(e)
            # results must not share their metadata dictionary with an input: a later note written into a result's `meta`
            # would otherwise rewrite the input's (the meta setter and like() copy the dictionary)
            stack = [res]
            while stack:
                r_ = stack.pop()
                if isinstance(r_, (list, tuple)):
                    stack.extend(r_)
                elif isinstance(r_, self.pb.Signal) and isinstance(r_.meta, dict) and not any(r_ is w for w in watch):
                    r_.meta["__probe__"] = 1
            after = [self.snap(w) for w in watch]
            changed = [i for i, (a, b) in enumerate(zip(before, after)) if a != b]
            return {"outcome": outcome, "changed": changed, "nwatched": len(watch)}
        # history over a pool of signals sharing one base buffer
        z0, big = self._mk(cls, case["layout"], g, var=case["seed"] % 12)
        z1, _ = self._mk(cls, "shared", g, base=big, var=case["seed"] % 12)
        z2 = z0[4:]
        pool = [z0, z1, z2]
        watch = pool + [big]
        before = [self.snap(w) for w in watch]
        trace = []
        for c in case["calls"]:
            z = rng.choice(pool)
            w, thunk = self._call(c, z, [], g, rng)
            if thunk is None:
                trace.append([c, "skip"])
                continue
            extra_before = [self.snap(x) for x in w]
            try:
                thunk()
                trace.append([c, "ok"])
            except Exception as e:
                trace.append([c, err_name(e)])
            extra_after = [self.snap(x) for x in w]
            if extra_before != extra_after or [self.snap(x) for x in watch] != before:
                return {"outcome": "history", "changed": [len(trace) - 1], "trace": trace, "nwatched": len(watch)}
        return {"outcome": "history", "changed": [], "trace": trace, "nwatched": len(watch)}

    # ---------------------------------------------------------------- model
    def model_requests(self, case, code):
        return ["c14 unsafe"]

    def model_result(self, case, replies):
        return [] if replies[0] == "-" else replies[0].split(",")

    def _funcs(self, case):
        calls = [case["call"]] if case["op"] == "one" else case["calls"]
        return {f for c in calls for f in FUNCS.get(c, [])}

    def agree(self, case, code, model):
        if code.get("skipped"):
            return True
        predicted = bool(self._funcs(case) & set(model))
        observed = bool(code["changed"])
        # an analysis alarm that the dynamic run does not confirm is imprecision, not disagreement; a mutation the
        # analysis did not predict is a genuine disagreement (translator tables wrong or code changed)
        return predicted or not observed

    def spec_violation(self, case, code):
        if code.get("skipped"):
            return None
        if code["changed"]:
            what = case["call"] if case["op"] == "one" else code["trace"][code["changed"][0]]
            return f"input/argument {code['changed']} differs from its snapshot after {what} (outcome {code['outcome']})"
        return None

    def classify(self, case, why):
        return None

    def nontrivial_key(self, case, code):
        return None if code.get("skipped") else case

    def tags(self, case, code):
        if code.get("skipped"):
            return ["skipped"]
        if case["op"] == "one":
            return ["call:" + case["call"], "layout:" + case["layout"], "outcome:" + code["outcome"]]
        return ["history", f"len={len(case['calls'])}"]

    def search(self, rng, tier):
        # when the static obligation breaks: exercise every call kind on every class/layout
        for cls in sigs.CLASSES:
            for call in OPS:
                for layout in ("contig", "strided", "shared"):
                    yield {"op": "one", "cls": cls, "call": call, "layout": layout, "seed": rng.randrange(1 << 30)}
