"""C18 — fast FFT lengths are the nearest 7-smooth numbers for every N."""

import bisect

from .base import PropBase, err_name

MANIFEST = dict(
    technique="Lean 4 proof (induction over fuelled loop models; minimality/maximality invariants) + differential correspondence of utils.next_fast_len/prev_fast_len/fast_len against the compiled Lean model and an independent 7-smooth table",
    level_text="next_fast_len/prev_fast_len models proved to return the least/greatest 7-smooth number for EVERY N>=1 (no bound; loop termination included), fast_len proved to be the prefix slice; the Python functions are compared with the model on an exhaustive range, at s-1,s,s+1 for 7-smooth s<2^62 and random 62-bit N",
    level_note="Trusted: Lean kernel (+propext, Classical.choice, Quot.sound), Lean compiler for the driver, the hand transliteration PbModel/FastLen.lean (tied only by the correspondence run), Python int = Nat",
)

LIMIT = 1 << 64


def smooth_numbers(limit=LIMIT):
    out = []
    a = 1
    while a < limit:
        b = a
        while b < limit:
            c = b
            while c < limit:
                d = c
                while d < limit:
                    out.append(d)
                    d *= 7
                c *= 5
            b *= 3
        a *= 2
    out.sort()
    return out


_SM = None


def SM():
    global _SM
    if _SM is None:
        _SM = smooth_numbers()
    return _SM


def spec_next(n):
    if n == 0:
        return 0
    s = SM()
    return s[bisect.bisect_left(s, n)]


def spec_prev(n):
    if n == 0:
        return 0
    s = SM()
    return s[bisect.bisect_right(s, n) - 1]


class Prop(PropBase):
    id = "C18"
    lean_targets = ["PbProps.C18"]
    theorems = ["Pb.C18.C18_next", "Pb.C18.C18_prev", "Pb.C18.C18_small",
                "Pb.C18.C18_fast_len"]
    trusted_base = [
        "Impl model PbModel/FastLen.lean is a hand transliteration of utils.next_fast_len/"
        "prev_fast_len; tied to the code by comparing results on every generated N",
        "Python int semantics (unbounded) = Lean Nat",
    ]
    assumptions = ["lru_cache is transparent (checked: cold and warm calls compared)"]
    rule = ("N from: exhaustive range from 0; s-1,s,s+1 for 7-smooth s < 2^62 (all in thorough, "
            "a seeded sample in quick); random N < 2^62. A case is one N; non-trivial when N > 10 "
            "(the search loops run); distinct by N.")
    explanation = ("next/prev_fast_len models proved minimal/maximal 7-smooth for every N (unbounded); "
                   "real functions compared with the model and with an independent sorted table of "
                   "all 7-smooth numbers < 2^64")

    def __init__(self):
        import pulsarbat as pb

        self.pb = pb

    def cases(self, rng, tier):
        quick = tier == "quick"
        hi = 6000 if quick else 200000
        for n in range(0, hi):
            yield {"op": "n", "N": n}
        sm = [s for s in SM() if s < (1 << 62)]
        pick = rng.sample(sm, 700) if quick else sm
        if quick:
            # always: the neighbours of every pure prime power and of 2^a*{3,5,7,9,15,21,35} (where float log/pow slips live)
            always = set()
            for base in (2, 3, 5, 7):
                v = base
                while v < (1 << 62):
                    always.add(v)
                    if base == 2:
                        for m in (3, 5, 7, 9, 15, 21, 35):
                            if v * m < (1 << 62):
                                always.add(v * m)
                    v *= base
            pick = sorted(set(pick) | always)
        for s in pick:
            for n in (s - 1, s, s + 1):
                if n >= hi:
                    yield {"op": "n", "N": n}
        for _ in range(300 if quick else 20000):
            yield {"op": "n", "N": rng.getrandbits(rng.randrange(4, 63))}
        # fast_len through the public API on small signals
        for L in ([0, 1, 2, 11, 13, 97, 1023] if quick else list(range(0, 130)) + [1023, 4097, 10007]):
            yield {"op": "fast_len", "L": L}

    def run_code(self, case):
        pb = self.pb
        if case["op"] == "n":
            n = case["N"]
            try:
                pb.utils.next_fast_len.cache_clear()
                pb.utils.prev_fast_len.cache_clear()
                a, b = pb.utils.next_fast_len(n), pb.utils.prev_fast_len(n)
                a2, b2 = pb.utils.next_fast_len(n), pb.utils.prev_fast_len(n)  # warm
                if (a, b) != (a2, b2):
                    return {"err": "cache-unstable"}
                # the same integer as a NumPy scalar (array lengths and shapes often arrive as such), cache cold again
                import numpy as np
                if n < 2**62 and n % 3 == 0:
                    pb.utils.next_fast_len.cache_clear()
                    pb.utils.prev_fast_len.cache_clear()
                    ni = (np.int64(n), np.uint64(n), np.intp(n))[(n // 3) % 3]
                    if (int(pb.utils.next_fast_len(ni)), int(pb.utils.prev_fast_len(ni))) != (int(a), int(b)):
                        return {"err": "numpy-integer-argument-differs"}
                return {"next": int(a), "prev": int(b)}
            except Exception as e:
                return {"err": err_name(e)}
        else:
            import numpy as np
            import astropy.units as u
            from astropy.time import Time

            L = case["L"]
            # the stamp may live on any time scale a Time can have (also the free-running 'local' one): it is kept as it is
            t0 = [Time("2020-01-01T00:00:00", precision=9), Time("2020-01-01T00:00:00", scale="local", precision=9),
                  Time("2018-07-07T07:07:07.7", scale="tai", precision=9), Time("2021-03-04T05:06:07.123456789", scale="tcb", precision=9),
                  Time("2020-01-01T00:00:00", precision=9)][L % 5]
            z = pb.Signal(np.arange(L, dtype=np.float64), sample_rate=1 * u.kHz, start_time=t0)
            try:
                y = pb.fast_len(z)
                ok_data = bool(np.array_equal(np.asarray(y.data), np.arange(len(y))))
                dt = abs((y.start_time - t0).to_value(u.s))
                # the same on a Dask-backed signal whose time axis is split into several chunks
                if L > 0:
                    import dask.array as da
                    zd = pb.Signal(da.from_array(np.arange(L, dtype=np.float64), chunks=(max(1, L // 3),)), sample_rate=1 * u.kHz,
                                   start_time=t0)
                    yd = pb.fast_len(zd)
                    got = np.asarray(yd.data.compute())
                    ok_data = ok_data and len(yd) == len(y) and got.shape == (len(y),) and bool(np.array_equal(got, np.arange(len(y)))) \
                        and isinstance(yd.data, da.Array)
                return {"len": len(y), "data_prefix": ok_data, "start_same": bool(dt < 1e-10 and y.start_time.scale == t0.scale),
                        "rate_same": bool(y.sample_rate == z.sample_rate)}
            except Exception as e:
                return {"err": err_name(e)}

    def model_requests(self, case, code_out):
        if case["op"] == "n":
            return [f"c18 next {case['N']}", f"c18 prev {case['N']}"]
        return [f"c18 prev {case['L']}"]

    def model_result(self, case, replies):
        if case["op"] == "n":
            return {"next": int(replies[0]), "prev": int(replies[1])}
        return {"len": int(replies[0]), "data_prefix": True, "start_same": True, "rate_same": True}

    def spec_violation(self, case, out):
        if "err" in out:
            return f"raised {out['err']}"
        if case["op"] == "n":
            n = case["N"]
            if out["next"] != spec_next(n):
                return f"next_fast_len({n}) = {out['next']}, least 7-smooth >= N is {spec_next(n)}"
            if out["prev"] != spec_prev(n):
                return f"prev_fast_len({n}) = {out['prev']}, largest 7-smooth <= N is {spec_prev(n)}"
            return None
        L = case["L"]
        exp = {"len": spec_prev(L), "data_prefix": True, "start_same": True, "rate_same": True}
        if out != exp:
            return f"fast_len on length {L}: got {out}, expected {exp}"
        return None

    def nontrivial_key(self, case, out):
        if case["op"] == "n":
            return case["N"] if case["N"] > 10 else None
        return ["fast_len", case["L"]] if case["L"] > 10 else None

    def tags(self, case, out):
        if case["op"] == "n":
            n = case["N"]
            b = "n<=10" if n <= 10 else "n<2^16" if n < 65536 else "n<2^32" if n < 2**32 else "n<2^62"
            t = [b]
            if isinstance(out, dict) and out.get("next") == n:
                t.append("smooth")
            return t
        return ["fast_len"]

    def search(self, rng, tier):
        for n in range(0, 300000):
            yield {"op": "n", "N": n}
        sm = [s for s in SM() if s < (1 << 62)]
        rng.shuffle(sm)
        for s in sm:
            for n in (s - 1, s, s + 1):
                yield {"op": "n", "N": n}

    def shrink(self, case, fails):
        if case["op"] != "n":
            return case
        # smallest failing N below the found one, by bounded downward scan
        n = case["N"]
        for m in range(0, min(n, 100000)):
            c = {"op": "n", "N": m}
            if fails(c):
                return c
        return case
