"""C01 — retained samples keep their absolute timestamps under every crop or slice."""

from fractions import Fraction as F
import math

from .base import PropBase, err_name
from .. import exact as X
from .. import sigs
from . import c18 as c18mod

MANIFEST = dict(
    technique="Lean 4 proof (Python slice semantics, ledger algebra, induction over operation lists) + differential correspondence of z[sl], fast_len, time_shift(crop=True), snippet on all six signal classes against the compiled Lean model",
    level_text="the stamp expressions of _time_slice/dt/time_length/stop_time/snippet, translated symbolically from the source on every run, are the ledger arithmetic (C01_source_formulas); for the exact-rational ledger model: every slice (any bounds, step>0), every crop caller and EVERY finite pipeline of them keeps sample k at the time of its source position (theorems C01_slice, C01_pipeline, C01_pipeline_in_range, C01_no_start, C01_contains_*); the real public API is compared with the model on generated pipelines (len, provenance, rate, start/stop stamps, contains)",
    level_note="Trusted: Lean kernel (+3 standard axioms), hand-written model PbModel/Crop.lean (tied by correspondence only), astropy Time/Quantity float arithmetic (validated within (k+1)*(50ps + 4e-16*|offset|)), provenance decoding of index-encoded data",
)

ALPHA = F(2) * F(2.220446049250313e-16) * 86400  # Time.isclose default atol = 2*eps days

RATES = [("1", "mHz"), ("0.5", "Hz"), ("1", "Hz"), ("1", "kHz"), ("16", "MHz"), ("1", "GHz"),
         ("123.456", "MHz"), ("7.5", "kHz"), ("250", "Hz")]


def tol_time(k, offset):
    return (k + 1) * (F(50, 10**12) + F(4, 10**16) * abs(offset))


class Prop(PropBase):
    id = "C01"
    lean_targets = ["PbProps.C01"]
    theorems = ["Pb.C01." + t for t in (
        "C01_slice", "C01_slice_complete", "C01_slice_rejects", "C01_pipeline",
        "C01_pipeline_in_range", "C01_no_start", "C01_crop_interval", "C01_shift_crop",
        "C01_contains_sound", "C01_contains_complete", "C01_contains_no_start",
        "C01_contains_empty", "C01_error_accum", "C01_source_formulas")]
    trusted_base = ["pbverif/extract.py: symbolic evaluation of the method bodies into PbModel/Gen/Time.lean (trusted to render the source expressions faithfully; tied to the hand model by the C01_source_* theorem)", 
        "PbModel/Crop.lean: hand transliteration of Signal._time_slice/__getitem__/like, fast_len, "
        "time_shift crop bounds, snippet; tied by the correspondence run",
        "astropy Time and Quantity float arithmetic (stamps validated within a stated tolerance, not proved)",
        "CPython slice.indices / NumPy basic slicing semantics (modelled by `adj`/`sliceLen`; "
        "cross-checked against Python's own range(L)[sl] on every case)",
    ]
    assumptions = ["sample period >= 1 ns so a one-sample stamp error exceeds the Time tolerance"]
    rule = ("pipelines of 1-8 (thorough 1-30) ops from {z[a:b:c], fast_len, time_shift(crop=True), snippet} on all "
            "six signal classes; lengths 0..3000 incl. 0,1,primes; bounds from {None,0,+-1,+-L,+-(L+-1),+-1e9,random}; "
            "steps {None,1,2,3,7,L,L+1,0,-1}; rates 1 mHz..1 GHz; start time present/absent. Non-trivial: at least one "
            "op changes start or rate, or an error is raised; distinct by (L, ops).")
    explanation = "ledger/provenance theorems in Lean for all pipelines; API differential on generated pipelines"

    def __init__(self):
        import pulsarbat as pb
        import numpy as np
        import astropy.units as u
        from astropy.time import Time

        self.pb, self.np, self.u, self.Time = pb, np, u, Time

    # ---------------------------------------------------------------- generation
    def _bound(self, rng, L):
        r = rng.random()
        if r < 0.2:
            return None
        if r < 0.5:
            return rng.choice([0, 1, -1, 2, -2, L, -L, L + 1, -(L + 1), L - 1, 1 - L, 10**9, -10**9])
        return rng.randint(-L - 3, L + 3)

    def _op(self, rng, L, allow_fft):
        r = rng.random()
        if r < 0.55:
            st = rng.choice([None, None, 1, 1, 2, 3, 7, max(L, 1), L + 1] + ([0, -1] if rng.random() < 0.15 else []))
            # index spelling: plain slice, 1-tuple, or a tuple that also names the other axes (same time effect)
            form = rng.choice(["plain", "plain", "tuple1", "tf_all", "tf_part", "ellipsis"])
            return ["sl", self._bound(rng, L), self._bound(rng, L), st, form]
        if r < 0.65:
            return ["fl"]
        if r < 0.8 and allow_fft and L >= 1:
            kind = rng.random()
            if kind < 0.5:
                s = float(rng.choice([1, -1, 2, -3, L, -L, L + 1, -(L + 1), L + 3, -(L + 3), 0]))
            else:
                s = rng.choice([0.5, -0.5, 1.25, -2.75, L - 0.5, -(L - 0.5), rng.uniform(-L - 2, L + 2)])
            return ["sc", [s]]
        if r < 0.9 and allow_fft and L >= 1:
            return ["sc", [rng.choice([1.0, -1.5, 2.5, -2.0, 0.0]) for _ in range(2)]]
        # snippet
        n = rng.choice([0, 1, L, max(L - 1, 0), rng.randint(0, L + 1), -1 if rng.random() < 0.1 else 2])
        if rng.random() < 0.7 or not allow_fft:
            t = float(rng.choice([0, 1, max(L - n, 0), rng.randint(-1, L + 1)]))
        else:
            t = rng.choice([0.5, 1.25, max(L - n - 0.5, 0.25), rng.uniform(0, max(L - n, 1))])
        return ["sn", t, n]

    def cases(self, rng, tier):
        quick = tier == "quick"
        n = 900 if quick else 30000
        maxops = 8 if quick else 30
        for i in range(n):
            cls = rng.choice(sigs.CLASSES)
            L = rng.choice([0, 1, 2, 3, 5, 7, 16, 17, 25, 64, 97, 100, 1000, rng.randint(0, 3000)])
            if i % 150 == 7:
                L = rng.choice([100003, 262144, 999983])        # long records (below the 10^6 element-label stride of the index encoding) (accumulated rounding, narrow intermediates)
            rate = rng.choice(RATES)
            t0 = rng.choice(sigs.T0S + [None])
            nops = rng.choice([1, 1, 2, 3, rng.randint(1, maxops)])
            ops, curL = [], L
            for _ in range(nops):
                op = self._op(rng, curL, allow_fft=curL >= 1)
                if op[0] == "sc" and cls == "Signal":
                    op[1] = op[1][:1]      # no sample axes to broadcast over
                ops.append(op)
                exp = self._expected({"L": L, "ops": ops})
                if exp[0] != "ok":
                    break
                curL = exp[4]
            yield {"op": "pipe", "cls": cls, "L": L, "rate": rate, "t0": t0, "ops": ops}
        # bounded-exhaustive slices on tiny signals (every bound in [-(L+2), L+2], steps 1..3)
        lim = 4 if quick else 6
        for L in range(0, lim + 1):
            rngb = [None] + list(range(-L - 2, L + 3))
            for a in rngb:
                for b in rngb:
                    for st in (None, 2, 3):
                        if quick and (hash((a, b, st, L)) % 3):
                            continue
                        yield {"op": "pipe", "cls": "Signal", "L": L, "rate": ["1", "kHz"],
                               "t0": sigs.T0S[0], "ops": [["sl", a, b, st]]}

    # ---------------------------------------------------------------- real code
    def _apply(self, z, op):
        pb, np = self.pb, self.np
        if op[0] == "sl":
            def ni(v, k):
                # bounds as Python ints or (every third slice) as the narrowest NumPy integer holding them
                if v is None or (abs(op[1] or 0) + abs(op[2] or 0) + k) % 3:
                    return v
                for t in (np.int8, np.int16, np.int32):
                    if np.iinfo(t).min <= v <= np.iinfo(t).max:
                        return t(v)
                return np.int64(v)
            sl = slice(ni(op[1], 1), ni(op[2], 2), ni(op[3], 3))
            form = op[4] if len(op) > 4 else "plain"
            if form == "tuple1":
                return z[(sl,)]
            if form == "ellipsis" and type(z) is pb.Signal:       # RadioSignal documents slices only on its first two axes
                return z[sl, ...]
            if form == "tf_all" and z.ndim >= 2:
                return z[sl, :]
            if form == "tf_part" and z.ndim >= 2 and z.shape[1] >= 1:
                return z[sl, 0:z.shape[1]]      # explicit bounds, all channels kept (later ops broadcast over the sample shape)
            return z[sl]
        if op[0] == "fl":
            return pb.fast_len(z)
        if op[0] == "sc":
            sh = op[1][0] if len(op[1]) == 1 else self._bshape(z, op[1])
            return pb.time_shift(z, sh, crop=True)
        if op[0] == "sn":
            return pb.snippet(z, op[1], op[2])
        raise KeyError(op[0])

    def _bshape(self, z, vals):
        # an array of shifts with the full sample shape, values cycling through `vals`
        np = self.np
        shape = z.sample_shape
        if not shape:
            return vals[0]
        n = int(np.prod(shape))
        return np.array([vals[i % len(vals)] for i in range(n)], dtype=float).reshape(shape)

    def _shift_values(self, z_shape, op):
        if len(op[1]) == 1 or not z_shape:
            return [op[1][0]]
        return list(op[1])

    def run_code(self, case):
        pb, np, u, Time = self.pb, self.np, self.u, self.Time
        rate = float(case["rate"][0]) * u.Unit(case["rate"][1])
        # every fourth case reaches the same signal through the attribute setters (built with another rate / start, then assigned)
        if (case["L"] + len(case["ops"])) % 4 == 0:
            z = sigs.make(pb, case["cls"], case["L"], rate * 3, sigs.T0S[1] if case["t0"] is not None else None, nchan=2, extra=())
            z.sample_rate = rate
            if sigs.is_complex(case["cls"]):
                z.chan_bw = rate
            if case["t0"] is not None:
                z.start_time = sigs.T(case["t0"])
        else:
            z = sigs.make(pb, case["cls"], case["L"], rate, case["t0"], nchan=2, extra=())
        tref = z.start_time
        prov = list(range(case["L"]))   # decoded again from the data at the end
        track = True
        for i, op in enumerate(case["ops"]):
            try:
                z = self._apply(z, op)
            except Exception as e:
                return {"err": [err_name(e), i]}
            if op[0] == "sc" or (op[0] == "sn" and not float(op[1]).is_integer()):
                track = False
        out = {"len": len(z), "rate": X.rat(X.q_value(z.sample_rate, u.Hz)),
               "dt": X.rat(X.q_value(z.dt, u.s)), "tlen": X.rat(X.q_value(z.time_length, u.s))}
        if z.start_time is None:
            out["start"] = out["stop"] = None
            if z.stop_time is not None:
                out["stop"] = "not-none"
        else:
            if tref is None:
                return {"err": ["acquired-start-time", len(case["ops"])]}
            out["start"] = X.rat(X.time_offset_s(z.start_time, tref))
            out["stop"] = X.rat(X.time_offset_s(z.stop_time, tref))
        if track:
            idx = sigs.time_indices(z)
            out["prov"] = idx if len(idx) <= 3 else [idx[0], idx[1], idx[-1]]
            out["prov_ok"] = bool(all(idx[j + 1] - idx[j] == idx[1] - idx[0] for j in range(len(idx) - 1)))
        # contains probes
        probes = []
        if z.start_time is not None and len(z) > 0:
            dt = z.dt
            st, sp = z.start_time, z.stop_time
            for lab, t in (("start", st), ("stop", sp), ("before", st - 0.5 * dt), ("in", st + 0.25 * dt),
                           ("last", sp - 0.25 * dt), ("after", sp + 0.5 * dt)):
                probes.append([lab, X.rat(X.time_offset_s(t, tref)), bool(z.contains(t))])
            # the same instants given on another time scale, and as an array
            inner = [st - 0.5 * dt, st + 0.25 * dt, sp - 0.25 * dt, sp + 0.5 * dt]
            out["contains_forms_ok"] = bool(all(bool(z.contains(t.tai)) == bool(z.contains(t)) and bool(z.contains(t.tt)) == bool(z.contains(t))
                                                and bool(t.tai in z) == bool(z.contains(t)) for t in inner)
                                            and [bool(b) for b in z.contains(Time(inner))] == [bool(z.contains(t)) for t in inner])
        elif z.start_time is None:
            arr = z.contains(Time([sigs.T0S[0], sigs.T0S[-1]]))      # array of instants: nothing is contained, shape kept
            probes.append(["nostart", "0", bool(z.contains(Time(sigs.T0S[0]))) or bool(np.any(arr)) or np.shape(arr) != (2,)
                           or (Time(sigs.T0S[0]) in z)])
        else:
            # empty signal: start == stop up to astropy's sub-ps UTC<->TAI noise, so the instant itself
            # is inside the isclose zone (don't-care); probe half a sample either side instead
            for lab, t in (("empty-", z.start_time - 0.5 * z.dt), ("empty+", z.start_time + 0.5 * z.dt)):
                probes.append([lab, X.rat(X.time_offset_s(t, tref)), bool(z.contains(t))])
            # ... and the instant itself whenever astropy reproduces it exactly (stop_time == start_time bit for bit):
            # then [start, stop) is exactly empty and nothing may be reported as contained
            st, sp = z.start_time, z.stop_time
            if float(st.jd1) == float(sp.jd1) and float(st.jd2) == float(sp.jd2):
                probes.append(["empty0", X.rat(X.time_offset_s(st, tref)), bool(z.contains(st))])
        out["contains"] = probes
        return {"ok": out}

    # ---------------------------------------------------------------- model
    def _tok(self, case, op):
        def b(v):
            return "_" if v is None else str(int(v))
        if op[0] == "sl":
            return f"sl:{b(op[1])}:{b(op[2])}:{b(op[3])}"
        if op[0] == "fl":
            return "fl"
        if op[0] == "sc":
            return "sc:" + ",".join(X.rat(X.frac(v)) for v in op[1])
        if op[0] == "sn":
            return f"sn:{X.rat(X.frac(op[1]))}:{int(op[2])}"
        raise KeyError(op[0])

    def model_requests(self, case, code_out):
        u = self.u
        rate = F(case["rate"][0]) * X.unit_scale(u.Unit(case["rate"][1]), u.Hz)
        t0 = "none" if case["t0"] is None else "0"
        reqs = [f"c01 pipe {t0} {X.rat(rate)} {case['L']} " + " ".join(self._tok(case, o) for o in case["ops"])]
        if "ok" in code_out:
            o = code_out["ok"]
            for lab, t, _ in o["contains"]:
                st = "none" if o["start"] is None else o["start"]
                reqs.append(f"c01 contains {X.rat(ALPHA)} {st} {o['rate']} {o['len']} {t}")
        return reqs

    def model_result(self, case, replies):
        r = replies[0].split()
        if r[0] == "err":
            return {"err": [r[1], int(r[2])]}
        assert r[0] == "ok", replies[0]
        return {"ok": {"start": None if r[1] == "none" else r[1], "rate": r[2], "len": int(r[3]),
                       "first": int(r[4]), "off": r[5], "stride": int(r[6]),
                       "contains": [x == "1" for x in replies[1:]]}}

    def agree(self, case, code, model):
        if "err" in code or "err" in model:
            return code == model
        c, m = code["ok"], model["ok"]
        k = len(case["ops"])
        if c["len"] != m["len"]:
            return False
        if not X.close(F(c["rate"]), F(m["rate"]), rtol=F(k + 1, 10**14)):
            return False
        if (c["start"] is None) != (m["start"] is None):
            return False
        if c["start"] is not None:
            ms = F(m["start"])
            if not X.close(F(c["start"]), ms, atol=tol_time(k, ms)):
                return False
            mstop = ms + F(m["len"]) / F(m["rate"])
            if not X.close(F(c["stop"]), mstop, atol=tol_time(k + 1, mstop)):
                return False
        if "prov" in c and c["len"] > 0:
            if not c["prov_ok"] or c["prov"][0] != m["first"]:
                return False
            if c["len"] > 1 and c["prov"][1] - c["prov"][0] != m["stride"]:
                return False
        # the model decides `contains` from the exact rational boundary start + len/rate, the code from the float quotient
        # len / sample_rate (relative error ~2^-53): a probe AT a boundary is comparable only while that rounding stays well
        # inside the isclose zone; for very long records (len/rate above ~1e4 s) the boundary probes are don't-care
        span = F(c["len"]) / F(c["rate"]) if c.get("start") is not None else F(0)
        fuzzy = F(4, 10**16) * span > ALPHA / 8
        for (lab, t, got), want in zip(c["contains"], m["contains"]):
            if fuzzy and lab in ("start", "stop", "empty0"):
                continue
            if got != want:
                return False
        return True

    # ---------------------------------------------------------------- property oracle
    def _expected(self, case):
        """Independent oracle: Python's own range slicing, the 7-smooth table, and the property's
        interval statement for cropped shifts / snippets.  Returns ('ok', first, off, stride, len)
        relative to the original axis, or ('err', kinds, index)."""
        L = case["L"]
        first, off, stride, n = 0, F(0), 1, L
        for i, op in enumerate(case["ops"]):
            if op[0] == "sl":
                st = op[3]
                if st == 0:
                    return ("err", {"ValueError"}, i)
                if st is not None and st < 0:
                    return ("err", {"AssertionError"}, i)
                r = range(n)[slice(op[1], op[2], st)]
                a = slice(op[1], op[2], st).indices(n)[0]
                f2, s2, n2 = a, (st or 1), len(r)
            elif op[0] == "fl":
                f2, s2, n2 = 0, 1, c18mod.spec_prev(n)
            elif op[0] == "sc":
                vals = [X.frac(v) for v in op[1]]
                if all(abs(v) <= F(1, 10**8) for v in vals):
                    f2, s2, n2 = 0, 1, n
                    if any(v != 0 for v in vals):
                        return ("dontcare",)
                else:
                    start = max([0] + [math.ceil(v) for v in vals if v >= 0])
                    back = max([0] + [math.ceil(-v) for v in vals if v < 0])
                    start = min(start, n)
                    n2 = max(n - back - start, 0)
                    f2, s2 = start, 1
            elif op[0] == "sn":
                t, cnt = X.frac(op[1]), op[2]
                if cnt < 0 or t < 0 or t + cnt > n:
                    return ("err", {"ValueError"}, i)
                it = math.floor(t)
                f2, s2, n2 = it, 1, cnt
                off += (t - it) * stride
            first, stride, n = first + f2 * stride, stride * s2, n2
        return ("ok", first, off, stride, n)

    def spec_violation(self, case, code):
        exp = self._expected(case)
        if exp[0] == "dontcare":
            return None
        if exp[0] == "err":
            if "err" not in code:
                return f"expected {sorted(exp[1])} at op {exp[2]}, got a result"
            if code["err"][0] not in exp[1] or code["err"][1] != exp[2]:
                return f"expected {sorted(exp[1])} at op {exp[2]}, got {code['err']}"
            return None
        if "err" in code:
            return f"raised {code['err']} but the pipeline is valid"
        _, first, off, stride, n = exp
        c = code["ok"]
        u = self.u
        rate0 = F(case["rate"][0]) * X.unit_scale(u.Unit(case["rate"][1]), u.Hz)
        k = len(case["ops"])
        if c["len"] != n:
            return f"length {c['len']}, expected {n}"
        if not X.close(F(c["rate"]), rate0 / stride, rtol=F(k + 1, 10**14)):
            return f"sample_rate {float(F(c['rate']))}, expected rate/{stride}"
        if not X.close(F(c["dt"]) * F(c["rate"]), 1, rtol=F(1, 10**14)):
            return "dt != 1/sample_rate"
        if not X.close(F(c["tlen"]), n / (rate0 / stride), rtol=F(k + 2, 10**14)):
            return "time_length != len/sample_rate"
        if case["t0"] is None:
            if c["start"] is not None or c["stop"] is not None:
                return "signal without start time acquired one"
        else:
            if c["start"] is None:
                return "start time lost"
            es = (first + off) / rate0
            if not X.close(F(c["start"]), es, atol=tol_time(k, es)):
                return (f"start_time advanced by {float(F(c['start']))} s, expected "
                        f"{float(es)} s = ({first}+{float(off)}) samples")
            est = es + n * stride / rate0
            if not X.close(F(c["stop"]), est, atol=tol_time(k + 1, est)):
                return f"stop_time offset {float(F(c['stop']))} s, expected {float(est)} s"
        if "prov" in c and n > 0:
            if not c["prov_ok"] or c["prov"][0] != first or (n > 1 and c["prov"][1] - c["prov"][0] != stride):
                return f"retained samples {c['prov']} are not input samples {first}+k*{stride}"
        if c.get("contains_forms_ok") is False:
            return "contains() answers differently for the same instants given on the TAI/TT scale or as an array"
        for lab, t, got in c["contains"]:
            if lab in ("nostart", "empty-", "empty+", "empty0"):
                want = False
            else:
                want = {"start": True, "stop": False, "before": False, "in": True, "last": True,
                        "after": False}[lab]
            if got != want:
                return f"contains({lab}) = {got}, half-open interval says {want}"
        return None

    def nontrivial_key(self, case, code):
        if "err" in code:
            return [case["L"], case["ops"]]
        exp = self._expected(case)
        if exp[0] == "ok" and (exp[1] != 0 or exp[3] != 1 or exp[4] != case["L"]):
            return [case["L"], case["ops"]]
        return None

    def tags(self, case, code):
        t = [case["cls"], "len0" if case["L"] == 0 else "len1" if case["L"] == 1 else "len>1",
             "nostart" if case["t0"] is None else "start", f"nops={min(len(case['ops']), 9)}"]
        t += ["op:" + o[0] for o in case["ops"]]
        if "err" in code:
            t.append("err:" + code["err"][0])
        elif code["ok"]["len"] == 0:
            t.append("empty-result")
        return t

    def shrink(self, case, fails):
        cur = case
        changed = True
        while changed and len(cur["ops"]) > 1:
            changed = False
            for i in range(len(cur["ops"])):
                c2 = dict(cur, ops=cur["ops"][:i] + cur["ops"][i + 1:])
                if fails(c2):
                    cur, changed = c2, True
                    break
        return cur


# ---------------------------------------------------------------------------------------------------------------
# "dedispersion edge cropping" is part of this property: the crops of coherent and incoherent dedispersion are
# exercised through the machinery of C05 / C06 (their models, oracles and generators), as delegated cases.
_Own = Prop


class Prop(_Own):
    rule = _Own.rule + (" Dedispersion edge crops: a batch of the C06 (incoherent) and C05 (coherent) crop cases is run through "
                        "those checks' own models and oracles.")

    def _sub(self, pid):
        import importlib
        cache = self.__dict__.setdefault("_subs", {})
        if pid not in cache:
            cache[pid] = importlib.import_module(f"pbverif.props.{pid.lower()}").Prop()
        return cache[pid]

    def cases(self, rng, tier):
        import random as _r
        yield from super().cases(rng, tier)
        quick = tier == "quick"
        for pid, want, k in (("C06", "incoh", 80 if quick else 2000), ("C05", "coh", 20 if quick else 300)):
            n = 0
            for c in self._sub(pid).cases(_r.Random(rng.random()), "quick" if quick else "thorough"):
                if c.get("op") == want:
                    yield {"op": "delegate", "prop": pid, "case": c}
                    n += 1
                    if n >= k:
                        break

    def _d(self, name, case, *a):
        if isinstance(case, dict) and case.get("op") == "delegate":
            return getattr(self._sub(case["prop"]), name)(case["case"], *a)
        return getattr(super(), name)(case, *a)

    def run_code(self, case):
        return self._d("run_code", case)

    def model_requests(self, case, code):
        return self._d("model_requests", case, code)

    def model_result(self, case, replies):
        return self._d("model_result", case, replies)

    def agree(self, case, code, model):
        return self._d("agree", case, code, model)

    def spec_violation(self, case, code):
        return self._d("spec_violation", case, code)

    def classify(self, case, why):
        return self._d("classify", case, why)

    def nontrivial_key(self, case, code):
        return self._d("nontrivial_key", case, code)

    def tags(self, case, code):
        t = self._d("tags", case, code)
        return (["delegate:" + case["prop"]] + list(t)) if isinstance(case, dict) and case.get("op") == "delegate" else t

    def shrink(self, case, fails):
        if isinstance(case, dict) and case.get("op") == "delegate":
            return case
        return super().shrink(case, fails)
