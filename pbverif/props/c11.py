"""C11 — readers are position-faithful, stateless and agree with the underlying file."""

from fractions import Fraction as F
import hashlib
import json
import math
import os
import shutil
import threading

from .base import PropBase
from .. import common as C
from .. import exact as X

MANIFEST = dict(
    technique="Lean 4 proof (bounds checks of read, stream window seek(k*offset)/read(k*n) inside the file, C-order index maps for the generic/GUPPI/DADA-Stokes layouts incl. conjugation and channel reversal, adjacency by list algebra, offset_at(time_at(k)) = k with half-sample slack, and non-interference of per-read handle life-cycles under every interleaving) + differential correspondence of the real readers on VDIF/DADA/GUPPI/DADA-Stokes files written by the check (real/complex, 2/8 bit, both sidebands, multi-file) and the repo's sample files against the model, a direct baseband read, a handle monitor around baseband.open, observed thread schedules replayed in the model, Dask vs eager and 16-thread runs",
    level_text="proved: accepted reads have n samples, start time_at(offset) and a window inside the stream; every rejection kind; output element (t,x,y) comes from the prescribed file element (transpose / LSB flip / conjugation); adjacent reads concatenate; offset<->time round trip; for every schedule of open/seek/read/close steps each read returns what it returns alone (and a shared handle provably does not); tied: files written by the check with random content + sample files, all reader classes, argument kinds, frame/file boundaries, histories, threads, Dask",
    level_note="PARTIAL (runtime): operating system, baseband's decoding and real thread scheduling are outside the model; they are exercised (16 threads, Dask threaded scheduler) and the observed handle events are replayed in the model, but a race that never manifests in a run cannot be exhibited. The Hilbert conversion of real-valued baseband data is C19's subject; here its window [2*offset, 2*offset+2n) is modelled and values are compared with an independent float64 analytic-signal oracle. Trusted: Lean kernel + Mathlib, hand model PbModel/Reader.lean, the baseband package as ground truth for file content",
)


def _sha(x):
    return hashlib.sha1(json.dumps(x, sort_keys=True).encode()).hexdigest()[:12]


class _Proxy:
    """wraps a baseband stream reader and reports every use to the monitor"""

    def __init__(self, fh, mon, hid):
        object.__setattr__(self, "_fh", fh)
        object.__setattr__(self, "_mon", mon)
        object.__setattr__(self, "_hid", hid)

    def __getattr__(self, k):
        return getattr(self._fh, k)

    def __enter__(self):
        self._fh.__enter__()
        return self

    def __exit__(self, *a):
        self._mon.event(self._hid, "close", None)
        return self._fh.__exit__(*a)

    def close(self):
        self._mon.event(self._hid, "close", None)
        return self._fh.close()

    def seek(self, *a, **k):
        self._mon.event(self._hid, "seek", int(a[0]) if a else None)
        return self._fh.seek(*a, **k)

    def read(self, *a, **k):
        self._mon.event(self._hid, "read", int(a[0]) if a else None)
        return self._fh.read(*a, **k)


class _Monitor:
    def __init__(self):
        self.lock = threading.Lock()
        self.events = []
        self.nh = 0
        self.on = False

    def new_handle(self):
        with self.lock:
            self.nh += 1
            hid = self.nh
            self.events.append((hid, threading.get_ident(), "open", None))
        return hid

    def event(self, hid, op, arg):
        with self.lock:
            self.events.append((hid, threading.get_ident(), op, arg))

    def take(self):
        with self.lock:
            ev, self.events = self.events, []
        return ev


class Prop(PropBase):
    id = "C11"
    lean_targets = ["PbProps.C11"]
    theorems = ["Pb.C11." + t for t in ("C11_read_len_start", "C11_bounds", "C11_offset_roundtrip", "C11_adjacent",
                                        "C11_index_maps", "C11_interleaving", "C11_shared_handle_breaks", "C11_source_literals")]
    trusted_base = ["PbModel/Reader.lean (hand model)", "baseband package (ground truth for file content; writer for generated files)",
                    "OS / threads / Dask scheduler (exercised, not modelled)"]
    assumptions = ["offset_at times at least 1e-3 sample away from half-sample ties (np.round on a computed float)"]
    rule = ("files written by the check: VDIF (1-2 threads, 1-4 channels, real 2/8 bit and complex 8 bit, 32/64-sample frames), DADA "
            "(single and multi-file, real/complex), GUPPI raw (multi-file, LIN/CIRC, upper/lower sideband), DADA full-Stokes (BW>0 "
            "and BW<0), plus the repo's sample.vdif, sample.dada, fake.*.raw, stokes_ef.dada; scalar/mask lower_sideband; Signal / "
            "BasebandSignal / IntensitySignal containers; operations: read with int / numpy int / bool / float / None arguments "
            "inside, at and beyond the bounds and across frame and file boundaries, adjacent reads, offset_at (absolute and relative) "
            "and time_at, contains/stop_time, repeated and interleaved reads, Dask reads, 16 concurrent threads. Non-trivial: every case.")
    explanation = "reader position/index logic and handle life-cycle proved in Lean; real readers compared on files with known content"

    def __init__(self):
        import numpy as np
        import astropy.units as u
        from astropy.time import Time
        import baseband
        import pulsarbat as pb
        import pulsarbat.readers as R

        self.np, self.u, self.Time, self.baseband, self.pb, self.R = np, u, Time, baseband, pb, R
        self.dir = C.WORK / f"c11-files-{os.getpid()}"
        self._files = {}
        self.mon = _Monitor()
        self._orig_open = baseband.open
        self._big = {}

    def __del__(self):
        try:
            shutil.rmtree(self.dir, ignore_errors=True)
        except Exception:
            pass

    # ------------------------------------------------------------------ files
    def _file(self, spec):
        key = _sha(spec)
        if key in self._files:
            return self._files[key]
        np, u, Time, bb = self.np, self.u, self.Time, self.baseband
        from baseband import vdif, dada, guppi
        d = self.dir / key
        d.mkdir(parents=True, exist_ok=True)
        rng = np.random.default_rng(spec.get("seed", 0))
        t0 = Time("2020-01-01T00:00:00", precision=9) + spec.get("t0_s", 0) * u.s
        fmt = spec["fmt"]
        info = {"open_kwargs": {}, "meta": {}}
        repo_data = C.REPO / "tests" / "data"
        if fmt == "repo":
            name = spec["name"]
            if name == "fake":
                paths = sorted(str(p) for p in repo_data.glob("fake.*.raw"))
                info["open_kwargs"] = {"format": "guppi", "squeeze": False}
            elif name == "stokes_ef":
                paths = str(repo_data / "stokes_ef.dada")
                info["open_kwargs"] = {"format": "dada", "squeeze": False}
            else:
                paths = str(repo_data / name)
                info["open_kwargs"] = {"squeeze": bool(spec.get("squeeze", True))}
        else:
            n, rate = spec["nsamp"], spec["rate_mhz"] * u.MHz
            cplx = spec.get("complex", fmt != "stokes")
            a, b = spec["a"], spec["b"]
            lo, hi = (-100, 100)
            if fmt == "vdif" and spec["bps"] == 2:
                data = rng.choice(np.array([-3.3359, -1.0, 1.0, 3.3359], dtype=np.float32), (n, a, b))
                if cplx:
                    data = data + 1j * rng.choice(np.array([-3.3359, -1.0, 1.0, 3.3359], dtype=np.float32), (n, a, b))
            else:
                data = rng.integers(lo, hi, (n, a, b)).astype(np.float32)
                if cplx:
                    data = data + 1j * rng.integers(lo, hi, (n, a, b)).astype(np.float32)
            if fmt == "vdif":
                paths = str(d / "f.vdif")
                with vdif.open(paths, "ws", sample_rate=rate, samples_per_frame=spec["spf"], nchan=b, nthread=a,
                               complex_data=cplx, bps=spec["bps"], edv=1, station="pb", time=t0, squeeze=False) as fw:
                    fw.write(data)
                info["open_kwargs"] = {"squeeze": bool(spec.get("squeeze", False))}
            elif fmt == "dada":
                tmpl = str(d / "f.{frame_nr:03d}.dada")
                with dada.open(tmpl, "ws", time=t0, sample_rate=rate, samples_per_frame=spec["spf"], npol=a, nchan=b,
                               complex_data=cplx, bps=8, squeeze=False) as fw:
                    fw.write(data)
                paths = self._renumber(sorted(str(p) for p in d.glob("f.*.dada")))
                if len(paths) == 1:
                    paths = paths[0]
                info["open_kwargs"] = {"squeeze": bool(spec.get("squeeze", False))}
            elif fmt == "guppi":
                h = guppi.GUPPIHeader.fromvalues(time=t0, sample_rate=rate, samples_per_frame=spec["spf"], pktsize=64,
                                                 npol=2, nchan=b, bps=8, overlap=0, obsfreq=float(spec["obsfreq"]),
                                                 fd_poln=spec["pol"], sideband=not spec["lsb"])
                with guppi.open(str(d / "g.{file_nr:02d}.raw"), "ws", frames_per_file=spec["fpf"], header0=h, squeeze=False) as fw:
                    fw.write(data)
                paths = self._renumber(sorted(str(p) for p in d.glob("g.*.raw")))
                info["open_kwargs"] = {"format": "guppi", "squeeze": False}
                info["meta"] = {"center_freq": F(spec["obsfreq"]) * 10**6, "pol_type": {"LIN": "linear", "CIRC": "circular"}[spec["pol"]],
                                "freq_align": "center", "chan_bw": F(spec["rate_mhz"]) * 10**6}
            elif fmt == "stokes":
                paths = str(d / "s.dada")
                bw = spec["bw"] * (-1 if spec["lsb"] else 1)
                with dada.open(paths, "ws", time=t0, sample_rate=rate, samples_per_frame=n, npol=4, nchan=b, complex_data=False,
                               bps=8, bw=float(bw), freq=float(spec["freq"]), squeeze=False) as fw:
                    hdr_bw = fw.header0["BW"]
                    fw.write(data)
                info["open_kwargs"] = {"format": "dada", "squeeze": False}
                info["meta"] = {"center_freq": F(spec["freq"]) * 10**6, "chan_bw": abs(F(float(hdr_bw))) / b * 10**6,
                                "freq_align": "top" if spec["lsb"] else "bottom"}
            info["written"] = data
        with self._orig_open(paths, "rs", **info["open_kwargs"]) as fh:
            Fa = fh.read()
            info["file_rate_hz"] = X.q_value(fh.sample_rate, self.u.Hz)
            info["complex"] = bool(fh.complex_data)
            info["t0"] = Time(fh.start_time, format="isot", precision=9)
            if fmt == "repo" and spec["name"] == "fake":
                hdr = fh.header0
                info["meta"] = {"center_freq": F(float(hdr["OBSFREQ"])) * 10**6, "pol_type": {"LIN": "linear", "CIRC": "circular"}[hdr["FD_POLN"]],
                                "freq_align": "center"}
                info["hdr_lsb"] = not hdr.sideband
            if fmt == "repo" and spec["name"] == "stokes_ef":
                hdr = fh.header0
                info["meta"] = {"center_freq": F(float(hdr["FREQ"])) * 10**6, "chan_bw": abs(F(float(hdr["BW"])) / hdr["NCHAN"]) * 10**6,
                                "freq_align": "top" if hdr["BW"] < 0 else "bottom"}
                info["hdr_lsb"] = bool(hdr["BW"] < 0)
        info["in_shape"] = tuple(Fa.shape[1:])
        sh = Fa.shape[1:]
        a, b = (sh + (1, 1))[:2] if len(sh) < 2 else sh
        info["a"], info["b"] = int(a), int(b)
        info["F"] = Fa.reshape(Fa.shape[0], a, b)
        info["paths"] = paths
        if "written" in info and not (fmt == "vdif"):
            assert np.array_equal(info["written"].reshape(info["F"].shape), info["F"]), "baseband did not read back what it wrote"
        self._files[key] = info
        return info

    @staticmethod
    def _renumber(paths):
        """file sets are handed to the readers as lists in time order; name them scan.8, scan.9, scan.10, ... so that the
        order of the list is NOT the lexicographic order of the names"""
        import os
        out = []
        for i, p in enumerate(paths):
            q = os.path.join(os.path.dirname(p), f"scan.{8 + i}" + os.path.splitext(p)[1])
            os.replace(p, q)
            out.append(q)
        return out

    def _reader(self, spec, info):
        R, pb, u = self.R, self.pb, self.u
        fmt = spec["fmt"]
        name = spec.get("name")
        if fmt == "guppi" or name == "fake":
            return R.GUPPIRawReader(info["paths"])
        if fmt == "stokes" or name == "stokes_ef":
            return R.DADAStokesReader(info["paths"])
        kw = dict(info["open_kwargs"])
        lsb = spec.get("lsb", False)
        if isinstance(lsb, list):
            lsb = self.np.array(lsb, dtype=bool).reshape(info["in_shape"])
        st = spec.get("sigtype", "Signal")
        skw = {}
        if st == "BasebandSignal":
            skw = {"center_freq": 1.4 * u.GHz}
        if st == "IntensitySignal":
            skw = {"center_freq": 1.4 * u.GHz, "chan_bw": 1 * u.MHz}
        # arguments equal to their documented defaults are left out (the defaults are part of the interface)
        args = dict(signal_type=getattr(pb, st), signal_kwargs=skw, lower_sideband=lsb)
        if lsb is False:
            del args["lower_sideband"]
        if st == "Signal":
            del args["signal_type"]
        if not skw:
            del args["signal_kwargs"]
        rd = R.BasebandReader(info["paths"], **args, **kw)
        if isinstance(lsb, self.np.ndarray):
            # the caller's mask buffer is the caller's: reusing it afterwards (here: inverted in place) is no business of the reader
            self.np.logical_not(lsb, out=lsb)
        return rd

    def _twin(self, spec):
        """a second, different reader of the same class, sample shape and dtype (another file with other content, or the
        same file read with the opposite sideband)"""
        if spec["fmt"] == "repo":
            if spec["name"] == "sample.vdif":
                return dict(spec, lsb=not spec.get("lsb", False))
            return None
        return dict(spec, seed=spec["seed"] + 7919)

    def _desc(self, spec, info):
        """(kind, mode, lsb string) for the model"""
        fmt, name = spec["fmt"], spec.get("name")
        if fmt == "guppi" or name == "fake":
            lsb = spec["lsb"] if fmt == "guppi" else info["hdr_lsb"]
            return "guppi", "complex", "1" if lsb else "0"
        if fmt == "stokes" or name == "stokes_ef":
            lsb = spec["lsb"] if fmt == "stokes" else info["hdr_lsb"]
            return "stokes", "intensity", "1" if lsb else "0"
        if spec.get("sigtype") == "IntensitySignal":
            mode = "intensity"
        else:
            mode = "complex" if info["complex"] else "real"
        lsb = spec.get("lsb", False)
        ls = ",".join("1" if x else "0" for x in lsb) if isinstance(lsb, list) else ("1" if lsb else "0")
        return "generic", mode, ls

    # ------------------------------------------------------------------ generation
    def _specs(self, rng, tier):
        specs = []
        for _ in range(3 if tier == "quick" else 40):
            fmt = rng.choice(["vdif", "vdif", "dada", "dada", "guppi", "stokes"])
            s = {"fmt": fmt, "seed": rng.randrange(10**6), "rate_mhz": rng.choice([1, 2, 16, 400, 2.9296875, 0.1953125]), "t0_s": rng.choice([0, 0, 12345, 86399])}
            if fmt == "vdif" and s["rate_mhz"] * 10**6 % 1:
                s["rate_mhz"] = 16         # a VDIF header stores whole Hz only (baseband asserts it)
            if fmt == "vdif":
                s.update(complex=rng.random() < 0.5, bps=rng.choice([8, 8, 2]), a=rng.choice([1, 2]), b=rng.choice([1, 2, 4]), spf=rng.choice([32, 64]))
                if s["bps"] == 2 and s["complex"] and s["b"] == 1:
                    s["b"] = 2
                s["nsamp"] = s["spf"] * rng.choice([4, 5, 8])
            elif fmt == "dada":
                s.update(complex=rng.random() < 0.5, a=rng.choice([1, 2]), b=rng.choice([1, 2, 4]), spf=rng.choice([16, 32, 50]))
                if not s["complex"] and s["a"] * s["b"] == 1 and s["spf"] % 8:
                    s["spf"] = 32          # baseband cannot encode a real one-stream DADA frame whose byte count is not a multiple of 8
                s["nsamp"] = s["spf"] * rng.choice([1, 1, 2, 3])
            elif fmt == "guppi":
                s.update(b=rng.choice([2, 4, 8]), a=2, spf=rng.choice([16, 32]), fpf=rng.choice([1, 2]), lsb=rng.random() < 0.5,
                         pol=rng.choice(["LIN", "CIRC"]), obsfreq=rng.choice([344.1875, 1400, 800.5]))
                s["nsamp"] = s["spf"] * rng.choice([2, 3, 4])
            else:
                s.update(a=4, b=rng.choice([2, 4, 8]), nsamp=rng.choice([8, 16, 33]), lsb=rng.random() < 0.5, freq=rng.choice([1400, 7000]),
                         bw=rng.choice([8, 200]))
            if fmt in ("vdif", "dada"):
                r = rng.random()
                if r < 0.3:
                    s["lsb"] = True
                elif r < 0.5:
                    s["lsb"] = [rng.random() < 0.5 for _ in range(s["a"] * s["b"])]
                else:
                    s["lsb"] = False
                if not s["complex"] and rng.random() < 0.3 and s["a"] == 1:
                    s["sigtype"], s["squeeze"] = "IntensitySignal", True
                    if isinstance(s["lsb"], list):
                        s["lsb"] = False
                elif rng.random() < 0.3 and s["a"] == 1:
                    s["sigtype"], s["squeeze"] = "BasebandSignal", True
                if s.get("squeeze") and isinstance(s["lsb"], list):
                    s["lsb"] = s["lsb"][:s["b"]] if s["b"] > 1 else bool(s["lsb"][0])
                if s.get("squeeze") and s["b"] == 1:
                    s.pop("sigtype", None)          # a fully squeezed stream is 1-D: plain Signal
            specs.append(s)
        # fixed coverage: every layout / sideband form / parity appears in every run
        sd = rng.randrange(10**6)
        specs += [
            {"fmt": "vdif", "seed": sd, "rate_mhz": 16, "t0_s": 0, "complex": True, "bps": 8, "a": 2, "b": 2, "spf": 32, "nsamp": 160,
             "lsb": [True, False, False, True]},
            {"fmt": "vdif", "seed": sd + 1, "rate_mhz": 2, "t0_s": 12345, "complex": False, "bps": 2, "a": 2, "b": 4, "spf": 64, "nsamp": 256,
             "lsb": [rng.random() < 0.5 for _ in range(8)]},
            {"fmt": "dada", "seed": sd + 2, "rate_mhz": 1, "t0_s": 86399, "complex": False, "a": 1, "b": 8, "spf": 25, "nsamp": 25, "lsb": True},
            {"fmt": "dada", "seed": sd + 3, "rate_mhz": 400, "t0_s": 0, "complex": True, "a": 2, "b": 1, "spf": 16, "nsamp": 48, "lsb": False},
            {"fmt": "dada", "seed": sd + 4, "rate_mhz": 2, "t0_s": 0, "complex": False, "a": 1, "b": 4, "spf": 32, "nsamp": 64, "lsb": False,
             "sigtype": "IntensitySignal", "squeeze": True},
            {"fmt": "guppi", "seed": sd + 5, "rate_mhz": 1, "t0_s": 0, "a": 2, "b": 4, "spf": 16, "fpf": 2, "nsamp": 64, "lsb": True, "pol": "CIRC",
             "obsfreq": 1400},
            {"fmt": "guppi", "seed": sd + 11, "rate_mhz": 2.9296875, "t0_s": 0, "a": 2, "b": 4, "spf": 32, "fpf": 2, "nsamp": 128, "lsb": False,
             "pol": "LIN", "obsfreq": 1400},
            {"fmt": "guppi", "seed": sd + 6, "rate_mhz": 16, "t0_s": 12345, "a": 2, "b": 2, "spf": 32, "fpf": 1, "nsamp": 96, "lsb": False,
             "pol": "LIN", "obsfreq": 344.1875},
            {"fmt": "stokes", "seed": sd + 7, "rate_mhz": 1, "t0_s": 0, "a": 4, "b": 8, "nsamp": 16, "lsb": True, "freq": 7000, "bw": 200},
            {"fmt": "stokes", "seed": sd + 8, "rate_mhz": 2, "t0_s": 0, "a": 4, "b": 4, "nsamp": 33, "lsb": False, "freq": 1400, "bw": 8},
            # long files (hundreds of thousands of samples, several frames/files): reads of 2^15, 2^16, 2^17 samples and neighbours
            {"fmt": "dada", "seed": sd + 9, "rate_mhz": 16, "t0_s": 0, "complex": True, "a": 1, "b": 2, "spf": 32768, "nsamp": 32768 * 7,
             "lsb": False, "long": True},
            {"fmt": "dada", "seed": sd + 10, "rate_mhz": 2, "t0_s": 12345, "complex": False, "a": 1, "b": 2, "spf": 65536, "nsamp": 65536 * 5,
             "lsb": True, "long": True},
        ]
        specs += [{"fmt": "repo", "name": "sample.vdif", "lsb": rng.choice([False, True])},
                  {"fmt": "repo", "name": "sample.dada", "squeeze": rng.random() < 0.5},
                  {"fmt": "repo", "name": "fake"}, {"fmt": "repo", "name": "stokes_ef"}]
        return specs

    def _arg(self, rng, v):
        k = rng.choice(["int", "int", "npint", "npint32", "narrow", "narrow"])
        return {"k": k, "v": int(v)}

    def cases(self, rng, tier):
        quick = tier == "quick"
        for spec in self._specs(rng, tier):
            info = self._file(spec)
            kind, mode, _ = self._desc(spec, info)
            flen = info["F"].shape[0]
            L = flen // 2 if mode == "real" else flen
            big = info["a"] * info["b"] > 64
            spf = spec.get("spf") or 1
            spf_out = max(1, spf // 2 if mode == "real" else spf)
            if spec.get("long"):
                ops = []
                for n in (65536, 32768, 131072, 65537, 65535):
                    if n <= L:
                        o = rng.choice([0, 5, L - n, rng.randint(0, L - n)])
                        ops.append(["read", {"k": "int", "v": o}, {"k": "int", "v": n}, rng.choice([False, False, True])])
                if mode != "real":
                    ops.append(["adjacent", 3, 65536, 65536])
                ops.append(["repeat", 7, 65536 if L >= 65543 else 32768])
                yield {"op": "reader", "spec": spec, "ops": ops}
                continue
            for _ in range(3 if quick else 12):
                ops = []
                for _ in range(rng.randint(4, 9)):
                    r = rng.random()
                    nmax = 2 if big else 12
                    if r < 0.35:
                        n = rng.randint(0, min(nmax, L))
                        anchors = [0, L - n, max(0, spf_out - n // 2 - 1), max(0, spf_out * 2 - 1), rng.randint(0, L - n)]
                        o = min(max(0, rng.choice(anchors)), L - n)
                        # lazy reads: default chunks, or an explicit chunks= that splits the time axis (an int = chunk length)
                        lz = rng.random()
                        ops.append(["read", self._arg(rng, o), self._arg(rng, n),
                                    False if lz >= 0.3 else (True if lz < 0.15 else rng.choice([1, 2, 3, 5, 7]))])
                    elif r < 0.45:
                        bad = rng.choice([
                            [{"k": "int", "v": -1}, {"k": "int", "v": 1}], [{"k": "int", "v": 0}, {"k": "int", "v": -2}],
                            [{"k": "int", "v": L}, {"k": "int", "v": 1}], [{"k": "int", "v": L - 1}, {"k": "int", "v": 2}],
                            [{"k": "int", "v": L + 1}, {"k": "int", "v": 0}], [{"k": "float", "v": 1}, {"k": "int", "v": 1}],
                            [{"k": "int", "v": 1}, {"k": "float", "v": 1}], [{"k": "none", "v": 0}, {"k": "int", "v": 1}],
                            [{"k": "bool", "v": 1}, {"k": "int", "v": 1}], [{"k": "int", "v": L}, {"k": "int", "v": 0}],
                            [{"k": "str", "v": 1}, {"k": "int", "v": 1}], [{"k": "int", "v": -1}, {"k": "float", "v": 1}]])
                        ops.append(["read", bad[0], bad[1], False])
                    elif r < 0.55 and mode != "real":
                        n = rng.randint(0, min(nmax // 2, L))
                        m = rng.randint(0, min(nmax // 2, L - n))
                        o = rng.choice([0, L - n - m, max(0, min(spf_out - n, L - n - m)), rng.randint(0, L - n - m)])
                        ops.append(["adjacent", max(0, o), n, m])
                    elif r < 0.72:
                        k = rng.choice([0, L, L - 1, 1, rng.randint(0, L), -1, L + 1, rng.randint(-3, L + 3)])
                        num, den = rng.choice([(0, 1), (1, 4), (-1, 4), (49, 100), (-49, 100), (1, 3), (0, 1), (1, 1000)])
                        ops.append(["offset_at", rng.choice(["abs", "rel"]), k, num, den])
                    elif r < 0.80:
                        ops.append(["time_at", rng.choice([0, L, rng.randint(0, L)])])
                    elif r < 0.86:
                        ops.append(["contains", rng.choice([0, L, L, L - 1, -1, rng.randint(0, L)]), rng.choice([0, 0, 1])])
                    elif r < 0.90:
                        n = rng.randint(1, min(nmax, L))
                        o = rng.randint(0, L - n)
                        ops.append(["repeat", o, n])
                    elif r < 0.95:
                        n = rng.randint(1, min(nmax, L))
                        ops.append(["joint", rng.randint(0, L - n), n])
                    else:
                        reqs = []
                        for _ in range(16):
                            n = rng.randint(0, min(nmax, L))
                            reqs.append([rng.randint(0, L - n), n])
                        ops.append(["threads", reqs])
                yield {"op": "reader", "spec": spec, "ops": ops}

    # ------------------------------------------------------------------ real code
    def _mk(self, a):
        np = self.np
        k, v = a["k"], a["v"]
        def narrow():
            # the narrowest NumPy integer type holding the value: arithmetic on it (2*offset, offset+n) wraps or promotes early
            for t in (np.int8, np.uint8, np.int16, np.uint16, np.int32, np.uint32):
                if np.iinfo(t).min <= v <= np.iinfo(t).max:
                    return t(v)
            return np.int64(v)
        return {"int": lambda: int(v), "npint": lambda: np.int64(v), "npint32": lambda: np.int32(v), "bool": lambda: bool(v),
                "narrow": narrow,
                "float": lambda: float(v), "none": lambda: None, "str": lambda: str(v)}[k]()

    def _vals(self, arr):
        np = self.np
        x = np.asarray(arr)
        if x.size > 4096:
            return None
        x = x.astype(np.complex128).ravel()
        return [[float(v.real), float(v.imag)] for v in x]

    def _sig_obs(self, z, info, key):
        np, u = self.np, self.u
        data = np.asarray(z.data.compute() if hasattr(z.data, "compute") else z.data)
        o = {"type": type(z).__name__, "shape": list(z.shape), "dtype": str(z.dtype), "rate": X.rat(X.q_value(z.sample_rate, u.Hz)),
             "start": X.rat(X.time_offset_s(z.start_time, info["t0"])), "dask": hasattr(z.data, "compute")}
        for m in ("center_freq", "chan_bw"):
            if hasattr(z, m):
                o[m] = X.rat(X.q_value(getattr(z, m), u.Hz))
        for m in ("freq_align", "pol_type"):
            if hasattr(z, m):
                o[m] = str(getattr(z, m))
        v = self._vals(data)
        if v is None:
            self._big[key] = data
            o["big"] = key
        else:
            o["vals"] = v
        return o

    def _events(self, mainthread=None):
        ev = self.mon.take()
        tids = {}
        out = []
        for hid, tid, op, arg in ev:
            t = tids.setdefault(tid, len(tids))
            out.append([hid, t, op, arg])
        return out

    def run_code(self, case):
        np, u, bb = self.np, self.u, self.baseband
        spec = case["spec"]
        info = self._file(spec)
        mon = self.mon

        def opener(*a, **k):
            fh = self._orig_open(*a, **k)
            if len(a) > 1 and a[1] == "rs":
                return _Proxy(fh, mon, mon.new_handle())
            return fh

        bb.open = opener
        import warnings
        # warnings.catch_warnings is not thread-safe: the 16-thread operations below can leave a foreign 'error' filter behind
        warnings.resetwarnings()
        warnings.simplefilter("ignore")
        try:
            mon.take()
            try:
                r = self._reader(spec, info)
            except Exception as e:
                return {"ctor_err": type(e).__name__ + ": " + str(e)[:100]}
            if isinstance(r, self.R.BasebandReader) and hasattr(type(r), "lower_sideband") and spec.get("seed", 0) % 2 == 0:
                for bad_mask in (np.array([True, False, True, False, True, False, True]), np.array([[True]] * 3),
                                 np.array([True] * max(1, info["a"] * info["b"]))[:, None, None],
                                 np.array([True] * info["a"]), np.array([True] * info["b"])):
                    if bad_mask.shape == tuple(r.sample_shape) or bad_mask.size == 1:
                        continue                             # (that one would be a valid mask for this reader)
                    try:
                        r.lower_sideband = bad_mask          # wrong shape: refused ...
                    except Exception:
                        pass                                 # ... and the reader must read as before
            rej = []
            if isinstance(r, self.R.BasebandReader) and not isinstance(r, (self.R.GUPPIRawReader, self.R.DADAStokesReader)):
                # inconsistent constructor arguments are refused (ValueError), never turned into a reader
                pbm, okw = self.pb, dict(info["open_kwargs"])
                for lab, kw in (("BasebandSignal with intensity=True", dict(signal_type=pbm.BasebandSignal, intensity=True,
                                                                          signal_kwargs={"center_freq": 1 * u.GHz})),
                                ("IntensitySignal with intensity=False", dict(signal_type=pbm.IntensitySignal, intensity=False,
                                                                              signal_kwargs={"center_freq": 1 * u.GHz, "chan_bw": 1 * u.MHz})),
                                ("lower_sideband of a wrong shape", dict(lower_sideband=[True, False, True, False, True, False, True])),
                                ("intensity with a per-channel sideband", dict(signal_type=pbm.IntensitySignal, lower_sideband=[True],
                                                                               signal_kwargs={"center_freq": 1 * u.GHz, "chan_bw": 1 * u.MHz}))):
                    try:
                        self.R.BasebandReader(info["paths"], **kw, **okw)
                        rej.append(lab + " accepted")
                    except ValueError:
                        pass
                    except Exception as e:      # noqa
                        rej.append(f"{lab}: {type(e).__name__}")
                if spec["fmt"] != "stokes":
                    try:
                        self.R.DADAStokesReader(info["paths"])
                        rej.append("DADAStokesReader on a non-Stokes file accepted")
                    except Exception:
                        pass
                mon.take()
            out = {"ctor_rejects": rej, "len": len(r), "shape": list(r.shape), "dtype": str(r.dtype), "rate": X.rat(X.q_value(r.sample_rate, u.Hz)),
                   "start": X.rat(X.time_offset_s(r.start_time, info["t0"])),
                   "stop": X.rat(X.time_offset_s(r.stop_time, info["t0"])), "ctor_events": self._events(), "ops": []}
            ck = _sha(case)
            for i, op in enumerate(case["ops"]):
                o = {}
                # any earlier multi-threaded step (explicit threads, Dask's default threaded scheduler) may have leaked an
                # 'error' warning filter through the non-thread-safe warnings.catch_warnings: start every operation clean
                warnings.resetwarnings()
                warnings.simplefilter("ignore")
                try:
                    if op[0] == "read":
                        if op[3] is True or not op[3]:
                            z = r.read(self._mk(op[1]), self._mk(op[2]), use_dask=True) if op[3] else r.read(self._mk(op[1]), self._mk(op[2]))
                        else:
                            z = r.read(self._mk(op[1]), self._mk(op[2]), use_dask=True, chunks=(int(op[3]),) + (-1,) * len(r.sample_shape))
                        if op[3]:
                            o["lazy_events"] = self._events()
                        o["sig"] = self._sig_obs(z, info, f"{ck}/{i}")
                    elif op[0] == "adjacent":
                        _, a, n, m = op
                        z1, z2, z3 = r.read(a, n), r.read(a + n, m), r.read(a, n + m)
                        o["concat_equal"] = bool(np.array_equal(np.concatenate([z1.data, z2.data]), z3.data))
                        o["stamp2"] = X.rat(X.time_offset_s(z2.start_time, info["t0"]))
                        o["sig"] = self._sig_obs(z3, info, f"{ck}/{i}")
                    elif op[0] == "offset_at":
                        _, how, k, num, den = op
                        dt = ((k + num / den) / r.sample_rate).to(u.s)
                        tabs = r.start_time + dt
                        if how == "abs" and (k + num) % 2:
                            tabs = tabs.tai        # the same instant on another time scale
                        o["k"] = int(r.offset_at(tabs if how == "abs" else dt))
                    elif op[0] == "time_at":
                        t = r.time_at(op[1])
                        o["t"] = X.rat(X.time_offset_s(t, info["t0"]))
                        o["t_unit"] = X.rat(X.q_value(r.time_at(op[1], unit=u.us), u.s))
                        o["back"] = int(r.offset_at(t))
                        o["back_rel"] = int(r.offset_at(r.time_at(op[1], unit=u.s)))
                    elif op[0] == "contains":
                        t = r.time_at(op[1]) + ((0.25 * op[2]) / r.sample_rate).to(u.s)
                        o["in"] = bool(r.contains(t))
                        o["in_op"] = bool(t in r)
                    elif op[0] == "repeat":
                        _, a, n = op
                        z1 = r.read(a, n)
                        _ = r.read(0, min(3, len(r)))
                        _ = r.read(max(0, len(r) - 2), min(2, len(r)))
                        z2 = r.read(a, n)
                        z3 = r.dask_read(a, n)
                        o["same"] = bool(np.array_equal(z1.data, z2.data) and np.array_equal(z1.data, np.asarray(z3.data.compute())))
                        o["same_stamp"] = bool(abs(X.time_offset_s(z1.start_time, z2.start_time)) == 0)
                    elif op[0] == "joint":
                        tw = self._twin(spec)
                        if tw is None:
                            o["skip"] = True
                        else:
                            import dask
                            r2 = self._reader(tw, self._file(tw))
                            e1, e2 = np.asarray(r.read(op[1], op[2]).data), np.asarray(r2.read(op[1], op[2]).data)
                            z1, z2 = r.dask_read(op[1], op[2]), r2.dask_read(op[1], op[2])
                            g1, g2 = dask.compute(z1.data, z2.data, scheduler="synchronous")
                            o["joint_same"] = [bool(np.array_equal(np.asarray(g1), e1)), bool(np.array_equal(np.asarray(g2), e2))]
                            diff = z1 - z2 if hasattr(z1, "__sub__") else None
                            o["joint_diff_same"] = bool(np.array_equal(np.asarray((z1.data - z2.data).compute(scheduler="synchronous")), e1 - e2))
                            o["distinct"] = bool(e1.shape == e2.shape and not np.array_equal(e1, e2))
                    elif op[0] == "threads":
                        reqs = op[1]
                        solo = [np.asarray(r.read(a, n).data) for a, n in reqs]
                        self._events()
                        res = [None] * len(reqs)
                        barrier = threading.Barrier(len(reqs))

                        def work(j):
                            barrier.wait()
                            try:
                                res[j] = np.asarray(r.read(reqs[j][0], reqs[j][1]).data)
                            except Exception as e:  # noqa
                                res[j] = e

                        ths = [threading.Thread(target=work, args=(j,)) for j in range(len(reqs))]
                        [t.start() for t in ths]
                        [t.join() for t in ths]
                        o["thread_events"] = self._events()
                        # a Warning raised as an exception inside a worker is the (library-level) race on the global warnings
                        # filters, not a reader result: that thread is not judged
                        o["warn_race"] = [j for j in range(len(reqs)) if isinstance(res[j], Warning)]
                        warnings.resetwarnings()
                        warnings.simplefilter("ignore")
                        o["thread_same"] = [bool(isinstance(res[j], Warning) or (not isinstance(res[j], Exception) and np.array_equal(res[j], solo[j])))
                                            for j in range(len(reqs))]
                        o["thread_errs"] = [type(res[j]).__name__ for j in range(len(reqs)) if isinstance(res[j], Exception) and not isinstance(res[j], Warning)]
                        # Dask, threaded scheduler: one graph reading all requests
                        import dask
                        lazy = [r.dask_read(a, n) for a, n in reqs]
                        o["lazy_events"] = self._events()
                        try:
                            got = dask.compute(*[z.data for z in lazy], scheduler="threads", num_workers=8)
                        except Warning:
                            warnings.resetwarnings()
                            warnings.simplefilter("ignore")
                            o["warn_race"].append("dask")
                            got = dask.compute(*[z.data for z in lazy], scheduler="threads", num_workers=8)
                        warnings.resetwarnings()
                        warnings.simplefilter("ignore")
                        o["dask_same"] = [bool(np.array_equal(np.asarray(g), s)) for g, s in zip(got, solo)]
                        self._events()
                except Warning as e:  # noqa
                    # a Warning raised as an exception is the warnings-filter race described above, not a reader result
                    o = {"warn_race": type(e).__name__}
                    import time as _time
                    _time.sleep(0.2)          # let worker threads of the aborted step finish before their events are drained
                except Exception as e:  # noqa
                    o["err"] = "OutOfBoundsError" if type(e).__name__ == "OutOfBoundsError" else type(e).__name__
                    o["is_eof"] = isinstance(e, EOFError)
                if "thread_events" not in o:
                    o["events"] = self._events()
                out["ops"].append(o)
            return out
        finally:
            bb.open = self._orig_open

    # ------------------------------------------------------------------ model
    @staticmethod
    def _marg(a):
        return f"i:{int(a['v'])}" if a["k"] in ("int", "npint", "npint32", "narrow", "bool") else "x"

    def model_requests(self, case, code):
        if "ctor_err" in code:
            return []
        spec = case["spec"]
        info = self._file(spec)
        kind, mode, lsb = self._desc(spec, info)
        flen = info["F"].shape[0]
        rate = X.rat(info["file_rate_hz"] / (2 if mode == "real" else 1))
        head = f"c11 read {kind} {mode} {flen} {info['a']} {info['b']} {lsb} {rate}"
        reqs = [f"c11 len {mode} {flen}"]
        L = flen // 2 if mode == "real" else flen
        for op, o in zip(case["ops"], code["ops"]):
            if op[0] == "read":
                reqs.append(f"{head} {self._marg(op[1])} {self._marg(op[2])}")
            elif op[0] == "adjacent":
                _, a, n, m = op
                reqs += [f"{head} i:{a} i:{n}", f"{head} i:{a + n} i:{m}", f"{head} i:{a} i:{n + m}"]
            elif op[0] == "offset_at":
                _, how, k, num, den = op
                reqs.append(f"c11 offset {L} {rate} {X.rat((F(k) + F(num, den)) / F(rate))}")
            elif op[0] == "time_at":
                reqs.append(f"c11 time {rate} {op[1]}")
            elif op[0] == "threads":
                # replay the observed schedule of handle events in the model
                ev = o.get("thread_events", [])
                hs = []
                for hid, t, e, arg in ev:
                    if e == "open":
                        hs.append(hid)
                k = 2 if mode == "real" else 1
                # map handle -> request through its seek/read arguments
                per = {h: {} for h in hs}
                for hid, t, e, arg in ev:
                    if hid in per and e in ("seek", "read"):
                        per[hid][e] = arg
                rq = ",".join(f"{per[h].get('seek', 0)}:{per[h].get('read', 0)}" for h in hs) or "-"
                idx = {h: i for i, h in enumerate(hs)}
                sched = ",".join(str(idx[hid]) for hid, t, e, arg in ev if hid in idx) or "-"
                reqs.append(f"c11 sched {rq} {sched}")
        return reqs

    def model_result(self, case, replies):
        return {"replies": list(replies)}

    def _expected_from_srcs(self, info, srcs):
        np = self.np
        flat = info["F"].reshape(-1)
        idx = np.array([s >> 1 for s in srcs], dtype=np.int64)
        cj = np.array([s & 1 for s in srcs], dtype=bool)
        v = flat[idx].astype(np.complex128)
        return np.where(cj, v.conj(), v)

    def _obs_vals(self, sig):
        np = self.np
        if "vals" in sig:
            return np.array([complex(a, b) for a, b in sig["vals"]], dtype=np.complex128)
        return np.asarray(self._big[sig["big"]]).astype(np.complex128).ravel()

    def _hilbert(self, x):
        """independent float64 oracle for real->complex conversion along axis 0 (analytic signal, shifted down by a quarter
        of the real sample rate, decimated by two)"""
        np = self.np
        N = x.shape[0]
        if N == 0:
            return np.zeros((0,) + x.shape[1:], dtype=np.complex128)
        h = np.zeros(N)
        h[0] = 1
        h[1:N // 2] = 2
        h[N // 2] = 1
        a = np.fft.ifft(np.fft.fft(x.astype(np.float64), axis=0) * h.reshape((-1,) + (1,) * (x.ndim - 1)), axis=0)
        return (a * np.exp(-0.5j * np.pi * np.arange(N)).reshape((-1,) + (1,) * (x.ndim - 1)))[::2]

    def _check_read(self, reply, sig_or_err, info, mode, events):
        """compare one model read reply with what the code did; returns None or a reason"""
        np = self.np
        r = reply.split()
        if r[0] == "err":
            if not isinstance(sig_or_err, str):
                return f"model rejects with {r[1]}, code returned a signal"
            return None if sig_or_err == r[1] else f"model error {r[1]}, code error {sig_or_err}"
        if isinstance(sig_or_err, str):
            return f"model accepts, code raised {sig_or_err}"
        sig = sig_or_err
        n, start, pos, cnt, Xs, Ys = int(r[1]), F(r[2]), int(r[3]), int(r[4]), int(r[5]), int(r[6])
        if sig["shape"][0] != n or math.prod(sig["shape"][1:]) != Xs * Ys:
            return f"shape {sig['shape']} vs model ({n},{Xs},{Ys})"
        if abs(F(sig["start"]) - start) > F(1, 10**10):
            return f"start {sig['start']} vs model {start}"
        if events is not None:
            seeks = [e[3] for e in events if e[2] == "seek"]
            reads = [e[3] for e in events if e[2] == "read"]
            if seeks != [pos] or reads != [cnt]:
                return f"stream window seek{seeks} read{reads} vs model seek[{pos}] read[{cnt}]"
        if mode != "real":
            srcs = [] if r[7] == "-" else [int(t) for t in r[7].split(",")]
            exp = self._expected_from_srcs(info, srcs)
            got = self._obs_vals(sig)
            if exp.shape != got.shape or not np.array_equal(exp.astype(np.complex64), got.astype(np.complex64)):
                return "data differ from the file elements the model prescribes"
        return None

    def agree(self, case, code, model):
        if "ctor_err" in code:
            return False
        spec = case["spec"]
        info = self._file(spec)
        kind, mode, _ = self._desc(spec, info)
        rep = iter(model["replies"])
        if int(next(rep)) != code["len"]:
            return False
        for op, o in zip(case["ops"], code["ops"]):
            if "warn_race" in o:
                for _ in range({"read": 1, "adjacent": 3, "offset_at": 1, "time_at": 1, "threads": 1}.get(op[0], 0)):
                    next(rep)
                continue
            if op[0] == "read":
                ev = o.get("events") if not op[3] else None
                why = self._check_read(next(rep), o.get("err") or o.get("sig"), info, mode, ev)
                if why:
                    return False
            elif op[0] == "adjacent":
                r1, r2, r3 = next(rep), next(rep), next(rep)
                if "err" in o:
                    return False
                if self._check_read(r3, o["sig"], info, mode, None):
                    return False
                if abs(F(o["stamp2"]) - F(r2.split()[2])) > F(1, 10**10) or not o["concat_equal"]:
                    return False
                # model-level adjacency: srcs(r1) ++ srcs(r2) == srcs(r3)
                s = [x.split()[7] for x in (r1, r2, r3)]
                cat = ",".join(t for t in s[:2] if t != "-") or "-"
                if cat != s[2]:
                    return False
            elif op[0] == "offset_at":
                r = next(rep).split()
                if r[0] == "err":
                    if o.get("err") != r[1]:
                        return False
                elif o.get("k") != int(r[1]):
                    return False
            elif op[0] == "time_at":
                t = F(next(rep))
                if "err" in o or abs(F(o["t"]) - t) > F(1, 10**10) or abs(F(o["t_unit"]) - t) > abs(t) * F(1, 10**12) + F(1, 10**15):
                    return False
                if o["back"] != op[1] or o["back_rel"] != op[1]:
                    return False
            elif op[0] == "threads":
                r = next(rep)
                if "err" in o:
                    return False
                # every thread finished (pc 4) and read exactly its own window in the model of the observed schedule
                ths = r.split(";") if r else []
                want = sorted((a * (2 if mode == "real" else 1), n * (2 if mode == "real" else 1)) for a, n in op[1])
                got = []
                for t in ths:
                    pc, outs = t.split(":")
                    if pc != "4":
                        return False
                    pos = [] if outs == "-" else [int(x) for x in outs.split(",")]
                    if pos != list(range(pos[0], pos[0] + len(pos))) if pos else False:
                        return False
                    got.append(len(pos))
                if sorted(got) != sorted(n for _, n in want):
                    return False
                if not all(o["thread_same"]) or not all(o["dask_same"]):
                    return False
        return True

    # ------------------------------------------------------------------ property oracle (independent of the Lean model)
    def _lifecycle(self, events, allow_many=False):
        """fresh handle per read, used by one thread only, opened-positioned-read-closed in order"""
        by = {}
        for hid, t, e, arg in events:
            by.setdefault(hid, []).append((t, e))
        for hid, evs in by.items():
            if len({t for t, _ in evs}) != 1:
                return f"handle {hid} was used by {len({t for t, _ in evs})} threads"
            seq = [e for _, e in evs]
            if seq != ["open", "seek", "read", "close"]:
                return f"handle {hid} life-cycle {seq} (expected open, seek, read, close)"
        if not allow_many and len(by) != 1:
            return f"{len(by)} handles opened for one read"
        return None

    def spec_violation(self, case, code):
        np = self.np
        if "ctor_err" in code:
            return f"constructing the reader failed: {code['ctor_err']}"
        # (argument checks that the property does not state are observed in `rejects` for the evidence, not judged)
        spec = case["spec"]
        info = self._file(spec)
        kind, mode, lsbs = self._desc(spec, info)
        Fa = info["F"]
        flen = Fa.shape[0]
        L = flen // 2 if mode == "real" else flen
        rate = info["file_rate_hz"] / (2 if mode == "real" else 1)
        if code["len"] != L:
            return f"len(reader) = {code['len']}, file encodes {L}"
        if not X.close(F(code["rate"]), rate, rtol=F(1, 2**50)):         # (a unit conversion may cost an ulp)
            return f"sample_rate {code['rate']} Hz, file encodes {rate} Hz"
        if abs(F(code["start"])) > F(1, 10**10) or abs(F(code["stop"]) - F(L) / rate) > F(1, 10**10):
            return "start_time/stop_time do not match the file"
        a, b = info["a"], info["b"]
        if lsbs in ("0", "1"):
            mask = np.full((a, b), lsbs == "1")
        else:
            mask = np.array([c == "1" for c in lsbs.split(",")]).reshape(a, b)

        def expected(o, n):
            if mode == "real":
                z = self._hilbert(Fa[2 * o: 2 * o + 2 * n])
            else:
                z = Fa[o:o + n].astype(np.complex128)
            if mode != "intensity":
                z = np.where(mask[None], z.conj(), z)
            if kind == "guppi":
                z = z.transpose(0, 2, 1)
            if kind == "stokes":
                if lsbs == "1":
                    z = z[:, :, ::-1]
                z = z.transpose(0, 2, 1)
            return z

        def check_sig(sig, o, n, what):
            if sig["shape"][0] != n:
                return f"{what}: {sig['shape'][0]} samples, requested {n}"
            if abs(F(sig["start"]) - F(o) / rate) > F(1, 10**10):
                return f"{what}: start_time is {float(F(sig['start']))} s after the file start, time_at({o}) = {float(F(o) / rate)}"
            if not X.close(F(sig["rate"]), rate, rtol=F(1, 2**50)):
                return f"{what}: sample_rate {sig['rate']}"
            exp = expected(o, n)
            got = self._obs_vals(sig)
            if got.size != exp.size:
                return f"{what}: shape {sig['shape']} vs expected {exp.shape}"
            exp = exp.ravel()
            if mode == "real":
                tol = 2e-5 * max(1.0, float(np.abs(exp).max()) if exp.size else 1.0) * max(1.0, math.log2(2 * n + 2))
                if exp.size and float(np.abs(exp - got).max()) > tol:
                    return f"{what}: values differ from the analytic signal of file samples [{2 * o}, {2 * o + 2 * n}) by {float(np.abs(exp - got).max()):.3g}"
            elif not np.array_equal(exp.astype(np.complex64), got.astype(np.complex64)):
                bad = int(np.argmax(exp.astype(np.complex64) != got.astype(np.complex64)))
                return f"{what}: value at flat index {bad} is {got[bad]}, the file encodes {exp[bad]} (axis order / sideband / position)"
            want_dtype = "float32" if mode == "intensity" else "complex64"
            if sig["dtype"] != want_dtype:
                return f"{what}: dtype {sig['dtype']}"
            for k, v in info["meta"].items():
                if k in ("freq_align", "pol_type"):
                    if sig.get(k) != v:
                        return f"{what}: {k} = {sig.get(k)}, file encodes {v}"
                elif k in sig and abs(F(sig[k]) - v) > abs(v) * F(1, 10**12):
                    return f"{what}: {k} = {float(F(sig[k]))} Hz, file encodes {float(v)} Hz"
            return None

        for op, o in zip(case["ops"], code["ops"]):
            if "warn_race" in o:
                continue
            if op[0] == "read":
                ok_kind = all(x["k"] in ("int", "npint", "npint32", "narrow", "bool") for x in (op[1], op[2]))
                ov, nv = int(op[1]["v"]), int(op[2]["v"])
                valid = ok_kind and ov >= 0 and nv >= 0 and ov + nv <= L
                if not valid:
                    if "err" not in o:
                        return f"read({op[1]}, {op[2]}) outside [0, {L}] or with a non-index argument returned a signal"
                    continue
                if "err" in o:
                    return f"read({ov}, {nv}) within [0, {L}] raised {o['err']}"
                w = check_sig(o["sig"], ov, nv, f"read({ov}, {nv})")
                if w:
                    return w
                if op[3]:
                    if not o["sig"]["dask"]:
                        return "use_dask=True returned an eager array"
                    if [e for e in o.get("lazy_events", []) if e[2] in ("seek", "read")]:
                        return "building the Dask read touched the file"
                lc = self._lifecycle(o.get("events", []))
                if lc:
                    return f"read({ov}, {nv}): {lc}"
            elif op[0] == "adjacent":
                _, a0, n, m = op
                if "err" in o:
                    return f"adjacent reads within bounds raised {o['err']}"
                if not o["concat_equal"]:
                    return f"read({a0},{n}) ++ read({a0 + n},{m}) != read({a0},{n + m})"
                w = check_sig(o["sig"], a0, n + m, f"read({a0}, {n + m})")
                if w:
                    return w
            elif op[0] == "offset_at":
                _, how, k, num, den = op
                x = F(k) + F(num, den)
                want = math.floor(x + F(1, 2))
                if 0 <= want <= L:
                    if o.get("k") != want:
                        return f"offset_at({how}, {float(x)} samples) = {o.get('k', o.get('err'))}, nearest sample is {want}"
                elif "err" not in o or not o.get("is_eof", False):
                    return f"offset_at outside [0, {L}] did not raise OutOfBoundsError ({o})"
            elif op[0] == "time_at":
                if "err" in o:
                    return f"time_at({op[1]}) raised {o['err']}"
                if abs(F(o["t"]) - F(op[1]) / rate) > F(1, 10**10):
                    return f"time_at({op[1]}) is off by {float(F(o['t']) - F(op[1]) / rate)} s"
                if o["back"] != op[1] or o["back_rel"] != op[1]:
                    return f"offset_at(time_at({op[1]})) = {o['back']} / {o['back_rel']} (relative)"
            elif op[0] == "contains":
                want = 0 <= op[1] < L
                if "err" in o or o["in"] != want or o["in_op"] != want:
                    return f"contains(time_at({op[1]}) + {op[2]}/4 sample) = {o.get('in', o.get('err'))}, expected {want}"
            elif op[0] == "repeat":
                if "err" in o or not o["same"] or not o["same_stamp"]:
                    return f"repeated read({op[1]}, {op[2]}) interleaved with other reads returned different data ({o})"
                lc = self._lifecycle(o.get("events", []), allow_many=True)
                if lc:
                    return f"repeat: {lc}"
            elif op[0] == "joint":
                if o.get("skip"):
                    continue
                if "err" in o:
                    return f"lazy reads of two readers in one Dask graph raised {o['err']}"
                if not all(o["joint_same"]) or not o["joint_diff_same"]:
                    return (f"dask_read({op[1]}, {op[2]}) of two different readers computed in one Dask graph returned "
                            f"{o['joint_same']} (difference ok: {o['joint_diff_same']}) -- each alone equals its eager read")
            elif op[0] == "threads":
                if "err" in o:
                    return f"concurrent reads raised {o['err']}"
                if not all(o["thread_same"]):
                    return f"concurrent read {o['thread_same'].index(False)} of 16 returned different data than the same read alone"
                if not all(o["dask_same"]):
                    return "Dask (threaded scheduler) reads differ from eager reads"
                if [e for e in o.get("lazy_events", []) if e[2] in ("seek", "read")]:
                    return "building the Dask reads touched the file"
                lc = self._lifecycle(o["thread_events"], allow_many=True)
                if lc:
                    return f"concurrent reads: {lc}"
                if len({e[0] for e in o["thread_events"]}) != len(op[1]):
                    return f"{len({e[0] for e in o['thread_events']})} handles for {len(op[1])} concurrent reads"
        return None

    def nontrivial_key(self, case, code):
        return case

    def tags(self, case, code):
        s = case["spec"]
        t = [f"fmt={s['fmt']}" + (":" + s["name"] if "name" in s else "")]
        for op, o in zip(case["ops"], code.get("ops", [])):
            t.append(op[0] + (":err" if "err" in o else ""))
        return t
